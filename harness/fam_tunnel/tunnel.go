// Package fam_tunnel drives the real x/tunnel message server and end-blocker (with the real
// bandtss / tss signing path behind TSS routes) with abstract scripts (Tunnel.tla actions) and
// records, after every step, the projection of the real stores onto the variables of Tunnel.tla.
// Verdicts are TLC's (Tunnel_Trace.tla), not this package's.
package fam_tunnel

import (
	"fmt"
	"hash/fnv"
	"math/rand"
	"sort"
	"strconv"
	"strings"
	"time"

	sdkmath "cosmossdk.io/math"

	sdk "github.com/cosmos/cosmos-sdk/types"
	"github.com/cosmos/cosmos-sdk/types/query"
	authtypes "github.com/cosmos/cosmos-sdk/x/auth/types"
	banktypes "github.com/cosmos/cosmos-sdk/x/bank/types"

	bandtsstypes "github.com/bandprotocol/chain/v3/x/bandtss/types"
	feedstypes "github.com/bandprotocol/chain/v3/x/feeds/types"
	tsstypes "github.com/bandprotocol/chain/v3/x/tss/types"
	tunnelkeeper "github.com/bandprotocol/chain/v3/x/tunnel/keeper"
	tunneltypes "github.com/bandprotocol/chain/v3/x/tunnel/types"

	tf "vdrive/tracefmt"
	"vdrive/tsskit"
	"vdrive/world"
)

const (
	denomA    = "uaaa"  // "ua" in traces
	denomB    = "uband" // "ub" in traces: the fee denom
	denomBad  = "uzzz"  // a denom the module does not accept
	longPad   = "_xxxxxxxxxxxxxxxxxxxxxxxxxxxxxxx" // 31 chars: "s1"+pad has 33 chars, refused by the TSS encoder
	nDE       = 130 // nonce pairs per member at the start of every trace
	threshold = 2
	sentinel  = -7 // logged instead of a value that cannot be read / does not fit
)

var Sigs = []string{"s1", "s2"}
var Accts = []string{"p1", "p2", "p3"}

type Stats struct {
	Traces, Events, Interesting int
	Distinct                    map[string]bool
	Packets, Triggers           int            // packets produced at end-block / by trigger
	FailByMode                  map[string]int // produce_packet_fail events per cause actually driven
	TriggerRejByMode            map[string]int
	Deactivations, Withdrawals  int
	WithdrawDeactivations       int // accepted withdrawals that took an active tunnel below the minimum
	Activations                 int
	RejectedMsgs                int
}

type Driver struct {
	W    *tf.Writer
	St   Stats
	Mode string // "" | "c17": only changes the random generator's bias

	w      *world.World
	fb     *world.Run // family base: group installed, members stocked with nonces
	g      *tsskit.Group
	dePool [][]tsstypes.DE // fresh public nonce pairs per member for re-stocking
	users  []world.Account
}

func NewDriver(w *tf.Writer) *Driver {
	d := &Driver{W: w, St: Stats{Distinct: map[string]bool{}, FailByMode: map[string]int{}, TriggerRejByMode: map[string]int{}}}
	d.setup()
	return d
}

func (d *Driver) Close() { d.w.Close() }

func must(err error) {
	if err != nil {
		panic(err)
	}
}

// setup builds the world once: a 2-of-3 trusted-dealer group installed as the current bandtss group,
// every member stocked with nonce pairs through the real MsgSubmitDEs handler (environment).
func (d *Driver) setup() {
	cfg := world.DefaultConfig()
	cfg.ExtraDenoms = []string{denomA}
	d.w = world.New(cfg)
	w := d.w
	fb := w.Branch()
	fb.BeginBlock(99)
	app := w.App

	tp := app.TSSKeeper.GetParams(fb.Ctx)
	tp.SigningPeriod = 100000 // no signing expires inside a trace: the route state is what SetRoute says
	tp.MaxDESize = 1000
	must(app.TSSKeeper.SetParams(fb.Ctx, tp))

	d.g = tsskit.NewGroup("tunnel-g", threshold, w.Accts[1:4])
	d.g.Install(fb.Ctx, app, bandtsstypes.ModuleName)
	d.g.InstallAsCurrent(fb.Ctx, app)
	for mi, m := range d.g.Members {
		var pubs []tsstypes.DE
		for i := 0; i < nDE; i++ {
			pubs = append(pubs, tsskit.NewDE(fmt.Sprintf("tun-%d-%d", mi, i)).Pub())
		}
		if o := fb.Deliver(&tsstypes.MsgSubmitDEs{DEs: pubs, Sender: m.Acc.Addr.String()}); !o.OK() {
			panic(fmt.Sprint("setup: submit DEs: ", o.Err, o.Panic))
		}
		var pool []tsstypes.DE
		for i := 0; i < nDE; i++ {
			pool = append(pool, tsskit.NewDE(fmt.Sprintf("tun-pool-%d-%d", mi, i)).Pub())
		}
		d.dePool = append(d.dePool, pool)
	}
	for _, n := range Accts {
		a := world.NewAccount("tunnel-" + n)
		a.Name = n
		w.RegisterName(a.Addr.String(), n)
		d.users = append(d.users, a)
	}
	if o := fb.EndBlock(); !o.OK() {
		panic(fmt.Sprint("setup: end block: ", o.Err, o.Panic))
	}
	fb.BeginBlock(1) // h = 3, now = 100
	d.fb = fb
}

// session is the per-trace state of the driver.
type session struct {
	d           *Driver
	w           *world.World
	r           *world.Run
	mode        string
	drained     map[int]bool // members whose nonces were reset
	inactive    map[int]bool
	poolOff     map[int]int
	interesting bool
	c           tf.M
}

func (s *session) now() int { return int(s.r.Time.Unix() - s.w.Cfg.GenesisTime.Unix()) }

func small(x sdkmath.Int) int {
	if !x.IsInt64() || x.Int64() > 1<<30 || x.Int64() < -(1<<30) {
		return sentinel
	}
	return int(x.Int64())
}

func (s *session) coinsM(c sdk.Coins) tf.M {
	m := tf.M{"ua": small(c.AmountOf(denomA)), "ub": small(c.AmountOf(denomB))}
	for _, x := range c {
		if x.Denom != denomA && x.Denom != denomB && !x.Amount.IsZero() {
			m["ua"] = sentinel // a denom that must never be there
		}
	}
	return m
}

func shortSig(id string) string { return strings.TrimSuffix(id, longPad) }

func (s *session) user(name string) world.Account {
	for _, u := range s.d.users {
		if u.Name == name {
			return u
		}
	}
	return s.d.users[0]
}

// safe runs f and reports whether it panicked (projection code must never crash the driver).
func safe(f func()) (ok bool) {
	defer func() {
		if recover() != nil {
			ok = false
		}
	}()
	f()
	return true
}

// project reads the real stores.
func (s *session) project() tf.M {
	ctx := s.r.Ctx
	app := s.w.App
	k := app.TunnelKeeper
	bank := app.BankKeeper
	qs := tunnelkeeper.NewQueryServer(k)
	count := k.GetTunnelCount(ctx)
	tuns := []tf.M{}
	for id := uint64(1); id <= count; id++ {
		t, err := k.GetTunnel(ctx, id)
		if err != nil {
			tuns = append(tuns, tf.M{"present": false, "kind": "none", "creator": "none", "interval": 0, "sigs": []string{},
				"soft": tf.M{"s1": 0, "s2": 0}, "hard": tf.M{"s1": 0, "s2": 0}, "active": false, "seq": sentinel, "lastInt": sentinel,
				"latest": tf.M{"s1": -1, "s2": -1}, "pk": []tf.M{}, "feeBal": sentinel, "totDep": tf.M{"ua": 0, "ub": 0},
				"dep": s.noDeps()})
			continue
		}
		kind := "other"
		long := false
		sigs := []string{}
		soft, hard := tf.M{"s1": 0, "s2": 0}, tf.M{"s1": 0, "s2": 0}
		for _, sd := range t.SignalDeviations {
			if len(sd.SignalID) > 32 {
				long = true
			}
			n := shortSig(sd.SignalID)
			sigs = append(sigs, n)
			soft[n] = int(sd.SoftDeviationBPS)
			hard[n] = int(sd.HardDeviationBPS)
		}
		sort.Strings(sigs)
		safe(func() {
			rt, err := t.GetRouteValue()
			if err != nil {
				return
			}
			switch rt.(type) {
			case *tunneltypes.TSSRoute:
				kind = "tss"
				if long {
					kind = "tssLong"
				}
			case *tunneltypes.IBCRoute:
				kind = "ibc"
			}
		})
		latest := tf.M{"s1": -1, "s2": -1}
		lastInt := sentinel
		if lp, err := k.GetLatestPrices(ctx, id); err == nil {
			for _, p := range lp.Prices {
				if p.Price > 1<<30 {
					latest[shortSig(p.SignalID)] = sentinel
				} else {
					latest[shortSig(p.SignalID)] = int(p.Price)
				}
			}
			if lp.LastInterval == 0 {
				lastInt = -1
			} else {
				lastInt = int(lp.LastInterval - s.w.Cfg.GenesisTime.Unix())
			}
		}
		pk := []tf.M{}
		safe(func() {
			res, err := qs.Packets(ctx, &tunneltypes.QueryPacketsRequest{TunnelId: id, Pagination: &query.PageRequest{Limit: 10000}})
			if err != nil {
				pk = append(pk, tf.M{"seq": sentinel, "sigs": []string{}})
				return
			}
			for _, p := range res.Packets {
				ps := []string{}
				for _, pr := range p.Prices {
					ps = append(ps, shortSig(pr.SignalID))
				}
				sort.Strings(ps)
				pk = append(pk, tf.M{"seq": int(p.Sequence), "sigs": ps})
			}
		})
		feeBal := sentinel
		if fp, err := sdk.AccAddressFromBech32(t.FeePayer); err == nil {
			feeBal = small(bank.GetBalance(ctx, fp, denomB).Amount)
		}
		deps := s.noDeps()
		for _, dp := range k.GetDeposits(ctx, id) {
			deps[s.w.Name(dp.Depositor)] = s.coinsM(dp.Amount)
		}
		tuns = append(tuns, tf.M{"present": true, "kind": kind, "creator": s.w.Name(t.Creator), "interval": int(t.Interval),
			"sigs": sigs, "soft": soft, "hard": hard, "active": t.IsActive, "seq": int(t.Sequence), "lastInt": lastInt,
			"latest": latest, "pk": pk, "feeBal": feeBal, "totDep": s.coinsM(t.TotalDeposit), "dep": deps})
	}
	idx := []int{}
	for _, id := range k.GetActiveTunnelIDs(ctx) {
		idx = append(idx, int(id))
	}
	feed := tf.M{}
	for _, sg := range Sigs {
		feed[sg] = -1
	}
	for _, p := range app.FeedsKeeper.GetAllPrices(ctx) {
		if len(p.SignalID) <= 32 {
			feed[p.SignalID] = int(p.Price)
		}
	}
	bal := tf.M{}
	for _, u := range s.d.users {
		bal[u.Name] = s.coinsM(bank.GetAllBalances(ctx, u.Addr))
	}
	p := k.GetParams(ctx)
	route := 0
	safe(func() {
		bp := app.BandtssKeeper.GetParams(ctx)
		route = small(bp.FeePerSigner.AmountOf(denomB)) * threshold
	})
	return tf.M{
		"now": s.now(), "count": int(count), "mode": s.mode, "feed": feed, "tun": tuns, "idx": idx,
		"modBal":    s.coinsM(bank.GetAllBalances(ctx, authtypes.NewModuleAddress(tunneltypes.ModuleName))),
		"tssBal":    small(bank.GetBalance(ctx, authtypes.NewModuleAddress(bandtsstypes.ModuleName), denomB).Amount),
		"totalFees": small(k.GetTotalFees(ctx).TotalBasePacketFee.AmountOf(denomB)),
		"bal":       bal,
		"minDep":    s.coinsM(p.MinDeposit), "base": small(p.BasePacketFee.AmountOf(denomB)), "route": route,
	}
}

func (s *session) noDeps() tf.M {
	m := tf.M{}
	for _, n := range Accts {
		m[n] = tf.M{"ua": 0, "ub": 0}
	}
	return m
}

func outc(o world.Outcome) tf.M {
	m := tf.M{"ok": o.OK()}
	if o.Panic != nil {
		m["panic"] = fmt.Sprint(o.Panic)
	}
	return m
}

func coins(m tf.M, bad bool) sdk.Coins {
	c := sdk.NewCoins()
	if a := tf.Int(m, "ua", 0); a > 0 {
		c = c.Add(sdk.NewInt64Coin(denomA, int64(a)))
	}
	if b := tf.Int(m, "ub", 0); b > 0 {
		c = c.Add(sdk.NewInt64Coin(denomB, int64(b)))
	}
	if bad {
		c = c.Add(sdk.NewInt64Coin(denomBad, 1))
	}
	return c
}

// bind resolves a role against the real state: {"role":"acct","k":n} | {"role":"creator","t":id} |
// {"role":"other","t":id,"k":n} (n-th account that is not the creator of t) | {"role":"holder","t":id,"k":n}.
func (s *session) bind(role tf.M) string {
	k := tf.Int(role, "k", 1)
	switch tf.Str(role, "role", "acct") {
	case "holder":
		// k-th account with a deposit record in tunnel t (any account if there is none)
		deps := s.w.App.TunnelKeeper.GetDeposits(s.r.Ctx, uint64(tf.Int(role, "t", 1)))
		if len(deps) > 0 {
			return s.w.Name(deps[(k-1)%len(deps)].Depositor)
		}
	case "creator", "other":
		creator := ""
		if t, err := s.w.App.TunnelKeeper.GetTunnel(s.r.Ctx, uint64(tf.Int(role, "t", 1))); err == nil {
			creator = s.w.Name(t.Creator)
		}
		if tf.Str(role, "role", "") == "creator" {
			if creator == "" {
				return Accts[0]
			}
			return creator
		}
		var others []string
		for _, n := range Accts {
			if n != creator {
				others = append(others, n)
			}
		}
		return others[(k-1)%len(others)]
	}
	return Accts[(k-1+len(Accts))%len(Accts)]
}

func (s *session) sigName(kind, sg string) string {
	if kind == "tssLong" {
		return sg + longPad
	}
	return sg
}

func (s *session) deviations(kind string, step tf.M) ([]tunneltypes.SignalDeviation, []string, tf.M, tf.M) {
	var sigs []string
	if l, ok := step["sigs"].([]interface{}); ok {
		for _, x := range l {
			sigs = append(sigs, fmt.Sprint(x))
		}
	}
	sort.Strings(sigs)
	soft, hard := tf.M{"s1": 0, "s2": 0}, tf.M{"s1": 0, "s2": 0}
	var devs []tunneltypes.SignalDeviation
	for _, sg := range sigs {
		so, ha := tf.Int(tf.Sub(step, "soft"), sg, 300), tf.Int(tf.Sub(step, "hard"), sg, 3000)
		soft[sg], hard[sg] = so, ha
		devs = append(devs, tunneltypes.NewSignalDeviation(s.sigName(kind, sg), uint64(so), uint64(ha)))
	}
	if sigs == nil {
		sigs = []string{}
	}
	return devs, sigs, soft, hard
}

// kindOf returns the driver's kind of an existing tunnel ("" if it does not exist).
func (s *session) kindOf(id uint64) string {
	t, err := s.w.App.TunnelKeeper.GetTunnel(s.r.Ctx, id)
	if err != nil {
		return ""
	}
	for _, sd := range t.SignalDeviations {
		if len(sd.SignalID) > 32 {
			return "tssLong"
		}
	}
	if strings.Contains(t.Route.TypeUrl, "IBC") {
		return "ibc"
	}
	return "tss"
}

// setRoute realises a state of the TSS route on the real bandtss / tss stores (environment).
func (s *session) setRoute(m string) {
	app := s.w.App
	ctx := s.r.Ctx
	g := s.d.g
	// back to the healthy state first
	tunnelkeeper.VerifRouteHook = nil
	app.BandtssKeeper.SetCurrentGroup(ctx, bandtsstypes.NewCurrentGroup(g.ID, s.w.Cfg.GenesisTime))
	tp := app.TSSKeeper.GetParams(ctx)
	if tp.MaxSigningAttempt != 5 {
		tp.MaxSigningAttempt = 5
		must(app.TSSKeeper.SetParams(ctx, tp))
	}
	for i := range g.Members {
		mem := g.Members[i]
		if s.inactive[i] {
			app.BandtssKeeper.SetMember(ctx, bandtsstypes.NewMember(mem.Acc.Addr, g.ID, true, s.w.Cfg.GenesisTime))
			must(app.TSSKeeper.ActivateMember(ctx, g.ID, mem.Acc.Addr))
			delete(s.inactive, i)
		}
		if s.drained[i] {
			// fresh nonce pairs through the real handler
			pool := s.d.dePool[i]
			n := 65
			off := s.poolOff[i]
			if off+n > len(pool) {
				off = 0
			}
			if o := s.r.Deliver(&tsstypes.MsgSubmitDEs{DEs: pool[off : off+n], Sender: mem.Acc.Addr.String()}); !o.OK() {
				panic(fmt.Sprint("re-stock DEs: ", o.Err, o.Panic))
			}
			s.poolOff[i] = off + n
			delete(s.drained, i)
		}
	}
	switch m {
	case "ok":
	case "noGroup":
		app.BandtssKeeper.SetCurrentGroup(ctx, bandtsstypes.NewCurrentGroup(0, s.w.Cfg.GenesisTime))
	case "noNonces":
		// two of three members withdraw all their nonces (real MsgResetDE): fewer available members than the threshold
		for i := 0; i < 2; i++ {
			if o := s.r.Deliver(&tsstypes.MsgResetDE{Sender: g.Members[i].Acc.Addr.String()}); !o.OK() {
				panic(fmt.Sprint("reset DE: ", o.Err, o.Panic))
			}
			s.drained[i] = true
		}
	case "inactive":
		for i := 1; i < 3; i++ {
			must(app.BandtssKeeper.DeactivateMember(ctx, g.Members[i].Acc.Addr, g.ID))
			s.inactive[i] = true
		}
	case "maxAtt0":
		// a value Params.Validate accepts: every new signing round fails after the fee transfer and after the
		// signing record was written in the cache context
		tp.MaxSigningAttempt = 0
		must(app.TSSKeeper.SetParams(ctx, tp))
	case "panic":
		// fault injection (x/tunnel/keeper/verif_hook.go): the route of every tunnel panics when a packet is handed to it
		tunnelkeeper.VerifRouteHook = func(sdk.Context, uint64) { panic("verif: injected route panic") }
	default:
		panic("unknown route mode " + m)
	}
	s.mode = m
}

func (s *session) ids(o world.Outcome, typ string) []int {
	out := []int{}
	for _, v := range o.Attrs(typ, tunneltypes.AttributeKeyTunnelID) {
		n, err := strconv.Atoi(v)
		if err != nil {
			n = sentinel
		}
		out = append(out, n)
	}
	return out
}

// RunScript plays one script and records its trace.
func (d *Driver) RunScript(sc tf.Script) {
	w := d.w
	ctx, _ := d.fb.Ctx.CacheContext()
	r := &world.Run{W: w, Ctx: ctx, Height: d.fb.Height, Time: d.fb.Time, InBlock: true}
	// x/tunnel reads block times in whole seconds only: block times get sub-second parts
	hh := fnv.New64a()
	hh.Write([]byte(sc.Hash()))
	r.Fracs = world.FracsFor(hh.Sum64())
	tunnelkeeper.VerifRouteHook = nil
	s := &session{d: d, w: w, r: r, mode: "ok", drained: map[int]bool{}, inactive: map[int]bool{}, poolOff: map[int]int{}, c: sc.C}
	app := w.App

	// environment: parameters of this trace, account balances
	minA, minB := tf.Int(sc.C, "minA", 1), tf.Int(sc.C, "minB", 2)
	base, fps := tf.Int(sc.C, "base", 3), tf.Int(sc.C, "fps", 2)
	initBal := tf.Int(sc.C, "initBal", 5)
	p := app.TunnelKeeper.GetParams(r.Ctx)
	p.MinDeposit = sdk.NewCoins(sdk.NewInt64Coin(denomA, int64(minA)), sdk.NewInt64Coin(denomB, int64(minB)))
	p.BasePacketFee = sdk.NewCoins()
	if base > 0 {
		p.BasePacketFee = sdk.NewCoins(sdk.NewInt64Coin(denomB, int64(base)))
	}
	p.MinInterval, p.MaxInterval = 1, 10
	p.MinDeviationBPS, p.MaxDeviationBPS = 50, 3000
	must(app.TunnelKeeper.SetParams(r.Ctx, p))
	bp := app.BandtssKeeper.GetParams(r.Ctx)
	bp.FeePerSigner = sdk.NewCoins()
	if fps > 0 {
		bp.FeePerSigner = sdk.NewCoins(sdk.NewInt64Coin(denomB, int64(fps)))
	}
	must(app.BandtssKeeper.SetParams(r.Ctx, bp))
	for _, u := range d.users {
		must(app.BankKeeper.SendCoins(r.Ctx, w.Accts[0].Addr, u.Addr,
			sdk.NewCoins(sdk.NewInt64Coin(denomA, int64(initBal)), sdk.NewInt64Coin(denomB, int64(initBal)))))
	}

	d.W.Reset(sc.C, s.project(), sc.Steps)
	d.St.Traces++
	d.St.Events++
	for _, step := range sc.Steps {
		if s.apply(step) {
			d.St.Events++
		}
	}
	if s.interesting {
		h := sc.Hash()
		if !d.St.Distinct[h] {
			d.St.Distinct[h] = true
			d.St.Interesting++
		}
	}
}

// apply plays one step; false = the step made no sense on the real state and was skipped (not logged).
func (s *session) apply(step tf.M) bool {
	app := s.w.App
	k := app.TunnelKeeper
	W := s.d.W
	e := tf.Str(step, "e", "")
	tid := uint64(tf.Int(step, "t", 1))
	switch e {
	case "CreateTunnel":
		who := s.bind(tf.Sub(step, "who"))
		kind := tf.Str(step, "kind", "tss")
		iv := tf.Int(step, "iv", 2)
		devs, sigs, soft, hard := s.deviations(kind, step)
		dep := tf.Sub(step, "dep")
		var msg *tunneltypes.MsgCreateTunnel
		var err error
		if kind == "ibc" {
			msg, err = tunneltypes.NewMsgCreateIBCTunnel(devs, uint64(iv), coins(dep, false), s.user(who).Addr.String())
		} else {
			msg, err = tunneltypes.NewMsgCreateTSSTunnel(devs, uint64(iv), "eth", "0xverif",
				feedstypes.ENCODER_FIXED_POINT_ABI, coins(dep, false), s.user(who).Addr.String())
		}
		must(err)
		o := s.r.Deliver(msg)
		if o.OK() {
			if t, err := k.GetTunnel(s.r.Ctx, k.GetTunnelCount(s.r.Ctx)); err == nil {
				s.w.RegisterName(t.FeePayer, fmt.Sprintf("fp%d", t.ID))
			}
		} else {
			s.d.St.RejectedMsgs++
		}
		W.Step(e, tf.M{"a": who, "kind": kind, "iv": iv, "sigs": sigs, "soft": soft, "hard": hard,
			"dep": tf.M{"ua": tf.Int(dep, "ua", 0), "ub": tf.Int(dep, "ub", 0)}}, outc(o), s.project())
	case "UpdateSignals":
		who := s.bind(tf.Sub(step, "who"))
		kind := s.kindOf(tid)
		iv := tf.Int(step, "iv", 2)
		devs, sigs, soft, hard := s.deviations(kind, step)
		o := s.r.Deliver(tunneltypes.NewMsgUpdateSignalsAndInterval(tid, devs, uint64(iv), s.user(who).Addr.String()))
		if !o.OK() {
			s.d.St.RejectedMsgs++
		}
		W.Step(e, tf.M{"a": who, "t": int(tid), "iv": iv, "sigs": sigs, "soft": soft, "hard": hard}, outc(o), s.project())
	case "UpdateRoute":
		who := s.bind(tf.Sub(step, "who"))
		var msg *tunneltypes.MsgUpdateRoute
		var err error
		if s.kindOf(tid) == "ibc" {
			msg, err = tunneltypes.NewMsgUpdateIBCRoute(tid, "channel-0", s.user(who).Addr.String())
		} else {
			rt := tunneltypes.NewTSSRoute("bsc", "0xother", feedstypes.ENCODER_FIXED_POINT_ABI)
			msg, err = tunneltypes.NewMsgUpdateRoute(tid, &rt, s.user(who).Addr.String())
		}
		must(err)
		o := s.r.Deliver(msg)
		W.Step(e, tf.M{"a": who, "t": int(tid)}, outc(o), s.project())
	case "Activate", "Deactivate", "Trigger":
		who := s.bind(tf.Sub(step, "who"))
		var msg sdk.Msg
		switch e {
		case "Activate":
			msg = tunneltypes.NewMsgActivate(tid, s.user(who).Addr.String())
		case "Deactivate":
			msg = tunneltypes.NewMsgDeactivate(tid, s.user(who).Addr.String())
		default:
			msg = tunneltypes.NewMsgTriggerTunnel(tid, s.user(who).Addr.String())
		}
		o := s.r.Deliver(msg)
		if !o.OK() {
			s.d.St.RejectedMsgs++
		}
		if e == "Activate" && o.OK() {
			s.d.St.Activations++
		}
		if e == "Trigger" {
			if o.OK() {
				s.d.St.Triggers++
				s.interesting = true
			} else {
				s.d.St.TriggerRejByMode[s.mode+"/"+s.kindOf(tid)]++
			}
		}
		W.Step(e, tf.M{"a": who, "t": int(tid)}, outc(o), s.project())
	case "Deposit", "Withdraw":
		who := s.bind(tf.Sub(step, "who"))
		amt := tf.Sub(step, "amt")
		bad := tf.Bool(step, "bad", false)
		var msg sdk.Msg
		if e == "Deposit" {
			msg = tunneltypes.NewMsgDepositToTunnel(tid, coins(amt, bad), s.user(who).Addr.String())
		} else {
			msg = tunneltypes.NewMsgWithdrawFromTunnel(tid, coins(amt, bad), s.user(who).Addr.String())
		}
		wasActive := false
		if t, err := k.GetTunnel(s.r.Ctx, tid); err == nil {
			wasActive = t.IsActive
		}
		o := s.r.Deliver(msg)
		if !o.OK() {
			s.d.St.RejectedMsgs++
		} else if e == "Withdraw" {
			s.d.St.Withdrawals++
			s.interesting = true
			if t, err := k.GetTunnel(s.r.Ctx, tid); err == nil && wasActive && !t.IsActive {
				s.d.St.WithdrawDeactivations++
			}
		}
		W.Step(e, tf.M{"a": who, "t": int(tid), "amt": tf.M{"ua": tf.Int(amt, "ua", 0), "ub": tf.Int(amt, "ub", 0)}, "bad": bad},
			outc(o), s.project())
	case "SetFeed":
		sg := tf.Str(step, "s", "s1")
		pr := tf.Int(step, "p", 100)
		st := tf.Str(step, "st", "avail")
		fk := app.FeedsKeeper
		if pr < 0 {
			// a signal that is not in the price store: delete everything, restore the others
			keep := fk.GetAllPrices(s.r.Ctx)
			fk.DeleteAllPrices(s.r.Ctx)
			for _, x := range keep {
				if shortSig(x.SignalID) != sg {
					fk.SetPrice(s.r.Ctx, x)
				}
			}
			st = "absent"
		} else {
			status := feedstypes.PRICE_STATUS_AVAILABLE
			switch st {
			case "notReady":
				status = feedstypes.PRICE_STATUS_NOT_READY
			case "unknown":
				status = feedstypes.PRICE_STATUS_UNKNOWN_SIGNAL_ID
			}
			fk.SetPrice(s.r.Ctx, feedstypes.NewPrice(status, sg, uint64(pr), s.r.Time.Unix()))
			fk.SetPrice(s.r.Ctx, feedstypes.NewPrice(status, sg+longPad, uint64(pr), s.r.Time.Unix()))
		}
		W.Step(e, tf.M{"s": sg, "p": pr, "st": st}, tf.M{"ok": true}, s.project())
	case "SetRoute":
		s.setRoute(tf.Str(step, "m", "ok"))
		W.Step(e, tf.M{"m": s.mode}, tf.M{"ok": true}, s.project())
	case "SetMinDep":
		// environment: governance changes params.min_deposit (real MsgUpdateParams); a denom with amount 0 is dropped
		md := tf.Sub(step, "md")
		p := k.GetParams(s.r.Ctx)
		p.MinDeposit = sdk.NewCoins()
		if n := tf.Int(md, "ua", 0); n > 0 {
			p.MinDeposit = p.MinDeposit.Add(sdk.NewInt64Coin(denomA, int64(n)))
		}
		if n := tf.Int(md, "ub", 0); n > 0 {
			p.MinDeposit = p.MinDeposit.Add(sdk.NewInt64Coin(denomB, int64(n)))
		}
		if p.MinDeposit.IsZero() {
			return false
		}
		o := s.r.Deliver(&tunneltypes.MsgUpdateParams{Authority: k.GetAuthority(), Params: p})
		if !o.OK() {
			panic(fmt.Sprint("SetMinDep failed: ", o.Err, o.Panic))
		}
		W.Step(e, tf.M{"md": s.coinsM(p.MinDeposit)}, tf.M{"ok": true}, s.project())
	case "Fund":
		t, err := k.GetTunnel(s.r.Ctx, tid)
		if err != nil {
			return false
		}
		x := tf.Int(step, "x", 7)
		o := s.r.Deliver(banktypes.NewMsgSend(s.w.Accts[0].Addr, sdk.MustAccAddressFromBech32(t.FeePayer),
			sdk.NewCoins(sdk.NewInt64Coin(denomB, int64(x)))))
		if !o.OK() {
			panic(fmt.Sprint("fund failed: ", o.Err, o.Panic))
		}
		W.Step(e, tf.M{"t": int(tid), "x": x}, tf.M{"ok": true}, s.project())
	case "EndBlock":
		dt := tf.Int(step, "dt", 1)
		kinds := map[int]string{}
		for id := uint64(1); id <= k.GetTunnelCount(s.r.Ctx); id++ {
			kinds[int(id)] = s.kindOf(id)
		}
		o := s.r.EndBlock()
		succ := s.ids(o, tunneltypes.EventTypeProducePacketSuccess)
		fail := s.ids(o, tunneltypes.EventTypeProducePacketFail)
		deact := s.ids(o, tunneltypes.EventTypeDeactivateTunnel)
		s.d.St.Packets += len(succ)
		s.d.St.Deactivations += len(deact)
		for _, id := range fail {
			cause := s.mode
			if kinds[id] != "tss" {
				cause = kinds[id]
			}
			s.d.St.FailByMode[cause]++
		}
		if len(succ)+len(fail)+len(deact) > 0 {
			s.interesting = true
		}
		ob := s.r.BeginBlock(int64(dt))
		res := tf.M{"ok": o.OK() && ob.OK(), "succ": succ, "fail": fail, "deact": deact}
		if o.Panic != nil || ob.Panic != nil {
			res["panic"] = fmt.Sprint(o.Panic, ob.Panic)
		}
		W.Step(e, tf.M{"dt": dt}, res, s.project())
	default:
		panic("unknown step " + fmt.Sprint(step))
	}
	return true
}

// ---------------------------------------------------------------------------------------------
// random scripts

var devPairs = [][2]int{{300, 3000}, {3000, 300}, {50, 300}, {300, 300}, {1000, 3000}, {50, 3000}, {300, 1000}, {3000, 3000}}
var priceVals = []int{0, 100, 101, 103, 110, 130, 200}

func pick(rng *rand.Rand, xs []int) int { return xs[rng.Intn(len(xs))] }

func randWho(rng *rand.Rand, t int, pCreator int) tf.M {
	if rng.Intn(100) < pCreator {
		return tf.M{"role": "creator", "t": t}
	}
	return tf.M{"role": "other", "t": t, "k": 1 + rng.Intn(2)}
}

func randCreate(rng *rand.Rand, kinds []string, withDep bool) tf.M {
	sigs := [][]string{{"s1", "s2"}, {"s1"}, {"s2"}, {"s1", "s2"}}[rng.Intn(4)]
	soft, hard := tf.M{}, tf.M{}
	for _, sg := range sigs {
		p := devPairs[rng.Intn(len(devPairs))]
		soft[sg], hard[sg] = p[0], p[1]
	}
	iv := pick(rng, []int{2, 3, 2, 3, 1, 4})
	switch rng.Intn(25) {
	case 0:
		iv = pick(rng, []int{0, 11})
	case 1:
		soft[sigs[0]] = pick(rng, []int{10, 4000})
	case 2:
		hard[sigs[0]] = pick(rng, []int{49, 3001})
	case 3:
		sigs = []string{}
	}
	dep := tf.M{"ua": 0, "ub": 0}
	if withDep {
		dep = tf.M{"ua": pick(rng, []int{0, 1, 1, 2}), "ub": pick(rng, []int{0, 2, 2, 3, 6})}
	}
	anySigs := make([]interface{}, len(sigs))
	for i, x := range sigs {
		anySigs[i] = x
	}
	return tf.M{"e": "CreateTunnel", "who": tf.M{"role": "acct", "k": 1 + rng.Intn(3)}, "kind": kinds[rng.Intn(len(kinds))],
		"iv": iv, "sigs": anySigs, "soft": soft, "hard": hard, "dep": dep}
}

// RandomScript biases towards the packet rule (C08): tunnels are created, funded and activated early, then
// prices move around the thresholds, the route changes state, blocks end with different time steps.
func RandomScript(rng *rand.Rand) tf.Script {
	c := tf.M{"minA": 1, "minB": 2, "base": pick(rng, []int{3, 3, 3, 0, 1}), "fps": pick(rng, []int{2, 2, 1, 0}), "initBal": 6}
	var steps []tf.M
	ntun := 1 + rng.Intn(3)
	kinds := []string{"tss", "tss", "tss", "tss", "ibc", "tssLong"}
	steps = append(steps, tf.M{"e": "SetFeed", "s": "s1", "p": 100, "st": "avail"})
	if rng.Intn(4) != 0 {
		steps = append(steps, tf.M{"e": "SetFeed", "s": "s2", "p": pick(rng, []int{100, 200, 0}), "st": "avail"})
	}
	for t := 1; t <= ntun; t++ {
		cr := randCreate(rng, kinds, false)
		cr["dep"] = tf.M{"ua": 1, "ub": 2}
		steps = append(steps, cr)
		steps = append(steps, tf.M{"e": "Fund", "t": t, "x": pick(rng, []int{7, 14, 21, 30, 6, 3})})
		steps = append(steps, tf.M{"e": "Activate", "t": t, "who": tf.M{"role": "creator", "t": t}})
	}
	modes := []string{"ok", "ok", "ok", "noGroup", "noNonces", "inactive", "maxAtt0", "panic"}
	n := 14 + rng.Intn(22)
	for i := 0; i < n; i++ {
		t := 1 + rng.Intn(ntun)
		x := rng.Intn(100)
		switch {
		case x < 30:
			sg := Sigs[rng.Intn(2)]
			p := pick(rng, priceVals)
			st := "avail"
			if y := rng.Intn(12); y == 0 {
				p = -1
			} else if y == 1 {
				p, st = 0, "notReady"
			}
			steps = append(steps, tf.M{"e": "SetFeed", "s": sg, "p": p, "st": st})
		case x < 40:
			steps = append(steps, tf.M{"e": "SetRoute", "m": modes[rng.Intn(len(modes))]})
		case x < 47:
			steps = append(steps, tf.M{"e": "Fund", "t": t, "x": pick(rng, []int{1, 4, 7, 14})})
		case x < 55:
			steps = append(steps, tf.M{"e": "Trigger", "t": t, "who": randWho(rng, t, 85)})
		case x < 59:
			up := randCreate(rng, kinds, false)
			up["e"] = "UpdateSignals"
			up["t"] = t
			up["who"] = randWho(rng, t, 85)
			steps = append(steps, up)
		case x < 62:
			steps = append(steps, tf.M{"e": []string{"Deactivate", "Activate"}[rng.Intn(2)], "t": t, "who": randWho(rng, t, 90)})
		case x < 64:
			steps = append(steps, tf.M{"e": "UpdateRoute", "t": t, "who": randWho(rng, t, 80)})
		case x < 67:
			steps = append(steps, tf.M{"e": "Withdraw", "t": t, "who": randWho(rng, t, 90), "amt": tf.M{"ua": pick(rng, []int{0, 1}), "ub": pick(rng, []int{0, 1, 2})}, "bad": false})
		default:
			steps = append(steps, tf.M{"e": "EndBlock", "dt": pick(rng, []int{1, 1, 1, 2, 3, 0})})
		}
	}
	steps = append(steps, tf.M{"e": "SetRoute", "m": "ok"}, tf.M{"e": "EndBlock", "dt": 1}, tf.M{"e": "EndBlock", "dt": 2})
	return tf.Script{Fam: "Tunnel", C: c, Steps: steps}
}

// RandomScriptC17 biases towards the deposit ledger and the activation gate.
func RandomScriptC17(rng *rand.Rand) tf.Script {
	c := tf.M{"minA": pick(rng, []int{1, 1, 2}), "minB": pick(rng, []int{2, 2, 1, 3}), "base": 3, "fps": 2, "initBal": pick(rng, []int{5, 6, 8})}
	var steps []tf.M
	steps = append(steps, tf.M{"e": "SetFeed", "s": "s1", "p": 100, "st": "avail"})
	kinds := []string{"tss", "tss", "ibc"}
	ntun := 0
	n := 18 + rng.Intn(22)
	amts := func() tf.M {
		return tf.M{"ua": pick(rng, []int{0, 1, 1, 1, 2, 3, 9}), "ub": pick(rng, []int{0, 1, 2, 2, 2, 3, 9})}
	}
	for i := 0; i < n; i++ {
		x := rng.Intn(100)
		t := 1
		if ntun > 0 {
			t = 1 + rng.Intn(ntun)
		}
		if rng.Intn(20) == 0 {
			t = ntun + 1
		}
		switch {
		case (x < 12 || ntun == 0) && ntun < 3:
			steps = append(steps, randCreate(rng, kinds, true))
			ntun++ // may be rejected: ids then shift, which is fine (roles are resolved at run time)
		case x < 34:
			steps = append(steps, tf.M{"e": "Deposit", "t": t, "who": tf.M{"role": "acct", "k": 1 + rng.Intn(3)}, "amt": amts(), "bad": rng.Intn(15) == 0})
		case x < 58:
			who := tf.M{"role": "holder", "t": t, "k": 1 + rng.Intn(3)}
			if rng.Intn(5) == 0 {
				who = tf.M{"role": "acct", "k": 1 + rng.Intn(3)}
			}
			amt := tf.M{"ua": pick(rng, []int{0, 0, 1, 1, 2}), "ub": pick(rng, []int{0, 1, 1, 2, 3})}
			if rng.Intn(6) == 0 {
				amt = amts()
			}
			steps = append(steps, tf.M{"e": "Withdraw", "t": t, "who": who, "amt": amt, "bad": rng.Intn(20) == 0})
		case x < 72:
			steps = append(steps, tf.M{"e": "Activate", "t": t, "who": randWho(rng, t, 75)})
		case x < 76:
			steps = append(steps, tf.M{"e": "Deactivate", "t": t, "who": randWho(rng, t, 75)})
		case x < 86:
			steps = append(steps, tf.M{"e": "Fund", "t": t, "x": pick(rng, []int{7, 14, 3})})
		case x < 90:
			steps = append(steps, tf.M{"e": "Trigger", "t": t, "who": randWho(rng, t, 80)})
		case x < 92:
			steps = append(steps, tf.M{"e": "SetRoute", "m": []string{"ok", "noGroup", "noNonces"}[rng.Intn(3)]})
		case x < 95:
			// governance changes the minimum deposit: raised, lowered, one denom dropped
			steps = append(steps, tf.M{"e": "SetMinDep", "md": []tf.M{{"ua": 1, "ub": 2}, {"ua": 0, "ub": 2}, {"ua": 2, "ub": 1},
				{"ua": 1, "ub": 0}, {"ua": 3, "ub": 3}}[rng.Intn(5)]})
		default:
			steps = append(steps, tf.M{"e": "EndBlock", "dt": pick(rng, []int{1, 2})})
		}
	}
	steps = append(steps, tf.M{"e": "EndBlock", "dt": 1})
	return tf.Script{Fam: "Tunnel", C: c, Steps: steps}
}

var _ = time.Second
