// Package fam_oracle drives the real x/oracle message servers and end-blocker with abstract scripts
// (Oracle.tla actions) and records, after every step, the projection of the real stores onto the
// variables of Oracle.tla.  Verdicts are TLC's (Oracle_Trace.tla), not this package's.
package fam_oracle

import (
	"fmt"
	"math/rand"
	"sort"
	"strconv"
	"strings"
	"time"

	sdk "github.com/cosmos/cosmos-sdk/types"

	"github.com/bandprotocol/chain/v3/pkg/obi"
	"github.com/bandprotocol/chain/v3/testing/testdata"
	oracletypes "github.com/bandprotocol/chain/v3/x/oracle/types"

	tf "vdrive/tracefmt"
	"vdrive/world"
)

type Stats struct {
	Traces, Events, Interesting int
	Distinct                    map[string]bool
}

type Driver struct {
	worlds map[int]*world.World
	W      *tf.Writer
	St     Stats
	Mode   string // "" (C01) or "c15": changes only what counts as interesting
}

func NewDriver(w *tf.Writer) *Driver {
	return &Driver{worlds: map[int]*world.World{}, W: w, St: Stats{Distinct: map[string]bool{}}}
}

func (d *Driver) Close() {
	for _, w := range d.worlds {
		w.Close()
	}
}

func (d *Driver) world(nval int) *world.World {
	if w, ok := d.worlds[nval]; ok {
		return w
	}
	cfg := world.DefaultConfig()
	toks := []int64{100_000_000, 1_000_000, 99_999_999, 50_000_000, 70_000_000}
	cfg.ValTokens = toks[:nval]
	w := world.New(cfg)
	d.worlds[nval] = w
	return w
}

// session is the per-trace state of the driver.
type session struct {
	d         *Driver
	w         *world.World
	r         *world.Run
	strangers []world.Account
	resolveEv map[uint64]int
	committee map[uint64][]string // remembered committees (for role binding after deletion)
	sent      map[uint64]sentReq  // what the driver put into each accepted request
	rawReqs   map[uint64][]oracletypes.RawRequest
	expected  map[uint64][]byte // W4 requests: the result the script must produce from the reports present at resolution
	interesting bool
}

type sentReq struct {
	clientID string
	calldata string
}

// the family's clock unit is half a second (Oracle.tla Units = 2): block times and validator-status times carry the
// full block time, request / resolve times are whole seconds
const unit = 500 * time.Millisecond
const unitsPerSec = int(time.Second / unit)

func (s *session) now() int { return int(s.r.Time.Sub(s.w.Cfg.GenesisTime) / unit) }

func (s *session) rel(t time.Time) int {
	if t.IsZero() || t.Unix() <= 0 {
		return -1
	}
	return int(t.Sub(s.w.Cfg.GenesisTime) / unit)
}

// relSec: a time the chain stores in whole seconds, in clock units
func (s *session) relSec(unix int64) int { return int(unix-s.w.Cfg.GenesisTime.Unix()) * unitsPerSec }

func (s *session) valByName(n string) (sdk.ValAddress, bool) {
	for _, v := range s.w.Vals {
		if v.Name == n {
			return v.ValAddr, true
		}
	}
	for _, v := range s.strangers {
		if v.Name == n {
			return v.ValAddr, true
		}
	}
	return nil, false
}

func (s *session) allNames() []string {
	var out []string
	for _, v := range s.w.Vals {
		out = append(out, v.Name)
	}
	for _, v := range s.strangers {
		out = append(out, v.Name)
	}
	return out
}

// project reads the real stores.
func (s *session) project() tf.M {
	ctx := s.r.Ctx
	k := s.w.App.OracleKeeper
	count := k.GetRequestCount(ctx)
	reqs := []tf.M{}
	reps := [][]string{}
	ress := []tf.M{}
	evs := []int{}
	for id := uint64(1); id <= count; id++ {
		rid := oracletypes.RequestID(id)
		if rq, err := k.GetRequest(ctx, rid); err == nil {
			vals := []string{}
			for _, v := range rq.RequestedValidators {
				vals = append(vals, s.w.Name(v))
			}
			sort.Strings(vals)
			reqs = append(reqs, tf.M{
				"present": true, "vals": vals, "min": int(rq.MinCount), "rh": int(rq.RequestHeight),
				"rt": s.relSec(rq.RequestTime),
				"ok": rq.OracleScriptID == world.ScriptOK3 || rq.OracleScriptID == world.ScriptOK1 || rq.OracleScriptID == world.ScriptOKNil || rq.OracleScriptID == world.ScriptW4 || rq.OracleScriptID == world.ScriptDesc,
			})
		} else {
			reqs = append(reqs, tf.M{"present": false})
		}
		rs := []string{}
		for _, rp := range k.GetReports(ctx, rid) {
			rs = append(rs, s.w.Name(rp.Validator))
		}
		sort.Strings(rs)
		reps = append(reps, rs)
		if k.HasResult(ctx, rid) {
			rr := k.MustGetResult(ctx, rid)
			sent := s.sent[id]
			mirror := rr.ClientID == sent.clientID && string(rr.Calldata) == sent.calldata && uint64(rr.RequestID) == id
			if exp, ok := s.expected[id]; ok && rr.ResolveStatus == oracletypes.RESOLVE_STATUS_SUCCESS {
				// the script that echoes every report: its output must be built from exactly the reports present at resolution
				mirror = mirror && string(rr.Result) == string(exp)
			}
			ress = append(ress, tf.M{
				"status": statusName(rr.ResolveStatus), "ans": int(rr.AnsCount), "ask": int(rr.AskCount),
				"min": int(rr.MinCount), "rt": s.relSec(rr.RequestTime),
				"resT": s.relSec(rr.ResolveTime), "mirror": mirror,
			})
		} else {
			ress = append(ress, tf.M{"status": "NONE"})
		}
		evs = append(evs, s.resolveEv[id])
	}
	pend := []int{}
	for _, p := range k.GetPendingResolveList(ctx) {
		pend = append(pend, int(p))
	}
	vst := tf.M{}
	for _, n := range s.allNames() {
		va, _ := s.valByName(n)
		st := k.GetValidatorStatus(ctx, va)
		vst[n] = tf.M{"active": st.IsActive, "since": s.rel(st.Since)}
	}
	p := k.GetParams(ctx)
	return tf.M{
		"h": int(s.r.Height), "now": s.now(), "count": int(count),
		"lastExpired": int(k.GetRequestLastExpired(ctx)),
		"exp":         int(p.ExpirationBlockCount), "penalty": int(time.Duration(p.InactivePenaltyDuration) / unit),
		"req":         reqs, "rep": reps, "res": ress, "pending": pend, "vstat": vst, "resolveEv": evs,
	}
}

func statusName(st oracletypes.ResolveStatus) string {
	switch st {
	case oracletypes.RESOLVE_STATUS_SUCCESS:
		return "SUCCESS"
	case oracletypes.RESOLVE_STATUS_FAILURE:
		return "FAILURE"
	case oracletypes.RESOLVE_STATUS_EXPIRED:
		return "EXPIRED"
	case oracletypes.RESOLVE_STATUS_OPEN:
		return "OPEN"
	}
	return "OTHER"
}

func (s *session) noteResolveEvents(o world.Outcome) {
	for _, id := range o.Attrs(oracletypes.EventTypeResolve, oracletypes.AttributeKeyID) {
		n, _ := strconv.ParseUint(id, 10, 64)
		s.resolveEv[n]++
	}
}

func outc(o world.Outcome) tf.M {
	m := tf.M{"ok": o.OK()}
	if o.Panic != nil {
		m["panic"] = fmt.Sprint(o.Panic)
	}
	return m
}

// resolve a role to a name. Roles: {"role":"val","k":n} | {"role":"stranger","k":n} |
// {"role":"chosen","k":n,"id":id} | {"role":"other","k":n,"id":id}
func (s *session) bind(role tf.M, defID uint64) string {
	k := tf.Int(role, "k", 1)
	switch tf.Str(role, "role", "val") {
	case "stranger":
		return s.strangers[(k-1)%len(s.strangers)].Name
	case "chosen", "other":
		id := uint64(tf.Int(role, "id", int(defID)))
		com := s.committee[id]
		if tf.Str(role, "role", "") == "chosen" {
			if len(com) == 0 {
				return s.w.Vals[(k-1)%len(s.w.Vals)].Name
			}
			return com[(k-1)%len(com)]
		}
		in := map[string]bool{}
		for _, c := range com {
			in[c] = true
		}
		var others []string
		for _, v := range s.w.Vals {
			if !in[v.Name] {
				others = append(others, v.Name)
			}
		}
		if len(others) == 0 {
			return s.strangers[0].Name
		}
		return others[(k-1)%len(others)]
	}
	return s.w.Vals[(k-1)%len(s.w.Vals)].Name
}

// RunScript plays one script and records its trace.
func (d *Driver) RunScript(sc tf.Script) {
	nval := tf.Int(sc.C, "nval", 3)
	w := d.world(nval)
	s := &session{d: d, w: w, r: w.Branch(), resolveEv: map[uint64]int{}, committee: map[uint64][]string{},
		sent: map[uint64]sentReq{}, rawReqs: map[uint64][]oracletypes.RawRequest{}, expected: map[uint64][]byte{}}
	st := world.NewAccount("stranger1")
	st.Name = "x1"
	s.strangers = []world.Account{st}
	k := w.App.OracleKeeper

	// environment: parameters of this trace
	p := k.GetParams(s.r.Ctx)
	p.ExpirationBlockCount = uint64(tf.Int(sc.C, "exp", 2))
	p.InactivePenaltyDuration = uint64(time.Duration(tf.Int(sc.C, "penalty", 2)) * unit)
	if err := k.SetParams(s.r.Ctx, p); err != nil {
		panic(err)
	}
	s.r.BeginBlockAfter(100 * unit) // h = 2, now = 100 (clock units)
	if tf.Bool(sc.C, "initActive", true) {
		// prelude through the real handler: everybody activates in block 2, the trace starts in block 3
		for _, v := range w.Vals {
			if o := s.r.Deliver(&oracletypes.MsgActivate{Validator: v.ValAddr.String()}); !o.OK() {
				panic(fmt.Sprint("prelude activate failed: ", o.Err))
			}
		}
		s.r.EndBlock()
		s.r.BeginBlockAfter(3 * unit) // the trace starts a second and a half later: requests are later than the activations even in whole seconds
	}
	d.W.Reset(sc.C, s.project(), sc.Steps)
	d.St.Traces++
	d.St.Events++

	for _, step := range sc.Steps {
		s.apply(step)
		d.St.Events++
	}
	if s.interesting {
		h := sc.Hash()
		if !d.St.Distinct[h] {
			d.St.Distinct[h] = true
			d.St.Interesting++
		}
	}
}

func (s *session) apply(step tf.M) {
	k := s.w.App.OracleKeeper
	switch tf.Str(step, "e", "") {
	case "Request":
		if k.GetRequestCount(s.r.Ctx) >= 8 {
			return // the trace specification's request bound (MaxReq = 10) must never be what stops a request
		}
		ask, min := tf.Int(step, "ask", 1), tf.Int(step, "min", 1)
		ok := tf.Bool(step, "ok", true)
		// three kinds of oracle script: returns data (SUCCESS), returns nothing (FAILURE), and - every third
		// successful request - returns ZERO bytes, which is still SUCCESS (with an empty result)
		osid := oracletypes.OracleScriptID(world.ScriptOK3)
		if !ok {
			osid = world.ScriptFail1
		} else if (k.GetRequestCount(s.r.Ctx)+uint64(ask)+uint64(min))%3 == 0 {
			osid = world.ScriptOKNil
		} else if (k.GetRequestCount(s.r.Ctx)+uint64(ask)+uint64(min))%3 == 1 {
			osid = world.ScriptW4 // reads its calldata again at execution and echoes every report it can see
		} else if (k.GetRequestCount(s.r.Ctx)+uint64(ask)+uint64(min))%6 == 5 {
			osid = world.ScriptDesc // asks for its external ids in non-ascending order
		}
		before := k.GetRequestCount(s.r.Ctx)
		clientID := fmt.Sprintf("cl-%d", before+1)
		calldata := fmt.Sprintf("cd-%d", before+1)
		if osid == world.ScriptW4 {
			// calldata of a length chosen against the CURRENT size parameters: short, or longer than
			// max_report_data_size when max_calldata_size allows it
			pp := k.GetParams(s.r.Ctx)
			n := 3 + int(before)%5
			if int(pp.MaxCalldataSize) > int(pp.MaxReportDataSize)+40 && (before+uint64(ask))%2 == 0 {
				n = int(pp.MaxReportDataSize) + 8
			}
			calldata = string(obi.MustEncode(testdata.Wasm4Input{IDs: []int64{1, 2, 1}, Calldata: strings.Repeat("c", n)}))
		}
		msg := oracletypes.NewMsgRequestData(osid, []byte(calldata), uint64(ask), uint64(min), clientID,
			sdk.NewCoins(sdk.NewInt64Coin("uband", 1_000_000)), 40000, 300000, s.w.Accts[0].Addr, 0)
		o := s.r.Deliver(msg)
		if o.OK() {
			id := k.GetRequestCount(s.r.Ctx)
			rq := k.MustGetRequest(s.r.Ctx, oracletypes.RequestID(id))
			var com []string
			for _, v := range rq.RequestedValidators {
				com = append(com, s.w.Name(v))
			}
			sort.Strings(com)
			s.committee[id] = com
			s.sent[id] = sentReq{clientID, calldata}
			s.rawReqs[id] = rq.RawRequests
		}
		s.d.W.Step("Request", tf.M{"ask": ask, "min": min, "ok": ok}, outc(o), s.project())
	case "Report":
		id := uint64(tf.Int(step, "id", 1))
		who := s.bind(tf.Sub(step, "who"), id)
		shape := tf.Str(step, "shape", "exact")
		raws := s.rawReqs[id]
		if len(raws) == 0 {
			raws = []oracletypes.RawRequest{{ExternalID: 1}, {ExternalID: 2}, {ExternalID: 3}}
		}
		var reps []oracletypes.RawReport
		for _, rq := range raws {
			reps = append(reps, oracletypes.NewRawReport(rq.ExternalID, 0, []byte(fmt.Sprintf("%s.%d;", who, rq.ExternalID))))
		}
		switch shape {
		case "missing":
			reps = reps[:len(reps)-1]
		case "extra":
			reps = append(reps, oracletypes.NewRawReport(99, 0, []byte("ans")))
		case "wrongId":
			reps[len(reps)-1].ExternalID = 99
		case "perm": // exactly the requested ids, last first
			for i, j := 0, len(reps)-1; i < j; i, j = i+1, j-1 {
				reps[i], reps[j] = reps[j], reps[i]
			}
		case "dup": // right number, the last id is a copy of the first (not adjacent when three were requested)
			if len(reps) > 1 {
				reps[len(reps)-1].ExternalID = reps[0].ExternalID
			} else { // a single requested id: the copy is one answer too many as well
				reps = append(reps, reps[0])
			}
		case "dupAdj": // right number, the second id is a copy of the first
			if len(reps) > 1 {
				reps[1].ExternalID = reps[0].ExternalID
			} else {
				reps = append(reps, reps[0])
			}
		}
		va, _ := s.valByName(who)
		o := s.r.Deliver(oracletypes.NewMsgReportData(oracletypes.RequestID(id), reps, va))
		if !o.OK() && s.d.Mode != "c15" {
			s.interesting = true
		}
		s.d.W.Step("Report", tf.M{"v": who, "id": int(id), "shape": shape}, outc(o), s.project())
	case "Activate":
		who := s.bind(tf.Sub(step, "who"), 0)
		va, _ := s.valByName(who)
		o := s.r.Deliver(&oracletypes.MsgActivate{Validator: va.String()})
		if s.d.Mode == "c15" && !o.OK() {
			s.interesting = true
		}
		s.d.W.Step("Activate", tf.M{"a": who}, outc(o), s.project())
	case "SetSizes":
		// environment: governance changes the size limits in the middle of a history
		pp := k.GetParams(s.r.Ctx)
		pp.MaxCalldataSize, pp.MaxReportDataSize = uint64(tf.Int(step, "cd", 256)), uint64(tf.Int(step, "rd", 512))
		_ = k.SetParams(s.r.Ctx, pp)
		s.d.W.Step("Env", tf.M{"what": "SetSizes"}, tf.M{"ok": true}, s.project())
	case "EndBlock":
		dt := tf.Int(step, "dt", 1)
		// what the echo script must output for every request that is about to be resolved: for each raw request (in
		// order) and each chosen validator (in committee order) the data that validator reported, nothing if it did not
		for _, pid := range k.GetPendingResolveList(s.r.Ctx) {
			rq, err := k.GetRequest(s.r.Ctx, pid)
			if err != nil || rq.OracleScriptID != world.ScriptW4 {
				continue
			}
			byVal := map[string]map[oracletypes.ExternalID]string{}
			for _, rp := range k.GetReports(s.r.Ctx, pid) {
				m := map[oracletypes.ExternalID]string{}
				for _, rr := range rp.RawReports {
					m[rr.ExternalID] = string(rr.Data)
				}
				byVal[rp.Validator] = m
			}
			ret := ""
			for _, raw := range rq.RawRequests {
				for _, v := range rq.RequestedValidators {
					ret += byVal[v][raw.ExternalID]
				}
			}
			s.expected[uint64(pid)] = obi.MustEncode(testdata.Wasm4Output{Ret: ret})
		}
		o := s.r.EndBlock()
		s.noteResolveEvents(o)
		if s.d.Mode == "c15" {
			if o.Count(oracletypes.EventTypeDeactivate) > 0 {
				s.interesting = true
			}
		} else if o.Count(oracletypes.EventTypeResolve) > 0 {
			s.interesting = true
		}
		ob := s.r.BeginBlockAfter(time.Duration(dt) * unit)
		res := tf.M{"ok": o.OK() && ob.OK()}
		s.d.W.Step("EndBlock", tf.M{"dt": dt}, res, s.project())
	default:
		panic("unknown step " + fmt.Sprint(step))
	}
}

// RandomScript makes one abstract script.
func RandomScript(rng *rand.Rand) tf.Script {
	nval := 3 + rng.Intn(2)
	c := tf.M{"nval": nval, "exp": 1 + rng.Intn(3), "penalty": []int{0, 1, 2, 5}[rng.Intn(4)],
		"initActive": rng.Intn(4) != 0}
	n := 8 + rng.Intn(18)
	var steps []tf.M
	reqs := 0
	for i := 0; i < n; i++ {
		x := rng.Intn(100)
		switch {
		case x < 18 && reqs < 5:
			ask := 1 + rng.Intn(nval)
			min := 1 + rng.Intn(ask)
			if rng.Intn(12) == 0 {
				min = ask + 1
			}
			if rng.Intn(15) == 0 {
				ask = nval + 1
			}
			steps = append(steps, tf.M{"e": "Request", "ask": ask, "min": min, "ok": rng.Intn(4) != 0})
			reqs++
		case x < 62:
			id := 1
			if reqs > 0 {
				id = 1 + rng.Intn(reqs)
			}
			if rng.Intn(12) == 0 {
				id = reqs + 1
			}
			role := "chosen"
			if y := rng.Intn(10); y == 0 {
				role = "other"
			} else if y == 1 {
				role = "stranger"
			}
			shape := "exact"
			if y := rng.Intn(12); y < 6 {
				shape = []string{"missing", "extra", "wrongId", "perm", "dup", "dupAdj"}[y]
			}
			steps = append(steps, tf.M{"e": "Report", "id": id, "shape": shape,
				"who": tf.M{"role": role, "k": 1 + rng.Intn(nval), "id": id}})
		case x < 72:
			if rng.Intn(4) == 0 {
				steps = append(steps, tf.M{"e": "SetSizes", "cd": []int{256, 700, 1024}[rng.Intn(3)], "rd": []int{512, 300, 512}[rng.Intn(3)]})
				break
			}
			role := "val"
			if rng.Intn(6) == 0 {
				role = "stranger"
			}
			steps = append(steps, tf.M{"e": "Activate", "who": tf.M{"role": role, "k": 1 + rng.Intn(nval)}})
		default:
			steps = append(steps, tf.M{"e": "EndBlock", "dt": []int{0, 1, 1, 2, 3}[rng.Intn(5)]})
		}
	}
	// run out the clock so that every request gets resolved or expired
	for i := 0; i < 4; i++ {
		steps = append(steps, tf.M{"e": "EndBlock", "dt": 1})
	}
	return tf.Script{Fam: "Oracle", C: c, Steps: steps}
}

// RandomScriptC15 biases towards (re)activation around the penalty boundary, requests that expire
// with missing reports, and equal / slow block times.
func RandomScriptC15(rng *rand.Rand) tf.Script {
	nval := 3
	c := tf.M{"nval": nval, "exp": 1 + rng.Intn(2), "penalty": []int{0, 1, 2, 3, 5}[rng.Intn(5)],
		"initActive": rng.Intn(2) == 0}
	n := 14 + rng.Intn(16)
	var steps []tf.M
	reqs := 0
	for i := 0; i < n; i++ {
		x := rng.Intn(100)
		switch {
		case x < 20 && reqs < 6:
			ask := 1 + rng.Intn(nval)
			steps = append(steps, tf.M{"e": "Request", "ask": ask, "min": 1 + rng.Intn(ask), "ok": true})
			reqs++
		case x < 40 && reqs > 0:
			id := 1 + rng.Intn(reqs)
			steps = append(steps, tf.M{"e": "Report", "id": id, "shape": "exact",
				"who": tf.M{"role": "chosen", "k": 1 + rng.Intn(nval), "id": id}})
		case x < 68:
			role := "val"
			if rng.Intn(8) == 0 {
				role = "stranger"
			}
			steps = append(steps, tf.M{"e": "Activate", "who": tf.M{"role": role, "k": 1 + rng.Intn(nval)}})
		default:
			steps = append(steps, tf.M{"e": "EndBlock", "dt": []int{0, 0, 1, 1, 2, 3, 4}[rng.Intn(7)]})
		}
	}
	for i := 0; i < 3; i++ {
		steps = append(steps, tf.M{"e": "EndBlock", "dt": 1})
	}
	return tf.Script{Fam: "Oracle", C: c, Steps: steps}
}
