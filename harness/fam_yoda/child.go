package fam_yoda

import (
	"bufio"
	"bytes"
	"context"
	"encoding/json"
	"errors"
	"fmt"
	"os"
	"path/filepath"
	"runtime"
	"sort"
	"strconv"
	"strings"
	"sync"
	"time"

	abci "github.com/cometbft/cometbft/abci/types"
	cmtbytes "github.com/cometbft/cometbft/libs/bytes"
	rpcclient "github.com/cometbft/cometbft/rpc/client"
	ctypes "github.com/cometbft/cometbft/rpc/core/types"

	"github.com/cosmos/cosmos-sdk/crypto/hd"
	"github.com/cosmos/cosmos-sdk/crypto/keyring"
	sdk "github.com/cosmos/cosmos-sdk/types"

	"github.com/bandprotocol/chain/v3/pkg/filecache"
	"github.com/bandprotocol/chain/v3/pkg/obi"
	"github.com/bandprotocol/chain/v3/testing/testdata"
	oracletypes "github.com/bandprotocol/chain/v3/x/oracle/types"
	"github.com/bandprotocol/chain/v3/yoda"
	"github.com/bandprotocol/chain/v3/yoda/executor"

	tf "vdrive/tracefmt"
	"vdrive/world"
)

// ---------------------------------------------------------------------------------------------
// child output: one JSON object per line, flushed and synced line by line (the process may die)

type lineWriter struct {
	f *os.File
}

// noNull replaces JSON nulls (nil slices) by empty arrays: TLC's JSON reader has no null.
func noNull(v interface{}) interface{} {
	switch x := v.(type) {
	case nil:
		return []interface{}{}
	case map[string]interface{}:
		for k, e := range x {
			x[k] = noNull(e)
		}
	case []interface{}:
		for i, e := range x {
			x[i] = noNull(e)
		}
	}
	return v
}

func (w *lineWriter) emit(m tf.M) {
	b, err := json.Marshal(m)
	if err != nil {
		panic(err)
	}
	var generic interface{}
	if err := json.Unmarshal(b, &generic); err != nil {
		panic(err)
	}
	if b, err = json.Marshal(noNull(generic)); err != nil {
		panic(err)
	}
	b = append(b, '\n')
	if _, err := w.f.Write(b); err != nil {
		panic(err)
	}
}

// ---------------------------------------------------------------------------------------------
// data-source pool of the child's world

func poolContent(li, cp int) string {
	l := Lens[li]
	b := make([]byte, l)
	b[0] = byte('a' + cp)
	for i := 1; i < l; i++ {
		b[i] = "0123456789"[(i+li)%10]
	}
	return string(b)
}

func lenIndex(l int) int {
	for i, x := range Lens {
		if x == l {
			return i
		}
	}
	return 0
}

func newWorld() *world.World {
	cfg := world.DefaultConfig()
	cfg.ValTokens = []int64{100_000_000, 1_000_000, 99_999_999, 50_000_000}
	// ids 1,2,3 (asked by the fixed-shape oracle scripts) are copies 0,1,2 of the first length
	cfg.DataSources = make([]world.DataSourceSpec, len(Lens)*Copies)
	for li := range Lens {
		for cp := 0; cp < Copies; cp++ {
			cfg.DataSources[poolIndex(li, cp)] = world.DataSourceSpec{Fee: sdk.NewCoins(), Treasury: 0, Content: poolContent(li, cp)}
		}
	}
	return world.New(cfg)
}

// layout: the first `Copies` entries are the copies of Lens[0]; then the copies of Lens[1]; ...
func poolIndex(li, cp int) int { return li*Copies + cp }
func dsID(li, cp int) int      { return poolIndex(li, cp) + 1 }

// ---------------------------------------------------------------------------------------------
// RPC client answered from the branch context of the in-process chain, with failure injection

type fakeClient struct {
	rpcclient.Client // nil: the daemon's request handling must not call anything but ABCIQuery
	mu               sync.Mutex
	run              *world.Run
	budget           map[string]int // key -> remaining failing calls (Always = every call)
	calls            map[string]int
	appErr           bool
	reqKeys          map[string]string // store key bytes -> budget key
}

var errInjected = errors.New("injected rpc failure")

func (f *fakeClient) ABCIQuery(_ context.Context, path string, data cmtbytes.HexBytes) (*ctypes.ResultABCIQuery, error) {
	f.mu.Lock()
	defer f.mu.Unlock()
	app := f.run.W.App
	key := ""
	isData := false
	if path == "/band.oracle.v1.Query/Data" {
		var q oracletypes.QueryDataRequest
		if err := app.AppCodec().Unmarshal(data, &q); err == nil {
			key = "data/" + q.DataHash
		}
		isData = true
	} else if k, ok := f.reqKeys[string(data)]; ok {
		key = k
	}
	f.calls[key]++
	if b := f.budget[key]; b > 0 {
		if b != Always {
			f.budget[key] = b - 1
		}
		if isData && f.appErr {
			// the node answers, but with an application error (what a real node does when its query fails)
			return &ctypes.ResultABCIQuery{Response: abci.ResponseQuery{Code: 1, Codespace: "sdk", Log: "injected"}}, nil
		}
		return nil, errInjected
	}
	ctx := f.run.Sub()
	if strings.HasPrefix(path, "/store/") {
		parts := strings.Split(path, "/")
		if len(parts) != 4 || parts[3] != "key" {
			return &ctypes.ResultABCIQuery{Response: abci.ResponseQuery{Code: 1, Log: "bad store path"}}, nil
		}
		sk := app.GetKey(parts[2])
		if sk == nil {
			return &ctypes.ResultABCIQuery{Response: abci.ResponseQuery{Code: 1, Log: "no such store"}}, nil
		}
		val := ctx.KVStore(sk).Get(data)
		return &ctypes.ResultABCIQuery{Response: abci.ResponseQuery{Key: data, Value: val, Height: f.run.Height}}, nil
	}
	h := app.GRPCQueryRouter().Route(path)
	if h == nil {
		return &ctypes.ResultABCIQuery{Response: abci.ResponseQuery{Code: 1, Log: "unknown query path"}}, nil
	}
	res, err := h(ctx, &abci.RequestQuery{Path: path, Data: data})
	if err != nil {
		return &ctypes.ResultABCIQuery{Response: abci.ResponseQuery{Code: 1, Codespace: "sdk", Log: err.Error()}}, nil
	}
	return &ctypes.ResultABCIQuery{Response: *res}, nil
}

// ---------------------------------------------------------------------------------------------
// executor whose calls block until the driver opens their gate

type wkey struct{ rid, eid int }

type fakeExec struct {
	mu      sync.Mutex
	atGate  map[wkey]chan struct{}
	exeOK   map[wkey]bool
	outcome map[wkey]ExecOutcome
	content map[wkey]string
	stray   int // calls that belong to no raw request of the scenario
}

func (e *fakeExec) Exec(exec []byte, arg string, env interface{}) (executor.ExecResult, error) {
	m, _ := env.(map[string]interface{})
	rid, _ := strconv.Atoi(fmt.Sprint(m["BAND_REQUEST_ID"]))
	eid, _ := strconv.Atoi(fmt.Sprint(m["BAND_EXTERNAL_ID"]))
	k := wkey{rid, eid}
	e.mu.Lock()
	o, known := e.outcome[k]
	if !known {
		e.stray++
		e.mu.Unlock()
		return executor.ExecResult{}, errors.New("stray executor call")
	}
	gate := make(chan struct{})
	e.atGate[k] = gate
	e.exeOK[k] = string(exec) == e.content[k]
	e.mu.Unlock()
	<-gate
	if o.Kind == "error" {
		return executor.ExecResult{}, errors.New("injected executor failure")
	}
	return executor.ExecResult{Output: []byte("out-" + strconv.Itoa(o.Out)), Code: uint32(o.Code), Version: "verif"}, nil
}

// ---------------------------------------------------------------------------------------------
// quiescence: every goroutine that runs daemon code is blocked on a channel receive (an executor gate or
// the results channel of handleRawRequests).  Daemon goroutines are recognised by a frame or a
// "created by" line of package yoda, or of yodaSpawn (which also covers a goroutine that was created but
// has not run yet).

func yodaSpawn(f func()) { go func() { yodaSpawnBody(f) }() }

//go:noinline
func yodaSpawnBody(f func()) { f() }

func daemonGoroutines() (total, blocked int) {
	buf := make([]byte, 1<<22)
	n := runtime.Stack(buf, true)
	for _, g := range strings.Split(string(buf[:n]), "\n\n") {
		if !strings.Contains(g, "chain/v3/yoda.") && !strings.Contains(g, "fam_yoda.yodaSpawn") {
			continue
		}
		total++
		hdr := g
		if i := strings.IndexByte(g, '\n'); i >= 0 {
			hdr = g[:i]
		}
		if i := strings.IndexByte(hdr, '['); i >= 0 {
			st := hdr[i+1:]
			if j := strings.IndexAny(st, ",]"); j >= 0 {
				st = st[:j]
			}
			if st == "chan receive" {
				blocked++
			}
		}
	}
	return
}

// waitQuiet returns true when the daemon code has come to rest.
func waitQuiet() bool {
	deadline := time.Now().Add(20 * time.Second)
	stable := 0
	for time.Now().Before(deadline) {
		t, b := daemonGoroutines()
		if t == b {
			stable++
			if stable >= 3 {
				return true
			}
		} else {
			stable = 0
		}
		time.Sleep(200 * time.Microsecond)
	}
	return false
}

// ---------------------------------------------------------------------------------------------

type child struct {
	w    *world.World
	out  *lineWriter
	kb   keyring.Keyring
	keys []*keyring.Record
}

const mnemonic = "abandon abandon abandon abandon abandon abandon abandon abandon abandon abandon abandon about"

// RunChild plays the scripts one after the other, writing protocol lines to outPath.
func RunChild(scripts []tf.Script, outPath string) {
	f, err := os.Create(outPath)
	if err != nil {
		panic(err)
	}
	defer f.Close()
	c := &child{w: newWorld(), out: &lineWriter{f: f}}
	defer c.w.Close()
	c.kb = keyring.NewInMemory(c.w.App.AppCodec())
	for i := 0; i < 2; i++ {
		rec, err := c.kb.NewAccount(fmt.Sprintf("reporter%d", i), mnemonic, "", hd.CreateHDPath(494, 0, uint32(i)).String(), hd.Secp256k1)
		if err != nil {
			panic(err)
		}
		c.keys = append(c.keys, rec)
	}
	yoda.SetVerifGlobals(world.ChainID, c.kb)
	for idx, sc := range scripts {
		c.runScenario(idx, sc)
	}
}

type resolved struct {
	id     int // real request id (0: never created)
	exists bool
	hasMe  bool
	raws   []oracletypes.RawRequest
	absDS  []int // abstract data source per raw request
	events []abci.Event
}

type session struct {
	c      *child
	s      Scenario
	run    *world.Run
	cl     *fakeClient
	ex     *fakeExec
	yc     *yoda.Context
	lg     *yoda.Logger
	me     world.Account
	reqs   []resolved  // by script index
	byID   map[int]int // real id -> script index
	msgs   []*oracletypes.MsgReportData
	tag    string
	groups map[int][]abci.Event

	announced map[int]bool // real ids the daemon has been told about
	booted    bool
	txDone    map[int]bool
	cacheDir  string
}

func (c *child) runScenario(idx int, script tf.Script) {
	s := ParseScenario(script.C)
	se := &session{c: c, s: s, tag: s.Tag(), byID: map[int]int{}, groups: map[int][]abci.Event{},
		announced: map[int]bool{}, txDone: map[int]bool{}}
	se.setupChain()
	se.setupDaemon()
	consts := se.constants()
	consts["wish"] = s.ToM()
	c.out.emit(tf.M{"k": "reset", "idx": idx, "c": consts, "s": se.observe(), "script": script.Steps,
		"tag": se.tag, "interesting": s.Interesting()})
	for _, st := range script.Steps {
		se.step(st)
	}
	se.flush()
	c.out.emit(tf.M{"k": "end", "idx": idx})
}

// deliverTx runs the messages as one transaction like world.Run.Deliver and returns the events of the
// message handlers the way baseapp.runMsgs collects them (the msg service router gives every handler a
// fresh event manager and returns its events in the result; world.Run.Deliver does not collect those).
func deliverTx(r *world.Run, msgs ...sdk.Msg) ([]abci.Event, error) {
	txCtx, write := r.Ctx.CacheContext()
	var events []abci.Event
	for _, m := range msgs {
		if v, ok := m.(interface{ ValidateBasic() error }); ok {
			if err := v.ValidateBasic(); err != nil {
				return nil, err
			}
		}
		h := r.W.App.MsgServiceRouter().Handler(m)
		if h == nil {
			return nil, fmt.Errorf("no handler for %T", m)
		}
		res, err := h(txCtx.WithEventManager(sdk.NewEventManager()), m)
		if err != nil {
			return nil, err
		}
		events = append(events, res.Events...)
	}
	write()
	return events, nil
}

// setupChain creates the requests of the scenario on a fresh branch of the chain.
func (se *session) setupChain() {
	w := se.c.w
	r := w.Branch()
	se.run = r
	r.BeginBlock(100)
	for _, v := range w.Vals {
		if o := r.Deliver(&oracletypes.MsgActivate{Validator: v.ValAddr.String()}); !o.OK() {
			panic(fmt.Sprint("prelude activate failed: ", o.Err))
		}
	}
	r.EndBlock()
	r.BeginBlock(1)
	se.reqs = make([]resolved, len(se.s.Reqs))
	mk := func(j int) sdk.Msg {
		rw := se.s.Reqs[j]
		ask := uint64(1)
		if rw.Want == "me" {
			ask = uint64(len(w.Vals) - 1)
		}
		var osid oracletypes.OracleScriptID
		var calldata []byte
		switch rw.Shape {
		case "ok3":
			osid, calldata = world.ScriptOK3, []byte("cd")
		case "ok1":
			osid, calldata = world.ScriptOK1, []byte("cd")
		default:
			var ids []int64
			for _, d := range rw.Raws {
				ids = append(ids, int64(dsID(lenIndex(se.s.DS[d-1].Len), d-1)))
			}
			osid, calldata = world.ScriptW4, obi.MustEncode(testdata.Wasm4Input{IDs: ids, Calldata: "cd"})
		}
		return oracletypes.NewMsgRequestData(osid, calldata, ask, 1, fmt.Sprintf("cl-%d", j+1),
			sdk.NewCoins(sdk.NewInt64Coin("uband", 1_000_000)), 100000, 300000, w.Accts[0].Addr, 0)
	}
	k := w.App.OracleKeeper
	create := func(js []int) {
		var msgs []sdk.Msg
		for _, j := range js {
			msgs = append(msgs, mk(j))
		}
		before := k.GetRequestCount(r.Ctx)
		evs, err := deliverTx(r, msgs...)
		if err != nil {
			panic(fmt.Sprint("request creation failed: ", err))
		}
		for i, j := range js {
			se.reqs[j].id = int(before) + i + 1
			se.reqs[j].exists = true
			se.reqs[j].events = evs
		}
	}
	// transactions groups first (in group order), then single requests, absent ones get the ids after the last
	for g := 1; g <= NReq; g++ {
		var js []int
		for j, rw := range se.s.Reqs {
			if rw.Want != "absent" && rw.Tx == g {
				js = append(js, j)
			}
		}
		if len(js) > 0 {
			create(js)
			se.groups[g] = se.reqs[js[0]].events
		}
	}
	for j, rw := range se.s.Reqs {
		if rw.Want != "absent" && (rw.Tx <= 0 || rw.Tx > NReq) {
			create([]int{j})
		}
	}
	next := int(k.GetRequestCount(r.Ctx))
	for j, rw := range se.s.Reqs {
		if rw.Want == "absent" {
			next++
			se.reqs[j].id = next
		}
	}
	// which validator does the daemon serve: one whose committee membership matches the wishes best
	best, bestScore := 0, -1
	for vi, v := range w.Vals {
		score := 0
		for j, rw := range se.s.Reqs {
			if !se.reqs[j].exists {
				continue
			}
			rq, err := k.GetRequest(r.Ctx, oracletypes.RequestID(se.reqs[j].id))
			if err != nil {
				panic(err)
			}
			in := false
			for _, rv := range rq.RequestedValidators {
				if rv == v.ValAddr.String() {
					in = true
				}
			}
			if in == (rw.Want == "me") {
				score++
			}
		}
		if score > bestScore {
			best, bestScore = vi, score
		}
	}
	se.me = w.Vals[best]
	for j := range se.s.Reqs {
		se.byID[se.reqs[j].id] = j
		if !se.reqs[j].exists {
			continue
		}
		rq, _ := k.GetRequest(r.Ctx, oracletypes.RequestID(se.reqs[j].id))
		for _, rv := range rq.RequestedValidators {
			if rv == se.me.ValAddr.String() {
				se.reqs[j].hasMe = true
			}
		}
		se.reqs[j].raws = rq.RawRequests
		for _, rr := range rq.RawRequests {
			se.reqs[j].absDS = append(se.reqs[j].absDS, (int(rr.DataSourceID)-1)%Copies+1)
		}
	}
}

// the concrete data source behind abstract data source d (1-based) of this scenario
func (se *session) concreteDS(d int) (id int, content string) {
	li := lenIndex(se.s.DS[d-1].Len)
	return dsID(li, d-1), poolContent(li, d-1)
}

func (se *session) setupDaemon() {
	w := se.c.w
	dir, err := os.MkdirTemp("", "vdrive-yoda-")
	if err != nil {
		panic(err)
	}
	se.cl = &fakeClient{run: se.run, budget: map[string]int{}, calls: map[string]int{}, appErr: se.s.AppErr, reqKeys: map[string]string{}}
	se.ex = &fakeExec{atGate: map[wkey]chan struct{}{}, exeOK: map[wkey]bool{}, outcome: map[wkey]ExecOutcome{}, content: map[wkey]string{}}
	se.yc = yoda.NewVerifContext(yoda.VerifOptions{
		App: w.App, Client: se.cl, Validator: se.me.ValAddr, Keys: se.c.keys, Executor: se.ex,
		FileCacheDir: dir, MaxTry: uint64(se.s.MaxTry), RPCPollInterval: 50 * time.Microsecond, PendingMsgsCap: 64,
	})
	se.lg = yoda.NewLogger(func(string, string) bool { return true })
	for d := 1; d <= NDS; d++ {
		id, content := se.concreteDS(d)
		wish := se.s.DS[d-1]
		if wish.Cached {
			se.yc.VerifFileCache().AddFile([]byte(content))
		} else if wish.Damaged {
			// a file cut short (e.g. by a crash during the write) under the hash of the full content
			if err := os.WriteFile(filepath.Join(dir, filecache.GetFilename([]byte(content))), []byte(content)[:len(content)/2], 0o600); err != nil {
				panic(err)
			}
		}
		se.cl.reqKeys[string(oracletypes.DataSourceStoreKey(oracletypes.DataSourceID(id)))] = fmt.Sprintf("ds/%d", id)
		se.cl.budget[fmt.Sprintf("ds/%d", id)] = wish.FHash
		ds, err := w.App.OracleKeeper.GetDataSource(se.run.Ctx, oracletypes.DataSourceID(id))
		if err != nil {
			panic(err)
		}
		se.cl.budget["data/"+ds.Filename] = wish.FData
	}
	for j, rw := range se.s.Reqs {
		id := se.reqs[j].id
		se.cl.reqKeys[string(oracletypes.RequestStoreKey(oracletypes.RequestID(id)))] = fmt.Sprintf("req/%d", id)
		se.cl.budget[fmt.Sprintf("req/%d", id)] = rw.FReq
		for k, rr := range se.reqs[j].raws {
			wk := wkey{id, int(rr.ExternalID)}
			if k < len(rw.Exec) {
				se.ex.outcome[wk] = rw.Exec[k]
			} else {
				se.ex.outcome[wk] = ExecOutcome{Kind: "ok", Out: k + 1}
			}
			_, content := se.concreteDS(se.reqs[j].absDS[k])
			se.ex.content[wk] = content
		}
	}
	se.cacheDir = dir
}

// constants of the trace (resolved truth, by real request id)
func (se *session) constants() tf.M {
	reqs := make([]tf.M, NReq)
	for i := range reqs {
		reqs[i] = tf.M{"exists": false, "hasMe": false, "raws": []tf.M{}, "exec": []tf.M{}, "fReq": 0}
	}
	for j, rw := range se.s.Reqs {
		rs := se.reqs[j]
		raws, ex := []tf.M{}, []tf.M{}
		for k, rr := range rs.raws {
			raws = append(raws, tf.M{"eid": int(rr.ExternalID), "ds": rs.absDS[k], "dsid": int(rr.DataSourceID)})
			o := se.ex.outcome[wkey{rs.id, int(rr.ExternalID)}]
			ex = append(ex, tf.M{"kind": o.Kind, "code": o.Code, "out": o.Out})
		}
		if rs.id >= 1 && rs.id <= NReq {
			reqs[rs.id-1] = tf.M{"exists": rs.exists, "hasMe": rs.hasMe, "raws": raws, "exec": ex, "fReq": rw.FReq, "j": j + 1,
				"shape": rw.Shape, "tx": rw.Tx}
		}
	}
	ds := []tf.M{}
	for _, d := range se.s.DS {
		ds = append(ds, tf.M{"len": d.Len, "cached": d.Cached, "dmg": d.Damaged, "fHash": d.FHash, "fData": d.FData})
	}
	return tf.M{"maxTry": se.s.MaxTry, "reqs": reqs, "ds": ds, "me": se.me.Name, "appErr": se.s.AppErr}
}

// observe drains the queue of pending reports and projects what the property talks about.
func (se *session) observe() tf.M {
	if se.yc != nil {
	drain:
		for {
			select {
			case m := <-se.yc.VerifPendingMsgs():
				se.msgs = append(se.msgs, m.VerifMsg())
			default:
				break drain
			}
		}
	}
	msgs := []tf.M{}
	for _, m := range se.msgs {
		reps := []tf.M{}
		for _, rp := range m.RawReports {
			reps = append(reps, tf.M{"eid": int(rp.ExternalID), "code": int(rp.ExitCode), "out": outToken(rp.Data)})
		}
		msgs = append(msgs, tf.M{"rid": int(m.RequestID), "reps": reps, "val": se.c.w.Name(m.Validator)})
	}
	gate := [][]int{}
	if se.ex != nil {
		se.ex.mu.Lock()
		for k := range se.ex.atGate {
			gate = append(gate, []int{k.rid, se.rawIndex(k)})
		}
		se.ex.mu.Unlock()
	}
	sort.Slice(gate, func(a, b int) bool {
		if gate[a][0] != gate[b][0] {
			return gate[a][0] < gate[b][0]
		}
		return gate[a][1] < gate[b][1]
	})
	return tf.M{"msgs": msgs, "gate": gate}
}

// rawIndex: position (1-based) of the raw request with this external id in its request
func (se *session) rawIndex(k wkey) int {
	j, ok := se.byID[k.rid]
	if !ok {
		return 0
	}
	for i, rr := range se.reqs[j].raws {
		if int(rr.ExternalID) == k.eid {
			return i + 1
		}
	}
	return 0
}

func outToken(b []byte) int {
	s := string(b)
	switch {
	case len(b) == 0:
		return 0
	case s == "FAIL_TO_LOAD_DATA_SOURCE":
		return -1
	case strings.HasPrefix(s, "out-"):
		if n, err := strconv.Atoi(s[4:]); err == nil {
			return n
		}
	}
	return -2
}

func (se *session) args(a tf.M) tf.M {
	if se.tag != "" {
		a["tag"] = se.tag
	}
	return a
}

func (se *session) log(e string, a tf.M, o tf.M) {
	se.c.out.emit(tf.M{"k": "step", "e": e, "a": se.args(a), "o": o, "s": se.observe()})
}

func (se *session) begin(e string, a tf.M) {
	se.c.out.emit(tf.M{"k": "begin", "e": e, "a": se.args(a)})
}

func (se *session) ids(js []int) []int {
	var out []int
	for _, j := range js {
		if j >= 1 && j <= len(se.reqs) {
			out = append(out, se.reqs[j-1].id)
		}
	}
	return out
}

func (se *session) step(st tf.M) {
	switch tf.Str(st, "e", "") {
	case "Start":
		ids := se.fresh(se.ids(ints(st["rs"])))
		if len(ids) == 0 {
			return
		}
		a := tf.M{"rs": ids}
		se.begin("Start", a)
		for _, id := range ids {
			id := id
			se.announced[id] = true
			yodaSpawn(func() { yoda.VerifHandleRequest(se.yc, se.lg, uint64(id)) })
		}
		q := waitQuiet()
		se.log("Start", a, tf.M{"quiet": q})
	case "Startup":
		if se.booted || len(se.announced) > 0 {
			return
		}
		ids := se.fresh(se.ids(ints(st["P"])))
		// a real PendingRequests answer is a consistent snapshot: it lists every request of a transaction
		// that selects the validator, or none (binds the script's wish to the committees the chain chose)
		inP := map[int]bool{}
		for _, id := range ids {
			inP[id] = true
		}
		for _, id := range ids {
			g := se.s.Reqs[se.byID[id]].Tx
			if se.s.RawP {
				g = 0 // demonstration mode: take the start-up list exactly as scripted
			}
			for j, rw := range se.s.Reqs {
				if g > 0 && rw.Tx == g && se.reqs[j].exists && se.reqs[j].hasMe && !inP[se.reqs[j].id] {
					inP[se.reqs[j].id] = true
					ids = append(ids, se.reqs[j].id)
				}
			}
		}
		sort.Ints(ids)
		a := tf.M{"P": ids}
		se.begin("Startup", a)
		se.booted = true
		// runImpl: for every id of the PendingRequests answer: c.pendingRequests[id] = true; go handleRequest(c, l, id)
		for _, id := range ids {
			se.yc.VerifMarkPending(uint64(id))
		}
		for _, id := range ids {
			id := id
			se.announced[id] = true
			yodaSpawn(func() { yoda.VerifHandleRequest(se.yc, se.lg, uint64(id)) })
		}
		q := waitQuiet()
		se.log("Startup", a, tf.M{"quiet": q})
	case "Tx":
		g := tf.Int(st, "g", 0)
		evs, ok := se.groups[g]
		if !ok || se.txDone[g] {
			return
		}
		se.txDone[g] = true
		var ids []int
		for j, rw := range se.s.Reqs {
			if rw.Tx == g && se.reqs[j].exists {
				ids = append(ids, se.reqs[j].id)
			}
		}
		sort.Ints(ids)
		for _, id := range ids {
			se.announced[id] = true
		}
		a := tf.M{"ids": ids}
		se.begin("Tx", a)
		tx := abci.TxResult{Height: se.run.Height, Tx: []byte(fmt.Sprintf("tx-%d", g)), Result: abci.ExecTxResult{Code: 0, Events: evs}}
		yodaSpawn(func() { yoda.VerifHandleTransaction(se.yc, se.lg, tx) })
		q := waitQuiet()
		se.log("Tx", a, tf.M{"quiet": q})
	case "Release":
		var ws [][]int
		if arr, ok := st["ws"].([]interface{}); ok {
			for _, x := range arr {
				p := ints(x)
				if len(p) == 2 && p[0] >= 1 && p[0] <= len(se.reqs) {
					ws = append(ws, []int{se.reqs[p[0]-1].id, p[1]})
				}
			}
		} else if arr, ok := st["ws"].([][]int); ok {
			for _, p := range arr {
				if len(p) == 2 && p[0] >= 1 && p[0] <= len(se.reqs) {
					ws = append(ws, []int{se.reqs[p[0]-1].id, p[1]})
				}
			}
		}
		se.release(ws, false)
	}
}

// fresh drops ids the daemon has already been told about
func (se *session) fresh(ids []int) []int {
	var out []int
	seen := map[int]bool{}
	for _, id := range ids {
		if !se.announced[id] && !seen[id] {
			out = append(out, id)
			seen[id] = true
		}
	}
	return out
}

// release opens the gates of the listed workers (request id, raw index) that are waiting; slow ones only
// when `final`
func (se *session) release(ws [][]int, final bool) {
	var keys []wkey
	var logged [][]int
	exe := "match"
	se.ex.mu.Lock()
	seen := map[wkey]bool{}
	for _, p := range ws {
		j, ok := se.byID[p[0]]
		if !ok || p[1] < 1 || p[1] > len(se.reqs[j].raws) {
			continue
		}
		k := wkey{p[0], int(se.reqs[j].raws[p[1]-1].ExternalID)}
		if _, waiting := se.ex.atGate[k]; !waiting || seen[k] {
			continue
		}
		if se.ex.outcome[k].Kind == "slow" && !final {
			continue
		}
		seen[k] = true
		keys = append(keys, k)
		logged = append(logged, []int{p[0], p[1]})
		if !se.ex.exeOK[k] {
			exe = "mismatch"
		}
	}
	se.ex.mu.Unlock()
	if len(keys) == 0 {
		return
	}
	a := tf.M{"ws": logged, "exe": exe}
	se.begin("Release", a)
	se.ex.mu.Lock()
	for _, k := range keys {
		close(se.ex.atGate[k])
		delete(se.ex.atGate, k)
	}
	se.ex.mu.Unlock()
	q := waitQuiet()
	se.log("Release", a, tf.M{"quiet": q})
}

// flush: let every remaining executor call return (slow ones last), hand every queued report to the chain
func (se *session) flush() {
	for pass := 0; pass < 2; pass++ {
		for guard := 0; guard < 64; guard++ {
			se.ex.mu.Lock()
			var waiting []wkey
			for k := range se.ex.atGate {
				if pass == 1 || se.ex.outcome[k].Kind != "slow" {
					waiting = append(waiting, k)
				}
			}
			se.ex.mu.Unlock()
			if len(waiting) == 0 {
				break
			}
			sort.Slice(waiting, func(a, b int) bool {
				if waiting[a].rid != waiting[b].rid {
					return waiting[a].rid < waiting[b].rid
				}
				return waiting[a].eid < waiting[b].eid
			})
			k := waiting[0]
			se.release([][]int{{k.rid, se.rawIndex(k)}}, true)
		}
	}
	// a last look after a grace period: anything the daemon does on its own after coming to rest
	time.Sleep(2 * time.Millisecond)
	waitQuiet()
	se.observe()
	for i, m := range se.msgs {
		a := tf.M{"i": i + 1, "rid": int(m.RequestID)}
		se.begin("Deliver", a)
		se.cl.mu.Lock()
		o := se.run.Deliver(m)
		se.cl.mu.Unlock()
		res := tf.M{"ok": o.OK()}
		if o.Err != nil {
			res["err"] = o.Err.Error()
		}
		se.log("Deliver", a, res)
	}
	se.ex.mu.Lock()
	stray := se.ex.stray
	se.ex.mu.Unlock()
	se.log("End", tf.M{}, tf.M{"quiet": waitQuiet(), "stray": stray, "calls": se.callStats()})
	_ = os.RemoveAll(se.cacheDir)
}

func (se *session) callStats() tf.M {
	se.cl.mu.Lock()
	defer se.cl.mu.Unlock()
	n, data := 0, 0
	for k, c := range se.cl.calls {
		n += c
		if strings.HasPrefix(k, "data/") {
			data += c
		}
	}
	return tf.M{"rpc": n, "data": data}
}

// ReadLines parses the protocol lines a child has written so far.
func ReadLines(path string) []tf.M {
	f, err := os.Open(path)
	if err != nil {
		return nil
	}
	defer f.Close()
	var out []tf.M
	sc := bufio.NewScanner(f)
	sc.Buffer(make([]byte, 1<<20), 1<<26)
	for sc.Scan() {
		var m tf.M
		if json.Unmarshal(bytes.TrimSpace(sc.Bytes()), &m) == nil && m != nil {
			out = append(out, m)
		}
	}
	return out
}
