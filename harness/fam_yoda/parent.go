package fam_yoda

import (
	"bytes"
	"context"
	"encoding/json"
	"fmt"
	"os"
	"os/exec"
	"path/filepath"
	"strings"
	"sync"
	"time"

	tf "vdrive/tracefmt"
)

type Stats struct {
	Traces, Events, Interesting int
	Crashed, Tagged, Children   int
	Distinct                    map[string]bool
}

// one recorded scenario, ready to be written as a trace
type recorded struct {
	reset tf.M
	steps []tf.M
}

// CapTagged bounds the number of scenarios whose input triggers the known slice defect (each rejected
// trace costs one more TLC run): beyond the allowance the short executables are made cached.  The
// allowance is spread over the script list.
func CapTagged(scripts []tf.Script) (out []tf.Script, tagged int) {
	total := len(scripts)
	allow := total / 300
	if allow < 4 {
		allow = 4
	}
	for i, sc := range scripts {
		s := ParseScenario(sc.C)
		if s.Tag() != "" {
			if tagged < allow*(i+1)/total+1 && tagged < allow {
				tagged++
			} else {
				s.CacheShort()
				sc = tf.Script{Fam: sc.Fam, C: s.ToM(), Steps: sc.Steps}
			}
		}
		out = append(out, sc)
	}
	return
}

// RunParent plays the scripts in child processes (batches, `par` at a time) and writes the traces.
func RunParent(scripts []tf.Script, W *tf.Writer, par, batch int, capTagged bool) Stats {
	st := Stats{Distinct: map[string]bool{}}
	if capTagged {
		scripts, st.Tagged = CapTagged(scripts)
	}
	exe, err := os.Executable()
	if err != nil {
		panic(err)
	}
	tmp, err := os.MkdirTemp("", "vdrive-yoda-parent-")
	if err != nil {
		panic(err)
	}
	defer os.RemoveAll(tmp)
	var batches [][]tf.Script
	for i := 0; i < len(scripts); i += batch {
		j := i + batch
		if j > len(scripts) {
			j = len(scripts)
		}
		batches = append(batches, scripts[i:j])
	}
	results := make([][]recorded, len(batches))
	children := make([]int, len(batches))
	var wg sync.WaitGroup
	sem := make(chan struct{}, par)
	var failMu sync.Mutex
	var fail error
	for bi := range batches {
		wg.Add(1)
		sem <- struct{}{}
		go func(bi int) {
			defer wg.Done()
			defer func() { <-sem }()
			recs, n, err := runBatch(exe, filepath.Join(tmp, fmt.Sprintf("b%d", bi)), batches[bi])
			if err != nil {
				failMu.Lock()
				if fail == nil {
					fail = err
				}
				failMu.Unlock()
			}
			results[bi] = recs
			children[bi] = n
		}(bi)
	}
	wg.Wait()
	if fail != nil {
		fmt.Fprintln(os.Stderr, "yoda driver:", fail)
		os.Exit(3)
	}
	si := 0
	for bi, recs := range results {
		st.Children += children[bi]
		for _, r := range recs {
			W.Reset(r.reset["c"], r.reset["s"], r.reset["script"])
			st.Traces++
			st.Events++
			for _, s := range r.steps {
				W.Step(tf.Str(s, "e", "?"), s["a"], s["o"], s["s"])
				st.Events++
				if tf.Str(s, "e", "") == "Crashed" {
					st.Crashed++
				}
			}
			if tf.Bool(r.reset, "interesting", false) {
				b, _ := json.Marshal([]interface{}{tf.Sub(r.reset, "c")["wish"], r.reset["script"]})
				h := tf.Script{C: tf.M{"h": string(b)}}.Hash()
				if !st.Distinct[h] {
					st.Distinct[h] = true
					st.Interesting++
				}
			}
			si++
		}
	}
	return st
}

// runBatch runs the scripts in one child; when the child dies inside a scenario the scenario is closed
// with a `Crashed` event and a new child continues with the next script.
func runBatch(exe, base string, scripts []tf.Script) (out []recorded, children int, err error) {
	rest := scripts
	for round := 0; len(rest) > 0; round++ {
		sfile := fmt.Sprintf("%s-r%d.scripts", base, round)
		ofile := fmt.Sprintf("%s-r%d.out", base, round)
		var buf bytes.Buffer
		for _, s := range rest {
			b, _ := json.Marshal(s)
			buf.Write(b)
			buf.WriteByte('\n')
		}
		if err := os.WriteFile(sfile, buf.Bytes(), 0o644); err != nil {
			return out, children, err
		}
		ctx, cancel := context.WithTimeout(context.Background(), time.Duration(120+5*len(rest))*time.Second)
		cmd := exec.CommandContext(ctx, exe, "yoda", "-mode", "child", "-scripts", sfile, "-out", ofile)
		var stderr bytes.Buffer
		cmd.Stderr = &stderr
		cmd.Stdout = nil
		runErr := cmd.Run()
		timedOut := ctx.Err() != nil
		cancel()
		children++
		lines := ReadLines(ofile + ".lines")
		var cur *recorded
		var lastBegin tf.M
		done := 0
		for _, ln := range lines {
			switch tf.Str(ln, "k", "") {
			case "reset":
				cur = &recorded{reset: ln}
				lastBegin = nil
			case "begin":
				lastBegin = ln
			case "step":
				if cur != nil {
					cur.steps = append(cur.steps, ln)
				}
				lastBegin = nil
			case "end":
				if cur != nil {
					out = append(out, *cur)
					done++
				}
				cur = nil
			}
		}
		if runErr == nil && cur == nil && done == len(rest) {
			return out, children, nil
		}
		if timedOut {
			return out, children, fmt.Errorf("child timed out (script %d of batch %s)", done, base)
		}
		if cur == nil || lastBegin == nil {
			// died outside a daemon step: a defect of the harness, not of the daemon
			return out, children, fmt.Errorf("child failed outside a scenario step (%v):\n%s", runErr, tailStr(stderr.String(), 3000))
		}
		msg, daemon := classifyPanic(stderr.String())
		if !daemon {
			return out, children, fmt.Errorf("child died in harness code (%v):\n%s", runErr, tailStr(stderr.String(), 3000))
		}
		a := tf.M{"during": tf.M{"e": lastBegin["e"], "a": lastBegin["a"]}}
		if t := tf.Str(cur.reset, "tag", ""); t != "" {
			a["tag"] = t
		}
		last := cur.reset["s"]
		if n := len(cur.steps); n > 0 {
			last = cur.steps[n-1]["s"]
		}
		cur.steps = append(cur.steps, tf.M{"e": "Crashed", "a": a, "o": tf.M{"panic": msg}, "s": last})
		out = append(out, *cur)
		rest = rest[done+1:]
	}
	return out, children, nil
}

func tailStr(s string, n int) string {
	if len(s) > n {
		return s[len(s)-n:]
	}
	return s
}

// classifyPanic extracts the panic message and tells whether the panicking goroutine was running daemon code.
func classifyPanic(stderr string) (msg string, daemon bool) {
	i := strings.Index(stderr, "panic: ")
	if i < 0 {
		i = strings.Index(stderr, "fatal error: ")
		if i < 0 {
			return tailStr(stderr, 200), false
		}
	}
	rest := stderr[i:]
	msg = rest
	if j := strings.IndexByte(rest, '\n'); j >= 0 {
		msg = rest[:j]
	}
	// the first goroutine block after the message is the panicking one
	blocks := strings.Split(rest, "\n\n")
	first := ""
	for _, b := range blocks {
		if strings.HasPrefix(strings.TrimSpace(b), "goroutine ") {
			first = b
			break
		}
	}
	daemon = strings.Contains(first, "chain/v3/yoda.") || strings.Contains(first, "chain/v3/yoda/")
	return msg, daemon
}
