// Package fam_yoda drives the real request handling of the yoda daemon (yoda/handler.go, execute.go)
// through the verif hook yoda/export_verif.go: real oracle requests on the in-process chain, an RPC
// client answered from that chain (with failure injection), an executor whose calls block on gates so
// that the driver fixes the order of completions, and the produced MsgReportData delivered to the real
// chain.  Every scenario runs in a child process (a panic in a daemon goroutine kills the process).
// Verdicts are TLC's (Yoda_Trace.tla), not this package's.
package fam_yoda

import (
	"math/rand"

	tf "vdrive/tracefmt"
)

// Always is the failure budget "every call fails" (a persistent failure).
const Always = 99

// Lens are the executable lengths of the data-source pool (DESIGN C19); the first one is used by the
// fixed-shape oracle scripts (ok3 / ok1 ask data sources 1,2,3).
var Lens = []int{1000, 1, 5, 24, 25, 31, 32, 33}

const Copies = 4 // abstract data sources per scenario (each length exists in this many distinct copies)
const NDS = 4
const NReq = 3

// ExecOutcome is what the fake executor returns for one raw request.
type ExecOutcome struct {
	Kind string // ok | nonZero | error | slow
	Code int
	Out  int
}

// ReqWish describes one request of a scenario (script index j = position+1).
type ReqWish struct {
	Want  string // me | other | absent
	Shape string // w4 | ok3 | ok1
	Raws  []int  // abstract data source (1..NDS) per raw request
	FReq  int
	Tx    int // >0: created together with the other requests of this group in one transaction
	Exec  []ExecOutcome
}

type DSWish struct {
	Len    int
	Cached bool
	// Damaged: the cache directory holds a truncated file under the executable's hash (never together with Cached)
	Damaged bool
	FHash   int
	FData   int
}

type Scenario struct {
	NVal   int
	MaxTry int
	RawP   bool // take the start-up list exactly as scripted (may be an inconsistent snapshot; demonstration only)
	AppErr bool // Data-query failures are application-level (Response.Code != 0, err == nil) instead of transport errors
	Reqs   []ReqWish
	DS     []DSWish
}

func ints(v interface{}) []int {
	var out []int
	if a, ok := v.([]interface{}); ok {
		for _, x := range a {
			switch n := x.(type) {
			case float64:
				out = append(out, int(n))
			case int:
				out = append(out, n)
			}
		}
	}
	if a, ok := v.([]int); ok {
		out = append(out, a...)
	}
	return out
}

func maps(v interface{}) []tf.M {
	var out []tf.M
	switch a := v.(type) {
	case []interface{}:
		for _, x := range a {
			if m, ok := x.(map[string]interface{}); ok {
				out = append(out, m)
			}
		}
	case []tf.M:
		out = a
	}
	return out
}

func clampBudget(f, maxTry int) int {
	if f >= Always {
		return Always
	}
	if f < 0 {
		return 0
	}
	if f > maxTry-1 {
		return maxTry - 1
	}
	return f
}

// ParseScenario reads the constants of a script and normalises them.
func ParseScenario(c tf.M) Scenario {
	// the constants of a recorded trace carry the abstract scenario under "wish" (replays)
	if w, ok := c["wish"].(map[string]interface{}); ok {
		c = w
	}
	s := Scenario{NVal: 4, MaxTry: tf.Int(c, "maxTry", 3), AppErr: tf.Bool(c, "appErr", false), RawP: tf.Bool(c, "rawP", false)}
	if s.MaxTry < 1 {
		s.MaxTry = 1
	}
	for _, d := range maps(c["ds"]) {
		s.DS = append(s.DS, DSWish{
			Len: tf.Int(d, "len", 1000), Cached: tf.Bool(d, "cached", true), Damaged: tf.Bool(d, "dmg", false) && !tf.Bool(d, "cached", true),
			FHash: clampBudget(tf.Int(d, "fHash", 0), s.MaxTry), FData: clampBudget(tf.Int(d, "fData", 0), s.MaxTry),
		})
	}
	for len(s.DS) < NDS {
		s.DS = append(s.DS, DSWish{Len: 1000, Cached: true})
	}
	s.DS = s.DS[:NDS]
	for i := range s.DS {
		ok := false
		for _, l := range Lens {
			if l == s.DS[i].Len {
				ok = true
			}
		}
		if !ok {
			s.DS[i].Len = 1000
		}
	}
	for _, r := range maps(c["reqs"]) {
		w := ReqWish{Want: tf.Str(r, "want", "me"), Shape: tf.Str(r, "shape", "w4"), Raws: ints(r["raws"]),
			FReq: clampBudget(tf.Int(r, "fReq", 0), s.MaxTry), Tx: tf.Int(r, "tx", 0)}
		switch w.Shape {
		case "ok3":
			w.Raws = []int{1, 2, 3}
		case "ok1":
			w.Raws = []int{1}
		default:
			w.Shape = "w4"
		}
		if len(w.Raws) == 0 {
			w.Raws = []int{1}
		}
		if len(w.Raws) > 4 {
			w.Raws = w.Raws[:4]
		}
		for i := range w.Raws {
			if w.Raws[i] < 1 || w.Raws[i] > NDS {
				w.Raws[i] = 1
			}
		}
		ex := maps(r["exec"])
		for i := range w.Raws {
			o := ExecOutcome{Kind: "ok", Code: 0, Out: i + 1}
			if i < len(ex) {
				o = ExecOutcome{Kind: tf.Str(ex[i], "kind", "ok"), Code: tf.Int(ex[i], "code", 0), Out: tf.Int(ex[i], "out", i+1)}
			}
			switch o.Kind {
			case "ok", "slow":
				o.Code = 0
			case "nonZero":
				if o.Code < 1 || o.Code > 254 {
					o.Code = 1
				}
			case "error":
				o.Code, o.Out = 0, 0
			default:
				o.Kind, o.Code = "ok", 0
			}
			w.Exec = append(w.Exec, o)
		}
		if w.Want == "absent" {
			w.Tx = 0
		}
		if w.Shape != "w4" {
			// the fixed-shape scripts ask the genesis data sources 1,2,3 = pool entries of the first length
			for _, d := range w.Raws {
				s.DS[d-1].Len = Lens[0]
			}
		}
		s.Reqs = append(s.Reqs, w)
	}
	if len(s.Reqs) > NReq {
		s.Reqs = s.Reqs[:NReq]
	}
	return s
}

// ToM is the inverse of ParseScenario (the script as it is run, recorded in the Reset line).
func (s Scenario) ToM() tf.M {
	var reqs, ds []tf.M
	for _, r := range s.Reqs {
		var ex []tf.M
		for _, o := range r.Exec {
			ex = append(ex, tf.M{"kind": o.Kind, "code": o.Code, "out": o.Out})
		}
		reqs = append(reqs, tf.M{"want": r.Want, "shape": r.Shape, "raws": r.Raws, "fReq": r.FReq, "tx": r.Tx, "exec": ex})
	}
	for _, d := range s.DS {
		ds = append(ds, tf.M{"len": d.Len, "cached": d.Cached, "dmg": d.Damaged, "fHash": d.FHash, "fData": d.FData})
	}
	m := tf.M{"maxTry": s.MaxTry, "reqs": reqs, "ds": ds}
	if s.AppErr {
		m["appErr"] = true
	}
	if s.RawP {
		m["rawP"] = true
	}
	return m
}

// ShortBound: on the fetch path GetExecutable slices resValue[:32]; a freshly unmarshalled byte slice of
// fewer than 25 bytes has a capacity below 32 (allocator size classes 8/16/24).
const ShortBound = 25

// Tag classifies the INPUT of a scenario: "short-uncached-executable" when a request that selects the
// validator and whose lookups succeed has a raw request whose data source is not in the daemon's cache,
// can be fetched, and is shorter than ShortBound bytes.
func (s Scenario) Tag() string {
	for _, r := range s.Reqs {
		if r.Want != "me" || r.FReq == Always {
			continue
		}
		lookups := true
		for _, d := range r.Raws {
			if s.DS[d-1].FHash == Always {
				lookups = false
			}
		}
		if !lookups {
			continue
		}
		for _, d := range r.Raws {
			w := s.DS[d-1]
			if s.AppErr && !w.Cached && w.FData != 0 {
				return "app-error-data-query" // opt-in injection (-mode applevel), see RandomScript
			}
			if !w.Cached && w.FData != Always && w.Len < ShortBound {
				return "short-uncached-executable"
			}
		}
	}
	return ""
}

// Interesting (DESIGN Appendix A): at least two raw requests in some request, or any injected failure.
func (s Scenario) Interesting() bool {
	for _, r := range s.Reqs {
		if r.Want == "absent" {
			continue
		}
		if len(r.Raws) >= 2 || r.FReq != 0 {
			return true
		}
		for _, o := range r.Exec {
			if o.Kind == "error" || o.Kind == "nonZero" {
				return true
			}
		}
	}
	for _, d := range s.DS {
		if d.FHash != 0 || d.FData != 0 {
			return true
		}
	}
	return false
}

// CacheShort makes every short data source cached (used to bound the number of scenarios that hit the
// known slice defect, see parent.go).
func (s *Scenario) CacheShort() {
	for i := range s.DS {
		if s.DS[i].Len < ShortBound {
			s.DS[i].Cached = true
			s.DS[i].Damaged = false
		}
	}
}

func pick(rng *rand.Rand, xs ...int) int { return xs[rng.Intn(len(xs))] }

// RandomScript makes one abstract scenario with its schedule.
func RandomScript(rng *rand.Rand, mode string) tf.Script {
	maxTry := pick(rng, 1, 2, 3, 3, 5)
	budget := func(pFail int) int {
		x := rng.Intn(100)
		switch {
		case x < pFail:
			return Always
		case x < 3*pFail && maxTry > 1:
			return 1 + rng.Intn(maxTry-1) // transient, up to maxTry-1 failing calls
		}
		return 0
	}
	s := Scenario{MaxTry: maxTry, AppErr: mode == "applevel" && rng.Intn(2) == 0}
	for d := 0; d < NDS; d++ {
		l := Lens[rng.Intn(len(Lens))]
		cached := rng.Intn(2) == 0
		if l < ShortBound && rng.Intn(100) < 85 {
			cached = true // keep most scenarios away from the (known) crash of short fetched executables
		}
		s.DS = append(s.DS, DSWish{Len: l, Cached: cached, Damaged: !cached && l >= ShortBound && rng.Intn(4) == 0, FHash: budget(5), FData: budget(12)})
	}
	nreq := pick(rng, 1, 1, 2, 2, 2, 3)
	txMode := rng.Intn(4) == 0
	for j := 0; j < nreq; j++ {
		w := ReqWish{Want: "me", Shape: "w4", FReq: budget(5)}
		if x := rng.Intn(10); x == 0 {
			w.Want = "other"
		} else if x == 1 && !txMode {
			w.Want = "absent"
		}
		switch rng.Intn(8) {
		case 0:
			w.Shape = "ok3"
		case 1:
			w.Shape = "ok1"
		}
		n := 1 + rng.Intn(4)
		for k := 0; k < n; k++ {
			w.Raws = append(w.Raws, 1+rng.Intn(NDS))
		}
		if w.Shape == "ok3" {
			w.Raws = []int{1, 2, 3}
		} else if w.Shape == "ok1" {
			w.Raws = []int{1}
		}
		for k := range w.Raws {
			o := ExecOutcome{Kind: "ok", Out: 1 + rng.Intn(9)}
			switch x := rng.Intn(10); {
			case x < 2:
				o = ExecOutcome{Kind: "error"}
			case x < 4:
				o = ExecOutcome{Kind: "nonZero", Code: pick(rng, 1, 2, 127, 254, 255), Out: 1 + rng.Intn(9)}
			case x < 5:
				o.Kind = "slow"
			}
			_ = k
			w.Exec = append(w.Exec, o)
		}
		if txMode && w.Want != "absent" {
			w.Tx = 1 + rng.Intn(2)
		}
		s.Reqs = append(s.Reqs, w)
	}
	// schedule
	var steps []tf.M
	if txMode {
		// start-up list: closed under "same transaction" (a real PendingRequests answer is a consistent snapshot)
		inP := map[int]bool{}
		for g := 1; g <= 2; g++ {
			if rng.Intn(2) == 0 {
				inP[g] = true
			}
		}
		var P []int
		for j, r := range s.Reqs {
			if r.Tx > 0 && inP[r.Tx] && r.Want == "me" {
				P = append(P, j+1)
			}
		}
		steps = append(steps, tf.M{"e": "Startup", "P": P})
		order := []int{1, 2}
		if rng.Intn(2) == 0 {
			order = []int{2, 1}
		}
		for _, g := range order {
			steps = append(steps, tf.M{"e": "Tx", "g": g})
			if rng.Intn(2) == 0 {
				steps = append(steps, randomReleases(rng, s, 1+rng.Intn(3))...)
			}
		}
	} else {
		var rest []int
		for j := range s.Reqs {
			rest = append(rest, j+1)
		}
		rng.Shuffle(len(rest), func(a, b int) { rest[a], rest[b] = rest[b], rest[a] })
		for len(rest) > 0 {
			n := 1
			if len(rest) > 1 && rng.Intn(2) == 0 {
				n = 2
			}
			steps = append(steps, tf.M{"e": "Start", "rs": append([]int{}, rest[:n]...)})
			rest = rest[n:]
			if rng.Intn(2) == 0 {
				steps = append(steps, randomReleases(rng, s, 1+rng.Intn(3))...)
			}
		}
	}
	// a full random permutation of all workers (the driver skips the ones not at the gate)
	steps = append(steps, randomReleases(rng, s, 16)...)
	return tf.Script{Fam: "Yoda", C: s.ToM(), Steps: steps}
}

func randomReleases(rng *rand.Rand, s Scenario, n int) []tf.M {
	var all [][]int
	for j, r := range s.Reqs {
		for k := range r.Raws {
			all = append(all, []int{j + 1, k + 1})
		}
	}
	rng.Shuffle(len(all), func(a, b int) { all[a], all[b] = all[b], all[a] })
	var steps []tf.M
	for len(all) > 0 && n > 0 {
		m := 1
		if len(all) > 1 && rng.Intn(4) == 0 {
			m = 2
		}
		steps = append(steps, tf.M{"e": "Release", "ws": all[:m]})
		all = all[m:]
		n--
	}
	return steps
}
