package fam_restake

import (
	"math/rand"

	tf "vdrive/tracefmt"
)

func pick(rng *rand.Rand, xs ...int) int { return xs[rng.Intn(len(xs))] }

// valRole: a validator by index, or (0) the one holding the account's largest delegation
func valRole(rng *rand.Rand) int {
	if rng.Intn(5) < 3 {
		return 0
	}
	return 1 + rng.Intn(3)
}

func subsetOfDenoms(rng *rand.Rand) []string {
	return [][]string{{"d1"}, {"d1", "d2"}, {"d2"}, {}, {"d1", "d2"}, {"d1"}}[rng.Intn(6)]
}

func randConsts(rng *rand.Rand, allowed []string) tf.M {
	minI := 1 + rng.Intn(3)
	return tf.M{
		"allowed": allowed, "maxFeeds": pick(rng, 1, 2, 2, 3, 3, 4), "step": pick(rng, 1, 2, 3, 5),
		"minI": minI, "maxI": minI + rng.Intn(12), "upd": pick(rng, 1, 2, 2, 3),
	}
}

// amountStep fills n or sym.
func amountStep(rng *rand.Rand, m tf.M, syms []string, symPct int) tf.M {
	if rng.Intn(100) < symPct {
		m["sym"] = syms[rng.Intn(len(syms))]
	} else {
		m["n"] = 1 + rng.Intn(4)
	}
	return m
}

// RandomScriptC16: restake / staking / lock / vault / denom sequences by three accounts, with amounts
// at the boundaries (exactly the removable amount, one more) and stakes / locks above 2^63.
func RandomScriptC16(rng *rand.Rand) tf.Script {
	allowed := [][]string{{"d1"}, {"d1", "d2"}, {"d1", "d2"}, {"d2"}}[rng.Intn(4)]
	c := randConsts(rng, allowed)
	c["maxFeeds"] = 3
	// MinSelfDelegation of v1 (self-delegation 3 units = 30000) and v2 (2 units = 20000): 1 (only a full removal jails),
	// just below / at the self-delegation, or a whole unit below it
	c["msd"] = []int{pick(rng, 1, 1, 3*RU-2, 3*RU, 2*RU), pick(rng, 1, 1, 2*RU-1, 2*RU, RU), 1}
	opers := rng.Intn(2) == 0 // operator accounts take part
	huge := rng.Intn(3) == 0
	nacct := 1 + rng.Intn(NAcct)
	n := 12 + rng.Intn(22)
	var steps []tf.M
	acct := func() int {
		if opers && rng.Intn(4) == 0 {
			return NAcct + 1 + rng.Intn(NOper)
		}
		return 1 + rng.Intn(nacct)
	}
	vault := func() string { return []string{"k1", "k2", "k1", "feeds"}[rng.Intn(4)] }
	// a prelude that gives every account something to withdraw, so that locks and decreases are possible early
	for a := 1; a <= nacct; a++ {
		if rng.Intn(4) != 0 {
			steps = append(steps, tf.M{"e": "Delegate", "a": a, "v": 1 + rng.Intn(3), "n": 1 + rng.Intn(4)})
		}
		if rng.Intn(4) != 0 {
			steps = append(steps, tf.M{"e": "Stake", "a": a, "d": allowed[rng.Intn(len(allowed))], "n": 1 + rng.Intn(4)})
		}
		if rng.Intn(3) == 0 {
			steps = append(steps, tf.M{"e": "Delegate", "a": a, "v": 1 + rng.Intn(3), "n": 1 + rng.Intn(3)})
		}
	}
	for i := 0; i < n; i++ {
		x := rng.Intn(100)
		switch {
		case x < 4:
			steps = append(steps, tf.M{"e": "SetAllowed", "D": subsetOfDenoms(rng), "twice": rng.Intn(3) == 0})
		case x < 16:
			m := tf.M{"e": "Stake", "a": acct(), "d": []string{"d1", "d2"}[rng.Intn(2)], "n": 1 + rng.Intn(4)}
			if huge && rng.Intn(3) == 0 {
				m["d"] = "d2"
				m["n"] = pick(rng, RH, RH+1, RH+2, 2*RH, RH-1)
			}
			if rng.Intn(25) == 0 {
				m = tf.M{"e": "Stake", "a": acct(), "c": tf.M{"d1": rng.Intn(3), "d2": rng.Intn(3)}}
			}
			steps = append(steps, m)
		case x < 34:
			m := amountStep(rng, tf.M{"e": "Unstake", "a": acct(), "d": []string{"d1", "d2"}[rng.Intn(2)]},
				[]string{"fit", "fit+1", "fit+1", "fit", "slack+1", "fit-1", "all", "all+1"}, 70)
			if huge && rng.Intn(4) == 0 {
				m = tf.M{"e": "Unstake", "a": acct(), "d": "d2", "n": pick(rng, RH, RH+1, 1, 2, RH-2)}
			}
			if rng.Intn(25) == 0 {
				m = tf.M{"e": "Unstake", "a": acct(), "c": tf.M{"d1": rng.Intn(3), "d2": rng.Intn(3)}}
			}
			steps = append(steps, m)
		case x < 45:
			steps = append(steps, tf.M{"e": "Delegate", "a": acct(), "v": 1 + rng.Intn(3), "n": 1 + rng.Intn(4)})
		case x < 61:
			steps = append(steps, amountStep(rng, tf.M{"e": "Undelegate", "a": acct(), "v": valRole(rng)},
				[]string{"fit", "fit+1", "fit+1", "fit", "slack+1", "all", "all", "all+1", "tomsd", "tomsd+1"}, 70))
		case x < 68:
			steps = append(steps, amountStep(rng, tf.M{"e": "Redelegate", "a": acct(), "v": valRole(rng), "w": 1 + rng.Intn(3)},
				[]string{"all", "fit", "fit+1", "all+1", "fit"}, 60))
		case x < 84:
			m := tf.M{"e": "SetLock", "a": acct(), "k": vault()}
			switch y := rng.Intn(10); {
			case y < 4:
				m["sym"] = []string{"power", "power+1", "power-1", "power"}[rng.Intn(4)]
			case y < 5 && huge:
				m["n"] = pick(rng, RH, RH+1, 2*RH, 2*RH+1, RH+3, 2*RH-1)
			case y < 6:
				m["n"] = pick(rng, 0, -1, 0)
			default:
				m["n"] = 1 + rng.Intn(6)
			}
			steps = append(steps, m)
		case x < 89:
			m := tf.M{"e": "Vote", "a": acct(), "sv": []tf.M{{"s": 1 + rng.Intn(NSignal), "p": 1 + rng.Intn(5)}}, "shape": "ok"}
			if y := rng.Intn(4); y == 0 {
				m["sym"] = []string{"power", "power+1"}[rng.Intn(2)]
			} else if y == 1 {
				m["sv"] = []tf.M{}
			}
			steps = append(steps, m)
		case x < 94:
			steps = append(steps, tf.M{"e": "Deactivate", "k": []string{"k1", "k2", "feeds", "k1"}[rng.Intn(4)]})
		case x < 96 && opers:
			steps = append(steps, tf.M{"e": "Unjail", "v": 1 + rng.Intn(NOper)})
		default:
			steps = append(steps, tf.M{"e": "EndBlock"})
		}
	}
	return tf.Script{Fam: "Restake", C: c, Steps: steps}
}

// JailScript: histories around a validator that is jailed in the middle of a block because its operator takes the
// self-delegation below MinSelfDelegation.  The validator keeps status Bonded - and its delegations keep counting
// as power - until the staking end-blocker of that block; afterwards they no longer count.  Operators and other
// delegators hold locks and try partial and full removals in the same block and in later blocks.
func JailScript(rng *rand.Rand) tf.Script { return jailScript(rng, false) }

// JailScriptC07: the same histories for FeedsVote.tla: every lock is a feeds vote of a delegator (no direct SetLock,
// no vault deactivation, operators do not vote), so that "a vote is locked against withdrawal" meets full removals
// from a validator that was jailed earlier in the same block or in an earlier one.
func JailScriptC07(rng *rand.Rand) tf.Script {
	sc := jailScript(rng, true)
	sc.Fam = "FeedsVote"
	return sc
}

func jailScript(rng *rand.Rand, votesOnly bool) tf.Script {
	allowed := [][]string{{"d1"}, {"d1"}, {"d1", "d2"}}[rng.Intn(3)]
	c := randConsts(rng, allowed)
	c["maxFeeds"] = 3
	c["msd"] = []int{pick(rng, 1, 1, 3*RU-2, 3*RU, 2*RU), pick(rng, 1, 1, 2*RU-1, 2*RU, RU), 1}
	var steps []tf.M
	add := func(m tf.M) { steps = append(steps, m) }
	v := 1 + rng.Intn(NOper) // the validator that gets jailed
	op := NAcct + v          // its operator account
	other := NAcct + 1 + (v % NOper)
	ndel := 1 + rng.Intn(NAcct)
	vault := func() string { return []string{"k1", "k2", "feeds"}[rng.Intn(3)] }
	lockOn := func(a int) {
		if votesOnly && a > NAcct {
			return
		}
		if votesOnly || rng.Intn(3) == 0 {
			add(tf.M{"e": "Vote", "a": a, "sv": []tf.M{{"s": 1 + rng.Intn(NSignal), "p": 1}}, "shape": "ok", "sym": "power"})
			return
		}
		m := tf.M{"e": "SetLock", "a": a, "k": vault()}
		switch rng.Intn(5) {
		case 0:
			m["sym"] = "power-1"
		case 1:
			m["n"] = 1 + rng.Intn(3)
		default:
			m["sym"] = "power"
		}
		add(m)
	}
	// delegators put (mostly all of) their power on v
	for a := 1; a <= ndel; a++ {
		add(tf.M{"e": "Delegate", "a": a, "v": v, "n": 1 + rng.Intn(5)})
		if rng.Intn(3) == 0 {
			add(tf.M{"e": "Delegate", "a": a, "v": 1 + rng.Intn(3), "n": 1 + rng.Intn(3)})
		}
		if rng.Intn(4) == 0 {
			add(tf.M{"e": "Stake", "a": a, "d": "d1", "n": 1 + rng.Intn(3)})
		}
		if rng.Intn(5) != 0 {
			lockOn(a)
		}
	}
	if rng.Intn(2) == 0 {
		lockOn(op)
	}
	if rng.Intn(4) == 0 {
		lockOn(other)
	}
	if rng.Intn(3) == 0 {
		add(tf.M{"e": "EndBlock"})
	}
	operatorLeaves := func() {
		m := tf.M{"e": "Undelegate", "a": op, "v": v}
		switch rng.Intn(8) {
		case 0:
			m["sym"] = "tomsd" // stays at MinSelfDelegation: no jailing
		case 1, 2:
			m["sym"] = "tomsd+1" // partial, jails
		case 3:
			m = tf.M{"e": "Redelegate", "a": op, "v": v, "w": 3, "sym": "all"}
		default:
			m["sym"] = "all" // full removal, jails
		}
		add(m)
	}
	delegatorActs := func() {
		a := 1 + rng.Intn(ndel)
		switch rng.Intn(10) {
		case 0:
			add(tf.M{"e": "Undelegate", "a": a, "v": v, "sym": "fit+1"})
		case 1:
			add(tf.M{"e": "Undelegate", "a": a, "v": v, "sym": "fit"})
		case 2:
			add(tf.M{"e": "Redelegate", "a": a, "v": v, "w": 1 + rng.Intn(3), "sym": "all"})
		case 3:
			add(tf.M{"e": "Undelegate", "a": a, "v": v, "n": 1})
		default:
			add(tf.M{"e": "Undelegate", "a": a, "v": v, "sym": "all"})
		}
	}
	rounds := 1 + rng.Intn(3)
	for r := 0; r < rounds; r++ {
		operatorLeaves()
		for i := rng.Intn(3); i > 0; i-- {
			delegatorActs()
		}
		if rng.Intn(3) == 0 {
			operatorLeaves() // the rest of the self-delegation, from the jailed validator
		}
		switch rng.Intn(4) {
		case 0:
			add(tf.M{"e": "EndBlock"})
			delegatorActs()
		case 1:
			add(tf.M{"e": "EndBlock"})
			add(tf.M{"e": "Delegate", "a": op, "v": v, "n": pick(rng, RU, 2*RU, 3*RU)})
			add(tf.M{"e": "Unjail", "v": v})
			add(tf.M{"e": "EndBlock"})
		case 2:
			delegatorActs()
		}
		if rng.Intn(3) == 0 {
			lockOn(1 + rng.Intn(ndel))
		}
		if rng.Intn(5) == 0 && !votesOnly {
			add(tf.M{"e": "Deactivate", "k": vault()})
		}
	}
	add(tf.M{"e": "EndBlock"})
	delegatorActs()
	return tf.Script{Fam: "Restake", C: c, Steps: steps}
}

func randVote(rng *rand.Rand, a int) tf.M {
	k := pick(rng, 0, 1, 1, 2, 2, 3, 3, 4)
	perm := rng.Perm(NSignal)
	sv := []tf.M{}
	for i := 0; i < k; i++ {
		sv = append(sv, tf.M{"s": perm[i] + 1, "p": 1 + rng.Intn(4)})
	}
	m := tf.M{"e": "Vote", "a": a, "sv": sv, "shape": "ok"}
	if k == 0 {
		return m
	}
	switch y := rng.Intn(100); {
	case y < 30:
		m["sym"] = []string{"power", "power+1", "power"}[rng.Intn(3)]
	case y < 34:
		sv[rng.Intn(k)]["p"] = pick(rng, 0, -1)
	case y < 38 && k >= 2:
		sv[1]["s"] = sv[0]["s"]
	case y < 41:
		m["shape"] = []string{"emptyId", "longId"}[rng.Intn(2)]
	case y < 45:
		// near the int64 limit but refused by the code as well: one huge power (alone it exceeds the voter's
		// power, with others the int64 sum is negative), or two powers of 2^62 (the int64 sum is negative)
		if k >= 2 && rng.Intn(2) == 0 {
			sv[0]["p"], sv[1]["p"] = HM/2, HM/2
		} else {
			sv[0]["p"] = pick(rng, HM, HM-1)
		}
	}
	return m
}

// RandomScriptC07: votes, re-votes and empty votes by three voters whose power moves through real staking and
// restake messages; current feeds recomputed every `upd` blocks.
func RandomScriptC07(rng *rand.Rand) tf.Script {
	allowed := [][]string{{"d1"}, {"d1", "d2"}, {"d1"}}[rng.Intn(3)]
	c := randConsts(rng, allowed)
	nacct := 1 + rng.Intn(NAcct)
	acct := func() int { return 1 + rng.Intn(nacct) }
	var steps []tf.M
	for a := 1; a <= nacct; a++ {
		if rng.Intn(2) == 0 {
			steps = append(steps, tf.M{"e": "Delegate", "a": a, "v": 1 + rng.Intn(3), "n": 1 + rng.Intn(8)})
		} else {
			steps = append(steps, tf.M{"e": "Stake", "a": a, "d": allowed[rng.Intn(len(allowed))], "n": 1 + rng.Intn(8)})
		}
	}
	n := 12 + rng.Intn(22)
	for i := 0; i < n; i++ {
		x := rng.Intn(100)
		switch {
		case x < 41:
			steps = append(steps, randVote(rng, acct()))
		case x < 43:
			// another vault takes a lock at (or just below) the voter's whole power and is deactivated later: a dead lock
			// above the feeds lock must not hide it
			a := acct()
			steps = append(steps, tf.M{"e": "SetLock", "a": a, "k": "k1", "sym": []string{"power", "power-1"}[rng.Intn(2)]})
			if rng.Intn(2) == 0 {
				steps = append(steps, tf.M{"e": "Deactivate", "k": "k1"})
			}
		case x < 46:
			// governance changes the feeds parameters between two recomputations
			mi := 1 + rng.Intn(2)
			steps = append(steps, tf.M{"e": "SetPar", "maxFeeds": 1 + rng.Intn(3), "step": 1 + rng.Intn(3), "minI": mi, "maxI": mi + []int{0, 4, 9}[rng.Intn(3)]})
		case x < 64:
			steps = append(steps, tf.M{"e": "EndBlock"})
		case x < 72:
			steps = append(steps, tf.M{"e": "Delegate", "a": acct(), "v": 1 + rng.Intn(3), "n": 1 + rng.Intn(4)})
		case x < 78:
			steps = append(steps, tf.M{"e": "Stake", "a": acct(), "d": []string{"d1", "d2"}[rng.Intn(2)], "n": 1 + rng.Intn(4)})
		case x < 85:
			steps = append(steps, amountStep(rng, tf.M{"e": "Undelegate", "a": acct(), "v": valRole(rng)},
				[]string{"fit", "fit+1", "all"}, 50))
		case x < 92:
			steps = append(steps, amountStep(rng, tf.M{"e": "Unstake", "a": acct(), "d": []string{"d1", "d2"}[rng.Intn(2)]},
				[]string{"fit", "fit+1", "all"}, 50))
		case x < 95:
			steps = append(steps, tf.M{"e": "Redelegate", "a": acct(), "v": valRole(rng), "w": 1 + rng.Intn(3), "n": 1 + rng.Intn(3)})
		default:
			steps = append(steps, tf.M{"e": "SetAllowed", "D": [][]string{{"d1"}, {"d1", "d2"}, {"d2"}, {"d1", "d2"}}[rng.Intn(4)], "twice": rng.Intn(4) == 0})
		}
	}
	steps = append(steps, tf.M{"e": "EndBlock"}, tf.M{"e": "EndBlock"}, tf.M{"e": "EndBlock"})
	return tf.Script{Fam: "FeedsVote", C: c, Steps: steps}
}

// WrapScripts: votes whose int64 sum wraps around to a small non-negative number although their true sum is far
// above the voter's power.  The specification refuses them.
func WrapScripts(rng *rand.Rand) []tf.Script {
	mk := func(maxFeeds int, sv []tf.M, power int) tf.Script {
		c := tf.M{"allowed": []string{"d1"}, "maxFeeds": maxFeeds, "step": 2, "minI": 2, "maxI": 7, "upd": 2}
		a := 1 + rng.Intn(NAcct)
		steps := []tf.M{
			{"e": "Delegate", "a": a, "v": 1 + rng.Intn(3), "n": power},
			{"e": "Vote", "a": a, "sv": []tf.M{{"s": 4, "p": 1}}, "shape": "ok"},
			{"e": "Vote", "a": a, "sv": sv, "shape": "ok"},
			{"e": "EndBlock"}, {"e": "EndBlock"},
		}
		return tf.Script{Fam: "FeedsVote", C: c, Steps: steps}
	}
	return []tf.Script{
		// 2*(2^63-1) + 2 = 2^64 -> 0
		mk(3, []tf.M{{"s": 1, "p": HM}, {"s": 2, "p": HM}, {"s": 3, "p": 2}}, 5),
		// (2^63-1) + (2^63-2) + 3 + x = 2^64 + x -> x <= power
		mk(4, []tf.M{{"s": 1, "p": HM}, {"s": 2, "p": HM - 1}, {"s": 3, "p": 3}, {"s": 4, "p": 1 + rng.Intn(3)}}, 4),
		// 4 * 2^62 = 2^64 -> 0
		mk(4, []tf.M{{"s": 1, "p": HM / 2}, {"s": 2, "p": HM / 2}, {"s": 3, "p": HM / 2}, {"s": 4, "p": HM / 2}}, 3),
	}
}
