// Package fam_restake drives the real x/restake message server and keeper API, the real x/staking
// messages (whose hooks call into x/restake) and the real x/feeds MsgVote / end-blocker with abstract
// scripts, and records after every step the projection of the real stores onto the variables of
// Restake.tla (property C16) and FeedsVote.tla (property C07).  Verdicts are TLC's
// (Restake_Trace.tla / FeedsVote_Trace.tla), not this package's.
//
// Numbers.  Restake amounts (math.Int) are logged as hi*10^8 + mid*10^4 + lo for the real value
// hi*2^63 + mid*10^6 + lo (|mid|, |lo| < 5000, no carries: order and sums are preserved; so 2^63-4 is
// 99999996, 2^64-1 is 199999999 and a self-delegation of 3000000 uband is 30000).  Signal powers (int64) near the int64 limit are logged as the
// order-preserving stand-ins 1000000-j for 2^63-1-j and 500000+j for 2^62+j; everything else as is.
package fam_restake

import (
	"fmt"
	"math"
	"math/big"
	"sort"

	sdkmath "cosmossdk.io/math"
	storetypes "cosmossdk.io/store/types"

	sdk "github.com/cosmos/cosmos-sdk/types"
	authtypes "github.com/cosmos/cosmos-sdk/x/auth/types"
	minttypes "github.com/cosmos/cosmos-sdk/x/mint/types"
	slashingtypes "github.com/cosmos/cosmos-sdk/x/slashing/types"
	stakingtypes "github.com/cosmos/cosmos-sdk/x/staking/types"

	feedstypes "github.com/bandprotocol/chain/v3/x/feeds/types"
	restaketypes "github.com/bandprotocol/chain/v3/x/restake/types"

	tf "vdrive/tracefmt"
	"vdrive/world"
)

const (
	HM       = 1_000_000   // model image of 2^63-1 (signal powers)
	RH       = 100_000_000 // model image of 2^63 (restake amounts)
	RU       = 10_000      // model image of 10^6 uband (one unit of consensus power)
	Digit    = 5000        // bound on |mid| and |lo|
	Sentinel = -9        // a value the model cannot represent (always rejected by TLC)
	NSignal  = 4
	NAcct    = 3 // plain accounts a1..a3
	NOper    = 2 // operator accounts o1, o2 (operators of v1, v2; v3's operator never acts, so v3 always stays bonded)
)

var (
	two63   = new(big.Int).Lsh(big.NewInt(1), 63)
	million = big.NewInt(1_000_000)
	denoms  = map[string]string{"d1": "uband", "d2": "ubig"}
	dnames  = []string{"d1", "d2"}
	vaults  = []string{"feeds", "k1", "k2"}
	sigName = func(i int) string { return fmt.Sprintf("S%d", i) }
)

type Stats struct {
	Traces, Events, Interesting int
	Distinct                    map[string]bool
	Count                       map[string]int
}

type Driver struct {
	w    *world.World
	W    *tf.Writer
	St   Stats
	Mode string // "c16" (default) or "c07": biases the generators and the interesting rule
}

func NewDriver(w *tf.Writer) *Driver {
	return &Driver{W: w, St: Stats{Distinct: map[string]bool{}, Count: map[string]int{}}}
}

func (d *Driver) Close() {
	if d.w != nil {
		d.w.Close()
	}
}

func (d *Driver) world() *world.World {
	if d.w == nil {
		cfg := world.DefaultConfig()
		cfg.NumAccounts = NAcct
		// small validators: 3, 2 and 5 units of consensus power, all of it self-delegated by the operator
		cfg.ValTokens = []int64{3_000_000, 2_000_000, 5_000_000}
		d.w = world.New(cfg)
	}
	return d.w
}

// ---------------------------------------------------------------------------------------------
// number maps

func roundDiv(x, d *big.Int) *big.Int {
	half := new(big.Int).Rsh(d, 1)
	return new(big.Int).Div(new(big.Int).Add(x, half), d) // floor((x + d/2) / d): nearest multiple
}

// toModel maps a restake amount to its model image.
func toModel(x sdkmath.Int) int {
	if x.IsNil() || x.IsNegative() {
		return Sentinel
	}
	b := x.BigInt()
	hi := roundDiv(b, two63)
	r := new(big.Int).Sub(b, new(big.Int).Mul(hi, two63))
	mid := roundDiv(r, million)
	lo := new(big.Int).Sub(r, new(big.Int).Mul(mid, million))
	d := big.NewInt(Digit)
	if !hi.IsInt64() || hi.Int64() > 20 || new(big.Int).Abs(mid).Cmp(d) >= 0 || new(big.Int).Abs(lo).Cmp(d) >= 0 {
		return Sentinel
	}
	return int(hi.Int64())*RH + int(mid.Int64())*RU + int(lo.Int64())
}

func roundDivInt(x, d int) int {
	q := (x + d/2) / d
	if (x+d/2)%d < 0 {
		q--
	}
	return q
}

// toReal maps a model amount to the real restake amount.
func toReal(n int) sdkmath.Int {
	if n < 0 {
		return sdkmath.NewInt(int64(n))
	}
	hi := roundDivInt(n, RH)
	r := n - hi*RH
	mid := roundDivInt(r, RU)
	lo := r - mid*RU
	out := new(big.Int).Mul(big.NewInt(int64(hi)), two63)
	out.Add(out, big.NewInt(int64(mid)*1_000_000+int64(lo)))
	return sdkmath.NewIntFromBigInt(out)
}

// sigReal maps a model signal power to the int64 sent in MsgVote.
func sigReal(p int) int64 {
	switch {
	case p > HM:
		return math.MaxInt64
	case p >= 900_000:
		return math.MaxInt64 - int64(HM-p)
	case p >= 400_000:
		return (int64(1) << 62) + int64(p-500_000)
	}
	return int64(p)
}

// sigModel maps an int64 power read from the feeds stores to its model image.
func sigModel(p int64) int {
	switch {
	case p > math.MaxInt64-100_000:
		return HM - int(math.MaxInt64-p)
	case p >= (int64(1)<<62)-100_000 && p <= (int64(1)<<62)+100_000:
		return 500_000 + int(p-(int64(1)<<62))
	case p >= 400_000 || p < -1000:
		return Sentinel
	}
	return int(p)
}

// ---------------------------------------------------------------------------------------------
// session

type session struct {
	d           *Driver
	w           *world.World
	r           *world.Run
	interesting bool
}

// actors: the plain accounts a1..a3 (indices 1..3) and the operator accounts o1, o2 (indices 4, 5), which hold
// their validator's self-delegation.
func (s *session) actors() []world.Account {
	out := append([]world.Account{}, s.w.Accts[:NAcct]...)
	for i := 0; i < NOper; i++ {
		o := s.w.Vals[i]
		o.Name = fmt.Sprintf("o%d", i+1)
		out = append(out, o)
	}
	return out
}

func (s *session) acct(k int) world.Account {
	as := s.actors()
	n := len(as)
	return as[((k-1)%n+n)%n]
}

// minSelf reads the validator's MinSelfDelegation (model units).
func (s *session) minSelf(v world.Account) int {
	out := 0
	safe(func() {
		if val, err := s.w.App.StakingKeeper.GetValidator(s.r.Ctx, v.ValAddr); err == nil {
			out = toModel(val.MinSelfDelegation)
		}
	})
	return out
}
func (s *session) val(k int) world.Account {
	n := len(s.w.Vals)
	return s.w.Vals[((k-1)%n+n)%n]
}

// valOf resolves the validator role of a step: k >= 1 is the k-th validator, 0 is "the validator on which the
// account has its largest delegation".
func (s *session) valOf(a world.Account, k int) world.Account {
	if k != 0 {
		return s.val(k)
	}
	best, bestN := s.w.Vals[0], -1
	for _, v := range s.w.Vals {
		if n := s.delegOf(a, v); n > bestN {
			best, bestN = v, n
		}
	}
	return best
}

func safe(f func()) (ok bool) {
	defer func() {
		if p := recover(); p != nil {
			ok = false
		}
	}()
	f()
	return true
}

func (s *session) delegOf(a world.Account, v world.Account) int {
	out := Sentinel
	safe(func() {
		ctx := s.r.Ctx
		del, err := s.w.App.StakingKeeper.GetDelegation(ctx, a.Addr, v.ValAddr)
		if err != nil {
			out = 0
			return
		}
		val, err := s.w.App.StakingKeeper.GetValidator(ctx, v.ValAddr)
		if err != nil {
			return
		}
		out = toModel(val.TokensFromShares(del.Shares).TruncateInt())
	})
	return out
}

func (s *session) stakeOf(a world.Account, d string) int {
	out := Sentinel
	safe(func() { out = toModel(s.w.App.RestakeKeeper.GetStake(s.r.Ctx, a.Addr).Coins.AmountOf(denoms[d])) })
	return out
}

func (s *session) powerOf(a world.Account) int {
	out := Sentinel
	safe(func() {
		p, err := s.w.App.RestakeKeeper.GetTotalPower(s.r.Ctx, a.Addr)
		if err == nil {
			out = toModel(p)
		}
	})
	return out
}

func (s *session) lockOf(a world.Account, k string) int {
	out := Sentinel
	safe(func() {
		l, found := s.w.App.RestakeKeeper.GetLock(s.r.Ctx, a.Addr, k)
		if !found {
			out = -1
			return
		}
		out = toModel(l.Power)
	})
	return out
}

func (s *session) vaultOf(k string) string {
	out := "?"
	safe(func() {
		v, found := s.w.App.RestakeKeeper.GetVault(s.r.Ctx, k)
		switch {
		case !found:
			out = "absent"
		case v.IsActive:
			out = "active"
		default:
			out = "inactive"
		}
	})
	return out
}

// maxActiveLock is used only to choose inputs at the boundary, never for a verdict.
func (s *session) maxActiveLock(a world.Account) int {
	m := 0
	for _, k := range vaults {
		if s.vaultOf(k) == "active" {
			if l := s.lockOf(a, k); l > m {
				m = l
			}
		}
	}
	return m
}

func (s *session) allowed() []string {
	out := []string{}
	safe(func() {
		for _, d := range s.w.App.RestakeKeeper.GetParams(s.r.Ctx).AllowedDenoms {
			name := "?" + d
			for _, n := range dnames {
				if denoms[n] == d {
					name = n
				}
			}
			out = append(out, name)
		}
	})
	sort.Strings(out)
	return out
}

func sigIndex(id string) int {
	for i := 1; i <= NSignal; i++ {
		if sigName(i) == id {
			return i
		}
	}
	return 0
}

// project reads the real stores.
func (s *session) project() tf.M {
	ctx := s.r.Ctx
	app := s.w.App
	deleg, stake, lock, lidx, power := tf.M{}, tf.M{}, tf.M{}, tf.M{}, tf.M{}
	vote := tf.M{}
	voteExtra := 0
	for _, a := range s.actors() {
		dm := tf.M{}
		for _, v := range s.w.Vals {
			dm[v.Name] = s.delegOf(a, v)
		}
		deleg[a.Name] = dm
		sm := tf.M{}
		for _, d := range dnames {
			sm[d] = s.stakeOf(a, d)
		}
		stake[a.Name] = sm
		lm := tf.M{}
		for _, k := range vaults {
			lm[k] = s.lockOf(a, k)
		}
		lock[a.Name] = lm
		power[a.Name] = s.powerOf(a)
		// the by-power index exactly as isValidPower iterates it
		entries := []tf.M{}
		if !safe(func() {
			it := storetypes.KVStoreReversePrefixIterator(ctx.KVStore(app.GetKey(restaketypes.StoreKey)), restaketypes.LocksByPowerIndexKey(a.Addr))
			defer it.Close()
			for ; it.Valid(); it.Next() {
				_, p := restaketypes.SplitLockByPowerIndexKey(it.Key())
				entries = append(entries, tf.M{"p": toModel(p), "k": string(it.Value())})
			}
		}) {
			entries = append(entries, tf.M{"p": Sentinel, "k": "?"})
		}
		lidx[a.Name] = entries
		// standing vote
		vv := make([]int, NSignal)
		if !safe(func() {
			for _, sg := range app.FeedsKeeper.GetVote(ctx, a.Addr) {
				if i := sigIndex(sg.ID); i > 0 && vv[i-1] == 0 {
					vv[i-1] = sigModel(sg.Power)
				} else {
					voteExtra++
				}
			}
		}) {
			voteExtra = Sentinel
		}
		vote[a.Name] = vv
	}
	vault := tf.M{}
	for _, k := range vaults {
		vault[k] = s.vaultOf(k)
	}
	// validators whose status is Bonded (their delegations count in GetDelegatorBonded), and the jailed ones
	bonded, jailed := []string{}, []string{}
	for _, v := range s.w.Vals {
		safe(func() {
			val, err := app.StakingKeeper.GetValidator(ctx, v.ValAddr)
			if err != nil {
				return
			}
			if val.IsBonded() {
				bonded = append(bonded, v.Name)
			}
			if val.IsJailed() {
				jailed = append(jailed, v.Name)
			}
		})
	}
	modBal := tf.M{}
	for _, d := range dnames {
		v := Sentinel
		safe(func() {
			v = toModel(app.BankKeeper.GetBalance(ctx, authtypes.NewModuleAddress(restaketypes.ModuleName), denoms[d]).Amount)
		})
		modBal[d] = v
	}
	total := make([]int, NSignal)
	for i := 1; i <= NSignal; i++ {
		safe(func() {
			if sg, err := app.FeedsKeeper.GetSignalTotalPower(ctx, sigName(i)); err == nil {
				total[i-1] = sigModel(sg.Power)
			}
		})
	}
	idx := []tf.M{}
	if !safe(func() {
		for _, sg := range app.FeedsKeeper.GetSignalTotalPowersByPower(ctx, 1000) {
			idx = append(idx, tf.M{"s": sigIndex(sg.ID), "p": sigModel(sg.Power)})
		}
	}) {
		idx = append(idx, tf.M{"s": 0, "p": Sentinel})
	}
	feeds := []tf.M{}
	lastUpd := Sentinel
	safe(func() {
		cf := app.FeedsKeeper.GetCurrentFeeds(ctx)
		for _, f := range cf.Feeds {
			iv := Sentinel
			if f.Interval >= 0 && f.Interval < 1_000_000 {
				iv = int(f.Interval)
			}
			feeds = append(feeds, tf.M{"s": sigIndex(f.SignalID), "p": sigModel(f.Power), "iv": iv})
		}
		lastUpd = int(cf.LastUpdateBlock)
	})
	par := tf.M{"maxFeeds": Sentinel, "step": 1, "minI": 1, "maxI": 1, "upd": 1}
	safe(func() {
		p := app.FeedsKeeper.GetParams(ctx)
		par = tf.M{"maxFeeds": int(p.MaxCurrentFeeds), "step": int(p.PowerStepThreshold), "minI": int(p.MinInterval),
			"maxI": int(p.MaxInterval), "upd": int(p.CurrentFeedsUpdateInterval)}
	})
	return tf.M{
		"h": int(s.r.Height), "deleg": deleg, "stake": stake, "allowed": s.allowed(), "bonded": bonded, "jailed": jailed, "vault": vault, "lock": lock,
		"lidx": lidx, "modBal": modBal, "power": power,
		"par": par, "vote": vote, "voteExtra": voteExtra, "total": total, "idx": idx, "feeds": feeds, "lastUpd": lastUpd,
	}
}

func outc(o world.Outcome) tf.M {
	m := tf.M{"ok": o.OK()}
	if o.Panic != nil {
		m["panic"] = fmt.Sprint(o.Panic)
	}
	return m
}

// api runs a keeper API call the way a calling module's handler would: atomically.
func (s *session) api(f func(ctx sdk.Context) error) world.Outcome {
	var out world.Outcome
	cctx, write := s.r.Ctx.CacheContext()
	func() {
		defer func() {
			if p := recover(); p != nil {
				out.Panic = p
			}
		}()
		out.Err = f(cctx.WithEventManager(sdk.NewEventManager()))
	}()
	if out.OK() {
		write()
	}
	return out
}

func (s *session) setAllowed(names []string) error {
	var ds []string
	for _, n := range names {
		if d, ok := denoms[n]; ok {
			ds = append(ds, d)
		}
	}
	return s.w.App.RestakeKeeper.SetParams(s.r.Ctx, restaketypes.Params{AllowedDenoms: ds})
}

func strList(m tf.M, k string) []string {
	out := []string{}
	if l, ok := m[k].([]interface{}); ok {
		for _, x := range l {
			if sx, ok := x.(string); ok {
				out = append(out, sx)
			}
		}
	}
	if l, ok := m[k].([]string); ok {
		out = append(out, l...)
	}
	sort.Strings(out)
	return out
}

// RunScript plays one script and records its trace.
func (d *Driver) RunScript(sc tf.Script) {
	w := d.world()
	s := &session{d: d, w: w, r: w.Branch()}
	app := w.App
	ctx := s.r.Ctx

	// ---- environment of this trace (not the subject of the family) ----
	sp, err := app.StakingKeeper.GetParams(ctx)
	if err != nil {
		panic(err)
	}
	sp.MaxEntries = 1000 // the unbonding / redelegation entry limit must never be what stops a step
	if err := app.StakingKeeper.SetParams(ctx, sp); err != nil {
		panic(err)
	}
	allowed := []string{"d1"}
	if _, ok := sc.C["allowed"]; ok {
		allowed = strList(sc.C, "allowed")
	}
	if err := s.setAllowed(allowed); err != nil {
		panic(err)
	}
	fp := app.FeedsKeeper.GetParams(ctx)
	fp.MaxCurrentFeeds = uint64(tf.Int(sc.C, "maxFeeds", 3))
	fp.PowerStepThreshold = int64(tf.Int(sc.C, "step", 2))
	fp.MinInterval = int64(tf.Int(sc.C, "minI", 2))
	fp.MaxInterval = int64(tf.Int(sc.C, "maxI", 7))
	fp.CurrentFeedsUpdateInterval = int64(tf.Int(sc.C, "upd", 2))
	if err := app.FeedsKeeper.SetParams(ctx, fp); err != nil {
		panic(err)
	}
	// MinSelfDelegation of the validators (model units; default 1: only the full removal of the self-delegation jails)
	msd := []int{1, 1, 1}
	if l, ok := sc.C["msd"].([]interface{}); ok {
		for i := range msd {
			if i < len(l) {
				if f, ok := l[i].(float64); ok {
					msd[i] = int(f)
				}
			}
		}
	}
	if l, ok := sc.C["msd"].([]int); ok {
		copy(msd, l)
	}
	for i, v := range w.Vals {
		val, err := app.StakingKeeper.GetValidator(ctx, v.ValAddr)
		if err != nil {
			panic(err)
		}
		val.MinSelfDelegation = toReal(msd[i])
		if err := app.StakingKeeper.SetValidator(ctx, val); err != nil {
			panic(err)
		}
	}
	// a high-supply second denom: 3 * 2^63 + 2000 ubig per actor (the sum of all stakes stays below 2^31 model units)
	big8 := sdkmath.NewIntFromBigInt(new(big.Int).Add(new(big.Int).Mul(big.NewInt(3), two63), big.NewInt(2000)))
	for _, a := range s.actors() {
		coins := sdk.NewCoins(sdk.NewCoin(denoms["d2"], big8))
		if err := app.BankKeeper.MintCoins(ctx, minttypes.ModuleName, coins); err != nil {
			panic(err)
		}
		if err := app.BankKeeper.SendCoinsFromModuleToAccount(ctx, minttypes.ModuleName, a.Addr, coins); err != nil {
			panic(err)
		}
	}
	s.r.BeginBlock(1) // h = 2
	d.W.Reset(sc.C, s.project(), sc.Steps)
	d.St.Traces++
	d.St.Events++
	for _, step := range sc.Steps {
		s.apply(step)
		d.St.Events++
	}
	if s.interesting {
		h := sc.Hash()
		if !d.St.Distinct[h] {
			d.St.Distinct[h] = true
			d.St.Interesting++
		}
	}
}

func (s *session) count(e string, o world.Outcome) {
	k := e + ":rej"
	if o.OK() {
		k = e + ":ok"
	}
	s.d.St.Count[k]++
}

// amount resolves "n" (a number) or "sym" (a boundary relative to the real state) of a step.
func (s *session) amount(step tf.M, a world.Account, have int) int {
	return s.amountV(step, a, have, nil)
}

func (s *session) amountV(step tf.M, a world.Account, have int, v *world.Account) int {
	sym := tf.Str(step, "sym", "")
	slack := s.powerOf(a) - s.maxActiveLock(a)
	n := tf.Int(step, "n", 1)
	switch sym {
	case "slack":
		n = slack
	case "slack+1":
		n = slack + 1
	case "slack-1":
		n = slack - 1
	case "fit", "fit+1", "fit-1": // the largest amount that can be taken out: bounded by the holding and by the locks
		n = slack
		if have < n {
			n = have
		}
		if sym == "fit+1" {
			n++
		} else if sym == "fit-1" {
			n--
		}
	case "all":
		n = have
	case "all+1":
		n = have + 1
	case "tomsd", "tomsd+1": // down to exactly the validator's MinSelfDelegation (no jailing) / one below it (jails)
		n = have
		if v != nil {
			n = have - s.minSelf(*v)
		}
		if sym == "tomsd+1" {
			n++
		}
	}
	if sym != "" && n <= 0 {
		n = 1
	}
	return n
}

func (s *session) apply(step tf.M) {
	app := s.w.App
	c16 := s.d.Mode != "c07"
	e := tf.Str(step, "e", "")
	switch e {
	case "SetAllowed":
		names := strList(step, "D")
		if tf.Bool(step, "twice", false) && len(names) > 0 {
			// the governance message itself (MsgUpdateParams through the router, ValidateBasic included) with a list that
			// names its first denom twice: allowed_denoms is a SET in the model - either the list is refused or the
			// repeated name counts once (the "power" observation of the sync step decides)
			var ds []string
			for _, n := range append(append([]string{}, names...), names[0]) {
				if d, ok := denoms[n]; ok {
					ds = append(ds, d)
				}
			}
			o := s.r.Deliver(&restaketypes.MsgUpdateParams{Authority: app.RestakeKeeper.GetAuthority(), Params: restaketypes.Params{AllowedDenoms: ds}})
			s.d.W.Step("SetAllowed", tf.M{"D": names, "twice": true}, outc(o), s.project())
			break
		}
		err := s.setAllowed(names)
		s.d.W.Step("SetAllowed", tf.M{"D": names}, tf.M{"ok": err == nil}, s.project())
	case "Stake", "Unstake":
		a := s.acct(tf.Int(step, "a", 1))
		c := tf.M{"d1": 0, "d2": 0}
		if cm := tf.Sub(step, "c"); len(cm) > 0 {
			c["d1"], c["d2"] = tf.Int(cm, "d1", 0), tf.Int(cm, "d2", 0)
		} else {
			dn := tf.Str(step, "d", "d1")
			if dn == "max" { // the denom of which the account has staked most
				dn = "d1"
				if s.stakeOf(a, "d2") > s.stakeOf(a, "d1") {
					dn = "d2"
				}
			}
			if _, ok := denoms[dn]; !ok {
				dn = "d1"
			}
			c[dn] = s.amount(step, a, s.stakeOf(a, dn))
		}
		coins := sdk.Coins{}
		for _, dn := range dnames {
			if n := c[dn].(int); n != 0 {
				coins = coins.Add(sdk.NewCoin(denoms[dn], toReal(n)))
			}
		}
		var o world.Outcome
		if e == "Stake" {
			o = s.r.Deliver(restaketypes.NewMsgStake(a.Addr, coins))
		} else {
			o = s.r.Deliver(restaketypes.NewMsgUnstake(a.Addr, coins))
			if c16 && !o.OK() {
				s.interesting = true
			}
		}
		s.count(e, o)
		s.d.W.Step(e, tf.M{"a": a.Name, "c": c}, outc(o), s.project())
	case "Delegate", "Undelegate":
		a := s.acct(tf.Int(step, "a", 1))
		v := s.valOf(a, tf.Int(step, "v", 1))
		n := s.amountV(step, a, s.delegOf(a, v), &v)
		coin := sdk.Coin{Denom: "uband", Amount: toReal(n)}
		var o world.Outcome
		if e == "Delegate" {
			o = s.r.Deliver(stakingtypes.NewMsgDelegate(a.Addr.String(), v.ValAddr.String(), coin))
		} else {
			o = s.r.Deliver(stakingtypes.NewMsgUndelegate(a.Addr.String(), v.ValAddr.String(), coin))
			if c16 && !o.OK() {
				s.interesting = true
			}
		}
		s.count(e, o)
		s.d.W.Step(e, tf.M{"a": a.Name, "v": v.Name, "n": n}, outc(o), s.project())
	case "Redelegate":
		a, w := s.acct(tf.Int(step, "a", 1)), s.val(tf.Int(step, "w", 2))
		v := s.valOf(a, tf.Int(step, "v", 1))
		n := s.amountV(step, a, s.delegOf(a, v), &v)
		coin := sdk.Coin{Denom: "uband", Amount: toReal(n)}
		o := s.r.Deliver(stakingtypes.NewMsgBeginRedelegate(a.Addr.String(), v.ValAddr.String(), w.ValAddr.String(), coin))
		if c16 && !o.OK() {
			s.interesting = true
		}
		s.count(e, o)
		s.d.W.Step(e, tf.M{"a": a.Name, "v": v.Name, "w": w.Name, "n": n}, outc(o), s.project())
	case "SetLock":
		a := s.acct(tf.Int(step, "a", 1))
		k := tf.Str(step, "k", "k1")
		n := tf.Int(step, "n", 1)
		switch tf.Str(step, "sym", "") {
		case "power":
			n = s.powerOf(a)
		case "power+1":
			n = s.powerOf(a) + 1
		case "power-1":
			n = s.powerOf(a) - 1
		}
		o := s.api(func(ctx sdk.Context) error { return app.RestakeKeeper.SetLockedPower(ctx, a.Addr, k, toReal(n)) })
		if c16 && o.OK() {
			s.interesting = true
		}
		s.count(e, o)
		s.d.W.Step(e, tf.M{"a": a.Name, "k": k, "n": n}, outc(o), s.project())
	case "Deactivate":
		k := tf.Str(step, "k", "k1")
		o := s.api(func(ctx sdk.Context) error { return app.RestakeKeeper.DeactivateVault(ctx, k) })
		s.count(e, o)
		s.d.W.Step(e, tf.M{"k": k}, outc(o), s.project())
	case "Vote":
		s.vote(step)
	case "Unjail":
		// environment: slashing.MsgUnjail by the operator (succeeds once the self-delegation is back at MinSelfDelegation);
		// the validator re-enters the bonded set at the next end of block
		v := s.val(tf.Int(step, "v", 1))
		o := s.r.Deliver(slashingtypes.NewMsgUnjail(v.ValAddr.String()))
		s.count(e, o)
		s.d.W.Step("Unjail", tf.M{"v": v.Name}, outc(o), s.project())
	case "SetPower":
		// GEN role of FeedsVote.tla: move the voter's total power towards p with one real message
		a := s.acct(tf.Int(step, "a", 1))
		p, cur := tf.Int(step, "p", 0), s.powerOf(a)
		switch {
		case p > cur && (p+cur)%2 == 0:
			s.apply(tf.M{"e": "Delegate", "a": tf.Int(step, "a", 1), "v": 1 + p%3, "n": p - cur})
		case p > cur:
			s.apply(tf.M{"e": "Stake", "a": tf.Int(step, "a", 1), "d": "d1", "n": p - cur})
		case p < cur:
			// take it from the largest holding
			best, bestN := tf.M{"e": "Unstake", "d": "d1"}, s.stakeOf(a, "d1")
			for i, v := range s.w.Vals {
				if n := s.delegOf(a, v); n > bestN {
					best, bestN = tf.M{"e": "Undelegate", "v": i + 1}, n
				}
			}
			best["a"] = tf.Int(step, "a", 1)
			best["n"] = cur - p
			s.apply(best)
		}
	case "SetPar":
		// environment of FeedsVote.tla: governance changes the feeds parameters (real MsgUpdateParams); the update
		// interval stays
		fp := app.FeedsKeeper.GetParams(s.r.Ctx)
		fp.MaxCurrentFeeds = uint64(tf.Int(step, "maxFeeds", int(fp.MaxCurrentFeeds)))
		fp.PowerStepThreshold = int64(tf.Int(step, "step", int(fp.PowerStepThreshold)))
		fp.MinInterval = int64(tf.Int(step, "minI", int(fp.MinInterval)))
		fp.MaxInterval = int64(tf.Int(step, "maxI", int(fp.MaxInterval)))
		o := s.r.Deliver(&feedstypes.MsgUpdateParams{Authority: app.FeedsKeeper.GetAuthority(), Params: fp})
		if !o.OK() {
			panic(fmt.Sprint("SetPar failed: ", o.Err, o.Panic))
		}
		s.d.W.Step("SetPar", tf.M{"maxFeeds": int(fp.MaxCurrentFeeds), "step": int(fp.PowerStepThreshold), "minI": int(fp.MinInterval),
			"maxI": int(fp.MaxInterval)}, outc(o), s.project())
	case "EndBlock":
		o := s.r.EndBlock()
		ob := s.r.BeginBlock(1)
		s.d.W.Step("EndBlock", tf.M{}, tf.M{"ok": o.OK() && ob.OK()}, s.project())
	default:
		panic("unknown step " + fmt.Sprint(step))
	}
}

// vote sends MsgVote.  sv: list of {s, p}; p may be replaced for one entry by sym "power" / "power+1"
// (the entry that makes the sum hit the voter's total power exactly / exceed it by one).
func (s *session) vote(step tf.M) {
	c16 := s.d.Mode != "c07"
	a := s.acct(tf.Int(step, "a", 1))
	shape := tf.Str(step, "shape", "ok")
	type ent struct{ s, p int }
	var sv []ent
	if l, ok := step["sv"].([]interface{}); ok {
		for _, x := range l {
			if m, ok := x.(map[string]interface{}); ok {
				sv = append(sv, ent{tf.Int(m, "s", 1), tf.Int(m, "p", 1)})
			}
		}
	}
	if l, ok := step["sv"].([]tf.M); ok {
		for _, m := range l {
			sv = append(sv, ent{tf.Int(m, "s", 1), tf.Int(m, "p", 1)})
		}
	}
	if sym := tf.Str(step, "sym", ""); sym != "" && len(sv) > 0 {
		rest := 0
		for _, x := range sv[1:] {
			rest += x.p
		}
		p := s.powerOf(a) - rest
		if sym == "power+1" {
			p++
		}
		if p < 1 {
			p = 1
		}
		sv[0].p = p
	}
	if c16 {
		// from the restake side powers are in restake model units; only those below 2^63 fit a signal power
		for i := range sv {
			if sv[i].p >= RH/2 {
				sv[i].p = 1 + sv[i].p%7
			}
		}
	}
	var sigs []feedstypes.Signal
	logged := []tf.M{}
	sum := new(big.Int)
	for i, x := range sv {
		id := sigName(((x.s-1)%NSignal+NSignal)%NSignal + 1)
		x.s = sigIndex(id)
		if i == 0 {
			switch shape {
			case "emptyId":
				id = ""
			case "longId":
				id = "S12345678901234567890123456789012"
			}
		}
		rp := sigReal(x.p)
		if c16 && x.p > 0 {
			rp = toReal(x.p).Int64()
		}
		x.p = sigModel(rp)
		sigs = append(sigs, feedstypes.NewSignal(id, rp))
		logged = append(logged, tf.M{"s": x.s, "p": x.p})
		sum.Add(sum, big.NewInt(rp))
	}
	if shape != "ok" && len(sv) == 0 {
		shape = "ok"
	}
	args := tf.M{"a": a.Name, "sv": logged, "shape": shape}
	if sum.Cmp(big.NewInt(math.MaxInt64)) > 0 {
		args["tag"] = "vote-sum-wraps-int64"
	}
	had := false
	safe(func() { had = len(s.w.App.FeedsKeeper.GetVote(s.r.Ctx, a.Addr)) > 0 })
	o := s.r.Deliver(feedstypes.NewMsgVote(a.Addr.String(), sigs))
	if c16 {
		if o.OK() {
			s.interesting = true
		}
	} else if !o.OK() || had {
		s.interesting = true
	}
	s.count("Vote", o)
	s.d.W.Step("Vote", args, outc(o), s.project())
}

// WrapTagged says whether a script contains a vote whose true sum exceeds the int64 range (such
// scripts are played last, see cmd/vdrive/fam_restake.go).
func WrapTagged(sc tf.Script) bool {
	for _, st := range sc.Steps {
		if tf.Str(st, "e", "") != "Vote" {
			continue
		}
		sum := new(big.Int)
		add := func(m map[string]interface{}) { sum.Add(sum, big.NewInt(sigReal(tf.Int(m, "p", 1)))) }
		if l, ok := st["sv"].([]interface{}); ok {
			for _, x := range l {
				if m, ok := x.(map[string]interface{}); ok {
					add(m)
				}
			}
		}
		if l, ok := st["sv"].([]tf.M); ok {
			for _, m := range l {
				add(m)
			}
		}
		if sum.Cmp(big.NewInt(math.MaxInt64)) > 0 {
			return true
		}
	}
	return false
}
