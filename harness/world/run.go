package world

import (
	"fmt"
	"time"

	abci "github.com/cometbft/cometbft/abci/types"
	"github.com/bytecodealliance/wasmtime-go/v20"

	sdk "github.com/cosmos/cosmos-sdk/types"
)

func Wat2Wasm(wat string) []byte {
	wasm, err := wasmtime.Wat2Wasm(wat)
	if err != nil {
		panic(err)
	}
	return wasm
}

// Run is one L1 trace: a branch of the committed base state on which blocks are played through the
// real begin/end blockers and message handlers.
type Run struct {
	W      *World
	Ctx    sdk.Context // block context (branch of base)
	Height int64
	Time   time.Time
	// Votes / proposer used by BeginBlock (default: no votes, proposer val1).
	Votes    []abci.VoteInfo
	Proposer int
	InBlock  bool
	// Fracs, if set, gives every block started with BeginBlock(dt) a sub-second part: the block time is the previous
	// block's whole second + dt seconds + Fracs(height).  Families whose code reads block times in whole seconds only
	// (Unix()) opt in, so that a change that starts comparing full time values shows.
	Fracs func(height int64) time.Duration
}

// FracsFor returns a deterministic sub-second schedule for a trace (seed: any number derived from the script).
func FracsFor(seed uint64) func(int64) time.Duration {
	table := []time.Duration{0, 100 * time.Millisecond, 500 * time.Millisecond, 900 * time.Millisecond, time.Second - time.Nanosecond,
		200 * time.Millisecond, 0, 750 * time.Millisecond}
	return func(h int64) time.Duration {
		x := seed*0x9E3779B97F4A7C15 + uint64(h)*0xBF58476D1CE4E5B9
		x ^= x >> 29
		return table[(x>>7)%uint64(len(table))]
	}
}

// Branch starts a fresh trace from the committed base state.
func (w *World) Branch() *Run {
	ctx, _ := w.Base.CacheContext()
	return &Run{W: w, Ctx: ctx, Height: 1, Time: w.Cfg.GenesisTime}
}

// Outcome of a step.
type Outcome struct {
	Err    error
	Panic  interface{}
	Events []abci.Event
}

func (o Outcome) OK() bool { return o.Err == nil && o.Panic == nil }

// Count returns the number of events of a type.
func (o Outcome) Count(typ string) int {
	n := 0
	for _, e := range o.Events {
		if e.Type == typ {
			n++
		}
	}
	return n
}

// Attrs returns, for each event of the type, the value of the attribute.
func (o Outcome) Attrs(typ, key string) []string {
	var out []string
	for _, e := range o.Events {
		if e.Type != typ {
			continue
		}
		for _, a := range e.Attributes {
			if a.Key == key {
				out = append(out, a.Value)
			}
		}
	}
	return out
}

// BeginBlock advances height and time (dt seconds) and runs the real app.BeginBlocker.
func (r *Run) BeginBlock(dt int64) Outcome {
	if r.Fracs == nil {
		return r.BeginBlockAfter(time.Duration(dt) * time.Second)
	}
	next := r.Time.Truncate(time.Second).Add(time.Duration(dt) * time.Second).Add(r.Fracs(r.Height + 1))
	return r.BeginBlockAfter(next.Sub(r.Time))
}

// BeginBlockAfter is BeginBlock with a block time that need not be a whole number of seconds after the previous one.
func (r *Run) BeginBlockAfter(d time.Duration) Outcome {
	r.Height++
	r.Time = r.Time.Add(d)
	hdr := r.W.BaseHeader
	hdr.Height = r.Height
	hdr.Time = r.Time
	hdr.ProposerAddress = r.W.Vals[r.Proposer].ConsAddress()
	em := sdk.NewEventManager()
	r.Ctx = r.Ctx.WithBlockHeader(hdr).WithHeaderHash(BlockHash(r.Height)).
		WithVoteInfos(r.Votes).WithEventManager(em).WithBlockHeight(r.Height)
	r.InBlock = true
	var out Outcome
	func() {
		defer func() {
			if p := recover(); p != nil {
				out.Panic = p
			}
		}()
		res, err := r.W.App.BeginBlocker(r.Ctx)
		out.Err = err
		out.Events = append(em.Events().ToABCIEvents(), res.Events...)
	}()
	return out
}

// Deliver runs the messages as one transaction: all-or-nothing, through the real msg service
// router (which calls ValidateBasic like baseapp.runMsgs does).
func (r *Run) Deliver(msgs ...sdk.Msg) Outcome {
	em := sdk.NewEventManager()
	txCtx, write := r.Ctx.WithEventManager(em).CacheContext()
	txCtx = txCtx.WithEventManager(em)
	var out Outcome
	func() {
		defer func() {
			if p := recover(); p != nil {
				out.Panic = p
			}
		}()
		for _, m := range msgs {
			if v, ok := m.(interface{ ValidateBasic() error }); ok {
				if err := v.ValidateBasic(); err != nil {
					out.Err = err
					return
				}
			}
			h := r.W.App.MsgServiceRouter().Handler(m)
			if h == nil {
				out.Err = fmt.Errorf("no handler for %T", m)
				return
			}
			if _, err := h(txCtx, m); err != nil {
				out.Err = err
				return
			}
		}
	}()
	if out.OK() {
		write()
		out.Events = em.Events().ToABCIEvents()
	}
	return out
}

// EndBlock runs the real app.EndBlocker.
func (r *Run) EndBlock() Outcome {
	em := sdk.NewEventManager()
	r.Ctx = r.Ctx.WithEventManager(em)
	var out Outcome
	func() {
		defer func() {
			if p := recover(); p != nil {
				out.Panic = p
			}
		}()
		res, err := r.W.App.EndBlocker(r.Ctx)
		out.Err = err
		out.Events = append(em.Events().ToABCIEvents(), res.Events...)
	}()
	r.InBlock = false
	return out
}

// Sub returns a throw-away branch of the current block context (for queries that must not
// disturb state, or for direct keeper calls that are to be rolled back).
func (r *Run) Sub() sdk.Context {
	c, _ := r.Ctx.CacheContext()
	return c
}
