package world

import (
	"crypto/sha256"
	"fmt"
	"time"

	abci "github.com/cometbft/cometbft/abci/types"

	sdk "github.com/cosmos/cosmos-sdk/types"
	"github.com/cosmos/cosmos-sdk/types/tx/signing"
	authsign "github.com/cosmos/cosmos-sdk/x/auth/signing"
)

// Chain is the L2 layer: the world's app driven through the real ABCI entry points
// (FinalizeBlock + Commit) with signed transactions. A World can be used either through L1
// branches or as ONE L2 chain (committing changes the base state).
type Chain struct {
	W      *World
	Height int64
	Time   time.Time
	seq    map[string]uint64 // next sequence per signer within the block being built
	Votes  []abci.VoteInfo
}

// L2 starts the chain after the world's committed block 1.
func (w *World) L2() *Chain {
	return &Chain{W: w, Height: 1, Time: w.Cfg.GenesisTime, seq: map[string]uint64{}}
}

// committedCtx is a read-only view of the last committed state.
func (c *Chain) committedCtx() sdk.Context {
	hdr := c.W.BaseHeader
	hdr.Height = c.Height
	hdr.Time = c.Time
	ctx, _ := c.W.App.NewUncachedContext(false, hdr).CacheContext()
	return ctx
}

// Query gives family code a throw-away context on the last committed state.
func (c *Chain) Query() sdk.Context { return c.committedCtx() }

// StartBlock resets the per-block sequence bookkeeping from committed state.
func (c *Chain) StartBlock() { c.seq = map[string]uint64{} }

// SignTx builds and signs a transaction with the signer's real account number and next sequence.
// gas 0 means a generous default. The sequence is advanced optimistically (like a wallet would).
func (c *Chain) SignTx(signer Account, gas uint64, fee sdk.Coins, msgs ...sdk.Msg) ([]byte, error) {
	app := c.W.App
	ctx := c.committedCtx()
	acc := app.AccountKeeper.GetAccount(ctx, signer.Addr)
	if acc == nil {
		return nil, fmt.Errorf("unknown account %s", signer.Name)
	}
	key := signer.Addr.String()
	seq, ok := c.seq[key]
	if !ok {
		seq = acc.GetSequence()
	}
	if gas == 0 {
		gas = 5_000_000
	}
	txCfg := app.GetTxConfig()
	signMode, err := authsign.APISignModeToInternal(txCfg.SignModeHandler().DefaultMode())
	if err != nil {
		return nil, err
	}
	b := txCfg.NewTxBuilder()
	if err := b.SetMsgs(msgs...); err != nil {
		return nil, err
	}
	b.SetGasLimit(gas)
	b.SetFeeAmount(fee)
	sig := signing.SignatureV2{PubKey: signer.Pub, Data: &signing.SingleSignatureData{SignMode: signMode}, Sequence: seq}
	if err := b.SetSignatures(sig); err != nil {
		return nil, err
	}
	sd := authsign.SignerData{Address: key, ChainID: c.W.Cfg.ChainID, AccountNumber: acc.GetAccountNumber(), Sequence: seq, PubKey: signer.Pub}
	signBytes, err := authsign.GetSignBytesAdapter(ctx, txCfg.SignModeHandler(), signMode, sd, b.GetTx())
	if err != nil {
		return nil, err
	}
	sigBz, err := signer.Priv.Sign(signBytes)
	if err != nil {
		return nil, err
	}
	sig.Data.(*signing.SingleSignatureData).Signature = sigBz
	if err := b.SetSignatures(sig); err != nil {
		return nil, err
	}
	bz, err := txCfg.TxEncoder()(b.GetTx())
	if err != nil {
		return nil, err
	}
	c.seq[key] = seq + 1
	return bz, nil
}

// TxResult is the part of ExecTxResult that must agree between replicas.
type TxResult struct {
	Code    uint32 `json:"code"`
	Space   string `json:"space"`
	GasUsed int64  `json:"gas"`
	Data    string `json:"data"` // hex of sha256(data)
}

// BlockResult is what one replica reports for one block.
type BlockResult struct {
	Height  int64      `json:"h"`
	AppHash string     `json:"apphash"`
	Txs     []TxResult `json:"txs"`
	Err     string     `json:"err"` // "none" | "error" | "panic"
	Detail  string     `json:"detail,omitempty"`
	Events  int        `json:"events"`
}

// RunBlock executes one block through the real FinalizeBlock + Commit. dt = seconds since the
// previous block. A panic or an error return of FinalizeBlock is reported, never propagated.
func (c *Chain) RunBlock(dt int64, txs [][]byte) (res BlockResult, resp *abci.ResponseFinalizeBlock) {
	c.Height++
	c.Time = c.Time.Add(time.Duration(dt) * time.Second)
	res.Height = c.Height
	res.Err = "none"
	func() {
		defer func() {
			if p := recover(); p != nil {
				res.Err = "panic"
				res.Detail = fmt.Sprint(p)
			}
		}()
		var err error
		resp, err = c.W.App.FinalizeBlock(&abci.RequestFinalizeBlock{
			Height: c.Height, Time: c.Time, Hash: BlockHash(c.Height),
			ProposerAddress:   c.W.Vals[0].ConsAddress(),
			Txs:               txs,
			DecidedLastCommit: abci.CommitInfo{Votes: c.Votes},
		})
		if err != nil {
			res.Err = "error"
			res.Detail = err.Error()
			return
		}
		if _, err := c.W.App.Commit(); err != nil {
			res.Err = "error"
			res.Detail = "commit: " + err.Error()
		}
	}()
	if resp != nil {
		res.AppHash = fmt.Sprintf("%x", resp.AppHash)
		res.Events = len(resp.Events)
		for _, t := range resp.TxResults {
			h := sha256.Sum256(t.Data)
			res.Txs = append(res.Txs, TxResult{Code: t.Code, Space: t.Codespace, GasUsed: t.GasUsed, Data: fmt.Sprintf("%x", h[:8])})
		}
	}
	c.StartBlock()
	return res, resp
}
