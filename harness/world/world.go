// Package world wraps a real *band.BandApp with a deterministic genesis and gives the family
// drivers two execution layers over the *real* code:
//
//	L1: handler layer on branched cache contexts (O(1) reset per trace);
//	L2: real FinalizeBlock/Commit (see l2.go).
//
// Nothing in here re-implements chain logic: messages go through app.MsgServiceRouter(), blocks
// through app.BeginBlocker / app.EndBlocker.
package world

import (
	"encoding/json"
	"fmt"
	"os"
	"path/filepath"
	"time"

	abci "github.com/cometbft/cometbft/abci/types"
	cmtproto "github.com/cometbft/cometbft/proto/tendermint/types"
	cmttypes "github.com/cometbft/cometbft/types"

	cosmosdb "github.com/cosmos/cosmos-db"

	"cosmossdk.io/log"
	"cosmossdk.io/math"
	"cosmossdk.io/store/snapshots"
	snapshottypes "cosmossdk.io/store/snapshots/types"

	"github.com/cosmos/cosmos-sdk/baseapp"
	codectypes "github.com/cosmos/cosmos-sdk/codec/types"
	"github.com/cosmos/cosmos-sdk/crypto/keys/secp256k1"
	cryptotypes "github.com/cosmos/cosmos-sdk/crypto/types"
	"github.com/cosmos/cosmos-sdk/testutil/sims"
	sdk "github.com/cosmos/cosmos-sdk/types"
	authtypes "github.com/cosmos/cosmos-sdk/x/auth/types"
	banktypes "github.com/cosmos/cosmos-sdk/x/bank/types"
	slashingtypes "github.com/cosmos/cosmos-sdk/x/slashing/types"
	stakingtypes "github.com/cosmos/cosmos-sdk/x/staking/types"

	band "github.com/bandprotocol/chain/v3/app"
	"github.com/bandprotocol/chain/v3/pkg/filecache"
	"github.com/bandprotocol/chain/v3/testing/testdata"
	oracletypes "github.com/bandprotocol/chain/v3/x/oracle/types"
)

const ChainID = "BANDCHAIN"

// Account is a deterministic test identity.
type Account struct {
	Name    string
	Priv    cryptotypes.PrivKey
	Pub     cryptotypes.PubKey
	Addr    sdk.AccAddress
	ValAddr sdk.ValAddress
	// ConsPub: the consensus key of a validator when it differs from its operator key (Config.DistinctConsKeys)
	ConsPub cryptotypes.PubKey
}

// ConsKey / ConsAddress: the key a validator signs blocks with and the address votes carry.
func (a Account) ConsKey() cryptotypes.PubKey {
	if a.ConsPub != nil {
		return a.ConsPub
	}
	return a.Pub
}
func (a Account) ConsAddress() []byte { return a.ConsKey().Address().Bytes() }

func NewAccount(name string) Account {
	priv := secp256k1.GenPrivKeyFromSecret([]byte("verif-" + name))
	return Account{
		Name: name, Priv: priv, Pub: priv.PubKey(),
		Addr:    sdk.AccAddress(priv.PubKey().Address()),
		ValAddr: sdk.ValAddress(priv.PubKey().Address()),
	}
}

// DataSourceSpec describes a genesis data source (fee is multi-denom).
type DataSourceSpec struct {
	Fee sdk.Coins
	// Treasury index into World.Treasuries.
	Treasury int
	Content  string
}

// Config is the deterministic genesis description.
type Config struct {
	ValTokens   []int64 // tokens (uband) bonded per validator; len = number of validators
	NumAccounts int     // funded user accounts acc0..accN-1
	AccountBal  sdk.Coins
	NumTreasury int
	DataSources []DataSourceSpec
	ExtraDenoms []string // extra denoms minted to every account (same amount as uband balance)
	// GenesisScripts: number of genesis oracle scripts (0 = all of GenesisScriptWasms); a family whose scripts count on
	// "the first free oracle script id" pins it
	GenesisScripts int
	// DistinctConsKeys: validators get a consensus key of their own (as on a live chain), so that operator address and
	// consensus address are different byte strings
	DistinctConsKeys bool
	GenesisTime time.Time
	// Mutate lets a family adjust module genesis (params etc.) before InitChain.
	Mutate func(app *band.BandApp, gs band.GenesisState)
	ChainID string
}

// World is one in-process chain.
type World struct {
	App        *band.BandApp
	Cfg        Config
	Dir        string
	Vals       []Account
	Accts      []Account
	Treasuries []Account
	Owner      Account
	Base       sdk.Context // committed state after block 1
	BaseHeader cmtproto.Header
	names      map[string]string // bech32 -> short name
}

// OracleScript ids installed by genesis.
const (
	ScriptOK3   = 1 // testdata.Wasm1: eids 1,2,3 -> ds 1,2,3 ; returns "test" => SUCCESS
	ScriptFail1 = 2 // asks (eid 1, ds 1); execute returns nothing => FAILURE
	ScriptW4    = 3 // testdata.Wasm4: OBI input (ids, calldata) -> one raw request per id (eid = index)
	ScriptOK1   = 4 // asks (eid 1, ds 1); returns "test" => SUCCESS
	ScriptOKNil = 5 // asks (eid 1, ds 1); returns ZERO bytes (set_return_data with length 0) => SUCCESS with an empty result
	ScriptDesc  = 6 // asks (eid 3, ds 1), (eid 1, ds 2), (eid 2, ds 3) IN THAT ORDER (external ids not ascending); returns "test"
)

const watFail1 = `
(module
	(type $t0 (func))
	(type $t1 (func (param i64 i64 i64 i64)))
	(type $t2 (func (param i64 i64)))
	(import "env" "ask_external_data" (func $ask_external_data (type $t1)))
	(import "env" "set_return_data" (func $set_return_data (type $t2)))
	(func $prepare (export "prepare") (type $t0)
	  i64.const 1
	  i64.const 1
	  i32.const 1024
	  i64.extend_i32_u
	  i64.const 4
	  call $ask_external_data)
	(func $execute (export "execute") (type $t0))
	(table $T0 1 1 funcref)
	(memory $memory (export "memory") 17)
	(data (i32.const 1024) "test"))
`

const watOK1 = `
(module
	(type $t0 (func))
	(type $t1 (func (param i64 i64 i64 i64)))
	(type $t2 (func (param i64 i64)))
	(import "env" "ask_external_data" (func $ask_external_data (type $t1)))
	(import "env" "set_return_data" (func $set_return_data (type $t2)))
	(func $prepare (export "prepare") (type $t0)
	  i64.const 1
	  i64.const 1
	  i32.const 1024
	  i64.extend_i32_u
	  i64.const 4
	  call $ask_external_data)
	(func $execute (export "execute") (type $t0)
	  i32.const 1024
	  i64.extend_i32_u
	  i64.const 4
	  call $set_return_data)
	(table $T0 1 1 funcref)
	(memory $memory (export "memory") 17)
	(data (i32.const 1024) "test"))
`

const watOKNil = `
(module
	(type $t0 (func))
	(type $t1 (func (param i64 i64 i64 i64)))
	(type $t2 (func (param i64 i64)))
	(import "env" "ask_external_data" (func $ask_external_data (type $t1)))
	(import "env" "set_return_data" (func $set_return_data (type $t2)))
	(func $prepare (export "prepare") (type $t0)
	  i64.const 1
	  i64.const 1
	  i32.const 1024
	  i64.extend_i32_u
	  i64.const 4
	  call $ask_external_data)
	(func $execute (export "execute") (type $t0)
	  i32.const 1024
	  i64.extend_i32_u
	  i64.const 0
	  call $set_return_data)
	(table $T0 1 1 funcref)
	(memory $memory (export "memory") 17)
	(data (i32.const 1024) "test"))
`

const watDesc = `
(module
	(type $t0 (func))
	(type $t1 (func (param i64 i64 i64 i64)))
	(type $t2 (func (param i64 i64)))
	(import "env" "ask_external_data" (func $ask_external_data (type $t1)))
	(import "env" "set_return_data" (func $set_return_data (type $t2)))
	(func $prepare (export "prepare") (type $t0)
	  i64.const 3
	  i64.const 1
	  i32.const 1024
	  i64.extend_i32_u
	  i64.const 4
	  call $ask_external_data
	  i64.const 1
	  i64.const 2
	  i32.const 1024
	  i64.extend_i32_u
	  i64.const 4
	  call $ask_external_data
	  i64.const 2
	  i64.const 3
	  i32.const 1024
	  i64.extend_i32_u
	  i64.const 4
	  call $ask_external_data)
	(func $execute (export "execute") (type $t0)
	  i32.const 1024
	  i64.extend_i32_u
	  i64.const 4
	  call $set_return_data)
	(table $T0 1 1 funcref)
	(memory $memory (export "memory") 17)
	(data (i32.const 1024) "test"))
`

// GenesisScriptWasms: the code of the genesis oracle scripts, index = script id - 1 (families that track the registries
// need to know every genesis file)
func GenesisScriptWasms() [][]byte {
	return [][]byte{testdata.Wasm1, Wat2Wasm(watFail1), testdata.Wasm4, Wat2Wasm(watOK1), Wat2Wasm(watOKNil), Wat2Wasm(watDesc)}
}

var DefaultConsensusParams = &cmtproto.ConsensusParams{
	Block:    &cmtproto.BlockParams{MaxBytes: 3000000, MaxGas: -1},
	Evidence: &cmtproto.EvidenceParams{MaxAgeNumBlocks: 100000, MaxAgeDuration: 48 * time.Hour, MaxBytes: 1048576},
	Validator: &cmtproto.ValidatorParams{
		PubKeyTypes: []string{cmttypes.ABCIPubKeyTypeSecp256k1},
	},
}

func DefaultConfig() Config {
	return Config{
		ValTokens:   []int64{100_000_000, 1_000_000, 99_999_999},
		NumAccounts: 4,
		AccountBal:  sdk.NewCoins(sdk.NewInt64Coin("uband", 1_000_000_000)),
		NumTreasury: 3,
		DataSources: []DataSourceSpec{
			{Fee: sdk.NewCoins(sdk.NewInt64Coin("uband", 1)), Treasury: 0, Content: "code1"},
			{Fee: sdk.NewCoins(sdk.NewInt64Coin("uband", 2)), Treasury: 1, Content: "code2"},
			{Fee: sdk.NewCoins(), Treasury: 2, Content: "code3"},
		},
		GenesisTime: time.Unix(1_700_000_000, 0).UTC(),
		ChainID:     ChainID,
	}
}

// New builds the app, runs InitChain and commits block 1.
func New(cfg Config) *World {
	if cfg.ChainID == "" {
		cfg.ChainID = ChainID
	}
	if cfg.GenesisTime.IsZero() {
		cfg.GenesisTime = time.Unix(1_700_000_000, 0).UTC()
	}
	dir, err := os.MkdirTemp("", "vdrive-home-")
	if err != nil {
		panic(err)
	}
	w := &World{Cfg: cfg, Dir: dir, names: map[string]string{}}
	w.Owner = NewAccount("owner")
	w.name(w.Owner)
	for i := range cfg.ValTokens {
		a := NewAccount(fmt.Sprintf("val%d", i+1))
		a.Name = fmt.Sprintf("v%d", i+1)
		if cfg.DistinctConsKeys {
			a.ConsPub = secp256k1.GenPrivKeyFromSecret([]byte(fmt.Sprintf("verif-cons-val%d", i+1))).PubKey()
		}
		w.Vals = append(w.Vals, a)
		w.name(a)
	}
	for i := 0; i < cfg.NumAccounts; i++ {
		a := NewAccount(fmt.Sprintf("acc%d", i+1))
		a.Name = fmt.Sprintf("a%d", i+1)
		w.Accts = append(w.Accts, a)
		w.name(a)
	}
	for i := 0; i < cfg.NumTreasury; i++ {
		a := NewAccount(fmt.Sprintf("treasury%d", i+1))
		a.Name = fmt.Sprintf("t%d", i+1)
		w.Treasuries = append(w.Treasuries, a)
		w.name(a)
	}

	db := cosmosdb.NewMemDB()
	snapshotDir := filepath.Join(dir, "data", "snapshots")
	snapshotDB, err := cosmosdb.NewDB("metadata", cosmosdb.GoLevelDBBackend, snapshotDir)
	if err != nil {
		panic(err)
	}
	snapshotStore, err := snapshots.NewStore(snapshotDB, snapshotDir)
	if err != nil {
		panic(err)
	}
	app := band.NewBandApp(
		log.NewNopLogger(), db, nil, true, map[int64]bool{}, dir, sims.EmptyAppOptions{}, 100,
		baseapp.SetChainID(cfg.ChainID),
		baseapp.SetSnapshot(snapshotStore, snapshottypes.SnapshotOptions{KeepRecent: 2}),
	)
	w.App = app
	gs := w.genesis()
	if cfg.Mutate != nil {
		cfg.Mutate(app, gs)
	}
	bz, err := json.Marshal(gs)
	if err != nil {
		panic(err)
	}
	if _, err := app.InitChain(&abci.RequestInitChain{
		Validators:      []abci.ValidatorUpdate{},
		ConsensusParams: DefaultConsensusParams,
		AppStateBytes:   bz,
		ChainId:         cfg.ChainID,
		Time:            cfg.GenesisTime,
	}); err != nil {
		panic(err)
	}
	hdr := cmtproto.Header{
		ChainID: cfg.ChainID, Height: 1, Time: cfg.GenesisTime,
		ProposerAddress: w.Vals[0].ConsAddress(),
	}
	// A failure of block 1 (as opposed to a genesis that InitChain refuses) is reported with a typed
	// panic value so that a caller can tell the two apart (fam_block does).
	func() {
		defer func() {
			if p := recover(); p != nil {
				if b, ok := p.(Block1Failure); ok {
					panic(b)
				}
				panic(Block1Failure{Detail: fmt.Sprint(p), Panicked: true})
			}
		}()
		if _, err := app.FinalizeBlock(&abci.RequestFinalizeBlock{
			Height: 1, Time: cfg.GenesisTime, Hash: BlockHash(1), ProposerAddress: hdr.ProposerAddress,
		}); err != nil {
			panic(Block1Failure{Detail: err.Error()})
		}
		if _, err := app.Commit(); err != nil {
			panic(Block1Failure{Detail: "commit: " + err.Error()})
		}
	}()
	w.BaseHeader = hdr
	w.Base = app.NewUncachedContext(false, hdr).WithHeaderHash(BlockHash(1))
	return w
}

// Block1Failure is the panic value of New when the genesis was accepted by InitChain but the first
// (empty) block did not execute: FinalizeBlock/Commit returned an error or panicked.
type Block1Failure struct {
	Detail   string
	Panicked bool
}

func (b Block1Failure) Error() string { return "world: block 1 failed: " + b.Detail }

// Close removes the home directory.
func (w *World) Close() { _ = os.RemoveAll(w.Dir) }

func (w *World) name(a Account) {
	w.names[a.Addr.String()] = a.Name
	w.names[a.ValAddr.String()] = a.Name
}

// Name maps a bech32 account/validator address to the short stable name used in traces.
func (w *World) Name(bech string) string {
	if n, ok := w.names[bech]; ok {
		return n
	}
	return "?" + bech
}

// RegisterName adds a name for an address created by a family driver.
func (w *World) RegisterName(bech, name string) { w.names[bech] = name }

// BlockHash is the deterministic fake header hash for a height.
func BlockHash(h int64) []byte {
	out := make([]byte, 32)
	for i := 0; i < 8; i++ {
		out[31-i] = byte(h >> (8 * i))
	}
	out[0] = 0xB1
	return out
}

func (w *World) genesis() band.GenesisState {
	app := w.App
	cfg := w.Cfg
	var genAccs []authtypes.GenesisAccount
	var balances []banktypes.Balance
	total := sdk.NewCoins()
	bal := cfg.AccountBal
	for _, d := range cfg.ExtraDenoms {
		bal = bal.Add(sdk.NewCoin(d, cfg.AccountBal.AmountOf("uband")))
	}
	add := func(a Account, c sdk.Coins) {
		genAccs = append(genAccs, &authtypes.BaseAccount{Address: a.Addr.String()})
		if !c.IsZero() {
			balances = append(balances, banktypes.Balance{Address: a.Addr.String(), Coins: c})
			total = total.Add(c...)
		}
	}
	add(w.Owner, bal)
	for _, a := range w.Accts {
		add(a, bal)
	}
	for _, a := range w.Treasuries {
		add(a, sdk.NewCoins())
	}
	for _, a := range w.Vals {
		add(a, bal)
	}

	gs := band.NewDefaultGenesisState(app.AppCodec())
	gs[authtypes.ModuleName] = app.AppCodec().MustMarshalJSON(authtypes.NewGenesisState(authtypes.DefaultParams(), genAccs))

	var validators []stakingtypes.Validator
	var signingInfos []slashingtypes.SigningInfo
	var delegations []stakingtypes.Delegation
	bonded := math.ZeroInt()
	for i, val := range w.Vals {
		pkAny, _ := codectypes.NewAnyWithValue(val.ConsKey())
		tokens := math.NewInt(cfg.ValTokens[i])
		v := stakingtypes.Validator{
			OperatorAddress: val.ValAddr.String(), ConsensusPubkey: pkAny, Jailed: false,
			Status: stakingtypes.Bonded, Tokens: tokens, DelegatorShares: math.LegacyNewDecFromInt(tokens),
			Description: stakingtypes.Description{}, UnbondingHeight: 0, UnbondingTime: time.Unix(0, 0).UTC(),
			Commission:        stakingtypes.NewCommission(math.LegacyZeroDec(), math.LegacyZeroDec(), math.LegacyZeroDec()),
			MinSelfDelegation: math.ZeroInt(),
		}
		consAddr, err := v.GetConsAddr()
		if err != nil {
			panic(err)
		}
		validators = append(validators, v)
		signingInfos = append(signingInfos, slashingtypes.SigningInfo{
			Address:              sdk.ConsAddress(consAddr).String(),
			ValidatorSigningInfo: slashingtypes.NewValidatorSigningInfo(consAddr, 0, 0, time.Unix(0, 0), false, 0),
		})
		delegations = append(delegations, stakingtypes.NewDelegation(val.Addr.String(), val.ValAddr.String(), math.LegacyNewDecFromInt(tokens)))
		bonded = bonded.Add(tokens)
	}
	sp := stakingtypes.DefaultParams()
	sp.BondDenom = "uband"
	gs[stakingtypes.ModuleName] = app.AppCodec().MustMarshalJSON(stakingtypes.NewGenesisState(sp, validators, delegations))
	gs[slashingtypes.ModuleName] = app.AppCodec().MustMarshalJSON(slashingtypes.NewGenesisState(slashingtypes.DefaultParams(), signingInfos, nil))

	balances = append(balances, banktypes.Balance{
		Address: authtypes.NewModuleAddress(stakingtypes.BondedPoolName).String(),
		Coins:   sdk.Coins{sdk.NewCoin("uband", bonded)},
	})
	total = total.Add(sdk.NewCoin("uband", bonded))
	gs[banktypes.ModuleName] = app.AppCodec().MustMarshalJSON(banktypes.NewGenesisState(
		banktypes.DefaultGenesisState().Params, balances, total, []banktypes.Metadata{}, []banktypes.SendEnabled{}))

	og := oracletypes.DefaultGenesisState()
	fc := filecache.New(filepath.Join(w.Dir, "files"))
	for i, ds := range cfg.DataSources {
		hash := fc.AddFile([]byte(ds.Content))
		og.DataSources = append(og.DataSources, oracletypes.NewDataSource(
			w.Owner.Addr, fmt.Sprintf("ds%d", i+1), "", hash, ds.Fee, w.Treasuries[ds.Treasury].Addr))
	}
	wasms := GenesisScriptWasms()
	if cfg.GenesisScripts > 0 && cfg.GenesisScripts < len(wasms) {
		wasms = wasms[:cfg.GenesisScripts]
	}
	for i, code := range wasms {
		hash := fc.AddFile(testdata.Compile(code))
		og.OracleScripts = append(og.OracleScripts, oracletypes.NewOracleScript(
			w.Owner.Addr, fmt.Sprintf("os%d", i+1), "", hash, "", ""))
	}
	gs[oracletypes.ModuleName] = app.AppCodec().MustMarshalJSON(og)
	return gs
}
