package world_test

import (
	"testing"

	sdk "github.com/cosmos/cosmos-sdk/types"

	oracletypes "github.com/bandprotocol/chain/v3/x/oracle/types"

	"vdrive/world"
)

// Smoke test of the L2 layer: signed txs through FinalizeBlock/Commit, deterministic app hash.
func TestL2(t *testing.T) {
	run := func() []string {
		w := world.New(world.DefaultConfig())
		defer w.Close()
		c := w.L2()
		var hashes []string
		var txs [][]byte
		for _, v := range w.Vals {
			tx, err := c.SignTx(v, 0, nil, &oracletypes.MsgActivate{Validator: v.ValAddr.String()})
			if err != nil {
				t.Fatal(err)
			}
			txs = append(txs, tx)
		}
		res, _ := c.RunBlock(5, txs)
		if res.Err != "none" {
			t.Fatal(res.Err, res.Detail)
		}
		for i, tr := range res.Txs {
			if tr.Code != 0 {
				t.Fatalf("tx %d code %d", i, tr.Code)
			}
		}
		hashes = append(hashes, res.AppHash)
		req := oracletypes.NewMsgRequestData(world.ScriptOK3, []byte("x"), 2, 1, "c", sdk.NewCoins(sdk.NewInt64Coin("uband", 100)), 40000, 300000, w.Accts[0].Addr, 0)
		tx, err := c.SignTx(w.Accts[0], 0, nil, req)
		if err != nil {
			t.Fatal(err)
		}
		tx2, _ := c.SignTx(w.Accts[0], 0, nil, req)
		res, _ = c.RunBlock(5, [][]byte{tx, tx2})
		if res.Err != "none" || res.Txs[0].Code != 0 || res.Txs[1].Code != 0 {
			t.Fatal(res)
		}
		hashes = append(hashes, res.AppHash)
		return hashes
	}
	a, b := run(), run()
	for i := range a {
		if a[i] != b[i] {
			t.Fatal("app hash differs", i)
		}
	}
}
