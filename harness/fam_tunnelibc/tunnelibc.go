// Package fam_tunnelibc drives tunnels whose IBC route really delivers (extension X05, TunnelIBC.tla) on
// the real in-process app (L1 layer of harness/world):
//
//   - tunnels are created / configured / triggered through the real x/tunnel message server and packets are
//     produced by the real end-blocker (abci.go -> ProduceActiveTunnelPackets -> SendIBCPacket ->
//     ics4Wrapper = ibc fee keeper -> channel keeper);
//   - the channels are REAL: opened per trace with the real handshake messages (MsgChannelOpenInit on port
//     `tunnel.<id>` -> x/tunnel OnChanOpenInit; Try / Ack / Confirm) over ibc-go's 09-localhost client
//     (connection-localhost).  The counterparty end of every channel lives on this chain too, on the port
//     `tunnel.900`, which the driver binds for the tunnel module (environment): it plays the remote chain;
//   - the IBC packets are read from ibc core's `send_packet` events and checked against the packet
//     commitments in the ibc store; incoming packets, acknowledgements and timeouts go through the real
//     MsgRecvPacket / MsgAcknowledgement / MsgTimeout handlers of ibc core (localhost sentinel proofs).
//
// After every step the real stores are projected onto the variables of TunnelIBC.tla.  Verdicts are TLC's
// (TunnelIBC_Trace.tla), not this package's.
package fam_tunnelibc

import (
	"bytes"
	"encoding/hex"
	"encoding/json"
	"fmt"
	"sort"
	"strconv"
	"strings"
	"time"

	abci "github.com/cometbft/cometbft/abci/types"

	clienttypes "github.com/cosmos/ibc-go/v8/modules/core/02-client/types"
	channeltypes "github.com/cosmos/ibc-go/v8/modules/core/04-channel/types"
	host "github.com/cosmos/ibc-go/v8/modules/core/24-host"
	ibcexported "github.com/cosmos/ibc-go/v8/modules/core/exported"
	localhost "github.com/cosmos/ibc-go/v8/modules/light-clients/09-localhost"

	sdkmath "cosmossdk.io/math"

	sdk "github.com/cosmos/cosmos-sdk/types"
	"github.com/cosmos/cosmos-sdk/types/query"
	authtypes "github.com/cosmos/cosmos-sdk/x/auth/types"
	banktypes "github.com/cosmos/cosmos-sdk/x/bank/types"

	bandtsstypes "github.com/bandprotocol/chain/v3/x/bandtss/types"
	feedstypes "github.com/bandprotocol/chain/v3/x/feeds/types"
	tsstypes "github.com/bandprotocol/chain/v3/x/tss/types"
	tunnelkeeper "github.com/bandprotocol/chain/v3/x/tunnel/keeper"
	tunneltypes "github.com/bandprotocol/chain/v3/x/tunnel/types"

	tf "vdrive/tracefmt"
	"vdrive/tsskit"
	"vdrive/world"
)

const (
	denomA     = "uaaa"  // "ua" in traces
	denomB     = "uband" // "ub" in traces: the fee denom
	nDE        = 130     // nonce pairs per member at the start of every trace (TSS tunnels next to the IBC ones)
	threshold  = 2
	sentinel   = -7           // logged instead of a value that cannot be read / does not fit / is malformed
	maxCh      = 4            // MaxCh of TunnelIBC_Trace_X05.cfg: length of every tunnel's channel array
	maxChUsed  = 3            // the driver opens at most this many channels per port (TraceBoundOK)
	remotePort = "tunnel.900" // the counterparty ("remote chain") end of every tunnel channel
	unknownID  = "channel-77" // a well-formed channel id that never exists
	tagNonOpen = "route-to-nonopen-channel"
)

var Sigs = []string{"s1", "s2"}
var Accts = []string{"p1", "p2", "p3"}

type Stats struct {
	Traces, Events, Interesting int
	Distinct                    map[string]bool
	Packets, Triggers           int // IBC packets committed at end-block / by trigger
	TSSPackets                  int
	FailByCause                 map[string]int // produce_packet_fail of IBC tunnels per cause
	TriggerRej                  map[string]int
	RouteOK, RouteRej           int
	ChanInitOK, ChanInitRej     int
	RecvIn, Acks, Timeouts      int
	CloseInit                   int
	Deactivations               int
	Tagged                      int
}

type Driver struct {
	W    *tf.Writer
	St   Stats
	Mode string // "" | "defects"

	w     *world.World
	fb    *world.Run // family base: signing group installed, remote port bound
	g     *tsskit.Group
	users []world.Account
}

func NewDriver(w *tf.Writer) *Driver {
	d := &Driver{W: w, St: Stats{Distinct: map[string]bool{}, FailByCause: map[string]int{}, TriggerRej: map[string]int{}}}
	d.setup()
	return d
}

func (d *Driver) Close() { d.w.Close() }

func must(err error) {
	if err != nil {
		panic(err)
	}
}

// setup builds the world once: a 2-of-3 trusted-dealer group installed as the current bandtss group (so that the TSS
// signing fee is NOT zero while IBC packets are produced), members stocked with nonces, and the counterparty port bound.
func (d *Driver) setup() {
	cfg := world.DefaultConfig()
	cfg.ExtraDenoms = []string{denomA}
	d.w = world.New(cfg)
	w := d.w
	fb := w.Branch()
	fb.BeginBlock(99)
	app := w.App

	tp := app.TSSKeeper.GetParams(fb.Ctx)
	tp.SigningPeriod = 100000
	tp.MaxDESize = 1000
	must(app.TSSKeeper.SetParams(fb.Ctx, tp))

	d.g = tsskit.NewGroup("tunnelibc-g", threshold, w.Accts[1:4])
	d.g.Install(fb.Ctx, app, bandtsstypes.ModuleName)
	d.g.InstallAsCurrent(fb.Ctx, app)
	for mi, m := range d.g.Members {
		var pubs []tsstypes.DE
		for i := 0; i < nDE; i++ {
			pubs = append(pubs, tsskit.NewDE(fmt.Sprintf("tunibc-%d-%d", mi, i)).Pub())
		}
		if o := fb.Deliver(&tsstypes.MsgSubmitDEs{DEs: pubs, Sender: m.Acc.Addr.String()}); !o.OK() {
			panic(fmt.Sprint("setup: submit DEs: ", o.Err, o.Panic))
		}
	}
	for _, n := range Accts {
		a := world.NewAccount("tunnelibc-" + n)
		a.Name = n
		w.RegisterName(a.Addr.String(), n)
		d.users = append(d.users, a)
	}
	// environment: the "remote chain" end of the tunnel channels is a port of this chain owned by the tunnel module
	portCap := app.IBCKeeper.PortKeeper.BindPort(fb.Ctx, remotePort)
	must(app.TunnelKeeper.ClaimCapability(fb.Ctx, portCap, host.PortPath(remotePort)))
	if o := fb.EndBlock(); !o.OK() {
		panic(fmt.Sprint("setup: end block: ", o.Err, o.Panic))
	}
	fb.BeginBlock(1) // now = 100
	d.fb = fb
}

// chanInfo is a band-side tunnel channel the driver knows: the k-th channel on port tunnel.<t>.
type chanInfo struct {
	t, k   int
	id     string // channel id on port tunnel.<t>
	remote string // channel id of the counterparty end on remotePort ("" until the handshake went on)
}

// sentPkt is an IBC packet ibc core announced with a send_packet event on a tunnel port.
type sentPkt struct {
	p, k, iseq, tid, tseq int
	prices                tf.M
	at, to                int
	raw                   channeltypes.Packet
}

type session struct {
	d           *Driver
	w           *world.World
	r           *world.Run
	chans       map[int][]*chanInfo
	byID        map[string]*chanInfo
	sent        []*sentPkt
	interesting bool
}

func (s *session) now() int { return int(s.r.Time.Unix() - s.w.Cfg.GenesisTime.Unix()) }

func small(x sdkmath.Int) int {
	if !x.IsInt64() || x.Int64() > 1<<30 || x.Int64() < -(1<<30) {
		return sentinel
	}
	return int(x.Int64())
}

func smallU(x uint64) int {
	if x > 1<<30 {
		return sentinel
	}
	return int(x)
}

func (s *session) coinsM(c sdk.Coins) tf.M {
	m := tf.M{"ua": small(c.AmountOf(denomA)), "ub": small(c.AmountOf(denomB))}
	for _, x := range c {
		if x.Denom != denomA && x.Denom != denomB && !x.Amount.IsZero() {
			m["ua"] = sentinel
		}
	}
	return m
}

func (s *session) user(name string) world.Account {
	for _, u := range s.d.users {
		if u.Name == name {
			return u
		}
	}
	return s.d.users[0]
}

// safe runs f and reports whether it panicked (projection code must never crash the driver).
func safe(f func()) (ok bool) {
	defer func() {
		if recover() != nil {
			ok = false
		}
	}()
	f()
	return true
}

func portOf(t int) string { return tunnelkeeper.PortIDForTunnel(uint64(t)) }

// deliver is world.Run.Deliver that also keeps the events of the message results (the router gives every handler its
// own event manager): send_packet of a trigger, channel ids of a handshake and acknowledgements are only visible there.
func (s *session) deliver(msgs ...sdk.Msg) world.Outcome {
	r := s.r
	em := sdk.NewEventManager()
	txCtx, write := r.Ctx.WithEventManager(em).CacheContext()
	txCtx = txCtx.WithEventManager(em)
	var out world.Outcome
	var evs []abci.Event
	func() {
		defer func() {
			if p := recover(); p != nil {
				out.Panic = p
			}
		}()
		for _, m := range msgs {
			if v, ok := m.(interface{ ValidateBasic() error }); ok {
				if err := v.ValidateBasic(); err != nil {
					out.Err = err
					return
				}
			}
			h := r.W.App.MsgServiceRouter().Handler(m)
			if h == nil {
				out.Err = fmt.Errorf("no handler for %T", m)
				return
			}
			res, err := h(txCtx, m)
			if err != nil {
				out.Err = err
				return
			}
			if res != nil {
				evs = append(evs, res.Events...)
			}
		}
	}()
	if out.OK() {
		write()
		out.Events = append(em.Events().ToABCIEvents(), evs...)
	}
	return out
}

func attr(e abci.Event, key string) string {
	for _, a := range e.Attributes {
		if a.Key == key {
			return a.Value
		}
	}
	return ""
}

// chanState reads a channel end and the module's capability for it from the real stores.
func (s *session) chanState(port, id string) (st string, capOK bool, ns int) {
	app := s.w.App
	ctx := s.r.Ctx
	st, ns = "none", 0
	ch, ok := app.IBCKeeper.ChannelKeeper.GetChannel(ctx, port, id)
	if !ok {
		return
	}
	switch ch.State {
	case channeltypes.INIT:
		st = "init"
	case channeltypes.OPEN:
		st = "open"
	case channeltypes.CLOSED:
		st = "closed"
	default:
		st = "other"
	}
	if ch.Ordering != channeltypes.UNORDERED {
		st = "ordered-" + st
	}
	_, capOK = app.ScopedTunnelKeeper.GetCapability(ctx, host.ChannelCapabilityPath(port, id))
	n, _ := app.IBCKeeper.ChannelKeeper.GetNextSequenceSend(ctx, port, id)
	ns = smallU(n)
	return
}

// discover registers every channel of a tunnel port the driver has not seen yet (in channel-id order).
func (s *session) discover() {
	all := s.w.App.IBCKeeper.ChannelKeeper.GetAllChannelsWithPortPrefix(s.r.Ctx, "tunnel.")
	type pc struct {
		t, n int
		id   string
	}
	var fresh []pc
	for _, c := range all {
		if c.PortId == remotePort || s.byID[c.PortId+"/"+c.ChannelId] != nil {
			continue
		}
		t, err := strconv.Atoi(strings.TrimPrefix(c.PortId, "tunnel."))
		if err != nil {
			continue
		}
		n, _ := channeltypes.ParseChannelSequence(c.ChannelId)
		fresh = append(fresh, pc{t, int(n), c.ChannelId})
	}
	sort.Slice(fresh, func(i, j int) bool { return fresh[i].n < fresh[j].n })
	for _, f := range fresh {
		ci := &chanInfo{t: f.t, k: len(s.chans[f.t]) + 1, id: f.id}
		s.chans[f.t] = append(s.chans[f.t], ci)
		s.byID[portOf(f.t)+"/"+f.id] = ci
	}
}

func (s *session) chanOf(t, k int) *chanInfo {
	if k >= 1 && k <= len(s.chans[t]) {
		return s.chans[t][k-1]
	}
	return nil
}

func noPrices() tf.M {
	m := tf.M{}
	for _, sg := range Sigs {
		m[sg] = -1
	}
	return m
}

// noteEvents collects the send_packet events of tunnel ports (except the counterparty port).
func (s *session) noteEvents(o world.Outcome, byTrigger bool) {
	gen := s.w.Cfg.GenesisTime.Unix()
	for _, e := range o.Events {
		if e.Type != channeltypes.EventTypeSendPacket {
			continue
		}
		port := attr(e, channeltypes.AttributeKeySrcPort)
		if !strings.HasPrefix(port, "tunnel.") || port == remotePort {
			continue
		}
		chID := attr(e, channeltypes.AttributeKeySrcChannel)
		seq, _ := strconv.ParseUint(attr(e, channeltypes.AttributeKeySequence), 10, 64)
		data, _ := hex.DecodeString(attr(e, channeltypes.AttributeKeyDataHex))
		ts, _ := strconv.ParseUint(attr(e, channeltypes.AttributeKeyTimeoutTimestamp), 10, 64)
		th, _ := clienttypes.ParseHeight(attr(e, channeltypes.AttributeKeyTimeoutHeight))
		p := &sentPkt{p: sentinel, k: sentinel, iseq: smallU(seq), tid: sentinel, tseq: sentinel, prices: noPrices(), at: sentinel, to: sentinel,
			raw: channeltypes.NewPacket(data, seq, port, chID, attr(e, channeltypes.AttributeKeyDstPort),
				attr(e, channeltypes.AttributeKeyDstChannel), th, ts)}
		if ci := s.byID[port+"/"+chID]; ci != nil {
			p.p, p.k = ci.t, ci.k
		}
		var pd tunneltypes.TunnelPricesPacketData
		if err := tunneltypes.ModuleCdc.UnmarshalJSON(data, &pd); err == nil {
			p.tid, p.tseq = smallU(pd.TunnelID), smallU(pd.Sequence)
			p.at = int(pd.CreatedAt - gen)
			for _, pr := range pd.Prices {
				if v, known := p.prices[pr.SignalID]; !known || v != -1 {
					p.prices[Sigs[0]] = sentinel // a signal that is no signal of the model, or one listed twice
					continue
				}
				p.prices[pr.SignalID] = smallU(pr.Price)
			}
		}
		// the timeout: no height, a whole number of seconds
		if th.IsZero() && ts%uint64(time.Second) == 0 {
			p.to = int(int64(ts/uint64(time.Second)) - gen)
		}
		s.sent = append(s.sent, p)
		if byTrigger {
			s.d.St.Triggers++
		} else {
			s.d.St.Packets++
		}
		s.interesting = true
	}
}

// project reads the real stores.
func (s *session) project() tf.M {
	ctx := s.r.Ctx
	app := s.w.App
	k := app.TunnelKeeper
	bank := app.BankKeeper
	ck := app.IBCKeeper.ChannelKeeper
	qs := tunnelkeeper.NewQueryServer(k)
	count := k.GetTunnelCount(ctx)
	tuns := []tf.M{}
	noCh := func() []tf.M {
		out := []tf.M{}
		for i := 0; i < maxCh; i++ {
			out = append(out, tf.M{"st": "none", "cap": false, "ns": 0})
		}
		return out
	}
	for id := uint64(1); id <= count; id++ {
		t, err := k.GetTunnel(ctx, id)
		if err != nil {
			tuns = append(tuns, tf.M{"present": false, "kind": "none", "creator": "none", "interval": 0, "sigs": []string{},
				"soft": tf.M{"s1": 0, "s2": 0}, "hard": tf.M{"s1": 0, "s2": 0}, "active": false, "seq": sentinel, "lastInt": sentinel,
				"latest": tf.M{"s1": -1, "s2": -1}, "pk": []tf.M{}, "feeBal": sentinel, "totDep": tf.M{"ua": 0, "ub": 0},
				"dep": s.noDeps(), "rt": tf.M{"p": 0, "k": 0}, "ch": noCh()})
			continue
		}
		kind := "other"
		sigs := []string{}
		soft, hard := tf.M{"s1": 0, "s2": 0}, tf.M{"s1": 0, "s2": 0}
		for _, sd := range t.SignalDeviations {
			sigs = append(sigs, sd.SignalID)
			soft[sd.SignalID] = int(sd.SoftDeviationBPS)
			hard[sd.SignalID] = int(sd.HardDeviationBPS)
		}
		sort.Strings(sigs)
		rt := tf.M{"p": 0, "k": 0}
		safe(func() {
			rv, err := t.GetRouteValue()
			if err != nil {
				return
			}
			switch x := rv.(type) {
			case *tunneltypes.TSSRoute:
				kind = "tss"
			case *tunneltypes.IBCRoute:
				kind = "ibc"
				if x.ChannelID != "" {
					rt = tf.M{"p": -1, "k": -1} // an id that is no channel of any tunnel port
					// the route's channel is looked up on the tunnel's OWN port by the code; name it by the port it is on
					for tt, list := range s.chans {
						for _, ci := range list {
							if ci.id == x.ChannelID {
								rt = tf.M{"p": tt, "k": ci.k}
							}
						}
					}
				}
			}
		})
		latest := tf.M{"s1": -1, "s2": -1}
		lastInt := sentinel
		if lp, err := k.GetLatestPrices(ctx, id); err == nil {
			for _, p := range lp.Prices {
				latest[p.SignalID] = smallU(p.Price)
			}
			if lp.LastInterval == 0 {
				lastInt = -1
			} else {
				lastInt = int(lp.LastInterval - s.w.Cfg.GenesisTime.Unix())
			}
		}
		pk := []tf.M{}
		safe(func() {
			res, err := qs.Packets(ctx, &tunneltypes.QueryPacketsRequest{TunnelId: id, Pagination: &query.PageRequest{Limit: 10000}})
			if err != nil {
				pk = append(pk, tf.M{"seq": sentinel, "sigs": []string{}, "rseq": sentinel})
				return
			}
			for _, p := range res.Packets {
				ps := []string{}
				for _, pr := range p.Prices {
					ps = append(ps, pr.SignalID)
				}
				sort.Strings(ps)
				rseq := sentinel
				safe(func() {
					rc, err := p.GetReceiptValue()
					if err != nil {
						return
					}
					switch x := rc.(type) {
					case *tunneltypes.IBCPacketReceipt:
						rseq = smallU(x.Sequence)
					default:
						rseq = 0
					}
				})
				pk = append(pk, tf.M{"seq": smallU(p.Sequence), "sigs": ps, "rseq": rseq})
			}
		})
		feeBal := sentinel
		if fp, err := sdk.AccAddressFromBech32(t.FeePayer); err == nil {
			feeBal = small(bank.GetBalance(ctx, fp, denomB).Amount)
		}
		deps := s.noDeps()
		for _, dp := range k.GetDeposits(ctx, id) {
			deps[s.w.Name(dp.Depositor)] = s.coinsM(dp.Amount)
		}
		ch := noCh()
		for i, ci := range s.chans[int(id)] {
			if i >= maxCh {
				break
			}
			st, capOK, ns := s.chanState(portOf(int(id)), ci.id)
			ch[i] = tf.M{"st": st, "cap": capOK, "ns": ns}
		}
		tuns = append(tuns, tf.M{"present": true, "kind": kind, "creator": s.w.Name(t.Creator), "interval": int(t.Interval),
			"sigs": sigs, "soft": soft, "hard": hard, "active": t.IsActive, "seq": smallU(t.Sequence), "lastInt": lastInt,
			"latest": latest, "pk": pk, "feeBal": feeBal, "totDep": s.coinsM(t.TotalDeposit), "dep": deps, "rt": rt, "ch": ch})
	}
	idx := []int{}
	for _, id := range k.GetActiveTunnelIDs(ctx) {
		idx = append(idx, int(id))
	}
	feed := tf.M{}
	for _, sg := range Sigs {
		feed[sg] = -1
	}
	for _, p := range app.FeedsKeeper.GetAllPrices(ctx) {
		feed[p.SignalID] = smallU(p.Price)
	}
	bal := tf.M{}
	for _, u := range s.d.users {
		bal[u.Name] = s.coinsM(bank.GetAllBalances(ctx, u.Addr))
	}
	p := k.GetParams(ctx)
	route := 0
	safe(func() {
		bp := app.BandtssKeeper.GetParams(ctx)
		route = small(bp.FeePerSigner.AmountOf(denomB)) * threshold
	})

	// the IBC packets: the commitment of every announced packet is either there and right, or gone; nothing else is committed
	commitOK := true
	ibc := []tf.M{}
	livePer := map[string]int{}
	for _, sp := range s.sent {
		got := ck.GetPacketCommitment(ctx, sp.raw.SourcePort, sp.raw.SourceChannel, sp.raw.Sequence)
		live := len(got) > 0
		if live {
			livePer[sp.raw.SourcePort+"/"+sp.raw.SourceChannel]++
			if !bytes.Equal(got, channeltypes.CommitPacket(app.AppCodec(), sp.raw)) {
				commitOK = false
			}
		}
		ibc = append(ibc, tf.M{"p": sp.p, "k": sp.k, "iseq": sp.iseq, "tid": sp.tid, "tseq": sp.tseq, "prices": sp.prices,
			"at": sp.at, "to": sp.to, "live": live})
	}
	for _, c := range ck.GetAllChannelsWithPortPrefix(ctx, "tunnel.") {
		if c.PortId == remotePort {
			continue
		}
		if len(ck.GetAllPacketCommitmentsAtChannel(ctx, c.PortId, c.ChannelId)) != livePer[c.PortId+"/"+c.ChannelId] {
			commitOK = false
		}
	}
	return tf.M{
		"now": s.now(), "count": int(count), "mode": "ok", "feed": feed, "tun": tuns, "idx": idx,
		"modBal":    s.coinsM(bank.GetAllBalances(ctx, authtypes.NewModuleAddress(tunneltypes.ModuleName))),
		"tssBal":    small(bank.GetBalance(ctx, authtypes.NewModuleAddress(bandtsstypes.ModuleName), denomB).Amount),
		"totalFees": small(k.GetTotalFees(ctx).TotalBasePacketFee.AmountOf(denomB)),
		"bal":       bal,
		"minDep":    s.coinsM(p.MinDeposit), "base": small(p.BasePacketFee.AmountOf(denomB)), "route": route,
		"ibc": ibc, "commitOK": commitOK,
	}
}

func (s *session) noDeps() tf.M {
	m := tf.M{}
	for _, n := range Accts {
		m[n] = tf.M{"ua": 0, "ub": 0}
	}
	return m
}

func outc(o world.Outcome) tf.M {
	m := tf.M{"ok": o.OK()}
	if o.Panic != nil {
		m["panic"] = fmt.Sprint(o.Panic)
	}
	return m
}

func coins(m tf.M) sdk.Coins {
	c := sdk.NewCoins()
	if a := tf.Int(m, "ua", 0); a > 0 {
		c = c.Add(sdk.NewInt64Coin(denomA, int64(a)))
	}
	if b := tf.Int(m, "ub", 0); b > 0 {
		c = c.Add(sdk.NewInt64Coin(denomB, int64(b)))
	}
	return c
}

// bind resolves a sender role against the real state: {"role":"acct","k":n} | {"role":"creator","t":id} |
// {"role":"other","t":id,"k":n} (n-th account that is not the creator of t).
func (s *session) bind(role tf.M) string {
	k := tf.Int(role, "k", 1)
	switch tf.Str(role, "role", "acct") {
	case "creator", "other":
		creator := ""
		if t, err := s.w.App.TunnelKeeper.GetTunnel(s.r.Ctx, uint64(tf.Int(role, "t", 1))); err == nil {
			creator = s.w.Name(t.Creator)
		}
		if tf.Str(role, "role", "") == "creator" {
			if creator == "" {
				return Accts[0]
			}
			return creator
		}
		var others []string
		for _, n := range Accts {
			if n != creator {
				others = append(others, n)
			}
		}
		return others[(k-1)%len(others)]
	}
	return Accts[(k-1+len(Accts))%len(Accts)]
}

func (s *session) kindOf(id uint64) string {
	t, err := s.w.App.TunnelKeeper.GetTunnel(s.r.Ctx, id)
	if err != nil {
		return ""
	}
	if strings.Contains(t.Route.TypeUrl, "IBC") {
		return "ibc"
	}
	return "tss"
}

func deviations(step tf.M) ([]tunneltypes.SignalDeviation, []string, tf.M, tf.M) {
	sigs := tf.Strs(step, "sigs")
	sort.Strings(sigs)
	soft, hard := tf.M{"s1": 0, "s2": 0}, tf.M{"s1": 0, "s2": 0}
	var devs []tunneltypes.SignalDeviation
	for _, sg := range sigs {
		so, ha := tf.Int(tf.Sub(step, "soft"), sg, 300), tf.Int(tf.Sub(step, "hard"), sg, 3000)
		soft[sg], hard[sg] = so, ha
		devs = append(devs, tunneltypes.NewSignalDeviation(sg, uint64(so), uint64(ha)))
	}
	if sigs == nil {
		sigs = []string{}
	}
	return devs, sigs, soft, hard
}

// resolveChan resolves a channel role of a MsgUpdateRoute of tunnel t against the real state.
//
//	{"role":"open","k":n}    the n-th OPEN channel on t's own port (none: "missing")
//	{"role":"own","k":n}     the n-th channel on t's own port whatever its state (none: "missing")
//	{"role":"nonopen","k":n} the n-th channel on t's own port that is NOT open (none: "missing")
//	{"role":"other","k":n}   the n-th channel on another tunnel's port (none: "missing")
//	{"role":"remote","k":n}  the counterparty end's id of t's n-th channel (a channel of port tunnel.900)
//	{"role":"empty"}         ""
//	{"role":"missing"}       a well-formed id that names no channel
//
// -> the name (p, k) of TunnelIBC.tla and the channel id of the message.
func (s *session) resolveChan(t int, role tf.M) (int, int, string) {
	n := tf.Int(role, "k", 1)
	pickFrom := func(list []*chanInfo) (int, int, string) {
		if len(list) == 0 {
			return 0, 1, unknownID
		}
		ci := list[(n-1+len(list))%len(list)]
		return ci.t, ci.k, ci.id
	}
	switch tf.Str(role, "role", "open") {
	case "empty":
		return 0, 0, ""
	case "open", "nonopen":
		var list []*chanInfo
		for _, ci := range s.chans[t] {
			st, _, _ := s.chanState(portOf(t), ci.id)
			if (st == "open") == (tf.Str(role, "role", "") == "open") {
				list = append(list, ci)
			}
		}
		return pickFrom(list)
	case "own":
		return pickFrom(s.chans[t])
	case "other":
		var list []*chanInfo
		var ts []int
		for tt := range s.chans {
			if tt != t {
				ts = append(ts, tt)
			}
		}
		sort.Ints(ts)
		for _, tt := range ts {
			list = append(list, s.chans[tt]...)
		}
		return pickFrom(list)
	case "remote":
		if ci := s.chanOf(t, n); ci != nil && ci.remote != "" {
			return 0, n, ci.remote // exists on tunnel.900 only: no channel of a tunnel
		}
	}
	return 0, 1, unknownID
}

// RunScript plays one script and records its trace.
func (d *Driver) RunScript(sc tf.Script) {
	w := d.w
	ctx, _ := d.fb.Ctx.CacheContext()
	r := &world.Run{W: w, Ctx: ctx, Height: d.fb.Height, Time: d.fb.Time, InBlock: true}
	tunnelkeeper.VerifRouteHook = nil
	s := &session{d: d, w: w, r: r, chans: map[int][]*chanInfo{}, byID: map[string]*chanInfo{}}
	app := w.App

	// environment: parameters of this trace, account balances
	minA, minB := tf.Int(sc.C, "minA", 1), tf.Int(sc.C, "minB", 2)
	base, fps := tf.Int(sc.C, "base", 3), tf.Int(sc.C, "fps", 2)
	initBal := tf.Int(sc.C, "initBal", 6)
	p := app.TunnelKeeper.GetParams(r.Ctx)
	p.MinDeposit = sdk.NewCoins(sdk.NewInt64Coin(denomA, int64(minA)), sdk.NewInt64Coin(denomB, int64(minB)))
	p.BasePacketFee = sdk.NewCoins()
	if base > 0 {
		p.BasePacketFee = sdk.NewCoins(sdk.NewInt64Coin(denomB, int64(base)))
	}
	p.MinInterval, p.MaxInterval = 1, 10
	p.MinDeviationBPS, p.MaxDeviationBPS = 50, 3000
	must(app.TunnelKeeper.SetParams(r.Ctx, p))
	bp := app.BandtssKeeper.GetParams(r.Ctx)
	bp.FeePerSigner = sdk.NewCoins()
	if fps > 0 {
		bp.FeePerSigner = sdk.NewCoins(sdk.NewInt64Coin(denomB, int64(fps)))
	}
	must(app.BandtssKeeper.SetParams(r.Ctx, bp))
	for _, u := range d.users {
		must(app.BankKeeper.SendCoins(r.Ctx, w.Accts[0].Addr, u.Addr,
			sdk.NewCoins(sdk.NewInt64Coin(denomA, int64(initBal)), sdk.NewInt64Coin(denomB, int64(initBal)))))
	}

	d.W.Reset(sc.C, s.project(), sc.Steps)
	d.St.Traces++
	d.St.Events++
	for _, step := range sc.Steps {
		if s.apply(step) {
			d.St.Events++
		}
	}
	if s.interesting {
		h := sc.Hash()
		if !d.St.Distinct[h] {
			d.St.Distinct[h] = true
			d.St.Interesting++
		}
	}
}

func (s *session) ids(o world.Outcome, typ string) []int {
	out := []int{}
	for _, v := range o.Attrs(typ, tunneltypes.AttributeKeyTunnelID) {
		n, err := strconv.Atoi(v)
		if err != nil {
			n = sentinel
		}
		out = append(out, n)
	}
	return out
}

// cause names why the IBC route of tunnel id cannot send right now (statistics only).
func (s *session) cause(id int) string {
	t, err := s.w.App.TunnelKeeper.GetTunnel(s.r.Ctx, uint64(id))
	if err != nil {
		return "?"
	}
	cause := "tss"
	safe(func() {
		rv, _ := t.GetRouteValue()
		if x, ok := rv.(*tunneltypes.IBCRoute); ok {
			if x.ChannelID == "" {
				cause = "noChannel"
				return
			}
			st, capOK, _ := s.chanState(portOf(id), x.ChannelID)
			switch {
			case st != "open":
				cause = st
			case !capOK:
				cause = "nocap"
			default:
				cause = "open?"
			}
		}
	})
	return cause
}

func (s *session) relayer() string { return s.w.Accts[1].Addr.String() }

// apply plays one step; false = the step made no sense on the real state and was skipped (not logged).
func (s *session) apply(step tf.M) bool {
	app := s.w.App
	k := app.TunnelKeeper
	ck := app.IBCKeeper.ChannelKeeper
	W := s.d.W
	e := tf.Str(step, "e", "")
	tid := uint64(tf.Int(step, "t", 1))
	hops := []string{ibcexported.LocalhostConnectionID}
	switch e {
	case "CreateTunnel":
		who := s.bind(tf.Sub(step, "who"))
		kind := tf.Str(step, "kind", "ibc")
		iv := tf.Int(step, "iv", 2)
		preset := tf.Bool(step, "preset", false) && kind == "ibc"
		devs, sigs, soft, hard := deviations(step)
		dep := tf.Sub(step, "dep")
		var msg *tunneltypes.MsgCreateTunnel
		var err error
		switch {
		case preset:
			msg, err = tunneltypes.NewMsgCreateTunnel(devs, uint64(iv), tunneltypes.NewIBCRoute("channel-0"), coins(dep), s.user(who).Addr.String())
		case kind == "ibc":
			msg, err = tunneltypes.NewMsgCreateIBCTunnel(devs, uint64(iv), coins(dep), s.user(who).Addr.String())
		default:
			msg, err = tunneltypes.NewMsgCreateTSSTunnel(devs, uint64(iv), "eth", "0xverif",
				feedstypes.ENCODER_FIXED_POINT_ABI, coins(dep), s.user(who).Addr.String())
		}
		must(err)
		o := s.deliver(msg)
		if o.OK() {
			if t, err := k.GetTunnel(s.r.Ctx, k.GetTunnelCount(s.r.Ctx)); err == nil {
				s.w.RegisterName(t.FeePayer, fmt.Sprintf("fp%d", t.ID))
			}
		}
		W.Step(e, tf.M{"a": who, "kind": kind, "iv": iv, "sigs": sigs, "soft": soft, "hard": hard, "preset": preset,
			"dep": tf.M{"ua": tf.Int(dep, "ua", 0), "ub": tf.Int(dep, "ub", 0)}}, outc(o), s.project())
	case "UpdateSignals":
		who := s.bind(tf.Sub(step, "who"))
		iv := tf.Int(step, "iv", 2)
		devs, sigs, soft, hard := deviations(step)
		o := s.deliver(tunneltypes.NewMsgUpdateSignalsAndInterval(tid, devs, uint64(iv), s.user(who).Addr.String()))
		W.Step(e, tf.M{"a": who, "t": int(tid), "iv": iv, "sigs": sigs, "soft": soft, "hard": hard}, outc(o), s.project())
	case "UpdateRoute":
		who := s.bind(tf.Sub(step, "who"))
		rk := tf.Str(step, "rk", "ibc")
		p, kk, chID := s.resolveChan(int(tid), tf.Sub(step, "ch"))
		creator := ""
		if t, err := k.GetTunnel(s.r.Ctx, tid); err == nil {
			creator = s.w.Name(t.Creator)
		}
		// the input on which the code and the property text differ: the creator names an existing channel of the tunnel's own
		// port that is not OPEN.  Only scripts of the opt-in entry X05D ("defects") may contain it; it always carries the tag.
		tagged := false
		if rk == "ibc" && who == creator && p == int(tid) && s.kindOf(tid) == "ibc" {
			if st, _, _ := s.chanState(portOf(p), chID); st != "none" && st != "open" {
				if s.d.Mode != "defects" {
					p, kk, chID = 0, 1, unknownID
				} else {
					tagged = true
				}
			}
		}
		var msg *tunneltypes.MsgUpdateRoute
		var err error
		if rk == "ibc" {
			msg, err = tunneltypes.NewMsgUpdateIBCRoute(tid, chID, s.user(who).Addr.String())
		} else {
			rt := tunneltypes.NewTSSRoute("bsc", "0xother", feedstypes.ENCODER_FIXED_POINT_ABI)
			msg, err = tunneltypes.NewMsgUpdateRoute(tid, &rt, s.user(who).Addr.String())
		}
		must(err)
		o := s.deliver(msg)
		if o.OK() {
			s.d.St.RouteOK++
		} else {
			s.d.St.RouteRej++
		}
		a := tf.M{"a": who, "t": int(tid), "rk": rk, "p": p, "k": kk, "id": chID}
		if tagged {
			a["tag"] = tagNonOpen
			s.d.St.Tagged++
			s.interesting = true
		}
		W.Step(e, a, outc(o), s.project())
	case "Activate", "Deactivate", "Trigger":
		who := s.bind(tf.Sub(step, "who"))
		var msg sdk.Msg
		switch e {
		case "Activate":
			msg = tunneltypes.NewMsgActivate(tid, s.user(who).Addr.String())
		case "Deactivate":
			msg = tunneltypes.NewMsgDeactivate(tid, s.user(who).Addr.String())
		default:
			msg = tunneltypes.NewMsgTriggerTunnel(tid, s.user(who).Addr.String())
		}
		cause := ""
		if e == "Trigger" {
			cause = s.cause(int(tid))
		}
		o := s.deliver(msg)
		if e == "Trigger" {
			if o.OK() {
				s.noteEvents(o, true)
				s.interesting = true
			} else {
				s.d.St.TriggerRej[cause]++
			}
		}
		W.Step(e, tf.M{"a": who, "t": int(tid)}, outc(o), s.project())
	case "Deposit", "Withdraw":
		who := s.bind(tf.Sub(step, "who"))
		amt := tf.Sub(step, "amt")
		var msg sdk.Msg
		if e == "Deposit" {
			msg = tunneltypes.NewMsgDepositToTunnel(tid, coins(amt), s.user(who).Addr.String())
		} else {
			msg = tunneltypes.NewMsgWithdrawFromTunnel(tid, coins(amt), s.user(who).Addr.String())
		}
		o := s.deliver(msg)
		W.Step(e, tf.M{"a": who, "t": int(tid), "amt": tf.M{"ua": tf.Int(amt, "ua", 0), "ub": tf.Int(amt, "ub", 0)}, "bad": false},
			outc(o), s.project())
	case "SetFeed":
		sg := tf.Str(step, "s", "s1")
		pr := tf.Int(step, "p", 100)
		fk := app.FeedsKeeper
		if pr < 0 {
			// a signal that is not in the price store: delete everything, restore the others
			keep := fk.GetAllPrices(s.r.Ctx)
			fk.DeleteAllPrices(s.r.Ctx)
			for _, x := range keep {
				if x.SignalID != sg {
					fk.SetPrice(s.r.Ctx, x)
				}
			}
		} else {
			fk.SetPrice(s.r.Ctx, feedstypes.NewPrice(feedstypes.PRICE_STATUS_AVAILABLE, sg, uint64(pr), s.r.Time.Unix()))
		}
		W.Step(e, tf.M{"s": sg, "p": pr}, tf.M{"ok": true}, s.project())
	case "Fund":
		t, err := k.GetTunnel(s.r.Ctx, tid)
		if err != nil {
			return false
		}
		x := tf.Int(step, "x", 7)
		o := s.deliver(banktypes.NewMsgSend(s.w.Accts[0].Addr, sdk.MustAccAddressFromBech32(t.FeePayer),
			sdk.NewCoins(sdk.NewInt64Coin(denomB, int64(x)))))
		if !o.OK() {
			panic(fmt.Sprint("fund failed: ", o.Err, o.Panic))
		}
		W.Step(e, tf.M{"t": int(tid), "x": x}, tf.M{"ok": true}, s.project())
	case "ChanInit":
		// anybody (a relayer) sends MsgChannelOpenInit for port tunnel.<t>, counterparty port tunnel.900
		if len(s.chans[int(tid)]) >= maxChUsed || tid > 4 {
			return false
		}
		ord, ver := tf.Str(step, "ord", "UNORDERED"), tf.Str(step, "ver", tunneltypes.Version)
		order := channeltypes.UNORDERED
		if ord == "ORDERED" {
			order = channeltypes.ORDERED
		}
		o := s.deliver(channeltypes.NewMsgChannelOpenInit(portOf(int(tid)), ver, order, hops, remotePort, s.relayer()))
		s.discover()
		if o.OK() {
			s.d.St.ChanInitOK++
		} else {
			s.d.St.ChanInitRej++
		}
		W.Step(e, tf.M{"t": int(tid), "ord": ord, "ver": ver}, outc(o), s.project())
	case "ChanOpen":
		// environment: the counterparty answers (Try on tunnel.900), then Ack and Confirm are relayed
		kk := tf.Int(step, "k", 1)
		ci := s.chanOf(int(tid), kk)
		if ci == nil {
			return false
		}
		if st, _, _ := s.chanState(portOf(ci.t), ci.id); st != "init" {
			return false
		}
		port := portOf(ci.t)
		ph := clienttypes.GetSelfHeight(s.r.Ctx)
		o := s.deliver(channeltypes.NewMsgChannelOpenTry(remotePort, tunneltypes.Version, channeltypes.UNORDERED, hops, port, ci.id,
			tunneltypes.Version, localhost.SentinelProof, ph, s.relayer()))
		if o.OK() {
			for _, ev := range o.Events {
				if ev.Type == channeltypes.EventTypeChannelOpenTry && attr(ev, channeltypes.AttributeKeyPortID) == remotePort {
					ci.remote = attr(ev, channeltypes.AttributeKeyChannelID)
				}
			}
			o = s.deliver(channeltypes.NewMsgChannelOpenAck(port, ci.id, ci.remote, tunneltypes.Version, localhost.SentinelProof, ph, s.relayer()))
		}
		if o.OK() {
			o = s.deliver(channeltypes.NewMsgChannelOpenConfirm(remotePort, ci.remote, localhost.SentinelProof, ph, s.relayer()))
		}
		W.Step(e, tf.M{"t": ci.t, "k": ci.k}, outc(o), s.project())
	case "Break":
		// environment: the channel end is CLOSED (as ibc core leaves it after the counterparty closed) / the capability is released
		kk, how := tf.Int(step, "k", 1), tf.Str(step, "how", "closed")
		ci := s.chanOf(int(tid), kk)
		if ci == nil {
			return false
		}
		port := portOf(ci.t)
		st, capOK, _ := s.chanState(port, ci.id)
		if st != "open" {
			return false
		}
		if how == "closed" {
			ch, _ := ck.GetChannel(s.r.Ctx, port, ci.id)
			ch.State = channeltypes.CLOSED
			ck.SetChannel(s.r.Ctx, port, ci.id, ch)
		} else {
			how = "nocap"
			if !capOK {
				return false
			}
			if c, ok := app.ScopedTunnelKeeper.GetCapability(s.r.Ctx, host.ChannelCapabilityPath(port, ci.id)); ok {
				must(app.ScopedTunnelKeeper.ReleaseCapability(s.r.Ctx, c))
			}
		}
		W.Step(e, tf.M{"t": ci.t, "k": ci.k, "how": how}, tf.M{"ok": true}, s.project())
	case "CloseInit":
		ci := s.chanOf(int(tid), tf.Int(step, "k", 1))
		if ci == nil {
			return false
		}
		o := s.deliver(channeltypes.NewMsgChannelCloseInit(portOf(ci.t), ci.id, s.relayer()))
		s.d.St.CloseInit++
		W.Step(e, tf.M{"t": ci.t, "k": ci.k}, outc(o), s.project())
	case "RecvIn":
		// the remote chain sends a packet on the channel (environment: committed on the counterparty end with that end's
		// capability), a relayer delivers it with the real MsgRecvPacket
		ci := s.chanOf(int(tid), tf.Int(step, "k", 1))
		if ci == nil || ci.remote == "" {
			return false
		}
		port := portOf(ci.t)
		if st, capOK, _ := s.chanState(port, ci.id); st != "open" || !capOK {
			return false
		}
		rcap, ok := app.ScopedTunnelKeeper.GetCapability(s.r.Ctx, host.ChannelCapabilityPath(remotePort, ci.remote))
		if !ok {
			return false
		}
		data := tunneltypes.NewTunnelPricesPacketData(uint64(ci.t), 1,
			[]feedstypes.Price{feedstypes.NewPrice(feedstypes.PRICE_STATUS_AVAILABLE, "s1", 999, s.r.Time.Unix())}, s.r.Time.Unix()).GetBytes()
		ts := uint64(s.r.Time.UnixNano()) + uint64(time.Hour)
		seq, err := ck.SendPacket(s.r.Ctx, rcap, remotePort, ci.remote, clienttypes.ZeroHeight(), ts, data)
		if err != nil {
			return false
		}
		packet := channeltypes.NewPacket(data, seq, remotePort, ci.remote, port, ci.id, clienttypes.ZeroHeight(), ts)
		o := s.deliver(channeltypes.NewMsgRecvPacket(packet, localhost.SentinelProof, clienttypes.GetSelfHeight(s.r.Ctx), s.relayer()))
		res := outc(o)
		res["ack"] = "none"
		if o.OK() {
			if cls, _ := ackOf(o, port, ci.id); cls != "" {
				res["ack"] = cls
			}
		}
		s.d.St.RecvIn++
		W.Step(e, tf.M{"t": ci.t, "k": ci.k}, res, s.project())
	case "AckPkt", "TimeoutPkt":
		// the n-th (role-relative) IBC packet in flight that can be acknowledged (received before its timeout) / timed out now
		var cand []int
		for i, sp := range s.sent {
			if sp.p < 1 || sp.to == sentinel {
				continue
			}
			ci := s.chanOf(sp.p, sp.k)
			if ci == nil || ci.remote == "" {
				continue
			}
			if len(ck.GetPacketCommitment(s.r.Ctx, sp.raw.SourcePort, sp.raw.SourceChannel, sp.raw.Sequence)) == 0 {
				continue
			}
			if st, capOK, _ := s.chanState(sp.raw.SourcePort, sp.raw.SourceChannel); st != "open" || !capOK {
				continue
			}
			if (e == "AckPkt") == (s.now() < sp.to) {
				cand = append(cand, i)
			}
		}
		if len(cand) == 0 {
			return false
		}
		i := cand[(tf.Int(step, "i", 1)-1+len(cand))%len(cand)]
		sp := s.sent[i]
		ph := clienttypes.GetSelfHeight(s.r.Ctx)
		var o world.Outcome
		if e == "AckPkt" {
			// environment: the counterparty receives the packet (its acknowledgement is whatever that end writes)
			o = s.deliver(channeltypes.NewMsgRecvPacket(sp.raw, localhost.SentinelProof, ph, s.relayer()))
			if o.OK() {
				_, ackBz := ackOf(o, sp.raw.DestinationPort, sp.raw.DestinationChannel)
				o = s.deliver(channeltypes.NewMsgAcknowledgement(sp.raw, ackBz, localhost.SentinelProof, ph, s.relayer()))
			}
			s.d.St.Acks++
		} else {
			o = s.deliver(channeltypes.NewMsgTimeout(sp.raw, 1, localhost.SentinelProof, ph, s.relayer()))
			s.d.St.Timeouts++
		}
		W.Step(e, tf.M{"i": i + 1}, outc(o), s.project())
	case "EndBlock":
		dt := tf.Int(step, "dt", 1)
		causes := map[int]string{}
		for id := uint64(1); id <= k.GetTunnelCount(s.r.Ctx); id++ {
			causes[int(id)] = s.cause(int(id))
		}
		o := s.r.EndBlock()
		s.noteEvents(o, false)
		succ := s.ids(o, tunneltypes.EventTypeProducePacketSuccess)
		fail := s.ids(o, tunneltypes.EventTypeProducePacketFail)
		deact := s.ids(o, tunneltypes.EventTypeDeactivateTunnel)
		for _, id := range succ {
			if causes[id] == "tss" {
				s.d.St.TSSPackets++
			}
		}
		for _, id := range fail {
			s.d.St.FailByCause[causes[id]]++
			s.interesting = true
		}
		s.d.St.Deactivations += len(deact)
		ob := s.r.BeginBlock(int64(dt))
		res := tf.M{"ok": o.OK() && ob.OK(), "succ": succ, "fail": fail, "deact": deact}
		if o.Panic != nil || ob.Panic != nil {
			res["panic"] = fmt.Sprint(o.Panic, ob.Panic)
		}
		W.Step(e, tf.M{"dt": dt}, res, s.project())
	default:
		panic("unknown step " + fmt.Sprint(step))
	}
	return true
}

// ackOf finds the acknowledgement ibc core wrote for a packet received on (port, channel): its class and bytes.
func ackOf(o world.Outcome, port, channel string) (string, []byte) {
	for _, e := range o.Events {
		if e.Type != channeltypes.EventTypeWriteAck || attr(e, channeltypes.AttributeKeyDstChannel) != channel ||
			attr(e, channeltypes.AttributeKeyDstPort) != port {
			continue
		}
		bz, _ := hex.DecodeString(attr(e, channeltypes.AttributeKeyAckHex))
		var js map[string]json.RawMessage
		_ = json.Unmarshal(bz, &js)
		if _, ok := js["result"]; ok {
			return "res", bz
		}
		if _, ok := js["error"]; ok {
			return "err", bz
		}
		return "other", bz
	}
	return "", nil
}
