package fam_tunnelibc

import (
	"math/rand"

	tf "vdrive/tracefmt"
)

// ---------------------------------------------------------------------------------------------
// script building blocks (role-relative: senders and channels are resolved against the real state)

type M = tf.M

func creator(t int) M           { return M{"role": "creator", "t": t} }
func stranger(t, k int) M       { return M{"role": "other", "t": t, "k": k} }
func acct(k int) M              { return M{"role": "acct", "k": k} }
func setFeed(s string, p int) M { return M{"e": "SetFeed", "s": s, "p": p} }
func endBlock(dt int) M         { return M{"e": "EndBlock", "dt": dt} }
func fund(t, x int) M           { return M{"e": "Fund", "t": t, "x": x} }
func activate(t int) M          { return M{"e": "Activate", "t": t, "who": creator(t)} }
func trigger(t int, who M) M    { return M{"e": "Trigger", "t": t, "who": who} }
func chanInit(t int, ord, ver string) M {
	return M{"e": "ChanInit", "t": t, "ord": ord, "ver": ver}
}
func chanOpen(t, k int) M        { return M{"e": "ChanOpen", "t": t, "k": k} }
func brk(t, k int, how string) M { return M{"e": "Break", "t": t, "k": k, "how": how} }
func route(t int, who M, role string, k int) M {
	return M{"e": "UpdateRoute", "t": t, "who": who, "rk": "ibc", "ch": M{"role": role, "k": k}}
}
func create(who M, kind string, iv int, sigs []string, devs map[string][2]int) M {
	soft, hard := M{}, M{}
	var list []interface{}
	for _, s := range sigs {
		list = append(list, s)
		d, ok := devs[s]
		if !ok {
			d = [2]int{300, 3000}
		}
		soft[s], hard[s] = d[0], d[1]
	}
	if list == nil {
		list = []interface{}{}
	}
	return M{"e": "CreateTunnel", "who": who, "kind": kind, "iv": iv, "sigs": list, "soft": soft, "hard": hard,
		"dep": M{"ua": 1, "ub": 2}, "preset": false}
}

// ready = create an IBC tunnel, fund it, open a channel on its port, point the route at it, activate
func ready(t int, who M, iv int, sigs []string, devs map[string][2]int, x int) []M {
	return []M{create(who, "ibc", iv, sigs, devs), fund(t, x), chanInit(t, "UNORDERED", "tunnel-1"), chanOpen(t, 1),
		route(t, creator(t), "open", 1), activate(t)}
}

var both = []string{"s1", "s2"}
var defC = M{"minA": 1, "minB": 2, "base": 3, "fps": 2, "initBal": 6}

func script(c M, parts ...[]M) tf.Script {
	var steps []M
	for _, p := range parts {
		steps = append(steps, p...)
	}
	return tf.Script{Fam: "TunnelIBC", C: c, Steps: steps}
}

// Catalogue is the fixed list of hand-written scenarios.
func Catalogue() []tf.Script {
	swapped := map[string][2]int{"s1": {300, 3000}, "s2": {3000, 300}}
	return []tf.Script{
		// 1. the packet rule over a delivering route: first block sends all, interval 3, hard deviation of one signal with the other
		//    riding along beyond soft / staying behind, a missing feed (price 0), a trigger, a stranger's trigger
		script(defC, []M{setFeed("s1", 100), setFeed("s2", 200)},
			ready(1, acct(1), 3, both, map[string][2]int{"s1": {300, 3000}, "s2": {300, 1000}}, 40),
			[]M{endBlock(1), endBlock(1), setFeed("s1", 130), endBlock(1), setFeed("s2", 207), endBlock(1), setFeed("s2", 221), setFeed("s1", 131),
				endBlock(1), endBlock(2), setFeed("s2", -1), endBlock(1), trigger(1, stranger(1, 1)), trigger(1, creator(1)), setFeed("s1", 90),
				endBlock(3), endBlock(1)}),
		// 2. every way a send fails: no channel named yet ("" route), channel still in INIT on the port, channel closed, capability
		//    lost; nothing persists, the tunnel stays active; a second channel makes it deliver again (sequence numbers continue at 1
		//    on the new channel, the tunnel's sequence is gap-free)
		script(defC, []M{setFeed("s1", 100), create(acct(2), "ibc", 2, []string{"s1"}, nil), fund(1, 30), activate(1),
			endBlock(1), trigger(1, creator(1)), chanInit(1, "UNORDERED", "tunnel-1"), endBlock(1), chanOpen(1, 1), endBlock(1),
			route(1, creator(1), "open", 1), endBlock(1), endBlock(2), brk(1, 1, "closed"), endBlock(2), trigger(1, creator(1)),
			chanInit(1, "UNORDERED", ""), chanOpen(1, 2), route(1, creator(1), "open", 1), endBlock(2), setFeed("s1", 140), endBlock(1),
			brk(1, 2, "nocap"), setFeed("s1", 100), endBlock(1), trigger(1, creator(1)), endBlock(2)}),
		// 3. who may point which tunnel at which channel: stranger, "", unknown id, the other tunnel's channel, the counterparty's
		//    id, a TSS route for an IBC tunnel, an IBC route for a TSS tunnel, a tunnel that does not exist, creation with a preset
		//    channel; the accepted update takes effect at the next end-block
		script(defC, []M{setFeed("s1", 100), setFeed("s2", 100)},
			[]M{create(acct(1), "ibc", 2, both, nil), create(acct(2), "ibc", 2, []string{"s1"}, nil), create(acct(1), "tss", 2, []string{"s1"}, nil),
				{"e": "CreateTunnel", "who": acct(3), "kind": "ibc", "iv": 2, "sigs": []interface{}{"s1"}, "soft": M{"s1": 300}, "hard": M{"s1": 3000},
					"dep": M{"ua": 1, "ub": 2}, "preset": true},
				fund(1, 20), fund(2, 20), activate(1), activate(2),
				chanInit(1, "UNORDERED", "tunnel-1"), chanOpen(1, 1), chanInit(2, "UNORDERED", "tunnel-1"), chanOpen(2, 1),
				route(1, stranger(1, 1), "open", 1), route(1, creator(1), "empty", 0), route(1, creator(1), "missing", 0),
				route(1, creator(1), "other", 1), route(1, creator(1), "remote", 1),
				{"e": "UpdateRoute", "t": 1, "who": creator(1), "rk": "tss", "ch": M{"role": "open", "k": 1}},
				{"e": "UpdateRoute", "t": 3, "who": creator(3), "rk": "ibc", "ch": M{"role": "other", "k": 1}},
				{"e": "UpdateRoute", "t": 3, "who": creator(3), "rk": "tss", "ch": M{"role": "empty"}},
				route(4, acct(1), "missing", 0), endBlock(1),
				route(2, creator(2), "other", 1), route(2, creator(2), "open", 1), route(1, creator(1), "open", 1), endBlock(1), endBlock(2),
				route(2, stranger(2, 2), "open", 1), route(1, creator(1), "open", 1), endBlock(2)}),
		// 4. callbacks: incoming packets are refused, an acknowledgement before the timeout and a timeout after it clear the
		//    commitment and change nothing else, the UNORDERED channel stays open after a timeout, a user cannot close the channel
		script(defC, []M{setFeed("s1", 100), setFeed("s2", 100)},
			ready(1, acct(3), 2, both, nil, 40),
			[]M{endBlock(1), {"e": "RecvIn", "t": 1, "k": 1}, {"e": "AckPkt", "i": 1}, endBlock(1), endBlock(1), {"e": "CloseInit", "t": 1, "k": 1},
				endBlock(3), {"e": "TimeoutPkt", "i": 1}, {"e": "TimeoutPkt", "i": 1}, {"e": "RecvIn", "t": 1, "k": 1}, setFeed("s1", 150), endBlock(1),
				{"e": "AckPkt", "i": 1}, endBlock(1), endBlock(1), {"e": "AckPkt", "i": 2}, {"e": "AckPkt", "i": 1}, endBlock(4), {"e": "TimeoutPkt", "i": 1}, endBlock(1)}),
		// 5. three tunnels in one end-block (two IBC, one TSS; bandtss group current, fee per signer 2): base fee once per packet, no
		//    route fee for the IBC ones, fee payers at the boundary (deactivation when the balance is below the base fee)
		script(M{"minA": 1, "minB": 2, "base": 3, "fps": 2, "initBal": 6}, []M{setFeed("s1", 100), setFeed("s2", 50)},
			ready(1, acct(1), 1, both, nil, 7), ready(2, acct(2), 2, []string{"s2"}, nil, 6),
			[]M{create(acct(3), "tss", 1, []string{"s1"}, nil), fund(3, 14), activate(3),
				endBlock(1), endBlock(1), endBlock(1), fund(1, 3), activate(1), endBlock(1), setFeed("s2", 80), endBlock(1), endBlock(1)}),
		// 6. the handshake callbacks: ORDERED and a foreign version are refused, "" means the current version, the port of a TSS
		//    tunnel / of no tunnel is not bound
		script(defC, []M{setFeed("s1", 100), create(acct(1), "ibc", 2, []string{"s1"}, nil), create(acct(1), "tss", 2, []string{"s1"}, nil),
			chanInit(1, "ORDERED", "tunnel-1"), chanInit(1, "UNORDERED", "bandchain-1"), chanInit(2, "UNORDERED", "tunnel-1"),
			chanInit(3, "UNORDERED", "tunnel-1"), chanInit(1, "UNORDERED", ""), chanOpen(1, 1), chanInit(1, "UNORDERED", "tunnel-1"),
			{"e": "CloseInit", "t": 1, "k": 1}, {"e": "CloseInit", "t": 1, "k": 2},
			fund(1, 9), route(1, creator(1), "open", 1), activate(1), endBlock(1), endBlock(2)}),
		// 7. the route switched between two channels of the same port while packets are in flight: per-channel sequence numbers
		script(M{"minA": 1, "minB": 2, "base": 1, "fps": 2, "initBal": 6}, []M{setFeed("s1", 100), setFeed("s2", 100)},
			ready(1, acct(2), 1, both, swapped, 30),
			[]M{chanInit(1, "UNORDERED", "tunnel-1"), chanOpen(1, 2), endBlock(1), endBlock(1), route(1, creator(1), "open", 2), endBlock(1),
				trigger(1, creator(1)), route(1, creator(1), "open", 1), endBlock(1), {"e": "AckPkt", "i": 3}, brk(1, 1, "closed"),
				endBlock(1), route(1, creator(1), "open", 1), endBlock(1), endBlock(1)}),
		// 8. re-configuration: a new interval changes the timeout of later packets, new signals reset the latest prices (everything
		//    is sent again); zero base fee
		script(M{"minA": 1, "minB": 2, "base": 0, "fps": 1, "initBal": 6}, []M{setFeed("s1", 100), setFeed("s2", 100)},
			ready(1, acct(1), 2, []string{"s1"}, nil, 5),
			[]M{endBlock(1), {"e": "UpdateSignals", "t": 1, "who": creator(1), "iv": 7, "sigs": []interface{}{"s1", "s2"}, "soft": M{"s1": 50, "s2": 50},
				"hard": M{"s1": 300, "s2": 300}}, endBlock(1), setFeed("s2", 104), endBlock(1), endBlock(3),
				{"e": "UpdateSignals", "t": 1, "who": stranger(1, 1), "iv": 1, "sigs": []interface{}{"s1"}, "soft": M{"s1": 50}, "hard": M{"s1": 300}},
				{"e": "Deactivate", "t": 1, "who": creator(1)}, endBlock(5), activate(1), endBlock(1), {"e": "TimeoutPkt", "i": 1}, endBlock(1)}),
	}
}

// DefectScripts (opt-in entry X05D): the inputs on which the unchanged tree and the property text differ.
func DefectScripts() []tf.Script {
	return []tf.Script{
		// the creator points the route at a channel of the tunnel's own port that is still in INIT (handshake not answered)
		script(defC, []M{setFeed("s1", 100), create(acct(1), "ibc", 2, []string{"s1"}, nil), fund(1, 20), activate(1),
			chanInit(1, "UNORDERED", "tunnel-1"), route(1, creator(1), "nonopen", 1), endBlock(1), endBlock(2)}),
		// ... at a channel that is CLOSED
		script(defC, []M{setFeed("s1", 100)}, ready(1, acct(2), 2, []string{"s1"}, nil, 20),
			[]M{endBlock(1), chanInit(1, "UNORDERED", "tunnel-1"), chanOpen(1, 2), route(1, creator(1), "open", 2), brk(1, 1, "closed"),
				route(1, creator(1), "nonopen", 1), endBlock(2), endBlock(2)}),
	}
}

// ---------------------------------------------------------------------------------------------
// random scripts

var devPairs = [][2]int{{300, 3000}, {3000, 300}, {50, 300}, {300, 300}, {1000, 3000}, {50, 3000}, {300, 1000}, {3000, 3000}}
var priceVals = []int{0, 100, 101, 103, 110, 130, 200}

func pick(rng *rand.Rand, xs []int) int { return xs[rng.Intn(len(xs))] }

func randWho(rng *rand.Rand, t int, pCreator int) M {
	if rng.Intn(100) < pCreator {
		return creator(t)
	}
	return stranger(t, 1+rng.Intn(2))
}

func randSigs(rng *rand.Rand) ([]string, map[string][2]int) {
	sigs := [][]string{{"s1", "s2"}, {"s1"}, {"s2"}, {"s1", "s2"}}[rng.Intn(4)]
	devs := map[string][2]int{}
	for _, sg := range sigs {
		devs[sg] = devPairs[rng.Intn(len(devPairs))]
	}
	return sigs, devs
}

// RandomScript: one to three tunnels (mostly IBC) are created, funded and activated; most get an open channel and a route
// at once, the others later or never.  Then prices move around the thresholds, blocks end with different time steps,
// channels break and new ones are opened, routes are updated by creators and strangers over every kind of channel name,
// packets are acknowledged / timed out, packets come in.  With Mode "defects" a route update may also name an existing
// channel that is not open (tagged input).
func RandomScript(rng *rand.Rand, defects bool) tf.Script {
	c := M{"minA": 1, "minB": 2, "base": pick(rng, []int{3, 3, 3, 0, 1}), "fps": pick(rng, []int{2, 2, 1, 0}), "initBal": 6}
	var steps []M
	ntun := 1 + rng.Intn(3)
	steps = append(steps, setFeed("s1", 100))
	if rng.Intn(4) != 0 {
		steps = append(steps, setFeed("s2", pick(rng, []int{100, 200, 0})))
	}
	nch := map[int]int{}
	for t := 1; t <= ntun; t++ {
		kind := "ibc"
		if t > 1 && rng.Intn(6) == 0 {
			kind = "tss"
		}
		sigs, devs := randSigs(rng)
		cr := create(acct(1+rng.Intn(3)), kind, pick(rng, []int{2, 3, 2, 3, 1, 4}), sigs, devs)
		switch rng.Intn(30) {
		case 0:
			cr["iv"] = pick(rng, []int{0, 11})
		case 1:
			cr["preset"] = true
		}
		steps = append(steps, cr, fund(t, pick(rng, []int{7, 14, 21, 30, 6, 3})))
		if kind == "ibc" && rng.Intn(5) != 0 {
			steps = append(steps, chanInit(t, "UNORDERED", "tunnel-1"))
			nch[t]++
			if rng.Intn(8) != 0 {
				steps = append(steps, chanOpen(t, 1), route(t, creator(t), "open", 1))
			}
		}
		steps = append(steps, activate(t))
	}
	chRoles := []string{"open", "open", "open", "other", "empty", "missing", "remote", "own"}
	if defects {
		chRoles = append(chRoles, "nonopen", "nonopen", "own")
	}
	n := 16 + rng.Intn(24)
	for i := 0; i < n; i++ {
		t := 1 + rng.Intn(ntun)
		x := rng.Intn(100)
		switch {
		case x < 22:
			p := pick(rng, priceVals)
			if rng.Intn(14) == 0 {
				p = -1
			}
			steps = append(steps, setFeed(Sigs[rng.Intn(2)], p))
		case x < 27:
			steps = append(steps, fund(t, pick(rng, []int{1, 4, 7, 14})))
		case x < 34:
			steps = append(steps, trigger(t, randWho(rng, t, 85)))
		case x < 38:
			sigs, devs := randSigs(rng)
			up := create(nil, "ibc", pick(rng, []int{1, 2, 3, 5, 2}), sigs, devs)
			delete(up, "kind")
			delete(up, "dep")
			delete(up, "preset")
			up["e"], up["t"], up["who"] = "UpdateSignals", t, randWho(rng, t, 85)
			steps = append(steps, up)
		case x < 41:
			steps = append(steps, M{"e": []string{"Deactivate", "Activate"}[rng.Intn(2)], "t": t, "who": randWho(rng, t, 90)})
		case x < 50:
			r := route(t, randWho(rng, t, 80), chRoles[rng.Intn(len(chRoles))], 1+rng.Intn(3))
			if rng.Intn(12) == 0 {
				r["rk"] = "tss"
			}
			steps = append(steps, r)
		case x < 55:
			// a new channel on the port, usually answered and usually used
			ord, ver := "UNORDERED", "tunnel-1"
			switch rng.Intn(8) {
			case 0:
				ord = "ORDERED"
			case 1:
				ver = "ics20-1"
			case 2:
				ver = ""
			}
			tt := t
			if rng.Intn(10) == 0 {
				tt = ntun + 1
			}
			steps = append(steps, chanInit(tt, ord, ver))
			if ord == "UNORDERED" && ver != "ics20-1" && tt == t {
				nch[t]++
				if rng.Intn(6) != 0 {
					steps = append(steps, chanOpen(t, nch[t]))
					if rng.Intn(4) != 0 {
						steps = append(steps, route(t, creator(t), "open", nch[t]))
					}
				}
			}
		case x < 57:
			steps = append(steps, chanOpen(t, 1+rng.Intn(3)))
		case x < 62:
			steps = append(steps, brk(t, 1+rng.Intn(2), []string{"closed", "nocap"}[rng.Intn(2)]))
		case x < 64:
			steps = append(steps, M{"e": "CloseInit", "t": t, "k": 1 + rng.Intn(2)})
		case x < 68:
			steps = append(steps, M{"e": "RecvIn", "t": t, "k": 1 + rng.Intn(2)})
		case x < 73:
			steps = append(steps, M{"e": "AckPkt", "i": 1 + rng.Intn(4)})
		case x < 78:
			steps = append(steps, M{"e": "TimeoutPkt", "i": 1 + rng.Intn(4)})
		case x < 80:
			steps = append(steps, M{"e": "Withdraw", "t": t, "who": randWho(rng, t, 90), "amt": M{"ua": pick(rng, []int{0, 1}), "ub": pick(rng, []int{0, 1, 2})}})
		case x < 82:
			steps = append(steps, M{"e": "Deposit", "t": t, "who": randWho(rng, t, 70), "amt": M{"ua": pick(rng, []int{0, 1}), "ub": pick(rng, []int{0, 1, 2})}})
		default:
			steps = append(steps, endBlock(pick(rng, []int{1, 1, 1, 2, 3, 0})))
		}
	}
	steps = append(steps, endBlock(1), endBlock(2))
	return tf.Script{Fam: "TunnelIBC", C: c, Steps: steps}
}
