// Package fam_tsssigning drives the real x/tss + x/bandtss signing paths (nonce-pair queues, signing
// requests, partial signatures, the tss end-blocker with its time-outs and retries) with abstract
// scripts (TssSigning.tla actions) and records, after every step, the projection of the real stores
// onto the variables of TssSigning.tla.  Verdicts are TLC's (TssSigning_Trace.tla), not this package's.
//
// Environment (installed with keeper setters, listed in the assumptions of C05/C10): a trusted-dealer
// 3-member group that is the current bandtss group; tss / bandtss / oracle parameters of the script.
// Everything that happens to a nonce pair or to a signing afterwards goes through the real entry
// points: MsgSubmitDEs, MsgResetDE, bandtss MsgRequestSignature, MsgSubmitSignature, bandtss
// MsgActivate, tss MsgUpdateParams (authority), oracle MsgRequestData/MsgReportData with a TSS
// encoder, app.EndBlocker / app.BeginBlocker.
package fam_tsssigning

import (
	"bytes"
	"encoding/hex"
	"fmt"
	"math/rand"
	"sort"
	"strconv"
	"time"

	storetypes "cosmossdk.io/store/types"

	abci "github.com/cometbft/cometbft/abci/types"

	sdk "github.com/cosmos/cosmos-sdk/types"

	"github.com/bandprotocol/chain/v3/pkg/tss"
	bandtsstypes "github.com/bandprotocol/chain/v3/x/bandtss/types"
	oracletypes "github.com/bandprotocol/chain/v3/x/oracle/types"
	tsstypes "github.com/bandprotocol/chain/v3/x/tss/types"

	tf "vdrive/tracefmt"
	"vdrive/tsskit"
	"vdrive/world"
)

const NMember = 3

type Stats struct {
	Traces, Events, Interesting int
	Distinct                    map[string]bool
	Count                       map[string]int
}

type Driver struct {
	w    *world.World
	W    *tf.Writer
	St   Stats
	Mode string // "c05" | "c10": biases the random scripts only
}

func NewDriver(w *tf.Writer) *Driver {
	return &Driver{W: w, St: Stats{Distinct: map[string]bool{}, Count: map[string]int{}}}
}

func (d *Driver) Close() {
	if d.w != nil {
		d.w.Close()
	}
}

func (d *Driver) world() *world.World {
	if d.w == nil {
		cfg := world.DefaultConfig()
		cfg.NumAccounts = 6
		d.w = world.New(cfg)
	}
	return d.w
}

type tokRec struct {
	a   int
	asg map[string]int    // member name -> serial
	key map[string]string // member name -> DE key (pubD|pubE)
}

// session is the per-trace state of the driver.
type session struct {
	d        *Driver
	w        *world.World
	r        *world.Run
	g        *tsskit.Group
	names    []string                 // m1..m3, x1
	acc      map[string]world.Account // by name
	reqAcc   world.Account
	des      map[string]tsskit.DE      // DE key -> private nonce pair
	serial   map[string]map[string]int // name -> DE key -> registration serial
	nser     map[string]int            // name -> number of pairs registered
	tok      map[uint64]*tokRec        // signing id -> latest announced assignment
	prevKey  map[uint64]map[string]string // signing id -> member -> DE key of the previous attempt
	nSucc    map[uint64]int
	nFail    map[uint64]int
	nreq     int
	penalty  int
	oracleOn bool
	flags    map[string]bool // what happened (for the interesting rule)
}

func (s *session) now() int64 { return s.r.Time.Unix() }

func outc(o world.Outcome) tf.M {
	m := tf.M{"ok": o.OK(), "pen": []string{}, "ret": []tf.M{}}
	if o.Panic != nil {
		m["panic"] = fmt.Sprint(o.Panic)
	}
	return m
}

// ---------------------------------------------------------------------------------------------
// projection
// ---------------------------------------------------------------------------------------------

func statusName(st tsstypes.SigningStatus) string {
	switch st {
	case tsstypes.SIGNING_STATUS_WAITING:
		return "WAITING"
	case tsstypes.SIGNING_STATUS_SUCCESS:
		return "SUCCESS"
	case tsstypes.SIGNING_STATUS_FALLEN:
		return "FALLEN"
	}
	return "OTHER"
}

func (s *session) memberName(addr string) string { return s.w.Name(addr) }

func (s *session) project() tf.M {
	ctx := s.r.Ctx
	tk := s.w.App.TSSKeeper
	bk := s.w.App.BandtssKeeper
	gid := s.g.ID

	tp := tk.GetParams(ctx)
	bp := bk.GetParams(ctx)
	thr := 0
	if grp, err := tk.GetGroup(ctx, gid); err == nil {
		thr = int(grp.Threshold)
	}
	p := tf.M{"t": thr, "maxDE": int(tp.MaxDESize), "maxAtt": int(tp.MaxSigningAttempt), "period": int(tp.SigningPeriod),
		"penalty": int(bp.InactivePenaltyDuration / time.Second)}

	q, deN, nser := tf.M{}, tf.M{}, tf.M{}
	store := ctx.KVStore(s.w.App.GetKey(tsstypes.StoreKey))
	for _, n := range s.names {
		addr := s.acc[n].Addr
		dq := tk.GetDEQueue(ctx, addr)
		lst := []int{}
		if dq.Tail < dq.Head || dq.Tail-dq.Head > 64 {
			lst = append(lst, -3) // queue indices broken
		} else {
			for i := dq.Head; i < dq.Tail; i++ {
				de, err := tk.GetDE(ctx, addr, i)
				if err != nil {
					lst = append(lst, -1) // entry missing
					continue
				}
				if sn, ok := s.serial[n][tsskit.PubKey(de.PubD, de.PubE)]; ok {
					lst = append(lst, sn)
				} else {
					lst = append(lst, -2) // a pair nobody registered
				}
			}
		}
		q[n] = lst
		cnt := 0
		it := storetypes.KVStorePrefixIterator(store, tsstypes.DEsStoreKey(addr))
		for ; it.Valid(); it.Next() {
			cnt++
		}
		it.Close()
		deN[n] = cnt
		nser[n] = s.nser[n]
	}

	tssAct, ownAct, cool := tf.M{}, tf.M{}, tf.M{}
	for _, m := range s.g.Members {
		n := m.Acc.Name
		ta, oa, cd := false, false, 0
		if tm, err := tk.GetMember(ctx, gid, m.ID); err == nil {
			ta = tm.IsActive
		}
		if bm, err := bk.GetMember(ctx, m.Acc.Addr, gid); err == nil {
			oa = bm.IsActive
			if !oa {
				end := bm.Since.Add(bp.InactivePenaltyDuration).Unix()
				if end > s.now() {
					cd = int(end - s.now())
				}
			}
		}
		tssAct[n], ownAct[n], cool[n] = ta, oa, cd
	}

	count := tk.GetSigningCount(ctx)
	sigs, atts, toks := []tf.M{}, [][]tf.M{}, []tf.M{}
	leak, mapped := []bool{}, []bool{}
	nSucc, nFail := []int{}, []int{}
	for id := uint64(1); id <= count; id++ {
		sid := tss.SigningID(id)
		cur := uint64(0)
		if sg, err := tk.GetSigning(ctx, sid); err == nil {
			cur = sg.CurrentAttempt
			sigs = append(sigs, tf.M{"status": statusName(sg.Status), "attempt": int(sg.CurrentAttempt), "created": int(sg.CreatedHeight)})
		} else {
			sigs = append(sigs, tf.M{"status": "MISSING", "attempt": 0, "created": 0})
		}
		scan := cur
		if tp.MaxSigningAttempt > scan {
			scan = tp.MaxSigningAttempt
		}
		scan++
		recs := []tf.M{}
		lk := false
		for a := uint64(1); a <= scan && a <= 16; a++ {
			cnt := tk.GetPartialSignatureCount(ctx, sid, a)
			sa, err := tk.GetSigningAttempt(ctx, sid, a)
			if err != nil {
				if cnt != 0 {
					lk = true
				}
				for _, m := range s.g.Members {
					if tk.HasPartialSignature(ctx, sid, a, m.ID) {
						lk = true
					}
				}
				continue
			}
			mem, signed := []string{}, []string{}
			tokOK := true
			tr := s.tok[id]
			for _, am := range sa.AssignedMembers {
				n := s.memberName(am.Address)
				mem = append(mem, n)
				if tk.HasPartialSignature(ctx, sid, a, am.MemberID) {
					signed = append(signed, n)
				}
				if tr != nil && tr.a == int(a) && tr.key[n] != tsskit.PubKey(am.PubD, am.PubE) {
					tokOK = false
				}
			}
			if tr != nil && tr.a == int(a) && len(tr.key) != len(sa.AssignedMembers) {
				tokOK = false
			}
			sort.Strings(mem)
			sort.Strings(signed)
			recs = append(recs, tf.M{"a": int(a), "mem": mem, "expH": int(sa.ExpiredHeight), "signed": signed,
				"cnt": int(cnt), "tokOK": tokOK})
		}
		atts = append(atts, recs)
		leak = append(leak, lk)
		if tr := s.tok[id]; tr != nil {
			asg := []tf.M{}
			ms := []string{}
			for n := range tr.asg {
				ms = append(ms, n)
			}
			sort.Strings(ms)
			for _, n := range ms {
				asg = append(asg, tf.M{"m": n, "s": tr.asg[n]})
			}
			toks = append(toks, tf.M{"a": tr.a, "asg": asg})
		} else {
			toks = append(toks, tf.M{"a": 0, "asg": []tf.M{}})
		}
		mapped = append(mapped, bk.GetSigningIDMapping(ctx, sid) != 0)
		nSucc = append(nSucc, s.nSucc[id])
		nFail = append(nFail, s.nFail[id])
	}
	exps := [][]int{}
	for _, e := range tk.GetSigningExpirations(ctx) {
		exps = append(exps, []int{int(e.SigningID), int(e.SigningAttempt)})
	}
	pend := []int{}
	for _, id := range tk.GetPendingProcessSignings(ctx) {
		pend = append(pend, int(id))
	}
	return tf.M{
		"h": int(s.r.Height), "p": p, "q": q, "deN": deN, "nser": nser,
		"tssAct": tssAct, "ownAct": ownAct, "cool": cool,
		"count": int(count), "sig": sigs, "att": atts, "leak": leak, "tok": toks,
		"exps": exps, "pend": pend, "mapped": mapped, "nSucc": nSucc, "nFail": nFail,
	}
}

// ---------------------------------------------------------------------------------------------
// events -> assignments / outcome counters
// ---------------------------------------------------------------------------------------------

// noteEvents reads the request_signature / signing_success / signing_failed / inactive_status events of
// one step; returns the assignments (in event order) and the penalised members.
func (s *session) noteEvents(o world.Outcome) (ret []tf.M, pen []string) {
	ret, pen = []tf.M{}, []string{}
	for _, e := range o.Events {
		switch e.Type {
		case tsstypes.EventTypeRequestSignature:
			var id uint64
			a := 0
			names := []string{}
			var addr string
			var pubD []byte
			rec := &tokRec{asg: map[string]int{}, key: map[string]string{}}
			for _, at := range e.Attributes {
				switch at.Key {
				case tsstypes.AttributeKeySigningID:
					id, _ = strconv.ParseUint(at.Value, 10, 64)
				case tsstypes.AttributeKeyAttempt:
					a, _ = strconv.Atoi(at.Value)
				case tsstypes.AttributeKeyAddress:
					addr = at.Value
				case tsstypes.AttributeKeyPubD:
					pubD, _ = hex.DecodeString(at.Value)
				case tsstypes.AttributeKeyPubE:
					pubE, _ := hex.DecodeString(at.Value)
					n := s.memberName(addr)
					k := tsskit.PubKey(pubD, pubE)
					sn, ok := s.serial[n][k]
					if !ok {
						sn = -2
					}
					rec.asg[n] = sn
					rec.key[n] = k
					names = append(names, n)
				}
			}
			rec.a = a
			if old := s.tok[id]; old != nil {
				s.prevKey[id] = old.key
			}
			s.tok[id] = rec
			sort.Strings(names)
			ret = append(ret, tf.M{"id": int(id), "a": a, "S": names})
		case tsstypes.EventTypeSigningSuccess:
			for _, at := range e.Attributes {
				if at.Key == tsstypes.AttributeKeySigningID {
					id, _ := strconv.ParseUint(at.Value, 10, 64)
					s.nSucc[id]++
				}
			}
		case tsstypes.EventTypeSigningFailed:
			for _, at := range e.Attributes {
				if at.Key == tsstypes.AttributeKeySigningID {
					id, _ := strconv.ParseUint(at.Value, 10, 64)
					s.nFail[id]++
				}
			}
		case bandtsstypes.EventTypeInactiveStatus:
			for _, at := range e.Attributes {
				if at.Key == bandtsstypes.AttributeKeyAddress {
					pen = append(pen, s.memberName(at.Value))
				}
			}
		}
	}
	sort.Strings(pen)
	return ret, pen
}

// ---------------------------------------------------------------------------------------------
// roles
// ---------------------------------------------------------------------------------------------

// committee returns the sorted member names of the stored current attempt of a signing (nil if none).
func (s *session) committee(id uint64) []string {
	tk := s.w.App.TSSKeeper
	sg, err := tk.GetSigning(s.r.Ctx, tss.SigningID(id))
	if err != nil {
		return nil
	}
	sa, err := tk.GetSigningAttempt(s.r.Ctx, tss.SigningID(id), sg.CurrentAttempt)
	if err != nil {
		return nil
	}
	var out []string
	for _, am := range sa.AssignedMembers {
		out = append(out, s.memberName(am.Address))
	}
	sort.Strings(out)
	return out
}

// bind resolves a role to a name: {"role":"member","k":n} | {"role":"stranger"} |
// {"role":"assigned","k":n,"id":id} | {"role":"unassigned","k":n,"id":id}
func (s *session) bind(role tf.M, defID uint64) string {
	k := tf.Int(role, "k", 1)
	if k < 1 {
		k = 1
	}
	members := s.names[:NMember]
	switch tf.Str(role, "role", "member") {
	case "stranger":
		return "x1"
	case "assigned", "unassigned":
		id := uint64(tf.Int(role, "id", int(defID)))
		if id == 0 {
			id = defID
		}
		com := s.committee(id)
		if tf.Str(role, "role", "") == "assigned" {
			if len(com) == 0 {
				return members[(k-1)%len(members)]
			}
			return com[(k-1)%len(com)]
		}
		in := map[string]bool{}
		for _, c := range com {
			in[c] = true
		}
		var others []string
		for _, n := range members {
			if !in[n] {
				others = append(others, n)
			}
		}
		if len(others) == 0 {
			return "x1"
		}
		return others[(k-1)%len(others)]
	}
	return members[(k-1)%len(members)]
}

// ---------------------------------------------------------------------------------------------
// running a script
// ---------------------------------------------------------------------------------------------

func (s *session) setTssParams(maxDE, period, maxAtt int) {
	tk := s.w.App.TSSKeeper
	p := tk.GetParams(s.r.Ctx)
	p.MaxDESize = uint64(maxDE)
	p.SigningPeriod = uint64(period)
	p.MaxSigningAttempt = uint64(maxAtt)
	if err := tk.SetParams(s.r.Ctx, p); err != nil {
		panic(err)
	}
}

// RunScript plays one script and records its trace.
func (d *Driver) RunScript(sc tf.Script) {
	w := d.world()
	s := &session{d: d, w: w, r: w.Branch(), acc: map[string]world.Account{}, des: map[string]tsskit.DE{},
		serial: map[string]map[string]int{}, nser: map[string]int{}, tok: map[uint64]*tokRec{},
		prevKey: map[uint64]map[string]string{}, nSucc: map[uint64]int{}, nFail: map[uint64]int{}, flags: map[string]bool{}}
	var members []world.Account
	for i := 0; i < NMember; i++ {
		a := w.Accts[i]
		a.Name = fmt.Sprintf("m%d", i+1)
		w.RegisterName(a.Addr.String(), a.Name)
		members = append(members, a)
		s.names = append(s.names, a.Name)
		s.acc[a.Name] = a
	}
	x := w.Accts[NMember]
	x.Name = "x1"
	w.RegisterName(x.Addr.String(), x.Name)
	s.names = append(s.names, x.Name)
	s.acc[x.Name] = x
	s.reqAcc = w.Accts[NMember+1]
	for _, n := range s.names {
		s.serial[n] = map[string]int{}
	}

	t := tf.Int(sc.C, "t", 2)
	maxDE, maxAtt, period := tf.Int(sc.C, "maxDE", 2), tf.Int(sc.C, "maxAtt", 2), tf.Int(sc.C, "period", 1)
	s.penalty = tf.Int(sc.C, "penalty", 1)
	initDE := tf.Int(sc.C, "initDE", 0)
	s.oracleOn = tf.Bool(sc.C, "oracle", false)

	// environment: parameters of this trace, the signing group
	s.setTssParams(maxDE, period, maxAtt)
	bk := w.App.BandtssKeeper
	bp := bk.GetParams(s.r.Ctx)
	bp.InactivePenaltyDuration = time.Duration(s.penalty) * time.Second
	if err := bk.SetParams(s.r.Ctx, bp); err != nil {
		panic(err)
	}
	s.r.BeginBlock(100) // h = 2
	s.g = tsskit.NewGroup("tsssigning", t, members)
	s.g.Install(s.r.Ctx, w.App, bandtsstypes.ModuleName)
	s.g.InstallAsCurrent(s.r.Ctx, w.App)
	if s.oracleOn {
		// oracle validators report in the block of the request (prelude through the real handler)
		for _, v := range w.Vals {
			if o := s.deliver(&oracletypes.MsgActivate{Validator: v.ValAddr.String()}); !o.OK() {
				panic(fmt.Sprint("prelude oracle activate failed: ", o.Err))
			}
		}
	}
	d.W.Reset(sc.C, s.project(), sc.Steps)
	d.St.Traces++
	d.St.Events++
	// initDE pairs per member: ordinary, logged SubmitDEs steps at the head of the trace
	if initDE > 0 {
		for k := 1; k <= NMember; k++ {
			s.apply(tf.M{"e": "SubmitDEs", "who": tf.M{"role": "member", "k": k}, "k": initDE})
			d.St.Events++
		}
	}
	for _, step := range sc.Steps {
		s.apply(step)
		d.St.Events++
	}
	for k := range s.flags {
		d.St.Count[k]++
	}
	if s.flags["timeout"] || s.flags["retry"] || s.flags["resetPending"] || s.flags["rollback"] {
		h := sc.Hash()
		if !d.St.Distinct[h] {
			d.St.Distinct[h] = true
			d.St.Interesting++
		}
	}
}

// deliver runs the messages as one transaction exactly like world.Run.Deliver (all-or-nothing on a cache
// context, ValidateBasic + the real msg service router) and additionally returns the events of the message
// results (the router gives every handler its own event manager; world.Deliver drops those).
func (s *session) deliver(msgs ...sdk.Msg) world.Outcome {
	r := s.r
	em := sdk.NewEventManager()
	txCtx, write := r.Ctx.WithEventManager(em).CacheContext()
	txCtx = txCtx.WithEventManager(em)
	var out world.Outcome
	var evs []abci.Event
	func() {
		defer func() {
			if p := recover(); p != nil {
				out.Panic = p
			}
		}()
		for _, m := range msgs {
			if v, ok := m.(interface{ ValidateBasic() error }); ok {
				if err := v.ValidateBasic(); err != nil {
					out.Err = err
					return
				}
			}
			h := r.W.App.MsgServiceRouter().Handler(m)
			if h == nil {
				out.Err = fmt.Errorf("no handler for %T", m)
				return
			}
			res, err := h(txCtx, m)
			if err != nil {
				out.Err = err
				return
			}
			if res != nil {
				evs = append(evs, res.Events...)
			}
		}
	}()
	if out.OK() {
		write()
		out.Events = append(em.Events().ToABCIEvents(), evs...)
	}
	return out
}

// submitDEs registers k fresh pairs for the address through MsgSubmitDEs; serials are consumed only
// if the message is accepted.
func (s *session) submitDEs(n string, k int) world.Outcome {
	var pubs []tsstypes.DE
	var made []tsskit.DE
	for i := 1; i <= k; i++ {
		de := tsskit.NewDE(fmt.Sprintf("tsssigning|%s|%d", n, s.nser[n]+i))
		made = append(made, de)
		pubs = append(pubs, de.Pub())
	}
	o := s.deliver(&tsstypes.MsgSubmitDEs{DEs: pubs, Sender: s.acc[n].Addr.String()})
	if o.OK() {
		for i, de := range made {
			s.des[de.Key()] = de
			s.serial[n][de.Key()] = s.nser[n] + i + 1
		}
		s.nser[n] += k
	}
	return o
}

func (s *session) requestMsg() sdk.Msg {
	s.nreq++
	content := tsstypes.NewTextSignatureOrder([]byte(fmt.Sprintf("verif-msg-%d", s.nreq)))
	msg, err := bandtsstypes.NewMsgRequestSignature(content, sdk.NewCoins(sdk.NewInt64Coin("uband", 1_000_000)), s.reqAcc.Addr.String())
	if err != nil {
		panic(err)
	}
	return msg
}

func (s *session) anyWaitingAttempt() bool {
	tk := s.w.App.TSSKeeper
	n := tk.GetSigningCount(s.r.Ctx)
	for id := uint64(1); id <= n; id++ {
		if sg, err := tk.GetSigning(s.r.Ctx, tss.SigningID(id)); err == nil && sg.Status == tsstypes.SIGNING_STATUS_WAITING {
			return true
		}
	}
	return false
}

func dummySig() tss.Signature {
	sig, err := tss.NewSignatureFromComponents(tsskit.ScalarFromSeed("dummy-r").Point(), tsskit.ScalarFromSeed("dummy-s"))
	if err != nil {
		panic(err)
	}
	return sig
}

func (s *session) apply(step tf.M) {
	tk := s.w.App.TSSKeeper
	switch tf.Str(step, "e", "") {
	case "SubmitDEs":
		who := s.bind(tf.Sub(step, "who"), 0)
		k := tf.Int(step, "k", 1)
		o := s.submitDEs(who, k)
		s.d.W.Step("SubmitDEs", tf.M{"a": who, "k": k}, outc(o), s.project())
	case "ResetDE":
		who := s.bind(tf.Sub(step, "who"), 0)
		if s.anyWaitingAttempt() {
			s.flags["resetPending"] = true
		}
		o := s.deliver(&tsstypes.MsgResetDE{Sender: s.acc[who].Addr.String()})
		s.d.W.Step("ResetDE", tf.M{"a": who}, outc(o), s.project())
	case "Request":
		o := s.deliver(s.requestMsg())
		oc := outc(o)
		if o.OK() {
			ret, _ := s.noteEvents(o)
			oc["ret"] = ret
			s.flags["request"] = true
		} else {
			s.flags["requestRej"] = true
		}
		s.d.W.Step("Request", tf.M{}, oc, s.project())
	case "RequestRollback":
		// the signing is created by the first message; the second message of the same transaction
		// fails in its handler (the requester is not a member of the group): everything is undone
		fail := &bandtsstypes.MsgActivate{Sender: s.reqAcc.Addr.String(), GroupID: s.g.ID}
		first := s.requestMsg()
		sub := s.r.Sub()
		created := false
		if h := s.w.App.MsgServiceRouter().Handler(first); h != nil { // would the creation alone succeed? (throw-away branch)
			_, err := h(sub, first)
			created = err == nil
		}
		o := s.deliver(first, fail)
		if created {
			s.flags["rollback"] = true
		}
		s.d.W.Step("RequestRollback", tf.M{"created": created}, outc(o), s.project())
	case "SubmitSig":
		id := uint64(tf.Int(step, "id", 1))
		who := s.bind(tf.Sub(step, "who"), id)
		kind := tf.Str(step, "kind", "good")
		acc := s.acc[who]
		mid := tss.MemberID(1)
		var mem *tsskit.Member
		if m, ok := s.g.ByAddr(acc.Addr.String()); ok {
			mid = m.ID
			mem = &m
		}
		sig := dummySig()
		valid := false
		if sg, err := tk.GetSigning(s.r.Ctx, tss.SigningID(id)); err == nil && mem != nil {
			if sa, err := tk.GetSigningAttempt(s.r.Ctx, tss.SigningID(id), sg.CurrentAttempt); err == nil {
				if am, ok := tsstypes.AssignedMembers(sa.AssignedMembers).FindAssignedMember(mid); ok {
					de, have := s.des[tsskit.PubKey(am.PubD, am.PubE)]
					if have {
						if good, err := tsskit.PartialSign(*mem, sg, sa, de); err == nil {
							switch kind {
							case "good":
								sig, valid = good, true
							case "bad": // right nonce, wrong response
								if t, err := tss.NewSignatureFromComponents(good.R(), tsskit.ScalarFromSeed("tamper")); err == nil {
									sig = t
								}
							default: // "stale": the pair of the previous attempt if there was one, else an unregistered pair
								other := tsskit.NewDE("stale|" + who)
								if pk, ok := s.prevKey[id][who]; ok {
									if pd, ok := s.des[pk]; ok && pk != tsskit.PubKey(am.PubD, am.PubE) {
										other = pd
									}
								}
								if st, err := tsskit.PartialSign(*mem, sg, sa, other); err == nil {
									sig = st
								}
							}
						}
					}
				}
			}
		}
		o := s.deliver(&tsstypes.MsgSubmitSignature{SigningID: tss.SigningID(id), MemberID: mid, Signature: sig, Signer: acc.Addr.String()})
		if !o.OK() {
			s.flags["sigRej"] = true
		}
		s.d.W.Step("SubmitSig", tf.M{"m": who, "id": int(id), "valid": valid, "kind": kind}, outc(o), s.project())
	case "Activate":
		who := s.bind(tf.Sub(step, "who"), 0)
		o := s.deliver(&bandtsstypes.MsgActivate{Sender: s.acc[who].Addr.String(), GroupID: s.g.ID})
		if o.OK() {
			s.flags["activate"] = true
		}
		s.d.W.Step("Activate", tf.M{"a": who}, outc(o), s.project())
	case "SetPeriod":
		p := tf.Int(step, "p", 1)
		params := tk.GetParams(s.r.Ctx)
		params.SigningPeriod = uint64(p)
		o := s.deliver(&tsstypes.MsgUpdateParams{Authority: tk.GetAuthority(), Params: params})
		if !o.OK() {
			panic(fmt.Sprint("SetPeriod failed: ", o.Err))
		}
		s.flags["setPeriod"] = true
		s.d.W.Step("SetPeriod", tf.M{"p": p}, outc(o), s.project())
	case "EndBlock":
		npre := tf.Int(step, "npre", 0)
		if !s.oracleOn {
			npre = 0
		}
		for i := 0; i < npre; i++ {
			s.oracleRequest()
		}
		o := s.r.EndBlock()
		ret, pen := s.noteEvents(o)
		created := 0
		for _, r := range ret {
			if r["a"].(int) == 1 {
				created++
			} else {
				s.flags["retry"] = true
			}
		}
		if created > 0 {
			s.flags["oracleSigning"] = true
		}
		if o.Count(tsstypes.EventTypeSigningFailed) > 0 {
			s.flags["fallen"] = true
			s.flags["timeout"] = true
		}
		if len(ret) > created {
			s.flags["timeout"] = true
		}
		if o.Count(tsstypes.EventTypeSigningSuccess) > 0 {
			s.flags["success"] = true
		}
		if len(pen) > 0 {
			s.flags["penalty"] = true
		}
		ob := s.r.BeginBlock(1)
		oc := tf.M{"ok": o.OK() && ob.OK(), "pen": pen, "ret": ret, "created": created}
		if o.Panic != nil {
			oc["panic"] = fmt.Sprint(o.Panic)
		}
		s.d.W.Step("EndBlock", tf.M{"npre": npre}, oc, s.project())
	default:
		panic("unknown step " + fmt.Sprint(step))
	}
}

// oracleRequest files an oracle request with a TSS encoder and the reports that make it resolve at the
// end of this block; the oracle end-blocker then asks bandtss for a signing (safeCreateSigning).
func (s *session) oracleRequest() {
	k := s.w.App.OracleKeeper
	msg := oracletypes.NewMsgRequestData(oracletypes.OracleScriptID(world.ScriptOK1), []byte("cd"), 1, 1, "tsssigning",
		sdk.NewCoins(sdk.NewInt64Coin("uband", 1_000_000)), 40000, 300000, s.reqAcc.Addr, oracletypes.ENCODER_PROTO)
	if o := s.deliver(msg); !o.OK() {
		panic(fmt.Sprint("oracle request failed: ", o.Err))
	}
	id := oracletypes.RequestID(k.GetRequestCount(s.r.Ctx))
	rq, err := k.GetRequest(s.r.Ctx, id)
	if err != nil {
		panic(err)
	}
	var reps []oracletypes.RawReport
	for _, raw := range rq.RawRequests {
		reps = append(reps, oracletypes.NewRawReport(raw.ExternalID, 0, []byte("ans")))
	}
	for _, v := range rq.RequestedValidators {
		va, _ := sdk.ValAddressFromBech32(v)
		if o := s.deliver(oracletypes.NewMsgReportData(id, reps, va)); !o.OK() {
			panic(fmt.Sprint("oracle report failed: ", o.Err))
		}
	}
}

// ---------------------------------------------------------------------------------------------
// random scripts
// ---------------------------------------------------------------------------------------------

func pick(rng *rand.Rand, xs ...int) int { return xs[rng.Intn(len(xs))] }

// RandomScript makes one abstract script; mode "c05" leans to queue traffic (top-ups at the bound,
// resets, rolled-back creations), mode "c10" to signature traffic, time-outs and re-activation.
func RandomScript(rng *rand.Rand, mode string) tf.Script {
	t := pick(rng, 1, 2, 2, 2, 3)
	maxDE := pick(rng, 1, 2, 2, 3, 4)
	maxAtt := pick(rng, 1, 2, 2, 3)
	period := pick(rng, 1, 1, 2, 3)
	penalty := pick(rng, 1, 1, 2, 3, 5)
	initDE := rng.Intn(maxDE + 1)
	oracle := rng.Intn(4) == 0
	c := tf.M{"t": t, "maxDE": maxDE, "maxAtt": maxAtt, "period": period, "penalty": penalty, "initDE": initDE, "oracle": oracle}
	var steps []tf.M
	nblocks := 5 + rng.Intn(6)
	reqs := 0
	reg := 0
	member := func() tf.M { return tf.M{"role": "member", "k": 1 + rng.Intn(NMember)} }
	topUp := rng.Intn(10) < 6    // members refill their queues at the start of a block (like the cylinder daemon)
	mayChange := rng.Intn(8) == 0 // governance changes signing_period in this history
	for b := 0; b < nblocks; b++ {
		if topUp {
			for k := 1; k <= NMember; k++ {
				if rng.Intn(10) < 7 && reg <= 30 {
					n := 1 + rng.Intn(2)
					reg += n
					steps = append(steps, tf.M{"e": "SubmitDEs", "who": tf.M{"role": "member", "k": k}, "k": n})
				}
			}
		}
		nmsg := 1 + rng.Intn(6)
		for i := 0; i < nmsg; i++ {
			x := rng.Intn(100)
			wDE, wReset, wReq, wRoll, wSig, wAct := 24, 5, 16, 4, 38, 8
			if mode == "c05" {
				wDE, wReset, wReq, wRoll, wSig, wAct = 30, 9, 20, 9, 22, 6
			}
			switch {
			case x < wDE:
				if reg > 30 {
					continue
				}
				who := member()
				k := 1 + rng.Intn(2)
				if rng.Intn(8) == 0 {
					who = tf.M{"role": "stranger", "k": 1}
					k = 1
				}
				if rng.Intn(6) == 0 {
					k = maxDE // at the bound when the queue is empty, above it otherwise
				}
				reg += k
				steps = append(steps, tf.M{"e": "SubmitDEs", "who": who, "k": k})
			case x < wDE+wReset:
				steps = append(steps, tf.M{"e": "ResetDE", "who": member()})
			case x < wDE+wReset+wReq:
				if reqs >= 5 {
					continue
				}
				reqs++
				steps = append(steps, tf.M{"e": "Request"})
			case x < wDE+wReset+wReq+wRoll:
				steps = append(steps, tf.M{"e": "RequestRollback"})
			case x < wDE+wReset+wReq+wRoll+wSig:
				if reqs == 0 {
					continue
				}
				id := 1 + rng.Intn(reqs)
				if rng.Intn(15) == 0 {
					id = reqs + 1
				}
				role, kind := "assigned", "good"
				switch y := rng.Intn(20); {
				case y == 0:
					role = "unassigned"
				case y == 1:
					role = "stranger"
				case y == 2:
					kind = "bad"
				case y == 3:
					kind = "stale"
				}
				steps = append(steps, tf.M{"e": "SubmitSig", "id": id, "kind": kind,
					"who": tf.M{"role": role, "k": 1 + rng.Intn(NMember), "id": id}})
				// often let the whole committee sign, or all but the last member (a time-out with one idle member)
				if role == "assigned" && kind == "good" {
					switch rng.Intn(3) {
					case 0:
						for k := 1; k <= t; k++ {
							steps = append(steps, tf.M{"e": "SubmitSig", "id": id, "kind": "good",
								"who": tf.M{"role": "assigned", "k": k, "id": id}})
						}
					case 1:
						for k := 1; k < t; k++ {
							steps = append(steps, tf.M{"e": "SubmitSig", "id": id, "kind": "good",
								"who": tf.M{"role": "assigned", "k": k, "id": id}})
						}
					}
				}
			case x < wDE+wReset+wReq+wRoll+wSig+wAct:
				who := member()
				if rng.Intn(10) == 0 {
					who = tf.M{"role": "stranger", "k": 1}
				}
				steps = append(steps, tf.M{"e": "Activate", "who": who})
			default:
				if mayChange && rng.Intn(2) == 0 && reqs > 0 {
					steps = append(steps, tf.M{"e": "SetPeriod", "p": 1 + rng.Intn(3)})
				}
			}
		}
		npre := 0
		if oracle && rng.Intn(3) == 0 && reqs < 5 {
			npre = 1 + rng.Intn(2)
			reqs += npre
		}
		steps = append(steps, tf.M{"e": "EndBlock", "npre": npre})
	}
	// run out the clock so that every signing terminates
	for i := 0; i < maxAtt*3+1; i++ {
		steps = append(steps, tf.M{"e": "EndBlock", "npre": 0})
	}
	return tf.Script{Fam: "TssSigning", C: c, Steps: steps}
}

var _ = bytes.Equal
