// Package fam_tsssigning drives the real x/tss + x/bandtss signing paths (nonce-pair queues, signing
// requests, partial signatures, the tss end-blocker with its time-outs and retries) with abstract
// scripts (TssSigning.tla actions) and records, after every step, the projection of the real stores
// onto the variables of TssSigning.tla.  Verdicts are TLC's (TssSigning_Trace.tla), not this package's.
//
// Environment (installed with keeper setters, listed in the assumptions of C05/C10): a trusted-dealer
// 3-member group that is the current bandtss group; tss / bandtss / oracle parameters of the script.
// Everything that happens to a nonce pair or to a signing afterwards goes through the real entry
// points: MsgSubmitDEs, MsgResetDE, bandtss MsgRequestSignature, MsgSubmitSignature, bandtss
// MsgActivate, tss MsgUpdateParams (authority), oracle MsgRequestData/MsgReportData with a TSS
// encoder, tunnel MsgCreateTunnel/MsgActivate/MsgDeactivate/MsgTriggerTunnel (TSS route; feed prices and the
// fee payer's balance are environment), bandtss MsgTransitionGroup from the authority (the outcome of the
// incoming group's key generation is installed at round 3 as in fam_bandtss), app.EndBlocker / app.BeginBlocker.
package fam_tsssigning

import (
	"bytes"
	"encoding/hex"
	"fmt"
	"math/rand"
	"sort"
	"strconv"
	"strings"
	"time"

	sdkmath "cosmossdk.io/math"
	storetypes "cosmossdk.io/store/types"

	abci "github.com/cometbft/cometbft/abci/types"

	sdk "github.com/cosmos/cosmos-sdk/types"

	"github.com/bandprotocol/chain/v3/pkg/tss"
	bandtsstypes "github.com/bandprotocol/chain/v3/x/bandtss/types"
	feedstypes "github.com/bandprotocol/chain/v3/x/feeds/types"
	tunneltypes "github.com/bandprotocol/chain/v3/x/tunnel/types"
	banktypes "github.com/cosmos/cosmos-sdk/x/bank/types"
	oracletypes "github.com/bandprotocol/chain/v3/x/oracle/types"
	tsstypes "github.com/bandprotocol/chain/v3/x/tss/types"

	tf "vdrive/tracefmt"
	"vdrive/tsskit"
	"vdrive/world"
)

const NMember = 3

type Stats struct {
	Traces, Events, Interesting int
	Distinct                    map[string]bool
	Count                       map[string]int
}

type Driver struct {
	w    *world.World
	W    *tf.Writer
	St   Stats
	Mode string // "c05" | "c10": biases the random scripts only
}

func NewDriver(w *tf.Writer) *Driver {
	return &Driver{W: w, St: Stats{Distinct: map[string]bool{}, Count: map[string]int{}}}
}

func (d *Driver) Close() {
	if d.w != nil {
		d.w.Close()
	}
}

func (d *Driver) world() *world.World {
	if d.w == nil {
		cfg := world.DefaultConfig()
		cfg.NumAccounts = 6
		d.w = world.New(cfg)
	}
	return d.w
}

type tokRec struct {
	a   int
	asg map[string]int    // member name -> serial
	key map[string]string // member name -> DE key (pubD|pubE)
}

// session is the per-trace state of the driver.
type session struct {
	d        *Driver
	w        *world.World
	r        *world.Run
	g        *tsskit.Group
	names    []string                 // m1..m3, x1
	acc      map[string]world.Account // by name
	reqAcc   world.Account
	des      map[string]tsskit.DE      // DE key -> private nonce pair
	serial   map[string]map[string]int // name -> DE key -> registration serial
	nser     map[string]int            // name -> number of pairs registered
	tok      map[uint64]*tokRec        // signing id -> latest announced assignment
	prevKey  map[uint64]map[string]string // signing id -> member -> DE key of the previous attempt
	nSucc    map[uint64]int
	nFail    map[uint64]int
	nreq     int
	penalty  int
	oracleOn bool
	g2        *tsskit.Group     // incoming group of the transition (nil until MsgTransitionGroup)
	trOn      bool              // the script may start a transition
	trStarted bool
	tunOn     bool
	tunID     uint64
	tunPrice  int
	src       map[uint64]string // signing id -> "direct" | "oracle" | "tunnel" | "transition" (from create_signing_request)
	flags    map[string]bool // what happened (for the interesting rule)
}

func (s *session) now() int64 { return s.r.Time.Unix() }

const tunSignal = "CS:BAND-USD"

func outc(o world.Outcome) tf.M {
	m := tf.M{"ok": o.OK(), "pen": []tf.M{}, "ret": []tf.M{}}
	if o.Panic != nil {
		m["panic"] = fmt.Sprint(o.Panic)
	}
	return m
}

// ---------------------------------------------------------------------------------------------
// projection
// ---------------------------------------------------------------------------------------------

func statusName(st tsstypes.SigningStatus) string {
	switch st {
	case tsstypes.SIGNING_STATUS_WAITING:
		return "WAITING"
	case tsstypes.SIGNING_STATUS_SUCCESS:
		return "SUCCESS"
	case tsstypes.SIGNING_STATUS_FALLEN:
		return "FALLEN"
	}
	return "OTHER"
}

func (s *session) memberName(addr string) string { return s.w.Name(addr) }

// grpNo: 1 = the current group, 2 = the incoming group of the transition, 0 = unknown
func (s *session) grpNo(gid tss.GroupID) int {
	if gid == s.g.ID {
		return 1
	}
	if s.g2 != nil && gid == s.g2.ID {
		return 2
	}
	return 0
}

func (s *session) kit(gid tss.GroupID) *tsskit.Group {
	if s.g2 != nil && gid == s.g2.ID {
		return s.g2
	}
	return s.g
}

func (s *session) project() tf.M {
	ctx := s.r.Ctx
	tk := s.w.App.TSSKeeper
	bk := s.w.App.BandtssKeeper
	gid := s.g.ID

	tp := tk.GetParams(ctx)
	bp := bk.GetParams(ctx)
	thr := 0
	if grp, err := tk.GetGroup(ctx, gid); err == nil {
		thr = int(grp.Threshold)
	}
	p := tf.M{"t": thr, "maxDE": int(tp.MaxDESize), "maxAtt": int(tp.MaxSigningAttempt), "period": int(tp.SigningPeriod),
		"penalty": int(bp.InactivePenaltyDuration / time.Second)}

	q, deN, nser := tf.M{}, tf.M{}, tf.M{}
	store := ctx.KVStore(s.w.App.GetKey(tsstypes.StoreKey))
	for _, n := range s.names {
		addr := s.acc[n].Addr
		dq := tk.GetDEQueue(ctx, addr)
		lst := []int{}
		if dq.Tail < dq.Head || dq.Tail-dq.Head > 64 {
			lst = append(lst, -3) // queue indices broken
		} else {
			for i := dq.Head; i < dq.Tail; i++ {
				de, err := tk.GetDE(ctx, addr, i)
				if err != nil {
					lst = append(lst, -1) // entry missing
					continue
				}
				if sn, ok := s.serial[n][tsskit.PubKey(de.PubD, de.PubE)]; ok {
					lst = append(lst, sn)
				} else {
					lst = append(lst, -2) // a pair nobody registered
				}
			}
		}
		q[n] = lst
		cnt := 0
		it := storetypes.KVStorePrefixIterator(store, tsstypes.DEsStoreKey(addr))
		for ; it.Valid(); it.Next() {
			cnt++
		}
		it.Close()
		deN[n] = cnt
		nser[n] = s.nser[n]
	}

	// member flags per group: [current, incoming]; the incoming group's flags are read only while the
	// transition awaits execution (before that the owner module has no members for it)
	trState, trSig := "none", uint64(0)
	if t, found := bk.GetGroupTransition(ctx); found {
		switch t.Status {
		case bandtsstypes.TRANSITION_STATUS_CREATING_GROUP:
			trState = "pending"
		case bandtsstypes.TRANSITION_STATUS_WAITING_SIGN:
			trState, trSig = "sign", uint64(t.SigningID)
		case bandtsstypes.TRANSITION_STATUS_WAITING_EXECUTION:
			trState = "exec"
		default:
			trState = "other"
		}
	} else if s.trStarted {
		trState = "dropped"
	}
	tssAct, ownAct, cool := []tf.M{}, []tf.M{}, []tf.M{}
	for gi, grp := range []*tsskit.Group{s.g, s.g2} {
		ta, oa, cd := tf.M{}, tf.M{}, tf.M{}
		for _, m := range s.g.Members {
			n := m.Acc.Name
			ta[n], oa[n], cd[n] = false, false, 0
			if grp == nil || (gi == 1 && trState != "exec") {
				continue
			}
			if tm, err := tk.GetMember(ctx, grp.ID, m.ID); err == nil {
				ta[n] = tm.IsActive
			}
			if bm, err := bk.GetMember(ctx, m.Acc.Addr, grp.ID); err == nil {
				oa[n] = bm.IsActive
				if !bm.IsActive {
					end := bm.Since.Add(bp.InactivePenaltyDuration).Unix()
					if end > s.now() {
						cd[n] = int(end - s.now())
					}
				}
			}
		}
		tssAct, ownAct, cool = append(tssAct, ta), append(ownAct, oa), append(cool, cd)
	}

	count := tk.GetSigningCount(ctx)
	sigs, atts, toks := []tf.M{}, [][]tf.M{}, []tf.M{}
	leak, mapped := []bool{}, []bool{}
	nSucc, nFail := []int{}, []int{}
	for id := uint64(1); id <= count; id++ {
		sid := tss.SigningID(id)
		cur := uint64(0)
		if sg, err := tk.GetSigning(ctx, sid); err == nil {
			cur = sg.CurrentAttempt
			sigs = append(sigs, tf.M{"status": statusName(sg.Status), "attempt": int(sg.CurrentAttempt), "created": int(sg.CreatedHeight),
				"grp": s.grpNo(sg.GroupID)})
		} else {
			sigs = append(sigs, tf.M{"status": "MISSING", "attempt": 0, "created": 0, "grp": 0})
		}
		scan := cur
		if tp.MaxSigningAttempt > scan {
			scan = tp.MaxSigningAttempt
		}
		scan++
		recs := []tf.M{}
		lk := false
		for a := uint64(1); a <= scan && a <= 16; a++ {
			cnt := tk.GetPartialSignatureCount(ctx, sid, a)
			sa, err := tk.GetSigningAttempt(ctx, sid, a)
			if err != nil {
				if cnt != 0 {
					lk = true
				}
				for _, m := range s.g.Members {
					if tk.HasPartialSignature(ctx, sid, a, m.ID) {
						lk = true
					}
				}
				continue
			}
			mem, signed := []string{}, []string{}
			tokOK := true
			tr := s.tok[id]
			for _, am := range sa.AssignedMembers {
				n := s.memberName(am.Address)
				mem = append(mem, n)
				if tk.HasPartialSignature(ctx, sid, a, am.MemberID) {
					signed = append(signed, n)
				}
				if tr != nil && tr.a == int(a) && tr.key[n] != tsskit.PubKey(am.PubD, am.PubE) {
					tokOK = false
				}
			}
			if tr != nil && tr.a == int(a) && len(tr.key) != len(sa.AssignedMembers) {
				tokOK = false
			}
			sort.Strings(mem)
			sort.Strings(signed)
			recs = append(recs, tf.M{"a": int(a), "mem": mem, "expH": int(sa.ExpiredHeight), "signed": signed,
				"cnt": int(cnt), "tokOK": tokOK})
		}
		atts = append(atts, recs)
		leak = append(leak, lk)
		if tr := s.tok[id]; tr != nil {
			asg := []tf.M{}
			ms := []string{}
			for n := range tr.asg {
				ms = append(ms, n)
			}
			sort.Strings(ms)
			for _, n := range ms {
				asg = append(asg, tf.M{"m": n, "s": tr.asg[n]})
			}
			toks = append(toks, tf.M{"a": tr.a, "asg": asg})
		} else {
			toks = append(toks, tf.M{"a": 0, "asg": []tf.M{}})
		}
		// the owner module still waits for the outcome: request mapping, or the transition waits for this signature
		mapped = append(mapped, bk.GetSigningIDMapping(ctx, sid) != 0 || (trState == "sign" && trSig == id))
		nSucc = append(nSucc, s.nSucc[id])
		nFail = append(nFail, s.nFail[id])
	}
	exps := [][]int{}
	for _, e := range tk.GetSigningExpirations(ctx) {
		exps = append(exps, []int{int(e.SigningID), int(e.SigningAttempt)})
	}
	pend := []int{}
	for _, id := range tk.GetPendingProcessSignings(ctx) {
		pend = append(pend, int(id))
	}
	return tf.M{
		"h": int(s.r.Height), "p": p, "q": q, "deN": deN, "nser": nser,
		"tssAct": tssAct, "ownAct": ownAct, "cool": cool,
		"count": int(count), "sig": sigs, "att": atts, "leak": leak, "tok": toks,
		"exps": exps, "pend": pend, "mapped": mapped, "nSucc": nSucc, "nFail": nFail, "tr": trState,
	}
}

// ---------------------------------------------------------------------------------------------
// events -> assignments / outcome counters
// ---------------------------------------------------------------------------------------------

// noteEvents reads the create_signing_request / request_signature / signing_success / signing_failed /
// inactive_status events of one step; returns the assignments (in event order; each with its group and,
// inside an end-block, whether it was made after the tss end-blocker's expiry phase: retries and tunnel
// packets) and the penalised (group, member) pairs.
func (s *session) noteEvents(o world.Outcome, endBlock bool) (ret []tf.M, pen []tf.M) {
	ret, pen = []tf.M{}, []tf.M{}
	attr := func(e abci.Event, key string) string {
		for _, at := range e.Attributes {
			if at.Key == key {
				return at.Value
			}
		}
		return ""
	}
	for _, e := range o.Events {
		switch e.Type {
		case tsstypes.EventTypeCreateSigning:
			id, _ := strconv.ParseUint(attr(e, tsstypes.AttributeKeySigningID), 10, 64)
			ct := attr(e, tsstypes.AttributeKeyContentType)
			switch {
			case strings.Contains(ct, "TunnelSignatureOrder"):
				s.src[id] = "tunnel"
			case strings.Contains(ct, "OracleResultSignatureOrder"):
				s.src[id] = "oracle"
			case strings.Contains(ct, "GroupTransitionSignatureOrder"):
				s.src[id] = "transition"
			default:
				s.src[id] = "direct"
			}
		case tsstypes.EventTypeRequestSignature:
			var id uint64
			a := 0
			g := 0
			names := []string{}
			var addr string
			var pubD []byte
			rec := &tokRec{asg: map[string]int{}, key: map[string]string{}}
			for _, at := range e.Attributes {
				switch at.Key {
				case tsstypes.AttributeKeySigningID:
					id, _ = strconv.ParseUint(at.Value, 10, 64)
				case tsstypes.AttributeKeyGroupID:
					gid, _ := strconv.ParseUint(at.Value, 10, 64)
					g = s.grpNo(tss.GroupID(gid))
				case tsstypes.AttributeKeyAttempt:
					a, _ = strconv.Atoi(at.Value)
				case tsstypes.AttributeKeyAddress:
					addr = at.Value
				case tsstypes.AttributeKeyPubD:
					pubD, _ = hex.DecodeString(at.Value)
				case tsstypes.AttributeKeyPubE:
					pubE, _ := hex.DecodeString(at.Value)
					n := s.memberName(addr)
					k := tsskit.PubKey(pubD, pubE)
					sn, ok := s.serial[n][k]
					if !ok {
						sn = -2
					}
					rec.asg[n] = sn
					rec.key[n] = k
					names = append(names, n)
				}
			}
			rec.a = a
			if old := s.tok[id]; old != nil {
				s.prevKey[id] = old.key
			}
			s.tok[id] = rec
			sort.Strings(names)
			post := endBlock && (a > 1 || s.src[id] == "tunnel")
			ret = append(ret, tf.M{"id": int(id), "a": a, "g": g, "S": names, "post": post})
		case tsstypes.EventTypeSigningSuccess:
			id, _ := strconv.ParseUint(attr(e, tsstypes.AttributeKeySigningID), 10, 64)
			s.nSucc[id]++
		case tsstypes.EventTypeSigningFailed:
			id, _ := strconv.ParseUint(attr(e, tsstypes.AttributeKeySigningID), 10, 64)
			s.nFail[id]++
		case bandtsstypes.EventTypeInactiveStatus:
			gid, _ := strconv.ParseUint(attr(e, bandtsstypes.AttributeKeyGroupID), 10, 64)
			pen = append(pen, tf.M{"g": s.grpNo(tss.GroupID(gid)), "m": s.memberName(attr(e, bandtsstypes.AttributeKeyAddress))})
		}
	}
	sort.Slice(pen, func(i, j int) bool {
		if pen[i]["g"].(int) != pen[j]["g"].(int) {
			return pen[i]["g"].(int) < pen[j]["g"].(int)
		}
		return pen[i]["m"].(string) < pen[j]["m"].(string)
	})
	return ret, pen
}

// ---------------------------------------------------------------------------------------------
// roles
// ---------------------------------------------------------------------------------------------

// committee returns the sorted member names of the stored current attempt of a signing (nil if none).
func (s *session) committee(id uint64) []string {
	tk := s.w.App.TSSKeeper
	sg, err := tk.GetSigning(s.r.Ctx, tss.SigningID(id))
	if err != nil {
		return nil
	}
	sa, err := tk.GetSigningAttempt(s.r.Ctx, tss.SigningID(id), sg.CurrentAttempt)
	if err != nil {
		return nil
	}
	var out []string
	for _, am := range sa.AssignedMembers {
		out = append(out, s.memberName(am.Address))
	}
	sort.Strings(out)
	return out
}

// bind resolves a role to a name: {"role":"member","k":n} | {"role":"stranger"} |
// {"role":"assigned","k":n,"id":id} | {"role":"unassigned","k":n,"id":id}
func (s *session) bind(role tf.M, defID uint64) string {
	k := tf.Int(role, "k", 1)
	if k < 1 {
		k = 1
	}
	members := s.names[:NMember]
	switch tf.Str(role, "role", "member") {
	case "stranger":
		return "x1"
	case "assigned", "unassigned":
		id := uint64(tf.Int(role, "id", int(defID)))
		if id == 0 {
			id = defID
		}
		com := s.committee(id)
		if tf.Str(role, "role", "") == "assigned" {
			if len(com) == 0 {
				return members[(k-1)%len(members)]
			}
			return com[(k-1)%len(com)]
		}
		in := map[string]bool{}
		for _, c := range com {
			in[c] = true
		}
		var others []string
		for _, n := range members {
			if !in[n] {
				others = append(others, n)
			}
		}
		if len(others) == 0 {
			return "x1"
		}
		return others[(k-1)%len(others)]
	}
	return members[(k-1)%len(members)]
}

// ---------------------------------------------------------------------------------------------
// running a script
// ---------------------------------------------------------------------------------------------

func (s *session) setTssParams(maxDE, period, maxAtt int) {
	tk := s.w.App.TSSKeeper
	p := tk.GetParams(s.r.Ctx)
	p.MaxDESize = uint64(maxDE)
	p.SigningPeriod = uint64(period)
	p.MaxSigningAttempt = uint64(maxAtt)
	if err := tk.SetParams(s.r.Ctx, p); err != nil {
		panic(err)
	}
}

// RunScript plays one script and records its trace.
func (d *Driver) RunScript(sc tf.Script) {
	w := d.world()
	s := &session{d: d, w: w, r: w.Branch(), acc: map[string]world.Account{}, des: map[string]tsskit.DE{},
		serial: map[string]map[string]int{}, nser: map[string]int{}, tok: map[uint64]*tokRec{},
		prevKey: map[uint64]map[string]string{}, nSucc: map[uint64]int{}, nFail: map[uint64]int{}, flags: map[string]bool{},
		src: map[uint64]string{}}
	var members []world.Account
	for i := 0; i < NMember; i++ {
		a := w.Accts[i]
		a.Name = fmt.Sprintf("m%d", i+1)
		w.RegisterName(a.Addr.String(), a.Name)
		members = append(members, a)
		s.names = append(s.names, a.Name)
		s.acc[a.Name] = a
	}
	x := w.Accts[NMember]
	x.Name = "x1"
	w.RegisterName(x.Addr.String(), x.Name)
	s.names = append(s.names, x.Name)
	s.acc[x.Name] = x
	s.reqAcc = w.Accts[NMember+1]
	for _, n := range s.names {
		s.serial[n] = map[string]int{}
	}

	t := tf.Int(sc.C, "t", 2)
	maxDE, maxAtt, period := tf.Int(sc.C, "maxDE", 2), tf.Int(sc.C, "maxAtt", 2), tf.Int(sc.C, "period", 1)
	s.penalty = tf.Int(sc.C, "penalty", 1)
	initDE := tf.Int(sc.C, "initDE", 0)
	s.oracleOn = tf.Bool(sc.C, "oracle", false)
	s.tunOn = tf.Bool(sc.C, "tunnel", false)
	s.trOn = tf.Bool(sc.C, "trans", false)

	// environment: parameters of this trace, the signing group
	s.setTssParams(maxDE, period, maxAtt)
	bk := w.App.BandtssKeeper
	bp := bk.GetParams(s.r.Ctx)
	bp.InactivePenaltyDuration = time.Duration(s.penalty) * time.Second
	bp.MinTransitionDuration = time.Second
	bp.MaxTransitionDuration = 1000000 * time.Second // the transition is never executed inside a trace
	if err := bk.SetParams(s.r.Ctx, bp); err != nil {
		panic(err)
	}
	s.r.BeginBlock(100) // h = 2
	s.g = tsskit.NewGroup("tsssigning", t, members)
	s.g.Install(s.r.Ctx, w.App, bandtsstypes.ModuleName)
	s.g.InstallAsCurrent(s.r.Ctx, w.App)
	if s.oracleOn {
		// oracle validators report in the block of the request (prelude through the real handler)
		for _, v := range w.Vals {
			if o := s.deliver(&oracletypes.MsgActivate{Validator: v.ValAddr.String()}); !o.OK() {
				panic(fmt.Sprint("prelude oracle activate failed: ", o.Err))
			}
		}
	}
	if s.tunOn {
		s.setupTunnel()
	}
	d.W.Reset(sc.C, s.project(), sc.Steps)
	d.St.Traces++
	d.St.Events++
	// initDE pairs per member: ordinary, logged SubmitDEs steps at the head of the trace
	if initDE > 0 {
		for k := 1; k <= NMember; k++ {
			s.apply(tf.M{"e": "SubmitDEs", "who": tf.M{"role": "member", "k": k}, "k": initDE})
			d.St.Events++
		}
	}
	for _, step := range sc.Steps {
		s.apply(step)
		d.St.Events++
	}
	for k := range s.flags {
		d.St.Count[k]++
	}
	if s.flags["timeout"] || s.flags["retry"] || s.flags["resetPending"] || s.flags["rollback"] ||
		s.flags["tunnelDropped"] || s.flags["handoverDropped"] || s.flags["incomingFailed"] {
		h := sc.Hash()
		if !d.St.Distinct[h] {
			d.St.Distinct[h] = true
			d.St.Interesting++
		}
	}
}

// deliver runs the messages as one transaction exactly like world.Run.Deliver (all-or-nothing on a cache
// context, ValidateBasic + the real msg service router) and additionally returns the events of the message
// results (the router gives every handler its own event manager; world.Deliver drops those).
func (s *session) deliver(msgs ...sdk.Msg) world.Outcome {
	r := s.r
	em := sdk.NewEventManager()
	txCtx, write := r.Ctx.WithEventManager(em).CacheContext()
	txCtx = txCtx.WithEventManager(em)
	var out world.Outcome
	var evs []abci.Event
	func() {
		defer func() {
			if p := recover(); p != nil {
				out.Panic = p
			}
		}()
		for _, m := range msgs {
			if v, ok := m.(interface{ ValidateBasic() error }); ok {
				if err := v.ValidateBasic(); err != nil {
					out.Err = err
					return
				}
			}
			h := r.W.App.MsgServiceRouter().Handler(m)
			if h == nil {
				out.Err = fmt.Errorf("no handler for %T", m)
				return
			}
			res, err := h(txCtx, m)
			if err != nil {
				out.Err = err
				return
			}
			if res != nil {
				evs = append(evs, res.Events...)
			}
		}
	}()
	if out.OK() {
		write()
		out.Events = append(em.Events().ToABCIEvents(), evs...)
	}
	return out
}

// setupTunnel (environment): one TSS-route tunnel created, funded and left inactive through the real tunnel
// msg server; its feed price is installed with the feeds keeper.  The driver decides per block whether the
// tunnel produces a packet by (de)activating it with the real messages and by moving the feed price.
func (s *session) setupTunnel() {
	app := s.w.App
	tp := app.TunnelKeeper.GetParams(s.r.Ctx)
	tp.MinDeposit = sdk.NewCoins(sdk.NewInt64Coin("uband", 1000))
	tp.BasePacketFee = sdk.NewCoins(sdk.NewInt64Coin("uband", 10))
	tp.MinInterval, tp.MaxInterval = 1, 1000000
	if err := app.TunnelKeeper.SetParams(s.r.Ctx, tp); err != nil {
		panic(err)
	}
	s.tunPrice = 1000
	s.setTunPrice()
	devs := []tunneltypes.SignalDeviation{tunneltypes.NewSignalDeviation(tunSignal, 1000, 1000)}
	msg, err := tunneltypes.NewMsgCreateTSSTunnel(devs, 1000000, "eth", "0xverif", feedstypes.ENCODER_FIXED_POINT_ABI,
		sdk.NewCoins(sdk.NewInt64Coin("uband", 1000)), s.reqAcc.Addr.String())
	if err != nil {
		panic(err)
	}
	if o := s.deliver(msg); !o.OK() {
		panic(fmt.Sprint("tunnel set-up failed: ", o.Err, o.Panic))
	}
	s.tunID = app.TunnelKeeper.GetTunnelCount(s.r.Ctx)
	s.fundTunnel(true)
}

func (s *session) setTunPrice() {
	s.w.App.FeedsKeeper.SetPrice(s.r.Ctx, feedstypes.NewPrice(feedstypes.PRICE_STATUS_AVAILABLE, tunSignal, uint64(s.tunPrice), s.r.Time.Unix()))
}

// fundTunnel (environment): the fee payer of the tunnel holds plenty / nothing.
func (s *session) fundTunnel(funded bool) {
	t, err := s.w.App.TunnelKeeper.GetTunnel(s.r.Ctx, s.tunID)
	if err != nil {
		panic(err)
	}
	fp := sdk.MustAccAddressFromBech32(t.FeePayer)
	bal := s.w.App.BankKeeper.GetBalance(s.r.Ctx, fp, "uband")
	var msg sdk.Msg
	switch {
	case funded && bal.Amount.LT(sdkmath.NewInt(500_000)):
		msg = banktypes.NewMsgSend(s.reqAcc.Addr, fp, sdk.NewCoins(sdk.NewInt64Coin("uband", 1_000_000)))
	case !funded && bal.Amount.IsPositive():
		msg = banktypes.NewMsgSend(fp, s.reqAcc.Addr, sdk.NewCoins(bal))
	default:
		return
	}
	if o := s.deliver(msg); !o.OK() {
		panic(fmt.Sprint("tunnel funding failed: ", o.Err, o.Panic))
	}
}

// armTunnel (environment): active with a feed price that deviates from the last packet, or inactive.
func (s *session) armTunnel(on bool) {
	t, err := s.w.App.TunnelKeeper.GetTunnel(s.r.Ctx, s.tunID)
	if err != nil {
		panic(err)
	}
	creator := s.reqAcc.Addr.String()
	if on {
		if s.tunPrice == 1000 {
			s.tunPrice = 3000
		} else {
			s.tunPrice = 1000
		}
		s.setTunPrice()
		if !t.IsActive {
			if o := s.deliver(tunneltypes.NewMsgActivate(s.tunID, creator)); !o.OK() {
				panic(fmt.Sprint("tunnel activation failed: ", o.Err, o.Panic))
			}
		}
	} else if t.IsActive {
		if o := s.deliver(tunneltypes.NewMsgDeactivate(s.tunID, creator)); !o.OK() {
			panic(fmt.Sprint("tunnel deactivation failed: ", o.Err, o.Panic))
		}
	}
}

// startTransition: MsgTransitionGroup from the authority (real handler: the incoming group is created in
// round 1), then - environment, exactly like fam_bandtss "DkgDone" - the outcome of its key generation is
// installed at round 3 and the group is queued for the tss end-blocker.
func (s *session) startTransition() world.Outcome {
	app := s.w.App
	bk, tk := app.BandtssKeeper, app.TSSKeeper
	var members []string
	var accs []world.Account
	for _, m := range s.g.Members {
		members = append(members, m.Acc.Addr.String())
		accs = append(accs, m.Acc)
	}
	msg := bandtsstypes.NewMsgTransitionGroup(members, uint64(s.g.T), s.r.Time.Add(500000*time.Second), bk.GetAuthority())
	o := s.deliver(msg)
	if !o.OK() {
		return o
	}
	tr, found := bk.GetGroupTransition(s.r.Ctx)
	if !found {
		panic("transition not stored")
	}
	gid := tr.IncomingGroupID
	kg := tsskit.NewGroup("tsssigning-incoming", s.g.T, accs)
	kg.ID = gid
	grp, err := tk.GetGroup(s.r.Ctx, gid)
	if err != nil {
		panic(err)
	}
	grp.Status = tsstypes.GROUP_STATUS_ROUND_3
	grp.PubKey = kg.PubKey
	tk.SetGroup(s.r.Ctx, grp)
	for _, m := range kg.Members {
		tk.SetMember(s.r.Ctx, tsstypes.NewMember(m.ID, gid, m.Acc.Addr, m.Pub, false, true))
	}
	tk.AddPendingProcessGroup(s.r.Ctx, gid)
	s.g2 = kg
	s.trStarted = true
	return o
}

// submitDEs registers k fresh pairs for the address through MsgSubmitDEs; serials are consumed only
// if the message is accepted.
func (s *session) submitDEs(n string, k int) world.Outcome {
	var pubs []tsstypes.DE
	var made []tsskit.DE
	for i := 1; i <= k; i++ {
		de := tsskit.NewDE(fmt.Sprintf("tsssigning|%s|%d", n, s.nser[n]+i))
		made = append(made, de)
		pubs = append(pubs, de.Pub())
	}
	o := s.deliver(&tsstypes.MsgSubmitDEs{DEs: pubs, Sender: s.acc[n].Addr.String()})
	if o.OK() {
		for i, de := range made {
			s.des[de.Key()] = de
			s.serial[n][de.Key()] = s.nser[n] + i + 1
		}
		s.nser[n] += k
	}
	return o
}

func (s *session) requestMsg() sdk.Msg {
	s.nreq++
	content := tsstypes.NewTextSignatureOrder([]byte(fmt.Sprintf("verif-msg-%d", s.nreq)))
	msg, err := bandtsstypes.NewMsgRequestSignature(content, sdk.NewCoins(sdk.NewInt64Coin("uband", 1_000_000)), s.reqAcc.Addr.String())
	if err != nil {
		panic(err)
	}
	return msg
}

func (s *session) trState() string {
	if t, found := s.w.App.BandtssKeeper.GetGroupTransition(s.r.Ctx); found {
		switch t.Status {
		case bandtsstypes.TRANSITION_STATUS_CREATING_GROUP:
			return "pending"
		case bandtsstypes.TRANSITION_STATUS_WAITING_SIGN:
			return "sign"
		case bandtsstypes.TRANSITION_STATUS_WAITING_EXECUTION:
			return "exec"
		}
		return "other"
	}
	if s.trStarted {
		return "dropped"
	}
	return "none"
}

func (s *session) anyWaitingAttempt() bool {
	tk := s.w.App.TSSKeeper
	n := tk.GetSigningCount(s.r.Ctx)
	for id := uint64(1); id <= n; id++ {
		if sg, err := tk.GetSigning(s.r.Ctx, tss.SigningID(id)); err == nil && sg.Status == tsstypes.SIGNING_STATUS_WAITING {
			return true
		}
	}
	return false
}

func dummySig() tss.Signature {
	sig, err := tss.NewSignatureFromComponents(tsskit.ScalarFromSeed("dummy-r").Point(), tsskit.ScalarFromSeed("dummy-s"))
	if err != nil {
		panic(err)
	}
	return sig
}

func (s *session) apply(step tf.M) {
	tk := s.w.App.TSSKeeper
	switch tf.Str(step, "e", "") {
	case "SubmitDEs":
		who := s.bind(tf.Sub(step, "who"), 0)
		k := tf.Int(step, "k", 1)
		o := s.submitDEs(who, k)
		s.d.W.Step("SubmitDEs", tf.M{"a": who, "k": k}, outc(o), s.project())
	case "ResetDE":
		who := s.bind(tf.Sub(step, "who"), 0)
		if s.anyWaitingAttempt() {
			s.flags["resetPending"] = true
		}
		o := s.deliver(&tsstypes.MsgResetDE{Sender: s.acc[who].Addr.String()})
		s.d.W.Step("ResetDE", tf.M{"a": who}, outc(o), s.project())
	case "Request":
		src := tf.Str(step, "src", "direct")
		if src == "tunnel" && !s.tunOn {
			src = "direct"
		}
		// store fault (see plantFault): the creation fails in the middle of taking the committee's nonce pairs
		// (not while a transition awaits execution: a request then also asks the incoming group, best effort - a fault
		// that hits only that second creation is no rolled-back request)
		fault := tf.Sub(step, "fault")
		if s.trState() == "exec" {
			fault = nil
		}
		restore := s.plantFault(fault)
		defer restore()
		var o world.Outcome
		if src == "tunnel" {
			// MsgTriggerTunnel by the creator of an active, funded tunnel: packet + signing in this transaction
			s.fundTunnel(true)
			s.armTunnel(true)
			o = s.deliver(tunneltypes.NewMsgTriggerTunnel(s.tunID, s.reqAcc.Addr.String()))
		} else {
			o = s.deliver(s.requestMsg())
		}
		oc := outc(o)
		if o.OK() {
			ret, _ := s.noteEvents(o, false)
			oc["ret"] = ret
			s.flags["request"] = true
			if src == "tunnel" {
				s.flags["tunnelTrigger"] = true
			}
			if len(ret) > 1 {
				s.flags["incomingSigning"] = true
			} else if s.trState() == "exec" {
				s.flags["incomingFailed"] = true
			}
		} else {
			s.flags["requestRej"] = true
			if src == "tunnel" {
				s.flags["tunnelTriggerRej"] = true
			}
		}
		restore()
		if f := fault; len(f) > 0 && !o.OK() {
			// a creation that failed on the planted fault is a rolled-back creation: nothing of it may remain
			s.flags["rollback"] = true
			s.d.W.Step("RequestRollback", tf.M{"created": false, "src": src, "fault": tf.Str(f, "kind", "garbage")}, oc, s.project())
			return
		}
		s.d.W.Step("Request", tf.M{"src": src}, oc, s.project())
	case "Transition":
		if !s.trOn || s.trStarted {
			return // one transition per history (not logged: the step makes no sense on the real state)
		}
		o := s.startTransition()
		s.flags["transition"] = true
		s.d.W.Step("Transition", tf.M{}, outc(o), s.project())
	case "RequestRollback":
		// the signing is created by the first message; the second message of the same transaction
		// fails in its handler (the requester is not a member of the group): everything is undone
		fail := &bandtsstypes.MsgActivate{Sender: s.reqAcc.Addr.String(), GroupID: s.g.ID}
		first := s.requestMsg()
		sub := s.r.Sub()
		created := false
		if h := s.w.App.MsgServiceRouter().Handler(first); h != nil { // would the creation alone succeed? (throw-away branch)
			_, err := h(sub, first)
			created = err == nil
		}
		o := s.deliver(first, fail)
		if created {
			s.flags["rollback"] = true
		}
		s.d.W.Step("RequestRollback", tf.M{"created": created}, outc(o), s.project())
	case "SubmitSig":
		id := uint64(tf.Int(step, "id", 1))
		if tf.Str(step, "sid", "") == "handover" {
			// role-relative: the hand-over signing of the transition (a signing that does not exist if there is none)
			id = s.w.App.TSSKeeper.GetSigningCount(s.r.Ctx) + 1
			if t, found := s.w.App.BandtssKeeper.GetGroupTransition(s.r.Ctx); found && t.SigningID != 0 {
				id = uint64(t.SigningID)
			}
		}
		who := s.bind(tf.Sub(step, "who"), id)
		kind := tf.Str(step, "kind", "good")
		acc := s.acc[who]
		mid := tss.MemberID(1)
		var mem *tsskit.Member
		if m, ok := s.g.ByAddr(acc.Addr.String()); ok {
			mid = m.ID
			mem = &m
		}
		sig := dummySig()
		valid := false
		if sg, err := tk.GetSigning(s.r.Ctx, tss.SigningID(id)); err == nil && mem != nil {
			if m, ok := s.kit(sg.GroupID).ByAddr(acc.Addr.String()); ok { // the share of the signing's group
				mem = &m
			}
			if sa, err := tk.GetSigningAttempt(s.r.Ctx, tss.SigningID(id), sg.CurrentAttempt); err == nil {
				if am, ok := tsstypes.AssignedMembers(sa.AssignedMembers).FindAssignedMember(mid); ok {
					de, have := s.des[tsskit.PubKey(am.PubD, am.PubE)]
					if have {
						if good, err := tsskit.PartialSign(*mem, sg, sa, de); err == nil {
							switch kind {
							case "good":
								sig, valid = good, true
							case "bad": // right nonce, wrong response
								if t, err := tss.NewSignatureFromComponents(good.R(), tsskit.ScalarFromSeed("tamper")); err == nil {
									sig = t
								}
							default: // "stale": the pair of the previous attempt if there was one, else an unregistered pair
								other := tsskit.NewDE("stale|" + who)
								if pk, ok := s.prevKey[id][who]; ok {
									if pd, ok := s.des[pk]; ok && pk != tsskit.PubKey(am.PubD, am.PubE) {
										other = pd
									}
								}
								if st, err := tsskit.PartialSign(*mem, sg, sa, other); err == nil {
									sig = st
								}
							}
						}
					}
				}
			}
		}
		o := s.deliver(&tsstypes.MsgSubmitSignature{SigningID: tss.SigningID(id), MemberID: mid, Signature: sig, Signer: acc.Addr.String()})
		if !o.OK() {
			s.flags["sigRej"] = true
		}
		s.d.W.Step("SubmitSig", tf.M{"m": who, "id": int(id), "valid": valid, "kind": kind}, outc(o), s.project())
	case "Activate":
		who := s.bind(tf.Sub(step, "who"), 0)
		g := tf.Int(step, "g", 1)
		gid := s.g.ID
		if g == 2 {
			if s.g2 == nil {
				g = 1
			} else {
				gid = s.g2.ID
			}
		}
		o := s.deliver(&bandtsstypes.MsgActivate{Sender: s.acc[who].Addr.String(), GroupID: gid})
		if o.OK() {
			s.flags["activate"] = true
			if g == 2 {
				s.flags["activateIncoming"] = true
			}
		}
		s.d.W.Step("Activate", tf.M{"a": who, "g": g}, outc(o), s.project())
	case "SetPeriod":
		p := tf.Int(step, "p", 1)
		params := tk.GetParams(s.r.Ctx)
		params.SigningPeriod = uint64(p)
		o := s.deliver(&tsstypes.MsgUpdateParams{Authority: tk.GetAuthority(), Params: params})
		if !o.OK() {
			panic(fmt.Sprint("SetPeriod failed: ", o.Err))
		}
		s.flags["setPeriod"] = true
		s.d.W.Step("SetPeriod", tf.M{"p": p}, outc(o), s.project())
	case "SetMaxDE":
		m := tf.Int(step, "m", 1)
		params := tk.GetParams(s.r.Ctx)
		params.MaxDESize = uint64(m)
		o := s.deliver(&tsstypes.MsgUpdateParams{Authority: tk.GetAuthority(), Params: params})
		if !o.OK() {
			panic(fmt.Sprint("SetMaxDE failed: ", o.Err))
		}
		s.flags["setMaxDE"] = true
		s.d.W.Step("SetMaxDE", tf.M{"m": m}, outc(o), s.project())
	case "SetMaxAtt":
		m := tf.Int(step, "m", 1)
		params := tk.GetParams(s.r.Ctx)
		params.MaxSigningAttempt = uint64(m)
		o := s.deliver(&tsstypes.MsgUpdateParams{Authority: tk.GetAuthority(), Params: params})
		if !o.OK() {
			panic(fmt.Sprint("SetMaxAtt failed: ", o.Err))
		}
		s.flags["setMaxAtt"] = true
		s.d.W.Step("SetMaxAtt", tf.M{"m": m}, outc(o), s.project())
	case "EndBlock":
		npre := tf.Int(step, "npre", 0)
		if !s.oracleOn {
			npre = 0
		}
		for i := 0; i < npre; i++ {
			s.oracleRequest()
		}
		ntun, funded := tf.Int(step, "ntun", 0), tf.Bool(step, "funded", true)
		if !s.tunOn {
			ntun = 0
		}
		if s.tunOn {
			// environment: the tunnel is armed (active, price moved) exactly when the script wants a packet
			if ntun > 0 {
				s.fundTunnel(funded)
			}
			s.armTunnel(ntun > 0)
		}
		trBefore := s.trState()
		// store fault during the end-block's creations (oracle results, tunnel packets) - only in a block in which no
		// stored attempt is due (a retry hitting the fault would be a failure of the fault, not of a creation) and no
		// hand-over signing is about to be created
		restore := func() {}
		if f := tf.Sub(step, "fault"); len(f) > 0 && trBefore != "pending" && trBefore != "exec" && !s.anyDue() {
			restore = s.plantFault(f)
			s.flags["rollback"] = true
		}
		o := s.r.EndBlock()
		restore()
		ret, pen := s.noteEvents(o, true)
		cpre, cpost, hand := 0, 0, false
		for _, r := range ret {
			id := uint64(r["id"].(int))
			switch {
			case r["a"].(int) > 1:
				s.flags["retry"] = true
			case r["g"].(int) == 2:
				s.flags["incomingSigning"] = true
			case s.src[id] == "tunnel":
				cpost++
			case s.src[id] == "transition":
				hand = true
			default:
				cpre++
			}
		}
		if cpre > 0 {
			s.flags["oracleSigning"] = true
		}
		if cpost > 0 {
			s.flags["tunnelPacket"] = true
		}
		if ntun > 0 && funded && cpost == 0 {
			s.flags["tunnelDropped"] = true
		}
		if ntun > 0 && !funded {
			s.flags["tunnelUnfunded"] = true
		}
		if hand {
			s.flags["handover"] = true
		}
		if trBefore == "pending" && !hand {
			s.flags["handoverDropped"] = true
		}
		if trBefore != "exec" && s.trState() == "exec" {
			s.flags["handoverSigned"] = true
		}
		if o.Count(tsstypes.EventTypeSigningFailed) > 0 {
			s.flags["fallen"] = true
			s.flags["timeout"] = true
		}
		if s.flags["retry"] {
			s.flags["timeout"] = true
		}
		if o.Count(tsstypes.EventTypeSigningSuccess) > 0 {
			s.flags["success"] = true
		}
		if len(pen) > 0 {
			s.flags["penalty"] = true
		}
		ob := s.r.BeginBlock(1)
		oc := tf.M{"ok": o.OK() && ob.OK(), "pen": pen, "ret": ret, "npre": cpre, "npost": cpost, "hand": hand}
		if o.Panic != nil {
			oc["panic"] = fmt.Sprint(o.Panic)
		}
		s.d.W.Step("EndBlock", tf.M{"npre": npre, "ntun": ntun, "funded": funded}, oc, s.project())
	default:
		panic("unknown step " + fmt.Sprint(step))
	}
}

// oracleRequest files an oracle request with a TSS encoder and the reports that make it resolve at the
// end of this block; the oracle end-blocker then asks bandtss for a signing (safeCreateSigning).
// plantFault damages the store record of the head nonce pair of member f.m (kind "garbage": undecodable bytes, the
// read panics; kind "missing": the record is gone although the queue counts it, the read returns an error).  No input
// can do this: it is a fault injected below the keeper, so that a signing creation fails AFTER it has taken the pairs of
// the members before f.m - the situation the rollback clause of C05 is about.  The returned function puts the record
// back (idempotent).
func (s *session) plantFault(f tf.M) func() {
	if len(f) == 0 {
		return func() {}
	}
	k := tf.Int(f, "m", 1)
	if k < 1 || k > len(s.g.Members) {
		return func() {}
	}
	addr := s.g.Members[k-1].Acc.Addr
	tk := s.w.App.TSSKeeper
	q := tk.GetDEQueue(s.r.Ctx, addr)
	if q.Head >= q.Tail {
		return func() {}
	}
	store := s.r.Ctx.KVStore(s.w.App.GetKey(tsstypes.StoreKey))
	key := tsstypes.DEStoreKey(addr, q.Head)
	orig := store.Get(key)
	if orig == nil {
		return func() {}
	}
	if tf.Str(f, "kind", "garbage") == "missing" {
		store.Delete(key)
	} else {
		store.Set(key, []byte{0xff, 0xff, 0xff, 0x07})
	}
	done := false
	return func() {
		if done {
			return
		}
		done = true
		// the record goes back unless the pair was consumed meanwhile (possible only if the code ignored the fault)
		if q2 := tk.GetDEQueue(s.r.Ctx, addr); q2.Head == q.Head {
			s.r.Ctx.KVStore(s.w.App.GetKey(tsstypes.StoreKey)).Set(key, orig)
		}
	}
}

// anyDue: some stored signing attempt expires at or before the current height
func (s *session) anyDue() bool {
	for _, e := range s.w.App.TSSKeeper.GetSigningExpirations(s.r.Ctx) {
		if sa, err := s.w.App.TSSKeeper.GetSigningAttempt(s.r.Ctx, e.SigningID, e.SigningAttempt); err == nil && sa.ExpiredHeight <= uint64(s.r.Height) {
			return true
		}
	}
	return false
}

func (s *session) oracleRequest() {
	k := s.w.App.OracleKeeper
	msg := oracletypes.NewMsgRequestData(oracletypes.OracleScriptID(world.ScriptOK1), []byte("cd"), 1, 1, "tsssigning",
		sdk.NewCoins(sdk.NewInt64Coin("uband", 1_000_000)), 40000, 300000, s.reqAcc.Addr, oracletypes.ENCODER_PROTO)
	if o := s.deliver(msg); !o.OK() {
		panic(fmt.Sprint("oracle request failed: ", o.Err))
	}
	id := oracletypes.RequestID(k.GetRequestCount(s.r.Ctx))
	rq, err := k.GetRequest(s.r.Ctx, id)
	if err != nil {
		panic(err)
	}
	var reps []oracletypes.RawReport
	for _, raw := range rq.RawRequests {
		reps = append(reps, oracletypes.NewRawReport(raw.ExternalID, 0, []byte("ans")))
	}
	for _, v := range rq.RequestedValidators {
		va, _ := sdk.ValAddressFromBech32(v)
		if o := s.deliver(oracletypes.NewMsgReportData(id, reps, va)); !o.OK() {
			panic(fmt.Sprint("oracle report failed: ", o.Err))
		}
	}
}

// ---------------------------------------------------------------------------------------------
// random scripts
// ---------------------------------------------------------------------------------------------

func pick(rng *rand.Rand, xs ...int) int { return xs[rng.Intn(len(xs))] }

// RandomScript makes one abstract script; mode "c05" leans to queue traffic (top-ups at the bound,
// resets, rolled-back creations), mode "c10" to signature traffic, time-outs and re-activation.
func RandomScript(rng *rand.Rand, mode string) tf.Script {
	t := pick(rng, 1, 2, 2, 2, 3)
	maxDE := pick(rng, 1, 2, 2, 3, 4)
	maxAtt := pick(rng, 1, 2, 2, 3)
	period := pick(rng, 1, 1, 2, 3)
	penalty := pick(rng, 1, 1, 2, 3, 5)
	initDE := rng.Intn(maxDE + 1)
	oracle := rng.Intn(4) == 0
	tunnel := rng.Intn(3) == 0
	trans := rng.Intn(3) == 0
	c := tf.M{"t": t, "maxDE": maxDE, "maxAtt": maxAtt, "period": period, "penalty": penalty, "initDE": initDE,
		"oracle": oracle, "tunnel": tunnel, "trans": trans}
	transAt := -1
	if trans {
		transAt = rng.Intn(4) // the block in which governance starts the transition
	}
	var steps []tf.M
	nblocks := 5 + rng.Intn(6)
	reqs := 0
	reg := 0
	member := func() tf.M { return tf.M{"role": "member", "k": 1 + rng.Intn(NMember)} }
	topUp := rng.Intn(10) < 6 || trans // members refill their queues at the start of a block (like the cylinder daemon)
	mayChange := rng.Intn(8) == 0 // governance changes signing_period in this history
	for b := 0; b < nblocks; b++ {
		if topUp {
			for k := 1; k <= NMember; k++ {
				if rng.Intn(10) < 7 && reg <= 30 {
					n := 1 + rng.Intn(2)
					reg += n
					steps = append(steps, tf.M{"e": "SubmitDEs", "who": tf.M{"role": "member", "k": k}, "k": n})
				}
			}
		}
		nmsg := 1 + rng.Intn(6)
		if b == transAt {
			steps = append(steps, tf.M{"e": "Transition"})
		}
		if trans && b == transAt+1 {
			reqs++ // the hand-over signing, if its creation succeeded
			if rng.Intn(5) > 0 { // usually the current group signs the hand-over message
				for k := 1; k <= t; k++ {
					steps = append(steps, tf.M{"e": "SubmitSig", "sid": "handover", "kind": "good", "who": tf.M{"role": "assigned", "k": k}})
				}
			}
		}
		for i := 0; i < nmsg; i++ {
			x := rng.Intn(100)
			wDE, wReset, wReq, wRoll, wSig, wAct := 24, 5, 16, 4, 38, 8
			if mode == "c05" {
				wDE, wReset, wReq, wRoll, wSig, wAct = 30, 9, 20, 9, 22, 6
			}
			switch {
			case x < wDE:
				if reg > 30 {
					continue
				}
				who := member()
				k := 1 + rng.Intn(2)
				if rng.Intn(8) == 0 {
					who = tf.M{"role": "stranger", "k": 1}
					k = 1
				}
				if rng.Intn(6) == 0 {
					k = maxDE // at the bound when the queue is empty, above it otherwise
				}
				reg += k
				steps = append(steps, tf.M{"e": "SubmitDEs", "who": who, "k": k})
			case x < wDE+wReset:
				steps = append(steps, tf.M{"e": "ResetDE", "who": member()})
			case x < wDE+wReset+wReq:
				if reqs >= 5 {
					continue
				}
				reqs++
				src := "direct"
				if tunnel && rng.Intn(3) == 0 {
					src = "tunnel"
				}
				rq := tf.M{"e": "Request", "src": src}
				if rng.Intn(7) == 0 {
					// a store fault hits one member's head pair while the committee's pairs are taken
					rq["fault"] = tf.M{"m": 1 + rng.Intn(NMember), "kind": []string{"garbage", "missing"}[rng.Intn(2)]}
				}
				steps = append(steps, rq)
				if trans && b > transAt+1 {
					reqs++ // the incoming group is asked too (best effort)
				}
			case x < wDE+wReset+wReq+wRoll:
				steps = append(steps, tf.M{"e": "RequestRollback"})
			case x < wDE+wReset+wReq+wRoll+wSig:
				if reqs == 0 {
					continue
				}
				id := 1 + rng.Intn(reqs)
				if rng.Intn(15) == 0 {
					id = reqs + 1
				}
				role, kind := "assigned", "good"
				switch y := rng.Intn(20); {
				case y == 0:
					role = "unassigned"
				case y == 1:
					role = "stranger"
				case y == 2:
					kind = "bad"
				case y == 3:
					kind = "stale"
				}
				steps = append(steps, tf.M{"e": "SubmitSig", "id": id, "kind": kind,
					"who": tf.M{"role": role, "k": 1 + rng.Intn(NMember), "id": id}})
				// often let the whole committee sign, or all but the last member (a time-out with one idle member)
				if role == "assigned" && kind == "good" {
					switch rng.Intn(3) {
					case 0:
						for k := 1; k <= t; k++ {
							steps = append(steps, tf.M{"e": "SubmitSig", "id": id, "kind": "good",
								"who": tf.M{"role": "assigned", "k": k, "id": id}})
						}
					case 1:
						for k := 1; k < t; k++ {
							steps = append(steps, tf.M{"e": "SubmitSig", "id": id, "kind": "good",
								"who": tf.M{"role": "assigned", "k": k, "id": id}})
						}
					}
				}
			case x < wDE+wReset+wReq+wRoll+wSig+wAct:
				who := member()
				if rng.Intn(10) == 0 {
					who = tf.M{"role": "stranger", "k": 1}
				}
				g := 1
				if trans && b > transAt+1 && rng.Intn(3) == 0 {
					g = 2
				}
				steps = append(steps, tf.M{"e": "Activate", "who": who, "g": g})
			default:
				if mayChange && rng.Intn(2) == 0 && reqs > 0 {
					steps = append(steps, tf.M{"e": "SetPeriod", "p": 1 + rng.Intn(3)})
				} else if mayChange && rng.Intn(2) == 0 && reqs > 0 {
					steps = append(steps, tf.M{"e": "SetMaxAtt", "m": 1 + rng.Intn(3)})
				} else if mayChange && rng.Intn(2) == 0 {
					steps = append(steps, tf.M{"e": "SetMaxDE", "m": 1 + rng.Intn(3)})
				}
			}
		}
		npre := 0
		if oracle && rng.Intn(3) == 0 && reqs < 5 {
			npre = 1 + rng.Intn(2)
			reqs += npre
		}
		ntun, funded := 0, true
		if tunnel && rng.Intn(3) == 0 && reqs < 6 {
			ntun = 1
			funded = rng.Intn(6) > 0
			if funded {
				reqs++
			}
		}
		eb := tf.M{"e": "EndBlock", "npre": npre, "ntun": ntun, "funded": funded}
		if (npre > 0 || (ntun > 0 && funded)) && rng.Intn(4) == 0 {
			eb["fault"] = tf.M{"m": 1 + rng.Intn(NMember), "kind": []string{"garbage", "missing"}[rng.Intn(2)]}
		}
		steps = append(steps, eb)
	}
	// run out the clock so that every signing terminates
	for i := 0; i < maxAtt*3+1; i++ {
		steps = append(steps, tf.M{"e": "EndBlock", "npre": 0, "ntun": 0})
	}
	return tf.Script{Fam: "TssSigning", C: c, Steps: steps}
}

var _ = bytes.Equal
