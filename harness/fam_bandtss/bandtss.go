// Package fam_bandtss drives the real x/bandtss message server, the x/tss and x/bandtss end-blockers
// and the real signing path (tsskit partial signatures) with abstract scripts of Bandtss.tla, and
// records the projection of the real state after every step (properties C18 and C13-signing half).
//
// Environment set-up (not the subject of these properties, see DESIGN §2.2): the outcome of the
// incoming group's key generation is installed at the end of round 3 (keys from a trusted dealer, the
// group put on the tss pending-process list) — the real tss end-blocker then activates / fails the
// group and calls the real bandtss callback; nonce top-ups / resets and member re-activation realise
// `canSign`.
package fam_bandtss

import (
	"fmt"
	"hash/fnv"
	"math/rand"
	"sort"
	"time"

	sdk "github.com/cosmos/cosmos-sdk/types"
	minttypes "github.com/cosmos/cosmos-sdk/x/mint/types"

	"github.com/bandprotocol/chain/v3/pkg/tss"
	bandtsstypes "github.com/bandprotocol/chain/v3/x/bandtss/types"
	tsstypes "github.com/bandprotocol/chain/v3/x/tss/types"

	tf "vdrive/tracefmt"
	"vdrive/tsskit"
	"vdrive/world"
)

const (
	Period       = 1
	CreatePeriod = 2
	MinDur       = 1
	MaxDur       = 3
)

type Driver struct {
	w           *world.World
	W           *tf.Writer
	Traces      int
	Events      int
	Interesting int
	seen        map[string]bool
	payers      []world.Account
	members     []world.Account // a1..a4
	Mode        string
}

func NewDriver(w *tf.Writer, mode string) *Driver {
	cfg := world.DefaultConfig()
	cfg.NumAccounts = 6
	d := &Driver{w: world.New(cfg), W: w, seen: map[string]bool{}, Mode: mode}
	d.members = d.w.Accts[:4]
	for _, n := range []string{"p1", "p2"} {
		a := world.NewAccount("bt-payer-" + n)
		a.Name = n
		d.payers = append(d.payers, a)
	}
	return d
}

func (d *Driver) Close() { d.w.Close() }

type sigInfo struct {
	g    int
	kind string
	expH int
	com  []string
	bid  int
}

type session struct {
	d        *Driver
	r        *world.Run
	groups   map[uint64]*tsskit.Group // key material of every group the harness can sign for
	des      map[string]tsskit.DE
	deN      int
	drained  map[uint64]bool
	sigs     map[uint64]*sigInfo
	earned0  map[string]int64
	interest bool
	lastCan  string
	unit     time.Duration // real time per unit of the trace's abstract clock
}

func (s *session) acct(name string) world.Account {
	for _, a := range s.d.members {
		if a.Name == name {
			return a
		}
	}
	panic("no member " + name)
}

// rel: a time in units of this trace's abstract clock (one unit = s.unit of real time: a second, or half a second so
// that execution times and block times carry sub-second parts)
func (s *session) rel(t time.Time) int { return int(t.Sub(s.d.w.Cfg.GenesisTime) / s.unit) }

func trStatus(st bandtsstypes.TransitionStatus) string {
	switch st {
	case bandtsstypes.TRANSITION_STATUS_CREATING_GROUP:
		return "CREATING"
	case bandtsstypes.TRANSITION_STATUS_WAITING_SIGN:
		return "WAITING_SIGN"
	case bandtsstypes.TRANSITION_STATUS_WAITING_EXECUTION:
		return "WAITING_EXEC"
	}
	return "OTHER"
}

// topUp keeps every member of every non-drained group the harness knows supplied with nonces (environment).
func (s *session) topUp() {
	k := s.d.w.App.TSSKeeper
	for gid, g := range s.groups {
		if s.drained[gid] {
			continue
		}
		for _, m := range g.Members {
			q := k.GetDEQueue(s.r.Ctx, m.Acc.Addr)
			if q.Tail-q.Head >= 2 {
				continue
			}
			var pubs []tsstypes.DE
			for i := 0; i < 3; i++ {
				s.deN++
				de := tsskit.NewDE(fmt.Sprintf("bt-%d", s.deN))
				s.des[de.Key()] = de
				pubs = append(pubs, de.Pub())
			}
			_ = k.EnqueueDEs(s.r.Ctx, m.Acc.Addr, pubs)
		}
	}
}

func (s *session) project() tf.M {
	w := s.d.w
	ctx := s.r.Ctx
	tk, bk := w.App.TSSKeeper, w.App.BandtssKeeper
	st := tf.M{"h": int(s.r.Height), "now": s.rel(s.r.Time)}
	tpar := tk.GetParams(ctx)
	st["par"] = tf.M{"period": int(tpar.SigningPeriod), "create": int(tpar.CreationPeriod),
		"fx": int(bk.GetParams(ctx).FeePerSigner.AmountOf("uxyz").Int64())}
	st["fee"] = int(bk.GetParams(ctx).FeePerSigner.AmountOf("uband").Int64())
	st["current"] = int(bk.GetCurrentGroup(ctx).GroupID)
	if tr, ok := bk.GetGroupTransition(ctx); ok {
		st["tr"] = tf.M{"status": trStatus(tr.Status), "incoming": int(tr.IncomingGroupID), "cur": int(tr.CurrentGroupID),
			"execTime": s.rel(tr.ExecTime), "sid": int(tr.SigningID), "forced": tr.IsForceTransition}
	} else {
		st["tr"] = tf.M{"status": "NONE", "incoming": 0, "cur": 0, "execTime": 0, "sid": 0, "forced": false}
	}
	gcount := tk.GetGroupCount(ctx)
	st["gcount"] = int(gcount)
	pend := []int{}
	pendSet := map[uint64]bool{}
	for _, g := range tk.GetPendingProcessGroups(ctx) {
		pend = append(pend, int(g))
		pendSet[uint64(g)] = true
	}
	st["pendG"] = pend
	st["lastExpG"] = int(tk.GetLastExpiredGroupID(ctx))
	grps := []tf.M{}
	can := []bool{}
	for g := uint64(1); g <= gcount; g++ {
		grp, err := tk.GetGroup(ctx, tss.GroupID(g))
		if err != nil {
			grps = append(grps, tf.M{"st": "missing", "mem": []string{}, "thr": 0, "createdH": 0})
			can = append(can, false)
			continue
		}
		mems, _ := tk.GetGroupMembers(ctx, tss.GroupID(g))
		names := []string{}
		mal := false
		for _, m := range mems {
			names = append(names, w.Name(m.Address))
			mal = mal || m.IsMalicious
		}
		sort.Strings(names)
		sname := "other"
		switch grp.Status {
		case tsstypes.GROUP_STATUS_ROUND_1, tsstypes.GROUP_STATUS_ROUND_2:
			sname = "dkg"
		case tsstypes.GROUP_STATUS_ROUND_3:
			if !pendSet[g] {
				sname = "dkg"
			} else if mal {
				sname = "r3bad"
			} else {
				sname = "r3ok"
			}
		case tsstypes.GROUP_STATUS_ACTIVE:
			sname = "active"
		case tsstypes.GROUP_STATUS_FALLEN:
			sname = "fallen"
		case tsstypes.GROUP_STATUS_EXPIRED:
			sname = "expired"
		}
		grps = append(grps, tf.M{"st": sname, "mem": names, "thr": int(grp.Threshold), "createdH": int(grp.CreatedHeight)})
		avail := 0
		if grp.Status == tsstypes.GROUP_STATUS_ACTIVE {
			avail = len(tk.GetAvailableMembers(ctx, tss.GroupID(g)))
		}
		can = append(can, grp.Status == tsstypes.GROUP_STATUS_ACTIVE && avail >= int(grp.Threshold))
	}
	st["grp"] = grps
	st["canSign"] = can
	bm := [][]interface{}{}
	for _, m := range bk.GetMembers(ctx) {
		bm = append(bm, []interface{}{w.Name(m.Address), int(m.GroupID)})
	}
	sort.Slice(bm, func(i, j int) bool {
		if bm[i][1].(int) != bm[j][1].(int) {
			return bm[i][1].(int) < bm[j][1].(int)
		}
		return bm[i][0].(string) < bm[j][0].(string)
	})
	st["bm"] = bm
	// bandtss signing records
	bsigc := bk.GetSigningCount(ctx)
	st["bsigc"] = int(bsigc)
	bsigs := []tf.M{}
	for b := uint64(1); b <= bsigc; b++ {
		bs, err := bk.GetSigning(ctx, bandtsstypes.SigningID(b))
		if err != nil {
			bsigs = append(bsigs, tf.M{"fee": -1, "cur": -1, "inc": -1})
			continue
		}
		bsigs = append(bsigs, tf.M{"fee": int(bs.FeePerSigner.AmountOf("uband").Int64()),
			"cur": int(bs.CurrentGroupSigningID), "inc": int(bs.IncomingGroupSigningID)})
		for _, sid := range []uint64{uint64(bs.CurrentGroupSigningID), uint64(bs.IncomingGroupSigningID)} {
			if si, ok := s.sigs[sid]; ok && sid != 0 {
				si.kind, si.bid = "user", int(b)
			}
		}
	}
	st["bsig"] = bsigs
	// tss signings
	sigc := tk.GetSigningCount(ctx)
	st["sigc"] = int(sigc)
	pendS := map[uint64]bool{}
	for _, id := range tk.GetPendingProcessSignings(ctx) {
		pendS[uint64(id)] = true
	}
	sigs := []tf.M{}
	for id := uint64(1); id <= sigc; id++ {
		sg, err := tk.GetSigning(ctx, tss.SigningID(id))
		if err != nil {
			sigs = append(sigs, tf.M{"g": 0, "kind": "missing", "st": "missing", "expH": 0, "com": []string{}, "bid": 0})
			continue
		}
		si, ok := s.sigs[id]
		if !ok {
			// first sight of this signing: remember committee and expiry of its (first) attempt
			si = &sigInfo{g: int(sg.GroupID), kind: "handover"}
			if sa, err := tk.GetSigningAttempt(ctx, tss.SigningID(id), sg.CurrentAttempt); err == nil {
				si.expH = int(sa.ExpiredHeight)
				for _, am := range sa.AssignedMembers {
					si.com = append(si.com, w.Name(am.Address))
				}
				sort.Strings(si.com)
			}
			s.sigs[id] = si
			// the bsig loop above ran before this signing was known: classify now
			for b := uint64(1); b <= bsigc; b++ {
				if bs, err := bk.GetSigning(ctx, bandtsstypes.SigningID(b)); err == nil &&
					(uint64(bs.CurrentGroupSigningID) == id || uint64(bs.IncomingGroupSigningID) == id) {
					si.kind, si.bid = "user", int(b)
				}
			}
		}
		stn := "other"
		switch sg.Status {
		case tsstypes.SIGNING_STATUS_WAITING:
			stn = "waiting"
			if pendS[id] {
				stn = "agg"
			}
		case tsstypes.SIGNING_STATUS_SUCCESS:
			stn = "success"
		case tsstypes.SIGNING_STATUS_FALLEN:
			stn = "failed"
		}
		com := si.com
		if com == nil {
			com = []string{}
		}
		sigs = append(sigs, tf.M{"g": int(sg.GroupID), "kind": si.kind, "st": stn, "expH": si.expH, "com": com, "bid": si.bid})
	}
	st["sig"] = sigs
	bank := w.App.BankKeeper
	bal := tf.M{}
	for _, p := range s.d.payers {
		bal[p.Name] = int(bank.GetBalance(ctx, p.Addr, "uband").Amount.Int64())
	}
	st["bal"] = bal
	st["escrow"] = int(bank.GetBalance(ctx, bk.GetBandtssAccount(ctx).GetAddress(), "uband").Amount.Int64())
	earned := tf.M{}
	for _, a := range s.d.members {
		earned[a.Name] = int(bank.GetBalance(ctx, a.Addr, "uband").Amount.Int64() - s.earned0[a.Name])
	}
	st["earned"] = earned
	return st
}

func (d *Driver) RunScript(sc tf.Script) {
	w := d.w
	s := &session{d: d, r: w.Branch(), groups: map[uint64]*tsskit.Group{}, des: map[string]tsskit.DE{},
		drained: map[uint64]bool{}, sigs: map[uint64]*sigInfo{}, earned0: map[string]int64{}}
	r := s.r
	tk, bk := w.App.TSSKeeper, w.App.BandtssKeeper
	// the abstract clock's unit: recorded in the script constants (so that a replay uses the same one); scripts
	// that do not name one get a second or half a second depending on their content
	if sc.C == nil {
		sc.C = tf.M{}
	}
	if _, ok := sc.C["unit"]; !ok {
		hh := fnv.New32a()
		fmt.Fprint(hh, sc.Steps)
		sc.C["unit"] = []int{1000, 500}[hh.Sum32()%2]
	}
	s.unit = time.Duration(tf.Int(sc.C, "unit", 1000)) * time.Millisecond
	// environment: parameters
	tp := tk.GetParams(r.Ctx)
	tp.MaxSigningAttempt, tp.SigningPeriod, tp.CreationPeriod, tp.MaxDESize = 1, uint64(tf.Int(sc.C, "period", Period)), uint64(tf.Int(sc.C, "create", CreatePeriod)), 50
	if err := tk.SetParams(r.Ctx, tp); err != nil {
		panic(err)
	}
	bp := bk.GetParams(r.Ctx)
	fee := int64(tf.Int(sc.C, "fee", 1))
	bp.FeePerSigner = sdk.NewCoins()
	if fee > 0 {
		bp.FeePerSigner = sdk.NewCoins(sdk.NewInt64Coin("uband", fee))
	}
	if fx := int64(tf.Int(sc.C, "fx", 0)); fx > 0 {
		bp.FeePerSigner = bp.FeePerSigner.Add(sdk.NewInt64Coin("uxyz", fx)) // a second denom in the fee
	}
	bp.MinTransitionDuration, bp.MaxTransitionDuration = MinDur*s.unit, MaxDur*s.unit
	bp.RewardPercentage = 0
	if err := bk.SetParams(r.Ctx, bp); err != nil {
		panic(err)
	}
	// no block rewards in this family: the escrow account is also the reward account
	op := w.App.OracleKeeper.GetParams(r.Ctx)
	op.OracleRewardPercentage = 0
	_ = w.App.OracleKeeper.SetParams(r.Ctx, op)
	r.BeginBlock(10)
	bals := tf.Sub(sc.C, "bal")
	for _, p := range d.payers {
		// plenty of the second fee denom (its money is not modelled, only the acceptance rule)
		rich := sdk.NewCoins(sdk.NewInt64Coin("uxyz", 1_000_000))
		if err := w.App.BankKeeper.MintCoins(r.Ctx, minttypes.ModuleName, rich); err != nil {
			panic(err)
		}
		if err := w.App.BankKeeper.SendCoinsFromModuleToAccount(r.Ctx, minttypes.ModuleName, p.Addr, rich); err != nil {
			panic(err)
		}
		if n := tf.Int(bals, p.Name, 0); n > 0 {
			if err := w.App.BankKeeper.SendCoins(r.Ctx, w.Accts[5].Addr, p.Addr, sdk.NewCoins(sdk.NewInt64Coin("uband", int64(n)))); err != nil {
				panic(err)
			}
		}
	}
	if tf.Bool(sc.C, "startWithGroup", true) {
		ms := tf.Strs(sc.C, "g1")
		if len(ms) == 0 {
			ms = []string{"a1", "a2"}
		}
		var accts []world.Account
		for _, n := range ms {
			accts = append(accts, s.acct(n))
		}
		g := tsskit.NewGroup("bt-g1", tf.Int(sc.C, "g1thr", 2), accts)
		g.Install(r.Ctx, w.App, bandtsstypes.ModuleName)
		g.InstallAsCurrent(r.Ctx, w.App)
		s.groups[uint64(g.ID)] = g
	}
	s.topUp()
	for _, a := range d.members {
		s.earned0[a.Name] = w.App.BankKeeper.GetBalance(r.Ctx, a.Addr, "uband").Amount.Int64()
	}
	d.W.Reset(sc.C, s.project(), sc.Steps)
	s.lastCan = fmt.Sprint(s.project()["canSign"])
	d.Traces++
	d.Events++
	for _, step := range sc.Steps {
		if s.apply(step) {
			d.Events++
		}
	}
	if s.interest {
		hh := sc.Hash()
		if !d.seen[hh] {
			d.seen[hh] = true
			d.Interesting++
		}
	}
}

// oc renders an outcome; the error text is for humans reading replays only (the spec reads "ok").
func oc(o world.Outcome) tf.M {
	m := tf.M{"ok": o.OK()}
	if o.Err != nil {
		e := o.Err.Error()
		if len(e) > 120 {
			e = e[:120]
		}
		m["err"] = e
	}
	if o.Panic != nil {
		m["panic"] = fmt.Sprint(o.Panic)
	}
	return m
}

func (s *session) authority(auth string) string {
	if auth == "authority" {
		return s.d.w.App.BandtssKeeper.GetAuthority()
	}
	return s.d.w.Accts[4].Addr.String()
}

func (s *session) apply(step tf.M) bool {
	w := s.d.w
	r := s.r
	tk, bk := w.App.TSSKeeper, w.App.BandtssKeeper
	e := tf.Str(step, "e", "")
	if e != "EndBlock" {
		// environment: nonce top-up; if that changes who can sign, say so in the trace *before* the step
		s.topUp()
		if cs := fmt.Sprint(s.project()["canSign"]); cs != s.lastCan {
			s.lastCan = cs
			s.d.W.Step("Env", tf.M{}, tf.M{"ok": true}, s.project())
			s.d.Events++
		}
	}
	defer func() { s.lastCan = fmt.Sprint(s.project()["canSign"]) }()
	// bounds of the trace specification (MaxG = 9, MaxSig = 26): steps that would exceed them are skipped, so
	// the bound can never be what rejects a trace
	if (e == "Propose" || e == "Install") && tk.GetGroupCount(r.Ctx) >= 7 {
		return false
	}
	if e == "Request" && tk.GetSigningCount(r.Ctx) >= 16 {
		return false
	}
	switch e {
	case "Propose":
		ms := tf.Strs(step, "ms")
		var addrs []string
		var accts []world.Account
		for _, n := range ms {
			addrs = append(addrs, s.acct(n).Addr.String())
			accts = append(accts, s.acct(n))
		}
		thr, off := tf.Int(step, "thr", 1), tf.Int(step, "off", 1)
		auth := tf.Str(step, "auth", "authority")
		msg := bandtsstypes.NewMsgTransitionGroup(addrs, uint64(thr), r.Time.Add(time.Duration(off)*s.unit), s.authority(auth))
		o := r.Deliver(msg)
		if o.OK() {
			gid := tk.GetGroupCount(r.Ctx)
			g := tsskit.NewGroup(fmt.Sprintf("bt-g%d", gid), thr, accts)
			g.ID = tss.GroupID(gid)
			s.groups[gid] = g
		}
		s.d.W.Step("Propose", tf.M{"auth": auth, "ms": ms, "thr": thr, "off": off}, oc(o), s.project())
	case "Install":
		ms := tf.Strs(step, "ms")
		var accts []world.Account
		for _, n := range ms {
			accts = append(accts, s.acct(n))
		}
		thr := tf.Int(step, "thr", 1)
		g := tsskit.NewGroup(fmt.Sprintf("bt-inst%d", tk.GetGroupCount(r.Ctx)+1), thr, accts)
		g.Install(r.Ctx, w.App, bandtsstypes.ModuleName)
		s.groups[uint64(g.ID)] = g
		s.topUp()
		s.d.W.Step("Install", tf.M{"ms": ms, "thr": thr}, tf.M{"ok": true}, s.project())
	case "Force":
		auth := tf.Str(step, "auth", "authority")
		g, off := tf.Int(step, "g", 1), tf.Int(step, "off", 1)
		msg := bandtsstypes.NewMsgForceTransitionGroup(tss.GroupID(g), r.Time.Add(time.Duration(off)*s.unit), s.authority(auth))
		o := r.Deliver(msg)
		s.d.W.Step("Force", tf.M{"auth": auth, "g": g, "off": off}, oc(o), s.project())
	case "DkgDone":
		// the lowest group still in key generation and not yet on the pending list
		var gid uint64
		pend := map[uint64]bool{}
		for _, g := range tk.GetPendingProcessGroups(r.Ctx) {
			pend[uint64(g)] = true
		}
		for g := uint64(1); g <= tk.GetGroupCount(r.Ctx); g++ {
			grp, err := tk.GetGroup(r.Ctx, tss.GroupID(g))
			if err == nil && grp.Status == tsstypes.GROUP_STATUS_ROUND_1 && !pend[g] {
				gid = g
				break
			}
		}
		if want := uint64(tf.Int(step, "g", 0)); want != 0 {
			// explicit id (TLC-generated scripts): only if that group really is in key generation
			gid = 0
			if grp, err := tk.GetGroup(r.Ctx, tss.GroupID(want)); err == nil && grp.Status == tsstypes.GROUP_STATUS_ROUND_1 && !pend[want] {
				gid = want
			}
		}
		kg, ok := s.groups[gid]
		if gid == 0 || !ok {
			return false
		}
		good := tf.Bool(step, "good", true)
		grp, _ := tk.GetGroup(r.Ctx, tss.GroupID(gid))
		grp.Status = tsstypes.GROUP_STATUS_ROUND_3
		grp.PubKey = kg.PubKey
		tk.SetGroup(r.Ctx, grp)
		for i, m := range kg.Members {
			tk.SetMember(r.Ctx, tsstypes.NewMember(m.ID, tss.GroupID(gid), m.Acc.Addr, m.Pub, !good && i == 0, true))
		}
		tk.AddPendingProcessGroup(r.Ctx, tss.GroupID(gid))
		s.d.W.Step("DkgDone", tf.M{"g": int(gid), "good": good}, tf.M{"ok": true}, s.project())
	case "SetFee":
		// environment: governance changes fee_per_signer
		f := int64(tf.Int(step, "f", 1))
		bp := bk.GetParams(r.Ctx)
		x := bp.FeePerSigner.AmountOf("uxyz")
		bp.FeePerSigner = sdk.NewCoins()
		if f > 0 {
			bp.FeePerSigner = sdk.NewCoins(sdk.NewInt64Coin("uband", f))
		}
		if x.IsPositive() {
			bp.FeePerSigner = bp.FeePerSigner.Add(sdk.NewCoin("uxyz", x))
		}
		if err := bk.SetParams(r.Ctx, bp); err != nil {
			return false
		}
		s.d.W.Step("SetFee", tf.M{"f": int(f)}, tf.M{"ok": true}, s.project())
	case "SetFx":
		// environment: governance adds / removes a second denom in fee_per_signer
		x := int64(tf.Int(step, "x", 0))
		bp := bk.GetParams(r.Ctx)
		u := bp.FeePerSigner.AmountOf("uband")
		bp.FeePerSigner = sdk.NewCoins()
		if u.IsPositive() {
			bp.FeePerSigner = bp.FeePerSigner.Add(sdk.NewCoin("uband", u))
		}
		if x > 0 {
			bp.FeePerSigner = bp.FeePerSigner.Add(sdk.NewInt64Coin("uxyz", x))
		}
		if err := bk.SetParams(r.Ctx, bp); err != nil {
			return false
		}
		s.d.W.Step("SetFx", tf.M{"x": int(x)}, tf.M{"ok": true}, s.project())
	case "SetCanSign":
		g, b := uint64(tf.Int(step, "g", 1)), tf.Bool(step, "b", true)
		kg, ok := s.groups[g]
		if !ok {
			return false
		}
		s.drained[g] = !b
		for _, m := range kg.Members {
			if !b {
				_ = r.Deliver(&tsstypes.MsgResetDE{Sender: m.Acc.Addr.String()})
			} else {
				_ = tk.SetMemberIsActive(r.Ctx, tss.GroupID(g), m.Acc.Addr, true)
				if bm, err := bk.GetMember(r.Ctx, m.Acc.Addr, tss.GroupID(g)); err == nil && !bm.IsActive {
					bm.IsActive = true
					bk.SetMember(r.Ctx, bm)
				}
			}
		}
		s.topUp()
		s.d.W.Step("SetCanSign", tf.M{"g": int(g), "b": b}, tf.M{"ok": true}, s.project())
	case "Request":
		p := tf.Str(step, "p", "p1")
		limit := tf.Int(step, "limit", 0)
		sender := bk.GetAuthority()
		for _, pa := range s.d.payers {
			if pa.Name == p {
				sender = pa.Addr.String()
			}
		}
		lx := tf.Int(step, "lx", 0)
		lim := sdk.NewCoins()
		if limit > 0 {
			lim = lim.Add(sdk.NewInt64Coin("uband", int64(limit)))
		}
		if lx > 0 {
			// a coin of another denom in the limit: the fee (uband) can never be paid from it
			lim = lim.Add(sdk.NewInt64Coin("uxyz", int64(lx)))
		}
		msg, err := bandtsstypes.NewMsgRequestSignature(tsstypes.NewTextSignatureOrder([]byte(fmt.Sprintf("m%d", s.deN))), lim, sender)
		if err != nil {
			panic(err)
		}
		o := r.Deliver(msg)
		if !o.OK() {
			s.interest = true
		}
		s.d.W.Step("Request", tf.M{"p": p, "limit": limit, "lx": lx}, oc(o), s.project())
	case "SignAll":
		// k-th waiting signing (that the harness holds keys for)
		k := tf.Int(step, "k", 1)
		var ids []uint64
		pendS := map[uint64]bool{}
		for _, id := range tk.GetPendingProcessSignings(r.Ctx) {
			pendS[uint64(id)] = true
		}
		for id := uint64(1); id <= tk.GetSigningCount(r.Ctx); id++ {
			sg, err := tk.GetSigning(r.Ctx, tss.SigningID(id))
			if err == nil && sg.Status == tsstypes.SIGNING_STATUS_WAITING && !pendS[id] {
				ids = append(ids, id)
			}
		}
		if len(ids) == 0 {
			return false
		}
		id := ids[(k-1)%len(ids)]
		if want := uint64(tf.Int(step, "id", 0)); want != 0 {
			found := false
			for _, x := range ids {
				found = found || x == want
			}
			if !found {
				return false
			}
			id = want
		}
		sg, _ := tk.GetSigning(r.Ctx, tss.SigningID(id))
		sa, err := tk.GetSigningAttempt(r.Ctx, tss.SigningID(id), sg.CurrentAttempt)
		kg, ok := s.groups[uint64(sg.GroupID)]
		if err != nil || !ok {
			return false
		}
		allOK := true
		for _, am := range sa.AssignedMembers {
			m, _ := kg.ByAddr(am.Address)
			de, ok := s.des[tsskit.PubKey(am.PubD, am.PubE)]
			if !ok {
				allOK = false
				continue
			}
			sig, err := tsskit.PartialSign(m, sg, sa, de)
			if err != nil {
				allOK = false
				continue
			}
			if o := r.Deliver(&tsstypes.MsgSubmitSignature{SigningID: tss.SigningID(id), MemberID: m.ID, Signature: sig, Signer: am.Address}); !o.OK() {
				allOK = false
			}
		}
		s.d.W.Step("SignAll", tf.M{"id": int(id)}, tf.M{"ok": allOK}, s.project())
	case "EndBlock":
		dt := tf.Int(step, "dt", 1)
		o := r.EndBlock()
		for _, ev := range o.Events {
			switch ev.Type {
			case bandtsstypes.EventTypeGroupTransitionSuccess, bandtsstypes.EventTypeGroupTransitionFailed:
				s.interest = true
			}
		}
		ob := r.BeginBlockAfter(time.Duration(dt) * s.unit)
		s.d.W.Step("EndBlock", tf.M{"dt": dt}, tf.M{"ok": o.OK() && ob.OK()}, s.project())
	default:
		panic("unknown step " + e)
	}
	return true
}

var menu = [][]string{{"a1", "a2"}, {"a2", "a3"}, {"a3", "a4"}, {"a1", "a2", "a3"}, {"a4"}}

// RandomScript for both properties; mode "fees" biases towards paid requests and completions.
func RandomScript(rng *rand.Rand, mode string) tf.Script {
	c := tf.M{"fee": []int{0, 1, 2, 3}[rng.Intn(4)], "startWithGroup": rng.Intn(5) != 0,
		"period": []int{1, 1, 2, 3, 4}[rng.Intn(5)], "create": []int{2, 2, 3, 5}[rng.Intn(4)],
		"g1": menu[rng.Intn(4)], "g1thr": 1 + rng.Intn(2),
		"bal": tf.M{"p1": rng.Intn(9), "p2": 5 + rng.Intn(20)}}
	if mode != "fees" {
		c["bal"] = tf.M{"p1": 1000, "p2": 1000}
	}
	if mode == "fees" {
		c["startWithGroup"] = rng.Intn(12) != 0
		if c["fee"].(int) == 0 && rng.Intn(2) == 0 {
			c["fee"] = 2
		}
	}
	n := 10 + rng.Intn(16)
	var steps []tf.M
	for i := 0; i < n; i++ {
		x := rng.Intn(100)
		if mode == "fees" {
			x = x * 70 / 100 // fewer transitions, more requests
			if rng.Intn(3) == 0 {
				x = 40 + rng.Intn(60)
			}
		}
		switch {
		case x < 12:
			auth := "authority"
			if rng.Intn(8) == 0 {
				auth = "user"
			}
			ms := menu[rng.Intn(len(menu))]
			thr := 1 + rng.Intn(2)
			if rng.Intn(15) == 0 {
				thr = len(ms) + 1
			}
			steps = append(steps, tf.M{"e": "Propose", "auth": auth, "ms": ms, "thr": thr, "off": []int{0, 1, 1, 2, 3, 3, 4}[rng.Intn(7)]})
		case x < 18:
			auth := "authority"
			if rng.Intn(8) == 0 {
				auth = "user"
			}
			steps = append(steps, tf.M{"e": "Force", "auth": auth, "g": 1 + rng.Intn(4), "off": []int{0, 1, 2, 3, 4}[rng.Intn(5)]})
		case x < 22:
			ms := menu[rng.Intn(len(menu))]
			steps = append(steps, tf.M{"e": "Install", "ms": ms, "thr": 1 + rng.Intn(len(ms))})
		case x < 34:
			steps = append(steps, tf.M{"e": "DkgDone", "good": rng.Intn(5) != 0})
		case x < 40:
			if mode == "fees" && rng.Intn(2) == 0 {
				if rng.Intn(3) == 0 {
					steps = append(steps, tf.M{"e": "SetFx", "x": rng.Intn(2)})
				} else {
					steps = append(steps, tf.M{"e": "SetFee", "f": []int{0, 1, 2, 3, 4}[rng.Intn(5)]})
				}
			} else {
				steps = append(steps, tf.M{"e": "SetCanSign", "g": 1 + rng.Intn(3), "b": rng.Intn(2) == 0})
			}
		case x < 60:
			if mode == "fees" {
				p := []string{"p1", "p1", "p2", "p2", "authority"}[rng.Intn(5)]
				lx := 0
				if rng.Intn(4) == 0 {
					lx = 1 + rng.Intn(9)
				}
				lim := rng.Intn(7)
				if lx > 0 && rng.Intn(2) == 0 {
					lim = 0 // the limit names only the other denom
				}
				steps = append(steps, tf.M{"e": "Request", "p": p, "limit": lim, "lx": lx})
			} else {
				// C18 scripts are insensitive to the fee rule (that is C13's business): the authority (free) or a
				// rich payer with a generous limit; limit 0 is refused by message validation
				p := []string{"p2", "authority"}[rng.Intn(2)]
				steps = append(steps, tf.M{"e": "Request", "p": p, "limit": []int{0, 100, 100, 100}[rng.Intn(4)]})
			}
		case x < 75:
			steps = append(steps, tf.M{"e": "SignAll", "k": 1 + rng.Intn(3)})
		default:
			steps = append(steps, tf.M{"e": "EndBlock", "dt": []int{0, 1, 1, 1, 2, 3}[rng.Intn(6)]})
		}
	}
	for i := 0; i < 4; i++ {
		steps = append(steps, tf.M{"e": "EndBlock", "dt": 1})
	}
	return tf.Script{Fam: "Bandtss", C: c, Steps: steps}
}
