package tsskit_test

import (
	"fmt"
	"testing"

	sdk "github.com/cosmos/cosmos-sdk/types"

	"github.com/bandprotocol/chain/v3/pkg/tss"
	bandtsstypes "github.com/bandprotocol/chain/v3/x/bandtss/types"
	tsstypes "github.com/bandprotocol/chain/v3/x/tss/types"

	"vdrive/tsskit"
	"vdrive/world"
)

// Smoke test of the toolkit itself: a 2-of-3 group signs a text message through the real handlers.
func TestSignFlow(t *testing.T) {
	w := world.New(world.DefaultConfig())
	defer w.Close()
	r := w.Branch()
	r.BeginBlock(100)
	g := tsskit.NewGroup("g1", 2, w.Accts[:3])
	g.Install(r.Ctx, w.App, bandtsstypes.ModuleName)
	g.InstallAsCurrent(r.Ctx, w.App)
	des := map[string]tsskit.DE{}
	for _, m := range g.Members {
		var pubs []tsstypes.DE
		for i := 0; i < 2; i++ {
			de := tsskit.NewDE(fmt.Sprintf("%s-%d", m.Acc.Name, i))
			des[de.Key()] = de
			pubs = append(pubs, de.Pub())
		}
		if o := r.Deliver(&tsstypes.MsgSubmitDEs{DEs: pubs, Sender: m.Acc.Addr.String()}); !o.OK() {
			t.Fatal(o.Err)
		}
	}
	content := tsstypes.NewTextSignatureOrder([]byte("hello"))
	msg, err := bandtsstypes.NewMsgRequestSignature(content, sdk.NewCoins(sdk.NewInt64Coin("uband", 1000)), w.Accts[3].Addr.String())
	if err != nil {
		t.Fatal(err)
	}
	if o := r.Deliver(msg); !o.OK() {
		t.Fatal(o.Err)
	}
	sid := tss.SigningID(w.App.TSSKeeper.GetSigningCount(r.Ctx))
	signing := w.App.TSSKeeper.MustGetSigning(r.Ctx, sid)
	sa := w.App.TSSKeeper.MustGetSigningAttempt(r.Ctx, sid, signing.CurrentAttempt)
	for _, am := range sa.AssignedMembers {
		m, _ := g.ByAddr(am.Address)
		sig, err := tsskit.PartialSign(m, signing, sa, des[tsskit.PubKey(am.PubD, am.PubE)])
		if err != nil {
			t.Fatal(err)
		}
		if o := r.Deliver(&tsstypes.MsgSubmitSignature{SigningID: sid, MemberID: m.ID, Signature: sig, Signer: am.Address}); !o.OK() {
			t.Fatal(o.Err)
		}
	}
	if o := r.EndBlock(); !o.OK() {
		t.Fatal(o.Err, o.Panic)
	}
	signing = w.App.TSSKeeper.MustGetSigning(r.Ctx, sid)
	if signing.Status != tsstypes.SIGNING_STATUS_SUCCESS {
		t.Fatal("status", signing.Status)
	}
	if err := tss.VerifyGroupSigningSignature(g.PubKey, signing.Message, signing.Signature); err != nil {
		t.Fatal(err)
	}
}
