// Package tsskit provides the key material and member behaviour the family drivers need to exercise
// the real x/tss, x/bandtss signing paths: a trusted-dealer group (Shamir shares over secp256k1,
// computed with pkg/tss's own polynomial arithmetic), deterministic nonce pairs (D,E) and real
// partial signatures made with the same pkg/tss functions the cylinder daemon uses.
//
// Installing a group through keeper setters is *environment set-up* (DESIGN §2.2): the DKG itself is
// the subject of property C04 and has its own family. Everything that happens to a signing after
// that goes through the real entry points.
package tsskit

import (
	"crypto/sha256"
	"fmt"

	"github.com/decred/dcrd/dcrec/secp256k1/v4"

	sdk "github.com/cosmos/cosmos-sdk/types"

	band "github.com/bandprotocol/chain/v3/app"
	"github.com/bandprotocol/chain/v3/pkg/tss"
	bandtsstypes "github.com/bandprotocol/chain/v3/x/bandtss/types"
	tsstypes "github.com/bandprotocol/chain/v3/x/tss/types"

	"vdrive/world"
)

// ScalarFromSeed derives a non-zero scalar deterministically.
func ScalarFromSeed(seed string) tss.Scalar {
	for i := 0; ; i++ {
		h := sha256.Sum256([]byte(fmt.Sprintf("verif-scalar|%s|%d", seed, i)))
		var s secp256k1.ModNScalar
		if overflow := s.SetBytes(&h); overflow == 0 && !s.IsZero() {
			return tss.NewScalarFromModNScalar(&s)
		}
	}
}

type Member struct {
	ID   tss.MemberID
	Acc  world.Account
	Priv tss.Scalar
	Pub  tss.Point
}

type Group struct {
	ID      tss.GroupID
	N, T    int
	Coeffs  tss.Scalars // f(x) = sum Coeffs[k] x^k ; group secret = Coeffs[0]
	PubKey  tss.Point
	Members []Member
}

// NewGroup deals shares of a fresh degree-(t-1) polynomial to the given accounts (member ids 1..n).
func NewGroup(seed string, t int, accts []world.Account) *Group {
	g := &Group{N: len(accts), T: t}
	for k := 0; k < t; k++ {
		g.Coeffs = append(g.Coeffs, ScalarFromSeed(fmt.Sprintf("%s|coef%d", seed, k)))
	}
	g.PubKey = g.Coeffs[0].Point()
	for i, a := range accts {
		mid := tss.MemberID(i + 1)
		share, err := tss.ComputeSecretShare(g.Coeffs, mid)
		if err != nil {
			panic(err)
		}
		g.Members = append(g.Members, Member{ID: mid, Acc: a, Priv: share, Pub: share.Point()})
	}
	return g
}

// Install writes the group (status ACTIVE) and its members into x/tss (environment set-up).
func (g *Group) Install(ctx sdk.Context, app *band.BandApp, moduleOwner string) tss.GroupID {
	k := app.TSSKeeper
	id := tss.GroupID(k.GetGroupCount(ctx) + 1)
	k.SetGroupCount(ctx, uint64(id))
	g.ID = id
	k.SetGroup(ctx, tsstypes.NewGroup(id, uint64(g.N), uint64(g.T), g.PubKey, tsstypes.GROUP_STATUS_ACTIVE,
		uint64(ctx.BlockHeight()), moduleOwner))
	for _, m := range g.Members {
		k.SetMember(ctx, tsstypes.NewMember(m.ID, id, m.Acc.Addr, m.Pub, false, true))
	}
	return id
}

// InstallAsCurrent makes the (installed) group the current bandtss group with all members active.
func (g *Group) InstallAsCurrent(ctx sdk.Context, app *band.BandApp) {
	bk := app.BandtssKeeper
	bk.SetCurrentGroup(ctx, bandtsstypes.NewCurrentGroup(g.ID, ctx.BlockTime()))
	for _, m := range g.Members {
		if err := bk.AddMember(ctx, m.Acc.Addr, g.ID); err != nil {
			panic(err)
		}
	}
}

func (g *Group) ByAddr(bech string) (Member, bool) {
	for _, m := range g.Members {
		if m.Acc.Addr.String() == bech {
			return m, true
		}
	}
	return Member{}, false
}

// DE is a one-time nonce pair with its private part.
type DE struct {
	PrivD, PrivE tss.Scalar
	PubD, PubE   tss.Point
}

func NewDE(seed string) DE {
	d := ScalarFromSeed(seed + "|d")
	e := ScalarFromSeed(seed + "|e")
	return DE{PrivD: d, PrivE: e, PubD: d.Point(), PubE: e.Point()}
}

func (d DE) Pub() tsstypes.DE { return tsstypes.NewDE(d.PubD, d.PubE) }

// Key identifies a DE by its public bytes.
func (d DE) Key() string { return string(d.PubD) + "|" + string(d.PubE) }

func PubKey(pubD, pubE tss.Point) string { return string(pubD) + "|" + string(pubE) }

// PartialSign makes member m's partial signature for the given attempt exactly as cylinder does
// (cylinder/workers/signing/signing.go): own private nonce from (d, e, binding factor), Lagrange
// coefficient over the assigned member ids, tss.SignSigning.
func PartialSign(m Member, signing tsstypes.Signing, sa tsstypes.SigningAttempt, de DE) (tss.Signature, error) {
	ams := tsstypes.AssignedMembers(sa.AssignedMembers)
	am, ok := ams.FindAssignedMember(m.ID)
	if !ok {
		return nil, fmt.Errorf("member %d not assigned", m.ID)
	}
	privNonce, err := tss.ComputeOwnPrivNonce(de.PrivD, de.PrivE, am.BindingFactor)
	if err != nil {
		return nil, err
	}
	lagrange, err := tss.ComputeLagrangeCoefficient(m.ID, ams.MemberIDs())
	if err != nil {
		return nil, err
	}
	return tss.SignSigning(signing.GroupPubNonce, signing.GroupPubKey, signing.Message, lagrange, privNonce, m.Priv)
}
