package fam_cylinder

import (
	"math/rand"

	tf "vdrive/tracefmt"
)

func pick(rng *rand.Rand, xs ...int) int { return xs[rng.Intn(len(xs))] }

func q(rng *rand.Rand, failPct int) string {
	if rng.Intn(100) < failPct {
		return "fail"
	}
	return "ok"
}

// Catalogue: hand-written scenarios that every run plays first (the shapes the property text names).
func Catalogue() []tf.Script {
	c := func(minDE, maxDE int, gas bool, period, maxAtt int) tf.M {
		return tf.M{"minDE": minDE, "maxDE": maxDE, "gas": gas, "period": period, "maxAtt": maxAtt}
	}
	S := func(e string, kv ...interface{}) tf.M {
		m := tf.M{"e": e}
		for i := 0; i+1 < len(kv); i += 2 {
			m[kv[i].(string)] = kv[i+1]
		}
		return m
	}
	return []tf.Script{
		// 1. the plain life cycle: top-up, assignment, share, landing, use event deletes the private pair, next top-up
		{Fam: "Cylinder", C: c(2, 4, false, 2, 2), Steps: []tf.M{
			S("Tick"), S("Land", "n", 1), S("Request", "force", true), S("AssignEv"), S("SignEv"), S("Land", "n", 1),
			S("OtherSign", "sid", 1), S("UseEv"), S("Block"), S("Request", "force", true), S("AssignEv"), S("SignEv"),
			S("Land", "n", 2), S("UseEv"), S("Block"), S("Tick"), S("Land", "n", 1), S("Block"), S("Block")}},
		// 2. duplicated notification AFTER the use event removed the private pair, for an unassigned signing, and with a
		//    failing query: nothing may be queued
		{Fam: "Cylinder", C: c(1, 3, false, 3, 2), Steps: []tf.M{
			S("Tick"), S("Land", "n", 1), S("Request", "force", true), S("SignEv", "q", "fail"), S("SignReplay"), S("Land", "n", 1),
			S("UseEv"), S("SignReplay"), S("SignReplay", "q", "fail"), S("AssignEv"), S("Land", "n", 5), S("Block"),
			S("SignLate", "sid", 7), S("Block")}},
		// 3. crash inside the update at every point, restart, start-up replay
		{Fam: "Cylinder", C: c(2, 5, true, 2, 2), Steps: []tf.M{
			S("Tick", "crashAt", 1), S("Tick", "crashAt", 4), S("Tick"), S("Land", "n", 1), S("Request", "force", true),
			S("Crash"), S("Startup"), S("Tick"), S("Land", "n", 2), S("UseEv"), S("Block"), S("Request", "force", true),
			S("AssignEv", "crashAt", 1), S("Startup"), S("Tick"), S("Land", "n", 3), S("Block"), S("Block")}},
		// 4. retry: the member answers attempt 1, its partner does not; attempt 2 assigns the member a new pair
		{Fam: "Cylinder", C: c(1, 2, false, 1, 3), Steps: []tf.M{
			S("Tick"), S("Land", "n", 1), S("Request", "force", true), S("AssignEv"), S("SignEv"), S("Land", "n", 2), S("UseEv"),
			S("Block"), S("Block"), S("SignEv"), S("AssignEv"), S("Land", "n", 2), S("OtherSign", "sid", 1),
			S("UseEv"), S("Tick"), S("Land", "n", 1), S("Block"), S("Block")}},
		// 5. a top-up while another one is still in flight, tight MaxDESize: the second is refused by the chain
		{Fam: "Cylinder", C: c(1, 2, false, 2, 2), Steps: []tf.M{
			S("Tick"), S("Tick"), S("Land", "n", 1), S("Land", "n", 1), S("ResetDE"), S("DelEv"), S("Tick"), S("Land", "n", 1),
			S("DelReplay"), S("Block")}},
		// 6. the sender gives up on a share; a later notification for the same attempt re-creates it
		{Fam: "Cylinder", C: c(1, 3, false, 3, 2), Steps: []tf.M{
			S("Tick"), S("Land", "n", 1), S("Request", "force", true), S("SignEv"), S("GiveUp", "n", 1), S("SignReplay"),
			S("Land", "n", 1), S("UseEv"), S("Block")}},
		// 7. (known-finding input) the same notification twice before the first share landed - start-up replay and subscription
		{Fam: "Cylinder", C: c(1, 3, false, 3, 2), Steps: []tf.M{
			S("Tick"), S("Land", "n", 1), S("Request", "force", true), S("SignEv"), S("SignReplay"), S("Land", "n", 2), S("Block"), S("Block")}},
		// 8. (known-finding input) a notification handled after the attempt expired and its data was pruned
		{Fam: "Cylinder", C: c(1, 3, false, 1, 1), Steps: []tf.M{
			S("Tick"), S("Land", "n", 1), S("Request", "force", true), S("Block"), S("Block"), S("SignEv"), S("Block")}},
	}
}

// RandomScript: "calm" scripts keep the schedule of the DE worker calm (interval steps only when nothing is in flight
// and every notification was handled), "wild" ones do not.
func RandomScript(rng *rand.Rand) tf.Script {
	minDE := pick(rng, 1, 1, 2, 2, 3)
	maxDE := pick(rng, 2*minDE, 2*minDE, 2*minDE+1, 3*minDE, 3*minDE+2)
	if rng.Intn(12) == 0 {
		maxDE = 2*minDE - 1 // misconfigured: the target does not fit
	}
	c := tf.M{"minDE": minDE, "maxDE": maxDE, "gas": rng.Intn(3) == 0, "period": pick(rng, 1, 2, 2, 3), "maxAtt": pick(rng, 1, 2, 2, 3)}
	calm := rng.Intn(5) < 2
	fail := pick(rng, 0, 0, 10, 25)
	var st []tf.M
	add := func(e string, kv ...interface{}) {
		m := tf.M{"e": e}
		for i := 0; i+1 < len(kv); i += 2 {
			m[kv[i].(string)] = kv[i+1]
		}
		st = append(st, m)
	}
	nreq := 0
	if calm {
		add("Tick", "qde", q(rng, fail), "qmem", q(rng, fail))
		add("Land", "n", 9)
		for b := 0; b < 5+rng.Intn(5); b++ {
			for r := rng.Intn(3); r > 0 && nreq < MaxSig-1; r-- {
				nreq++
				add("Request", "force", rng.Intn(2) == 0)
				add("AssignEv", "qmem", q(rng, fail))
				add("SignEv", "q", q(rng, fail))
				if rng.Intn(3) == 0 {
					add("SignReplay", "j", 1+rng.Intn(3), "q", q(rng, fail))
				}
				if rng.Intn(2) == 0 {
					add("OtherSign", "sid", nreq)
				}
				if rng.Intn(4) > 0 {
					add("Land", "n", 1+rng.Intn(3))
					if rng.Intn(4) > 0 {
						add("UseEv")
					}
				}
				if rng.Intn(5) == 0 {
					add("SignReplay", "j", 1+rng.Intn(3))
				}
			}
			if rng.Intn(3) > 0 {
				add("Land", "n", 9)
				add("UseEv")
				add("AssignEv")
				add("AssignEv")
				add("Land", "n", 9)
				add("Tick", "qde", q(rng, fail), "qmem", q(rng, fail))
				add("Land", "n", 9)
			}
			add("Block")
			if rng.Intn(3) == 0 {
				add("SignEv", "q", q(rng, fail)) // a retry's notification
				add("AssignEv")
			}
		}
	} else {
		add("Tick", "qde", q(rng, fail), "qmem", q(rng, fail))
		for b := 0; b < 5+rng.Intn(6); b++ {
			for i := 1 + rng.Intn(8); i > 0; i-- {
				switch x := rng.Intn(100); {
				case x < 14:
					if nreq < MaxSig-1 {
						nreq++
						add("Request", "force", rng.Intn(3) > 0)
					}
				case x < 30:
					add("SignEv", "j", 1+rng.Intn(2), "q", q(rng, fail))
				case x < 36:
					add("SignReplay", "j", 1+rng.Intn(4), "q", q(rng, fail))
				case x < 39:
					add("SignLate", "sid", 1+rng.Intn(nreq+2), "q", q(rng, fail))
				case x < 50:
					add("AssignEv", "dup", rng.Intn(6) == 0, "qmem", q(rng, fail), "crashAt", pick(rng, 0, 0, 0, 0, 0, 1, 2))
				case x < 60:
					add("Tick", "qde", q(rng, fail), "qmem", q(rng, fail), "crashAt", pick(rng, 0, 0, 0, 0, 0, 1, 2, 3))
				case x < 76:
					add("Land", "n", pick(rng, 1, 1, 1, 2, 2, 3))
				case x < 79:
					add("GiveUp", "n", pick(rng, 1, 1, 2))
				case x < 86:
					add("UseEv", "j", 1+rng.Intn(2))
				case x < 88:
					add("UseReplay", "j", 1+rng.Intn(3))
				case x < 91:
					if nreq > 0 {
						add("OtherSign", "sid", 1+rng.Intn(nreq))
					}
				case x < 93:
					add("ResetDE")
				case x < 96:
					add("DelEv")
				case x < 97:
					add("DelReplay")
				default:
					add("Crash")
					add("Startup", "qp", q(rng, fail), "q", q(rng, fail))
					add("Tick", "qde", q(rng, fail), "qmem", q(rng, fail))
				}
			}
			add("Block")
		}
	}
	// run out: deliver what is left, let every signing end
	add("SignEv")
	add("Land", "n", 9)
	add("UseEv")
	for i := 0; i < 3; i++ {
		add("Block")
	}
	return tf.Script{Fam: "Cylinder", C: c, Steps: st}
}
