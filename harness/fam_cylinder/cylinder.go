// Package fam_cylinder drives the real cylinder daemon workers - the signing worker
// (cylinder/workers/signing) and the nonce (DE) worker (cylinder/workers/de), with the daemon's real local
// store (cylinder/store) - against the real in-process chain, and records after every step the projection
// of the daemon's state (local DE store, message queue, counter) and of the chain state the daemon depends
// on (the member's queue of public pairs, signings / attempts / assignments) onto the variables of
// Cylinder.tla.  Verdicts are TLC's (Cylinder_Trace.tla), not this package's.
//
// Chain side: the real BandApp (L1 handler layer) with a trusted-dealer 3-member group (threshold 2) that is
// the current bandtss group; member 1 ("me") is the daemon's key, the two others are played by the driver with
// tsskit.  Everything the daemon produces goes through the real MsgSubmitDEs / MsgSubmitSignature handlers;
// every event fed to the daemon was emitted by the real handlers / end-blocker (request_signature,
// submit_signature, de_deleted), possibly late, duplicated, or never (daemon down).
//
// Daemon side: the workers are built through the verif hooks (cylinder/client, workers/signing, workers/de
// export_verif.go).  Their client answers gRPC queries from a branch of the in-process chain state, with
// scripted failures per query.  The sender worker is replaced by the driver: it drains MsgCh and hands the
// messages to the chain in scripted batches (one transaction each, all-or-nothing like the MsgExec the
// sender builds) or drops them (the sender gave up).  The local store sits on a memory DB wrapped so that
// (i) pairs are numbered in the order they are stored, (ii) the message queue is inspected at every store
// write (was the private part there BEFORE the message was queued?), (iii) the process can "die" at the
// k-th store write of an update (runtime.Goexit in the worker's goroutine).
package fam_cylinder

import (
	"context"
	"encoding/hex"
	"errors"
	"fmt"
	"runtime"
	"sort"
	"strings"
	"time"

	dbm "github.com/cometbft/cometbft-db"
	abci "github.com/cometbft/cometbft/abci/types"
	cmtbytes "github.com/cometbft/cometbft/libs/bytes"
	rpcclient "github.com/cometbft/cometbft/rpc/client"
	ctypes "github.com/cometbft/cometbft/rpc/core/types"

	sdkclient "github.com/cosmos/cosmos-sdk/client"
	sdk "github.com/cosmos/cosmos-sdk/types"

	cylclient "github.com/bandprotocol/chain/v3/cylinder/client"
	cylctx "github.com/bandprotocol/chain/v3/cylinder/context"
	cylstore "github.com/bandprotocol/chain/v3/cylinder/store"
	cylde "github.com/bandprotocol/chain/v3/cylinder/workers/de"
	cylsigning "github.com/bandprotocol/chain/v3/cylinder/workers/signing"
	"github.com/bandprotocol/chain/v3/pkg/logger"
	"github.com/bandprotocol/chain/v3/pkg/tss"
	bandtsstypes "github.com/bandprotocol/chain/v3/x/bandtss/types"
	tsstypes "github.com/bandprotocol/chain/v3/x/tss/types"

	tf "vdrive/tracefmt"
	"vdrive/tsskit"
	"vdrive/world"
)

const (
	MaxTok    = 120 // Cylinder_Trace_X03.cfg
	MaxSig    = 10
	UnknownDE = MaxTok - 1 // a public pair on chain that the daemon never stored
)

type Stats struct {
	Traces, Events, Interesting int
	Distinct                    map[string]bool
	Count                       map[string]int
	Tagged                      map[string]int // traces that contain a step with this tag
	Skipped                     int            // deliveries dropped because the tag budget was used up
}

type Driver struct {
	w         *world.World
	W         *tf.Writer
	St        Stats
	TagBudget int // traces per tag that may contain a tagged (known-finding) input; <0 = unlimited (replays)
}

func NewDriver(w *tf.Writer) *Driver {
	return &Driver{W: w, TagBudget: 6, St: Stats{Distinct: map[string]bool{}, Count: map[string]int{}, Tagged: map[string]int{}}}
}

func (d *Driver) Close() {
	if d.w != nil {
		d.w.Close()
	}
}

func (d *Driver) world() *world.World {
	if d.w == nil {
		cfg := world.DefaultConfig()
		cfg.NumAccounts = 6
		d.w = world.New(cfg)
	}
	return d.w
}

// ---------------------------------------------------------------------------------------------
// the node the daemon queries: gRPC queries answered from a branch of the block context
// ---------------------------------------------------------------------------------------------

var errInjected = errors.New("injected rpc failure")

type fakeNode struct {
	rpcclient.Client // nil: the workers under test must only query
	s                *session
	fail             map[string]bool // query name (last path element) -> fails during this step
	calls            map[string]int
}

func (f *fakeNode) ABCIQueryWithOptions(_ context.Context, path string, data cmtbytes.HexBytes,
	_ rpcclient.ABCIQueryOptions) (*ctypes.ResultABCIQuery, error) {
	name := path[strings.LastIndex(path, "/")+1:]
	f.calls[name]++
	if f.fail[name] {
		return nil, errInjected
	}
	app := f.s.w.App
	h := app.GRPCQueryRouter().Route(path)
	if h == nil {
		return &ctypes.ResultABCIQuery{Response: abci.ResponseQuery{Code: 1, Log: "unknown query path"}}, nil
	}
	res, err := h(f.s.r.Sub(), &abci.RequestQuery{Path: path, Data: data})
	if err != nil {
		return &ctypes.ResultABCIQuery{Response: abci.ResponseQuery{Code: 1, Codespace: "sdk", Log: err.Error()}}, nil
	}
	return &ctypes.ResultABCIQuery{Response: *res}, nil
}

func (f *fakeNode) ABCIQuery(ctx context.Context, path string, data cmtbytes.HexBytes) (*ctypes.ResultABCIQuery, error) {
	return f.ABCIQueryWithOptions(ctx, path, data, rpcclient.DefaultABCIQueryOptions)
}

// ---------------------------------------------------------------------------------------------
// the local store's DB: numbering, queue inspection and crash point at every DE write
// ---------------------------------------------------------------------------------------------

type hookDB struct {
	dbm.DB
	s       *session
	stores  int  // DE writes during the current step
	crashAt int  // >0: the worker's goroutine exits right after its crashAt-th DE write of this step
	died    bool // the crash point was reached
}

func isDEKey(k []byte) bool { return len(k) > 1 && k[0] == cylstore.DEStoreKeyPrefix[0] }

func (h *hookDB) SetSync(k, v []byte) error {
	if !isDEKey(k) {
		return h.DB.SetSync(k, v)
	}
	h.s.drain() // anything queued before this write is inspected against the store as it is now
	err := h.DB.SetSync(k, v)
	h.s.tokenOf(string(k[1:]), true)
	h.stores++
	if h.crashAt > 0 && h.stores == h.crashAt {
		h.died = true
		runtime.Goexit()
	}
	return err
}

func (h *hookDB) Set(k, v []byte) error {
	if isDEKey(k) {
		return h.SetSync(k, v)
	}
	return h.DB.Set(k, v)
}

// ---------------------------------------------------------------------------------------------
// session
// ---------------------------------------------------------------------------------------------

type qmsg struct {
	msg  sdk.Msg
	kind string // "sig" | "des" | "other"
	sid  int
	a    int
	de   int
	good bool
	des  []int
	pre  bool
}

type evItem struct {
	events    []abci.Event
	delivered bool
}

type akey struct{ sid, a int }

type session struct {
	d      *Driver
	w      *world.World
	r      *world.Run
	g      *tsskit.Group
	me     tsskit.Member
	others []tsskit.Member
	reqAcc world.Account
	nreq   int
	minDE  int
	maxDE  int
	gas    bool

	// daemon
	ctx  *cylctx.Context
	db   *hookDB
	node *fakeNode
	sw   *cylsigning.Signing
	dw   *cylde.DE

	tok     map[string]int // D||E bytes -> token
	nextTok int
	inbox   []qmsg
	evDE    map[int]bool
	odes    map[string]tsskit.DE // the other members' private pairs
	oser    int

	signOut, useOut, delOut []*evItem
	pendN                   int
	seen                    map[akey]bool // an earlier HandleSigning (query ok) targeted this open assignment of me

	flags  map[string]bool
	tags   map[string]bool
	replay bool
}

func (s *session) tokenOf(key string, create bool) int {
	if t, ok := s.tok[key]; ok {
		return t
	}
	if !create {
		return UnknownDE
	}
	s.nextTok++
	s.tok[key] = s.nextTok
	return s.nextTok
}

func deKey(d tsstypes.DE) string { return string(d.PubD) + string(d.PubE) }

// newDaemon builds the workers on the (persistent) local store; memory state is fresh.
func (s *session) newDaemon() {
	cfg := &cylctx.Config{
		ChainID:            world.ChainID,
		Granter:            s.me.Acc.Addr.String(),
		MinDE:              uint64(s.minDE),
		RandomSecret:       tsskit.ScalarFromSeed("cylinder-random-secret"),
		CheckingDEInterval: time.Minute,
		MaxMessages:        20,
	}
	if s.gas {
		cfg.GasPrices = "0.0025uband"
	}
	s.ctx = &cylctx.Context{
		Config: cfg,
		Logger: logger.NewLogger(func(string, string) bool { return true }), // every level filtered out
		ErrCh:  make(chan error, 1),
		MsgCh:  make(chan sdk.Msg, 1000),
		Store:  cylstore.NewStore(s.db),
	}
	app := s.w.App
	cctx := sdkclient.Context{}.WithClient(s.node).WithCodec(app.AppCodec()).
		WithInterfaceRegistry(app.InterfaceRegistry()).WithChainID(world.ChainID)
	cli := cylclient.NewVerifClient(cctx)
	s.sw = cylsigning.NewVerif(s.ctx, cli)
	s.dw = cylde.NewVerif(s.ctx, cli)
}

// drain moves everything queued on MsgCh to the driver's inbox (the sender's view), recording for a
// MsgSubmitDEs whether all private parts are in the store now, for a MsgSubmitSignature which attempt it
// answers and whether the chain's own verification functions accept the share.
func (s *session) drain() {
	for {
		select {
		case m := <-s.ctx.MsgCh:
			s.inbox = append(s.inbox, s.inspect(m))
		default:
			return
		}
	}
}

func (s *session) inspect(m sdk.Msg) qmsg {
	switch t := m.(type) {
	case *tsstypes.MsgSubmitDEs:
		q := qmsg{msg: m, kind: "des", pre: true, des: []int{}}
		for _, de := range t.DEs {
			k := deKey(de)
			has, err := s.db.DB.Has(cylstore.DEStoreKey(de))
			if err != nil || !has {
				q.pre = false
			}
			q.des = append(q.des, s.tokenOf(k, true))
		}
		if t.Sender != s.me.Acc.Addr.String() {
			q.pre = false
		}
		return q
	case *tsstypes.MsgSubmitSignature:
		q := qmsg{msg: m, kind: "sig", sid: int(t.SigningID), a: 0, de: UnknownDE}
		tk := s.w.App.TSSKeeper
		ctx := s.r.Ctx
		sg, err := tk.GetSigning(ctx, t.SigningID)
		if err != nil {
			return q
		}
		q.a = int(sg.CurrentAttempt)
		sa, err := tk.GetSigningAttempt(ctx, t.SigningID, sg.CurrentAttempt)
		if err != nil {
			return q
		}
		ams := tsstypes.AssignedMembers(sa.AssignedMembers)
		am, ok := ams.FindAssignedMember(t.MemberID)
		if !ok {
			return q
		}
		q.de = s.tokenOf(string(am.PubD)+string(am.PubE), false)
		good := am.Address == s.me.Acc.Addr.String() && t.Signer == am.Address && t.MemberID == s.me.ID
		if good {
			func() {
				defer func() {
					if recover() != nil {
						good = false
					}
				}()
				if !ams.VerifySignatureR(t.MemberID, t.Signature.R()) {
					good = false
					return
				}
				lag, err := tss.ComputeLagrangeCoefficient(t.MemberID, ams.MemberIDs())
				if err != nil {
					good = false
					return
				}
				if err := tss.VerifySigningSignature(sg.GroupPubNonce, sg.GroupPubKey, sg.Message, lag, t.Signature, am.PubKey); err != nil {
					good = false
				}
			}()
		}
		q.good = good
		return q
	}
	return qmsg{msg: m, kind: "other"}
}

// runDaemon runs one step of a worker in its own goroutine (so that the crash point can end it) and
// reports a panic instead of dying with it.
func (s *session) runDaemon(f func()) (crashed bool) {
	done := make(chan struct{})
	go func() {
		defer close(done)
		defer func() {
			if p := recover(); p != nil {
				crashed = true
			}
		}()
		f()
	}()
	<-done
	s.drain()
	return crashed
}

// ---------------------------------------------------------------------------------------------
// projection
// ---------------------------------------------------------------------------------------------

func (s *session) myAssignment(sid uint64) (cur int, open, me bool, de int, signed bool, exists bool) {
	tk := s.w.App.TSSKeeper
	ctx := s.r.Ctx
	sg, err := tk.GetSigning(ctx, tss.SigningID(sid))
	if err != nil {
		return 0, false, false, 0, false, false
	}
	cur = int(sg.CurrentAttempt)
	sa, err := tk.GetSigningAttempt(ctx, tss.SigningID(sid), sg.CurrentAttempt)
	if err != nil {
		return cur, false, false, 0, false, true
	}
	open = true
	for _, am := range sa.AssignedMembers {
		if am.Address == s.me.Acc.Addr.String() {
			me = true
			de = s.tokenOf(string(am.PubD)+string(am.PubE), false)
			signed = tk.HasPartialSignature(ctx, tss.SigningID(sid), sg.CurrentAttempt, am.MemberID)
		}
	}
	return cur, open, me, de, signed, true
}

func (s *session) project() tf.M {
	tk := s.w.App.TSSKeeper
	ctx := s.r.Ctx
	addr := s.me.Acc.Addr
	cq := []int{}
	dq := tk.GetDEQueue(ctx, addr)
	if dq.Tail >= dq.Head && dq.Tail-dq.Head <= 200 {
		for i := dq.Head; i < dq.Tail; i++ {
			de, err := tk.GetDE(ctx, addr, i)
			if err != nil {
				cq = append(cq, UnknownDE)
				continue
			}
			cq = append(cq, s.tokenOf(deKey(de), false))
		}
	}
	sgs := []tf.M{}
	count := tk.GetSigningCount(ctx)
	for id := uint64(1); id <= count && id <= MaxSig+1; id++ {
		cur, open, me, de, signed, _ := s.myAssignment(id)
		sgs = append(sgs, tf.M{"a": cur, "open": open, "me": me, "de": de, "signed": signed})
	}
	priv := []int{}
	if des, err := s.ctx.Store.GetAllDEs(); err == nil {
		for _, d := range des {
			priv = append(priv, s.tokenOf(deKey(d.PubDE), true))
		}
	}
	sort.Ints(priv)
	ev := []int{}
	for t := range s.evDE {
		ev = append(ev, t)
	}
	sort.Ints(ev)
	mq := []tf.M{}
	for _, q := range s.inbox {
		switch q.kind {
		case "sig":
			mq = append(mq, tf.M{"k": "sig", "sid": q.sid, "a": q.a, "de": q.de, "good": q.good})
		case "des":
			mq = append(mq, tf.M{"k": "des", "des": q.des, "pre": q.pre})
		default:
			mq = append(mq, tf.M{"k": "sig", "sid": 0, "a": 0, "de": UnknownDE, "good": false}) // a message of another kind
		}
	}
	return tf.M{"cq": cq, "sg": sgs, "pendN": s.pendN, "evDE": ev, "priv": priv, "mq": mq,
		"cnt": int(s.dw.VerifCntUsed()), "nextTok": s.nextTok, "h": int(s.r.Height)}
}

// ---------------------------------------------------------------------------------------------
// chain side helpers
// ---------------------------------------------------------------------------------------------

// deliver: one transaction, all-or-nothing, through the real msg service router; returns the events of the
// message results too (as fam_tsssigning.deliver).
func (s *session) deliver(msgs ...sdk.Msg) world.Outcome {
	r := s.r
	em := sdk.NewEventManager()
	txCtx, write := r.Ctx.WithEventManager(em).CacheContext()
	txCtx = txCtx.WithEventManager(em)
	var out world.Outcome
	var evs []abci.Event
	func() {
		defer func() {
			if p := recover(); p != nil {
				out.Panic = p
			}
		}()
		for _, m := range msgs {
			if v, ok := m.(interface{ ValidateBasic() error }); ok {
				if err := v.ValidateBasic(); err != nil {
					out.Err = err
					return
				}
			}
			h := r.W.App.MsgServiceRouter().Handler(m)
			if h == nil {
				out.Err = fmt.Errorf("no handler for %T", m)
				return
			}
			res, err := h(txCtx, m)
			if err != nil {
				out.Err = err
				return
			}
			if res != nil {
				evs = append(evs, res.Events...)
			}
		}
	}()
	if out.OK() {
		write()
		out.Events = append(em.Events().ToABCIEvents(), evs...)
	}
	return out
}

func evAttr(e abci.Event, key string) []string {
	var out []string
	for _, a := range e.Attributes {
		if a.Key == key {
			out = append(out, a.Value)
		}
	}
	return out
}

// hasFor: does the event list contain an event of the type that names the member's address (the
// subscription queries of the workers: <type>.address = '<granter>')
func (s *session) hasFor(evs []abci.Event, typ string) bool {
	me := s.me.Acc.Addr.String()
	for _, e := range evs {
		if e.Type != typ {
			continue
		}
		for _, v := range evAttr(e, tsstypes.AttributeKeyAddress) {
			if v == me {
				return true
			}
		}
	}
	return false
}

// publish routes the events of one transaction / one block to the daemon's subscriptions.
func (s *session) publish(evs []abci.Event, isTx bool) {
	if s.hasFor(evs, tsstypes.EventTypeRequestSignature) {
		s.signOut = append(s.signOut, &evItem{events: evs})
		s.pendN++
		s.flags["assigned"] = true
	}
	if isTx && s.hasFor(evs, tsstypes.EventTypeSubmitSignature) {
		s.useOut = append(s.useOut, &evItem{events: evs})
		for _, t := range s.eventTokens(evs) {
			s.evDE[t] = true
		}
	}
	if isTx && s.hasFor(evs, tsstypes.EventTypeDEDeleted) {
		s.delOut = append(s.delOut, &evItem{events: evs})
		for _, t := range s.eventTokens(evs) {
			s.evDE[t] = true
		}
	}
}

// eventTokens: tokens of the member's pairs named by submit_signature / de_deleted events
func (s *session) eventTokens(evs []abci.Event) []int {
	var out []int
	me := s.me.Acc.Addr.String()
	for _, e := range evs {
		if e.Type != tsstypes.EventTypeSubmitSignature && e.Type != tsstypes.EventTypeDEDeleted {
			continue
		}
		as, ds, es := evAttr(e, tsstypes.AttributeKeyAddress), evAttr(e, tsstypes.AttributeKeyPubD), evAttr(e, tsstypes.AttributeKeyPubE)
		if len(as) != 1 || as[0] != me || len(ds) != 1 || len(es) != 1 {
			continue
		}
		d, _ := hex.DecodeString(ds[0])
		x, _ := hex.DecodeString(es[0])
		if t, ok := s.tok[string(d)+string(x)]; ok {
			out = append(out, t)
		}
	}
	return out
}

// refillOthers (environment): the other members keep pairs queued, or (force) only the first of them does
func (s *session) refillOthers(onlyFirst bool) {
	tk := s.w.App.TSSKeeper
	for i, m := range s.others {
		dq := tk.GetDEQueue(s.r.Ctx, m.Acc.Addr)
		n := int(dq.Tail - dq.Head)
		if onlyFirst && i > 0 {
			if n > 0 {
				s.deliver(&tsstypes.MsgResetDE{Sender: m.Acc.Addr.String()})
			}
			continue
		}
		if n >= s.maxDE {
			continue
		}
		var pubs []tsstypes.DE
		for j := n; j < s.maxDE; j++ {
			s.oser++
			de := tsskit.NewDE(fmt.Sprintf("cylinder-other|%d", s.oser))
			s.odes[de.Key()] = de
			pubs = append(pubs, de.Pub())
		}
		// never panic here: a chain that refuses this (a defect outside this family) must not kill the driver
		for len(pubs) > 0 {
			if o := s.deliver(&tsstypes.MsgSubmitDEs{DEs: pubs, Sender: m.Acc.Addr.String()}); o.OK() {
				break
			}
			pubs = pubs[:len(pubs)-1]
		}
	}
}

// reactivate (environment): members deactivated for a missed signing come back as soon as the chain lets them
func (s *session) reactivate() {
	bk := s.w.App.BandtssKeeper
	for _, m := range s.g.Members {
		bm, err := bk.GetMember(s.r.Ctx, m.Acc.Addr, s.g.ID)
		if err == nil && !bm.IsActive {
			s.deliver(bandtsstypes.NewMsgActivate(m.Acc.Addr.String(), s.g.ID))
		}
	}
}

func (s *session) requestMsg() sdk.Msg {
	s.nreq++
	content := tsstypes.NewTextSignatureOrder([]byte(fmt.Sprintf("cylinder-msg-%d", s.nreq)))
	msg, err := bandtsstypes.NewMsgRequestSignature(content, sdk.NewCoins(sdk.NewInt64Coin("uband", 1_000_000)), s.reqAcc.Addr.String())
	if err != nil {
		panic(err)
	}
	return msg
}

// ---------------------------------------------------------------------------------------------
// running a script
// ---------------------------------------------------------------------------------------------

func (d *Driver) RunScript(sc tf.Script, replay bool) {
	w := d.world()
	s := &session{d: d, w: w, r: w.Branch(), tok: map[string]int{}, evDE: map[int]bool{}, odes: map[string]tsskit.DE{},
		seen: map[akey]bool{}, flags: map[string]bool{}, tags: map[string]bool{}, replay: replay}
	var members []world.Account
	for i := 0; i < 3; i++ {
		a := w.Accts[i]
		members = append(members, a)
	}
	s.reqAcc = w.Accts[4]
	s.minDE = tf.Int(sc.C, "minDE", 1)
	s.maxDE = tf.Int(sc.C, "maxDE", 2*s.minDE)
	s.gas = tf.Bool(sc.C, "gas", false)
	period, maxAtt := tf.Int(sc.C, "period", 2), tf.Int(sc.C, "maxAtt", 2)

	// environment: parameters, the signing group
	tk, bk := w.App.TSSKeeper, w.App.BandtssKeeper
	p := tk.GetParams(s.r.Ctx)
	p.MaxDESize, p.SigningPeriod, p.MaxSigningAttempt = uint64(s.maxDE), uint64(period), uint64(maxAtt)
	if err := tk.SetParams(s.r.Ctx, p); err != nil {
		panic(err)
	}
	bp := bk.GetParams(s.r.Ctx)
	bp.InactivePenaltyDuration = time.Second
	if err := bk.SetParams(s.r.Ctx, bp); err != nil {
		panic(err)
	}
	s.r.BeginBlock(100)
	s.g = tsskit.NewGroup("cylinder", 2, members)
	s.g.Install(s.r.Ctx, w.App, bandtsstypes.ModuleName)
	s.g.InstallAsCurrent(s.r.Ctx, w.App)
	s.me = s.g.Members[0]
	s.others = s.g.Members[1:]

	// the daemon: local store with the group's key share (what the group worker stored after the DKG)
	s.db = &hookDB{DB: dbm.NewMemDB(), s: s}
	s.node = &fakeNode{s: s, fail: map[string]bool{}, calls: map[string]int{}}
	s.newDaemon()
	if err := s.ctx.Store.SetGroup(cylstore.Group{GroupPubKey: s.g.PubKey, MemberID: s.me.ID, PrivKey: s.me.Priv}); err != nil {
		panic(err)
	}

	d.W.Reset(tf.M{"minDE": s.minDE, "maxDE": s.maxDE, "gas": s.gas, "period": period, "maxAtt": maxAtt}, s.project(), sc.Steps)
	d.St.Traces++
	d.St.Events++
	for _, step := range sc.Steps {
		s.apply(step)
	}
	for k := range s.flags {
		d.St.Count[k]++
	}
	for t := range s.tags {
		d.St.Tagged[t]++
	}
	// (input-side rule: it must not depend on the daemon behaving well)
	if s.flags["assigned"] && (s.flags["dupDelivery"] || s.flags["failure"] || s.flags["crash"] || s.flags["retry"] || s.flags["reset"]) {
		h := sc.Hash()
		if !d.St.Distinct[h] {
			d.St.Distinct[h] = true
			d.St.Interesting++
		}
	}
}

func (s *session) step(e string, a tf.M, o tf.M) {
	s.d.W.Step(e, a, o, s.project())
	s.d.St.Events++
}

// allowTag: may this trace contain (another) input with the given known-finding tag?
func (s *session) allowTag(tag string) bool {
	if s.replay || s.d.TagBudget < 0 || s.tags[tag] {
		s.tags[tag] = true
		return true
	}
	if s.d.St.Tagged[tag] >= s.d.TagBudget {
		s.d.St.Skipped++
		return false
	}
	s.tags[tag] = true
	return true
}

func pickItem(list []*evItem, j int, delivered bool) *evItem {
	var c []*evItem
	for _, it := range list {
		if it.delivered == delivered {
			c = append(c, it)
		}
	}
	if len(c) == 0 {
		return nil
	}
	if j < 1 {
		j = 1
	}
	return c[(j-1)%len(c)]
}

func qs(step tf.M, k string) string {
	if tf.Str(step, k, "ok") == "fail" {
		return "fail"
	}
	return "ok"
}

// handleSigning: one call of the worker's handleSigning, as one trace line
func (s *session) handleSigning(sid uint64, q, src string) {
	cur, open, me, de, signed, exists := s.myAssignment(sid)
	a := tf.M{"sid": int(sid), "q": q, "src": src}
	tag := ""
	if q == "ok" && exists {
		if !open {
			tag = "attempt-pruned" // the signing's current attempt data is gone (expired): the response has no current attempt
		} else if me {
			inStore := false
			for k, t := range s.tok {
				if t == de {
					has, _ := s.db.DB.Has(append(append([]byte{}, cylstore.DEStoreKeyPrefix...), []byte(k)...))
					inStore = has
				}
			}
			queued := false
			for _, m := range s.inbox {
				if m.kind == "sig" && m.sid == int(sid) && m.a == cur {
					queued = true
				}
			}
			if inStore && (queued || signed) {
				tag = "repeated-notification" // the share for this attempt is already queued / on chain and the private pair still held
			}
		}
	}
	if tag != "" {
		if !s.allowTag(tag) {
			return
		}
		a["tag"] = tag
	}
	if q == "ok" && open && me {
		if s.seen[akey{int(sid), cur}] {
			s.flags["dupDelivery"] = true
		}
		s.seen[akey{int(sid), cur}] = true
	}
	if q == "fail" {
		s.flags["failure"] = true
	}
	s.node.fail = map[string]bool{"Signing": q == "fail"}
	crashed := s.runDaemon(func() { s.sw.VerifHandleSigning(tss.SigningID(sid)) })
	s.node.fail = map[string]bool{}
	s.step("HandleSigning", a, tf.M{"crashed": crashed})
}

func (s *session) deleteDEs(it *evItem, kind string) {
	pubs, _ := s.dw.VerifEventPubDEs(it.events)
	D := []int{}
	for _, p := range pubs {
		if t, ok := s.tok[deKey(p)]; ok {
			D = append(D, t)
		}
	}
	sort.Ints(D)
	crashed := s.runDaemon(func() {
		for _, p := range pubs {
			s.dw.VerifDeleteDE(p)
		}
	})
	s.step("DeleteDE", tf.M{"D": D, "kind": kind}, tf.M{"crashed": crashed})
}

// lose: the daemon is down - undelivered notifications are gone
func (s *session) lose() {
	for _, l := range [][]*evItem{s.signOut, s.useOut, s.delOut} {
		for _, it := range l {
			it.delivered = true
		}
	}
	s.pendN = 0
	s.inbox = nil
	s.newDaemon()
}

func (s *session) apply(step tf.M) {
	tk := s.w.App.TSSKeeper
	switch e := tf.Str(step, "e", ""); e {
	// ---------------- environment: the chain ----------------
	case "Request":
		force := tf.Bool(step, "force", false)
		s.refillOthers(force)
		before := tk.GetSigningCount(s.r.Ctx)
		if before >= MaxSig {
			return
		}
		o := s.deliver(s.requestMsg())
		if o.OK() {
			s.publish(o.Events, true)
		}
		s.step("Request", tf.M{"force": force}, tf.M{"ok": o.OK()})
	case "Block":
		o := s.r.EndBlock()
		if o.OK() {
			if o.Count(tsstypes.EventTypeRequestSignature) > 0 {
				s.flags["retry"] = true
			}
			s.publish(o.Events, false)
		}
		ob := s.r.BeginBlock(2)
		s.reactivate()
		s.refillOthers(false)
		s.step("Block", tf.M{}, tf.M{"ok": o.OK() && ob.OK()})
	case "OtherSign":
		sid := uint64(tf.Int(step, "sid", 1))
		n := 0
		if sg, err := tk.GetSigning(s.r.Ctx, tss.SigningID(sid)); err == nil {
			if sa, err := tk.GetSigningAttempt(s.r.Ctx, tss.SigningID(sid), sg.CurrentAttempt); err == nil {
				for _, am := range sa.AssignedMembers {
					if am.Address == s.me.Acc.Addr.String() {
						continue
					}
					m, ok := s.g.ByAddr(am.Address)
					de, have := s.odes[tsskit.PubKey(am.PubD, am.PubE)]
					if !ok || !have {
						continue
					}
					sig, err := tsskit.PartialSign(m, sg, sa, de)
					if err != nil {
						continue
					}
					if o := s.deliver(&tsstypes.MsgSubmitSignature{SigningID: tss.SigningID(sid), MemberID: m.ID, Signature: sig, Signer: am.Address}); o.OK() {
						n++
					}
				}
			}
		}
		s.step("OtherSign", tf.M{"sid": int(sid)}, tf.M{"ok": true, "n": n})
	case "ResetDE":
		o := s.deliver(&tsstypes.MsgResetDE{Sender: s.me.Acc.Addr.String()})
		if o.OK() {
			s.publish(o.Events, true)
			s.flags["reset"] = true
		}
		s.step("ResetDE", tf.M{}, tf.M{"ok": o.OK()})

	// ---------------- the signing worker ----------------
	case "SignEv", "SignReplay":
		it := pickItem(s.signOut, tf.Int(step, "j", 1), e == "SignReplay")
		if it == nil {
			return
		}
		it.delivered = true
		src := "event"
		if e == "SignReplay" {
			src = "replay"
		}
		sids, _ := s.sw.VerifEventSigningIDs(it.events)
		for _, sid := range sids {
			s.handleSigning(uint64(sid), qs(step, "q"), src)
		}
	case "SignLate": // a notification for signing sid delivered now, whatever happened to the signing since
		sid := uint64(tf.Int(step, "sid", 1))
		if sid > tk.GetSigningCount(s.r.Ctx)+1 {
			sid = tk.GetSigningCount(s.r.Ctx) + 1
		}
		s.handleSigning(sid, qs(step, "q"), "late")
	case "Startup": // handlePendingSignings
		s.node.fail = map[string]bool{"PendingSignings": qs(step, "qp") == "fail"}
		var sids []tss.SigningID
		var err error
		crashed := s.runDaemon(func() { sids, err = s.sw.VerifPendingSigningIDs() })
		s.node.fail = map[string]bool{}
		if err != nil {
			s.flags["failure"] = true
		}
		ids := []int{}
		for _, x := range sids {
			ids = append(ids, int(x))
		}
		s.step("Startup", tf.M{"qp": qs(step, "qp"), "ids": ids}, tf.M{"crashed": crashed, "ok": err == nil})
		for _, sid := range sids {
			s.handleSigning(uint64(sid), qs(step, "q"), "startup")
		}

	// ---------------- the DE worker ----------------
	case "Tick", "AssignEv":
		qde, qmem := qs(step, "qde"), qs(step, "qmem")
		dup := tf.Bool(step, "dup", false)
		if e == "AssignEv" {
			if !dup && s.pendN == 0 {
				return
			}
			qde = "ok"
		}
		s.db.stores, s.db.died, s.db.crashAt = 0, false, tf.Int(step, "crashAt", 0)
		s.node.fail = map[string]bool{"DE": qde == "fail", "Member": qmem == "fail"}
		var err error
		crashed := s.runDaemon(func() {
			if e == "Tick" {
				err = s.dw.VerifIntervalUpdateDE()
			} else {
				s.dw.VerifAssignEvent()
			}
		})
		s.node.fail = map[string]bool{}
		s.db.crashAt = 0
		if qde == "fail" || qmem == "fail" {
			s.flags["failure"] = true
		}
		if s.db.died {
			// the process died inside updateDE after `stores` pairs were written; whatever it had queued dies with it
			k := s.db.stores
			s.lose()
			s.flags["crash"] = true
			via := "tick"
			if e == "AssignEv" {
				via = "assign"
			}
			s.step("CrashInUpdate", tf.M{"via": via, "k": k, "qmem": qmem}, tf.M{"crashed": crashed})
			return
		}
		if e == "Tick" {
			s.step("Tick", tf.M{"qde": qde, "qmem": qmem}, tf.M{"crashed": crashed, "err": err != nil})
		} else {
			if !dup {
				s.pendN--
			} else {
				s.flags["dupAssign"] = true
			}
			s.step("AssignEv", tf.M{"dup": dup, "qmem": qmem}, tf.M{"crashed": crashed})
		}
	case "UseEv", "UseReplay":
		it := pickItem(s.useOut, tf.Int(step, "j", 1), e == "UseReplay")
		if it == nil {
			return
		}
		it.delivered = true
		s.deleteDEs(it, "use")
	case "DelEv", "DelReplay":
		it := pickItem(s.delOut, tf.Int(step, "j", 1), e == "DelReplay")
		if it == nil {
			return
		}
		it.delivered = true
		s.deleteDEs(it, "del")
	case "Crash":
		s.lose()
		s.flags["crash"] = true
		s.step("Crash", tf.M{}, tf.M{"crashed": false})

	// ---------------- the sender ----------------
	case "Land", "GiveUp":
		n := tf.Int(step, "n", 1)
		if n > len(s.inbox) {
			n = len(s.inbox)
		}
		if n < 1 {
			return
		}
		batch := s.inbox[:n]
		s.inbox = append([]qmsg{}, s.inbox[n:]...)
		if e == "GiveUp" {
			s.flags["failure"] = true
			s.step("GiveUp", tf.M{"n": n}, tf.M{"crashed": false})
			return
		}
		var msgs []sdk.Msg
		hasSig := false
		for _, q := range batch {
			msgs = append(msgs, q.msg)
			if q.kind == "sig" {
				hasSig = true
			}
		}
		o := s.deliver(msgs...)
		if o.OK() {
			s.publish(o.Events, true)
			if hasSig {
				s.flags["landedSig"] = true
			}
		} else {
			s.flags["refused"] = true
		}
		s.step("Land", tf.M{"n": n}, tf.M{"ok": o.OK()})
	default:
		panic("fam_cylinder: unknown step " + fmt.Sprint(step))
	}
}
