// Package fam_payload (property C11) issues signing requests through every real entry point — bandtss
// MsgRequestSignature for every content kind (the internal ones must be refused), the oracle end-block for
// results with a TSS encoder, tunnel MsgTriggerTunnel / the tunnel end-block for TSS routes, and the bandtss
// group-transition callback — reads every new Signing.Message from the tss store, decodes it structurally
// (decode.go) and logs the decoded tuple next to the request and the on-chain data the content must encode.
// The verdict is TLC's (Payload_Trace.tla).
//
// Environment (installed with keeper setters, see manifest level_note): the signing group (trusted dealer,
// installed as current bandtss group), nonce pairs, feed prices, module parameters, the chain id of the
// context, the outcome of the incoming group's key generation (as in fam_bandtss).
package fam_payload

import (
	"crypto/sha256"
	"encoding/hex"
	"fmt"
	"math/rand"
	"strconv"
	"strings"
	"time"

	sdk "github.com/cosmos/cosmos-sdk/types"

	"github.com/bandprotocol/chain/v3/pkg/tickmath"
	"github.com/bandprotocol/chain/v3/pkg/tss"
	bandtsstypes "github.com/bandprotocol/chain/v3/x/bandtss/types"
	feedstypes "github.com/bandprotocol/chain/v3/x/feeds/types"
	oracletypes "github.com/bandprotocol/chain/v3/x/oracle/types"
	tsstypes "github.com/bandprotocol/chain/v3/x/tss/types"
	tunneltypes "github.com/bandprotocol/chain/v3/x/tunnel/types"

	tf "vdrive/tracefmt"
	"vdrive/tsskit"
	"vdrive/world"
)

const (
	MaxMemo  = 100
	MaxText  = 40
	MaxSigs  = 3
	poolSize = 120
	NulTag   = "nul-leading-signal-id"

	// documented constants of the tick encoding (pkg/tickmath): tick + 2^18, |tick| < 2^18
	tickOffset = 262144
	tickMax    = 262143
)

type Driver struct {
	w    *world.World
	fb   *world.Run
	W    *tf.Writer
	Mode string // "" | "nonul" (no signal ids with a leading zero byte)

	g1, g2 *tsskit.Group
	pool   map[string][]tsskit.DE // per member name
	des    map[string]tsskit.DE   // by public key

	Traces, Events, Interesting int
	seen                        map[string]bool
	Created                     map[string]int // signings per source/kind/encoder
	Refused                     map[string]int // refused user requests per kind
	TickStrict, TickWeak        int
}

func must(err error) {
	if err != nil {
		panic(err)
	}
}

func NewDriver(w *tf.Writer, mode string) *Driver {
	d := &Driver{W: w, Mode: mode, seen: map[string]bool{}, Created: map[string]int{}, Refused: map[string]int{},
		pool: map[string][]tsskit.DE{}, des: map[string]tsskit.DE{}}
	cfg := world.DefaultConfig()
	cfg.NumAccounts = 7
	d.w = world.New(cfg)
	app := d.w.App
	fb := d.w.Branch()

	tp := app.TSSKeeper.GetParams(fb.Ctx)
	tp.MaxMemoLength, tp.MaxMessageLength = MaxMemo, MaxText
	tp.SigningPeriod, tp.CreationPeriod, tp.MaxDESize, tp.MaxSigningAttempt = 100000, 100000, 5000, 1
	must(app.TSSKeeper.SetParams(fb.Ctx, tp))
	bp := app.BandtssKeeper.GetParams(fb.Ctx)
	bp.FeePerSigner = sdk.NewCoins()
	bp.MinTransitionDuration, bp.MaxTransitionDuration = time.Second, 1000*time.Second
	must(app.BandtssKeeper.SetParams(fb.Ctx, bp))
	fp := app.FeedsKeeper.GetParams(fb.Ctx)
	fp.MaxSignalIDsPerSigning = MaxSigs
	fp.CurrentFeedsUpdateInterval = 1_000_000
	must(app.FeedsKeeper.SetParams(fb.Ctx, fp))
	up := app.TunnelKeeper.GetParams(fb.Ctx)
	up.MinDeposit = sdk.NewCoins(sdk.NewInt64Coin("uband", 1))
	up.BasePacketFee = sdk.NewCoins()
	up.MinInterval, up.MaxInterval = 1, 100000
	must(app.TunnelKeeper.SetParams(fb.Ctx, up))

	fb.BeginBlock(100)
	for _, v := range d.w.Vals {
		if o := fb.Deliver(&oracletypes.MsgActivate{Validator: v.ValAddr.String()}); !o.OK() {
			panic(fmt.Sprint("prelude activate: ", o.Err))
		}
	}
	d.g1 = tsskit.NewGroup("pl-g1", 2, d.w.Accts[:3])
	d.g1.Install(fb.Ctx, app, bandtsstypes.ModuleName)
	d.g1.InstallAsCurrent(fb.Ctx, app)
	d.g2 = tsskit.NewGroup("pl-g2", 1, d.w.Accts[1:3])
	for _, a := range d.w.Accts[:3] {
		for i := 0; i < poolSize; i++ {
			de := tsskit.NewDE(fmt.Sprintf("pl-%s-%d", a.Name, i))
			d.pool[a.Name] = append(d.pool[a.Name], de)
			d.des[de.Key()] = de
		}
	}
	if o := fb.EndBlock(); !o.OK() {
		panic(fmt.Sprint("prelude end block: ", o.Err, o.Panic))
	}
	fb.BeginBlock(1)
	d.fb = fb
	return d
}

func (d *Driver) Close() { d.w.Close() }

func (d *Driver) Stats() map[string]interface{} {
	return map[string]interface{}{"traces": d.Traces, "events": d.Events, "interesting": d.Interesting,
		"created": d.Created, "refused": d.Refused, "tick_strict": d.TickStrict, "tick_weak": d.TickWeak}
}

type pendingReport struct {
	rid uint64
	n   int
}

type oracleReq struct {
	rid              uint64
	client, calldata string
}

type session struct {
	d         *Driver
	w         *world.World
	r         *world.Run
	chain     string
	poolOff   map[string]int
	prices    map[string]uint64
	oracles   []oracleReq
	tunnels   []uint64
	raws      map[uint64][]oracletypes.RawRequest
	pending   []pendingReport
	preTr     bandtsstypes.GroupTransition // the transition record before the current step
	havePreTr bool
	sigc      uint64
	interest  bool
}

func (s *session) rel(t int64) int { return small(t - s.w.Cfg.GenesisTime.Unix()) }

// topUp keeps every group member supplied with nonce pairs (environment).
func (s *session) topUp() {
	k := s.w.App.TSSKeeper
	for _, a := range s.w.Accts[:3] {
		q := k.GetDEQueue(s.r.Ctx, a.Addr)
		if q.Tail-q.Head >= 16 {
			continue
		}
		off := s.poolOff[a.Name]
		if off+16 > poolSize {
			return // the script is bounded so that this does not happen; the next request would be refused
		}
		var pubs []tsstypes.DE
		for _, de := range s.d.pool[a.Name][off : off+16] {
			pubs = append(pubs, de.Pub())
		}
		s.poolOff[a.Name] = off + 16
		must(k.EnqueueDEs(s.r.Ctx, a.Addr, pubs))
	}
}

func (s *session) project() tf.M {
	tk := s.w.App.TSSKeeper
	n := tk.GetSigningCount(s.r.Ctx)
	mhs := []string{}
	for id := uint64(1); id <= n; id++ {
		sg, err := tk.GetSigning(s.r.Ctx, tss.SigningID(id))
		if err != nil {
			mhs = append(mhs, "missing")
			continue
		}
		mhs = append(mhs, shortHash(sg.Message))
	}
	return tf.M{"now": s.rel(s.r.Time.Unix()), "sigc": int(n), "mhs": mhs}
}

func shortHash(b []byte) string {
	h := sha256.Sum256(b)
	return hex.EncodeToString(h[:8])
}

// ---- rendering of requests ----

func directO(chain, requester, memo string) tf.M {
	return tf.M{"t": "direct", "chain": ints([]byte(chain)), "req": ints([]byte(requester)), "memo": ints([]byte(memo))}
}

func tunnelO(chain string, tid uint64, dch, daddr string) tf.M {
	return tf.M{"t": "tunnel", "chain": ints([]byte(chain)), "tid": dec64(tid), "dchain": ints([]byte(dch)), "daddr": ints([]byte(daddr))}
}

func zeroW() tf.M {
	z := []int{0, 0, 0, 0}
	return tf.M{"pl": z, "loOk": false, "lo": z, "hiInf": false, "hi": z}
}

// tickWitness: limbs of the price, of the decoded price of the tick carried by v, and of the next tick, through the
// real decoder tickmath.TickToPrice.  A tick below the smallest positive price decodes to 0; above 2^64-1 to infinity.
func (d *Driver) tickWitness(p, v uint64) tf.M {
	w := zeroW()
	w["pl"] = limbs(p)
	if v == 0 || v > tickOffset+tickMax {
		return w
	}
	t := int64(v) - tickOffset
	if t < -tickMax {
		return w
	}
	lo, err := tickmath.TickToPrice(t)
	switch {
	case err == nil:
		w["loOk"], w["lo"] = true, limbs(lo)
	case t < 0:
		w["loOk"] = true // decodes below one unit: 0
	}
	if t+1 > tickMax {
		w["hiInf"] = true
	} else if hi, err := tickmath.TickToPrice(t + 1); err == nil {
		w["hi"] = limbs(hi)
	} else if t+1 > 0 {
		w["hiInf"] = true
	}
	if p != 0 {
		if p >= 10000 {
			d.TickStrict++
		} else {
			d.TickWeak++
		}
	}
	return w
}

type priceIn struct {
	sig string
	p   uint64
}

// entries renders the price list of a feeds / tunnel content; vals = the decoded values (nil before decoding)
func (d *Driver) entries(enc string, in []priceIn, vals []uint64) []tf.M {
	out := []tf.M{}
	for i, e := range in {
		m := tf.M{"sig": ints([]byte(e.sig)), "p": dec64(e.p), "v": "none", "w": zeroW()}
		if vals != nil && i < len(vals) {
			m["v"] = dec64(vals[i])
			if enc == "tick" {
				m["w"] = d.tickWitness(e.p, vals[i])
			}
		}
		out = append(out, m)
	}
	return out
}

func encName(e feedstypes.Encoder) string {
	switch e {
	case feedstypes.ENCODER_FIXED_POINT_ABI:
		return "fixed"
	case feedstypes.ENCODER_TICK_ABI:
		return "tick"
	}
	return "?"
}

func feedsEnc(n string) feedstypes.Encoder {
	if n == "tick" {
		return feedstypes.ENCODER_TICK_ABI
	}
	return feedstypes.ENCODER_FIXED_POINT_ABI
}

func oracleEncName(e oracletypes.Encoder) string {
	switch e {
	case oracletypes.ENCODER_PROTO:
		return "proto"
	case oracletypes.ENCODER_FULL_ABI:
		return "full"
	case oracletypes.ENCODER_PARTIAL_ABI:
		return "partial"
	}
	return "?"
}

func oracleEnc(n string) oracletypes.Encoder {
	switch n {
	case "proto":
		return oracletypes.ENCODER_PROTO
	case "full":
		return oracletypes.ENCODER_FULL_ABI
	case "partial":
		return oracletypes.ENCODER_PARTIAL_ABI
	}
	return oracletypes.ENCODER_UNSPECIFIED
}

// oracleContent reads the stored result of request rid (the on-chain data an oracle content must encode).
func (s *session) oracleContent(rid uint64, enc string) tf.M {
	f := tf.M{"rid": small(int64(rid)), "found": false, "mirror": true, "client": []int{}, "osid": "0", "calldata": []int{},
		"ask": "0", "min": "0", "ans": "0", "reqT": 0, "resT": 0, "status": 0, "result": []int{}}
	if res, err := s.w.App.OracleKeeper.GetResult(s.r.Ctx, oracletypes.RequestID(rid)); err == nil {
		mirror := uint64(res.RequestID) == rid
		for _, o := range s.oracles {
			if o.rid == rid {
				mirror = mirror && res.ClientID == o.client && string(res.Calldata) == o.calldata
			}
		}
		f = tf.M{"rid": small(int64(rid)), "found": true, "mirror": mirror, "client": ints([]byte(res.ClientID)),
			"osid": dec64(uint64(res.OracleScriptID)), "calldata": ints(res.Calldata), "ask": dec64(res.AskCount),
			"min": dec64(res.MinCount), "ans": dec64(res.AnsCount), "reqT": s.rel(res.RequestTime), "resT": s.rel(res.ResolveTime),
			"status": int(res.ResolveStatus), "result": ints(res.Result)}
	}
	return tf.M{"kind": "oracle", "enc": enc, "f": f}
}

// ---- new signings: attribution to their request, decoding ----

type userReq struct {
	o   tf.M
	ohx string
	c   tf.M
	in  []priceIn // for feeds contents
}

// collect builds the `created` list for the signings made by the step just played.
func (s *session) collect(user *userReq) []tf.M {
	app := s.w.App
	tk, bk := app.TSSKeeper, app.BandtssKeeper
	ctx := s.r.Ctx
	gen := s.w.Cfg.GenesisTime.Unix()
	out := []tf.M{}
	n := tk.GetSigningCount(ctx)
	for id := s.sigc + 1; id <= n; id++ {
		it := tf.M{"src": "unknown", "o": directO("", "", ""), "c": tf.M{"kind": "text", "enc": "-", "f": tf.M{"msg": []int{}}},
			"ohx": "", "mh": "missing", "dec": Decoded{Tag: "?", Shape: "?"}.M()}
		sg, err := tk.GetSigning(ctx, tss.SigningID(id))
		if err != nil {
			out = append(out, it)
			continue
		}
		dec := Decode(sg.Message, gen)
		it["dec"], it["mh"] = dec.M(), shortHash(sg.Message)
		key := "unknown"
		bid := bk.GetSigningIDMapping(ctx, tss.SigningID(id))
		if bid == 0 {
			// no bandtss request record: the only module path that puts a message to the group directly is the hand-over
			// message of a group transition (bandtss CreateTransitionSigning).  The transition it belongs to is read from
			// the store after the step (its SigningID names this signing) or, if the same end-block already dropped or
			// executed it, from the record as it was before the step.
			tr, ok := bk.GetGroupTransition(ctx)
			if !ok || uint64(tr.SigningID) != id {
				tr, ok = s.preTr, s.havePreTr && s.preTr.Status == bandtsstypes.TRANSITION_STATUS_CREATING_GROUP
			}
			if ok {
				req := bk.GetBandtssAccount(ctx).GetAddress().String()
				pk := []byte{}
				if g, err := tk.GetGroup(ctx, tr.IncomingGroupID); err == nil {
					pk = g.PubKey
				}
				it["src"], it["o"], it["ohx"] = "transition", directO(s.chain, req, ""), DirectHash(s.chain, req, "")
				it["c"] = tf.M{"kind": "transition", "enc": "-", "f": tf.M{"pk": ints(pk), "execT": s.rel(tr.ExecTime.Unix())}}
				key = "transition"
			}
		} else if bid != 0 {
			found := false
			// an oracle result: the oracle module links request -> bandtss signing
			for _, o := range s.oracles {
				sr, err := app.OracleKeeper.GetSigningResult(ctx, oracletypes.RequestID(o.rid))
				if err != nil || uint64(sr.SigningID) != uint64(bid) || sr.SigningID == 0 {
					continue
				}
				rq, err := app.OracleKeeper.GetRequest(ctx, oracletypes.RequestID(o.rid))
				if err != nil {
					continue
				}
				enc := oracleEncName(rq.TSSEncoder)
				it["src"], it["o"], it["ohx"] = "oracle", directO(s.chain, rq.Requester, ""), DirectHash(s.chain, rq.Requester, "")
				it["c"] = s.oracleContent(o.rid, enc)
				key, found = "oracle/"+enc, true
			}
			// a tunnel packet: the packet receipt links packet -> bandtss signing
			for _, tid := range s.tunnels {
				if found {
					break
				}
				tun, err := app.TunnelKeeper.GetTunnel(ctx, tid)
				if err != nil {
					continue
				}
				var route tunneltypes.RouteI
				if err := app.InterfaceRegistry().UnpackAny(tun.Route, &route); err != nil {
					continue
				}
				tr, ok := route.(*tunneltypes.TSSRoute)
				if !ok {
					continue
				}
				for seq := uint64(1); seq <= tun.Sequence && !found; seq++ {
					pkt, err := app.TunnelKeeper.GetPacket(ctx, tid, seq)
					if err != nil || pkt.Receipt == nil {
						continue
					}
					var rc tunneltypes.PacketReceiptI
					if err := app.InterfaceRegistry().UnpackAny(pkt.Receipt, &rc); err != nil {
						continue
					}
					tr2, ok := rc.(*tunneltypes.TSSPacketReceipt)
					if !ok || uint64(tr2.SigningID) != uint64(bid) {
						continue
					}
					var in []priceIn
					for _, p := range pkt.Prices {
						in = append(in, priceIn{p.SignalID, p.Price})
					}
					enc := encName(tr.Encoder)
					it["src"] = "tunnel"
					it["o"] = tunnelO(s.chain, tid, tr.DestinationChainID, tr.DestinationContractAddress)
					it["ohx"] = TunnelHash(s.chain, tid, tr.DestinationChainID, tr.DestinationContractAddress)
					it["c"] = tf.M{"kind": "tunnel", "enc": enc, "f": tf.M{"seq": dec64(pkt.Sequence),
						"ps": s.d.entries(enc, in, dec.Vals), "at": s.rel(pkt.CreatedAt)}}
					key, found = "tunnel/"+enc, true
				}
			}
			if !found && user != nil {
				it["src"], it["o"], it["ohx"] = "user", user.o, user.ohx
				if user.in != nil {
					// the encoded values of the first signing of the request bind the nondeterministic part of the content
					if f, ok := user.c["f"].(tf.M); ok {
						if _, done := f["bound"]; !done {
							f["ps"] = s.d.entries(fmt.Sprint(user.c["enc"]), user.in, dec.Vals)
							f["bound"] = true
						}
					}
				}
				it["c"] = user.c
				key = fmt.Sprintf("user/%v/%v", user.c["kind"], user.c["enc"])
			}
		}
		s.d.Created[key]++
		s.interest = true
		out = append(out, it)
	}
	s.sigc = n
	if user != nil {
		if f, ok := user.c["f"].(tf.M); ok {
			delete(f, "bound")
		}
	}
	return out
}

func oc(o world.Outcome) tf.M {
	m := tf.M{"ok": o.OK()}
	if o.Err != nil {
		e := o.Err.Error()
		if len(e) > 100 {
			e = e[:100]
		}
		m["err"] = e
	}
	if o.Panic != nil {
		m["panic"] = fmt.Sprint(o.Panic)
	}
	return m
}

func pad(s string, n int, c string) string {
	if n > 0 {
		return strings.Repeat(c, n)
	}
	return s
}

func (d *Driver) RunScript(sc tf.Script) {
	w := d.w
	ctx, _ := d.fb.Ctx.CacheContext()
	r := &world.Run{W: w, Ctx: ctx, Height: d.fb.Height, Time: d.fb.Time, InBlock: true}
	s := &session{d: d, w: w, r: r, chain: chainOf(sc.C), poolOff: map[string]int{},
		prices: map[string]uint64{}, raws: map[uint64][]oracletypes.RawRequest{}}
	r.Ctx = r.Ctx.WithChainID(s.chain) // environment: the chain id every originator carries
	s.sigc = w.App.TSSKeeper.GetSigningCount(r.Ctx)
	s.topUp()
	c := tf.M{"chain": ints([]byte(s.chain)), "maxMemo": MaxMemo, "maxText": MaxText, "maxSigs": MaxSigs}
	d.W.Reset(c, s.project(), sc.Steps)
	d.Traces++
	d.Events++
	for _, step := range sc.Steps {
		s.topUp()
		s.preTr, s.havePreTr = w.App.BandtssKeeper.GetGroupTransition(s.r.Ctx)
		s.apply(step)
		d.Events++
	}
	if s.interest {
		h := sc.Hash()
		if !d.seen[h] {
			d.seen[h] = true
			d.Interesting++
		}
	}
}

// chainOf reads the chain id of a script: a string (random scripts) or the byte list of a Reset line (--replay)
func chainOf(c tf.M) string {
	switch v := c["chain"].(type) {
	case string:
		return v
	case []interface{}:
		b := []byte{}
		for _, x := range v {
			if f, ok := x.(float64); ok {
				b = append(b, byte(f))
			}
		}
		return string(b)
	}
	return world.ChainID
}

// report: the first n requested validators report request rid (environment)
func (s *session) report(p pendingReport) world.Outcome {
	out := world.Outcome{}
	rq, err := s.w.App.OracleKeeper.GetRequest(s.r.Ctx, oracletypes.RequestID(p.rid))
	if err != nil {
		out.Err = err
		return out
	}
	var reps []oracletypes.RawReport
	for _, raw := range rq.RawRequests {
		reps = append(reps, oracletypes.NewRawReport(raw.ExternalID, 0, []byte("ans")))
	}
	for i, v := range rq.RequestedValidators {
		if i >= p.n {
			break
		}
		va, _ := sdk.ValAddressFromBech32(v)
		if o := s.r.Deliver(oracletypes.NewMsgReportData(oracletypes.RequestID(p.rid), reps, va)); !o.OK() {
			out = o
		}
	}
	return out
}

func (s *session) requester(k int) world.Account { return s.w.Accts[3+k%2] }

func (s *session) priceOf(sig string) uint64 { return s.prices[sig] }

func (s *session) apply(step tf.M) {
	w, r, d := s.w, s.r, s.d
	app := w.App
	tk, bk := app.TSSKeeper, app.BandtssKeeper
	limit := sdk.NewCoins(sdk.NewInt64Coin("uband", 10))
	switch e := tf.Str(step, "e", ""); e {
	case "Request":
		who := s.requester(tf.Int(step, "who", 0))
		memo := pad(tf.Str(step, "memo", ""), tf.Int(step, "memoPad", 0), "m")
		kind, enc := tf.Str(step, "kind", "text"), tf.Str(step, "enc", "-")
		u := &userReq{o: directO(s.chain, who.Addr.String(), memo), ohx: DirectHash(s.chain, who.Addr.String(), memo)}
		a := tf.M{"sender": ints([]byte(who.Addr.String())), "memo": ints([]byte(memo))}
		var content tsstypes.Content
		switch kind {
		case "text":
			msg := pad(tf.Str(step, "msg", ""), tf.Int(step, "msgPad", 0), "t")
			content = tsstypes.NewTextSignatureOrder([]byte(msg))
			u.c = tf.M{"kind": "text", "enc": "-", "f": tf.M{"msg": ints([]byte(msg))}}
		case "oracle":
			rid := uint64(999)
			if j := tf.Int(step, "j", 0); j >= 1 && j <= len(s.oracles) {
				rid = s.oracles[j-1].rid
			}
			content = oracletypes.NewOracleResultSignatureOrder(oracletypes.RequestID(rid), oracleEnc(enc))
			u.c = s.oracleContent(rid, enc)
		case "feeds":
			sigs := tf.Strs(step, "sigs")
			u.in = []priceIn{}
			for _, sg := range sigs {
				u.in = append(u.in, priceIn{sg, s.priceOf(sg)})
				if strings.HasPrefix(sg, "\x00") {
					a["tag"] = NulTag
				}
			}
			content = feedstypes.NewFeedSignatureOrder(sigs, feedsEnc(enc))
			u.c = tf.M{"kind": "feeds", "enc": enc, "f": tf.M{"ps": d.entries(enc, u.in, nil)}}
		case "tunnel":
			// internal kind: must be refused
			in := []priceIn{{"s1", s.priceOf("s1")}}
			content = tunneltypes.NewTunnelSignatureOrder(1, []feedstypes.Price{feedstypes.NewPrice(
				feedstypes.PRICE_STATUS_AVAILABLE, "s1", s.priceOf("s1"), r.Time.Unix())}, r.Time.Unix(), feedsEnc(enc))
			u.c = tf.M{"kind": "tunnel", "enc": enc, "f": tf.M{"seq": "1", "ps": d.entries(enc, in, nil), "at": s.rel(r.Time.Unix())}}
		case "transition":
			// internal kind: must be refused
			content = bandtsstypes.NewGroupTransitionSignatureOrder(d.g2.PubKey, r.Time.Add(5*time.Second))
			u.c = tf.M{"kind": "transition", "enc": "-", "f": tf.M{"pk": ints(d.g2.PubKey), "execT": s.rel(r.Time.Unix() + 5)}}
		default:
			panic("unknown kind " + kind)
		}
		msg, err := bandtsstypes.NewMsgRequestSignature(content, limit, who.Addr.String())
		must(err)
		msg.Memo = memo
		o := r.Deliver(msg)
		if !o.OK() {
			d.Refused[kind]++
		}
		a["created"] = s.collect(u)
		a["c"] = u.c
		d.W.Step("Request", a, oc(o), s.project())
	case "SetPrice":
		sg := tf.Str(step, "s", "s1")
		p := resolvePrice(tf.Sub(step, "p"))
		s.prices[sg] = p
		app.FeedsKeeper.SetPrice(r.Ctx, feedstypes.NewPrice(feedstypes.PRICE_STATUS_AVAILABLE, sg, p, r.Time.Unix()))
		d.W.Step("Env", tf.M{"what": "SetPrice", "s": ints([]byte(sg)), "p": dec64(p), "created": s.collect(nil)}, tf.M{"ok": true}, s.project())
	case "Oracle":
		// a data request (environment for this property): ask/min validators, nrep of them report — now, or in the
		// next block ("late") so that request time and resolve time differ
		who := s.requester(tf.Int(step, "who", 0))
		client, calldata := tf.Str(step, "client", ""), tf.Str(step, "calldata", "")
		osid := oracletypes.OracleScriptID(world.ScriptOK1)
		if !tf.Bool(step, "ok", true) {
			osid = world.ScriptFail1
		}
		ask, min := tf.Int(step, "ask", 1), tf.Int(step, "min", 1)
		m := oracletypes.NewMsgRequestData(osid, []byte(calldata), uint64(ask), uint64(min), client,
			sdk.NewCoins(sdk.NewInt64Coin("uband", 1_000_000)), 40000, 300000, who.Addr, oracleEnc(tf.Str(step, "enc", "none")))
		o := r.Deliver(m)
		if o.OK() {
			rid := app.OracleKeeper.GetRequestCount(r.Ctx)
			s.oracles = append(s.oracles, oracleReq{rid, client, calldata})
			p := pendingReport{rid: rid, n: tf.Int(step, "nrep", min)}
			if tf.Bool(step, "late", false) {
				s.pending = append(s.pending, p)
			} else if o2 := s.report(p); !o2.OK() {
				o = o2
			}
		}
		d.W.Step("Env", tf.M{"what": "Oracle", "enc": tf.Str(step, "enc", "none"), "created": s.collect(nil)}, oc(o), s.project())
	case "Tunnel":
		creator := w.Accts[5]
		var devs []tunneltypes.SignalDeviation
		for _, sg := range tf.Strs(step, "sigs") {
			devs = append(devs, tunneltypes.NewSignalDeviation(sg, 100, 100))
		}
		m, err := tunneltypes.NewMsgCreateTSSTunnel(devs, uint64(tf.Int(step, "iv", 3)), tf.Str(step, "dst", "eth"), tf.Str(step, "addr", "0x1"),
			feedsEnc(tf.Str(step, "enc", "fixed")), sdk.NewCoins(sdk.NewInt64Coin("uband", 5)), creator.Addr.String())
		must(err)
		o := r.Deliver(m)
		if o.OK() {
			tid := app.TunnelKeeper.GetTunnelCount(r.Ctx)
			s.tunnels = append(s.tunnels, tid)
			o = r.Deliver(tunneltypes.NewMsgActivate(tid, creator.Addr.String()))
		}
		d.W.Step("Env", tf.M{"what": "Tunnel", "created": s.collect(nil)}, oc(o), s.project())
	case "Trigger":
		k := tf.Int(step, "t", 1)
		tid := uint64(99)
		if k >= 1 && k <= len(s.tunnels) {
			tid = s.tunnels[k-1]
		}
		o := r.Deliver(tunneltypes.NewMsgTriggerTunnel(tid, w.Accts[5].Addr.String()))
		d.W.Step("Trigger", tf.M{"t": int(tid), "created": s.collect(nil)}, oc(o), s.project())
	case "Propose":
		var addrs []string
		for _, m := range d.g2.Members {
			addrs = append(addrs, m.Acc.Addr.String())
		}
		o := r.Deliver(bandtsstypes.NewMsgTransitionGroup(addrs, 1, r.Time.Add(time.Duration(tf.Int(step, "off", 8))*time.Second), bk.GetAuthority()))
		d.W.Step("Env", tf.M{"what": "Propose", "created": s.collect(nil)}, oc(o), s.project())
	case "DkgDone":
		// the outcome of the incoming group's key generation is installed (as in fam_bandtss): trusted-dealer keys
		done := false
		if tr, ok := bk.GetGroupTransition(r.Ctx); ok && tr.Status == bandtsstypes.TRANSITION_STATUS_CREATING_GROUP {
			gid := tr.IncomingGroupID
			if grp, err := tk.GetGroup(r.Ctx, gid); err == nil && grp.Status == tsstypes.GROUP_STATUS_ROUND_1 {
				grp.Status, grp.PubKey = tsstypes.GROUP_STATUS_ROUND_3, d.g2.PubKey
				tk.SetGroup(r.Ctx, grp)
				for _, m := range d.g2.Members {
					tk.SetMember(r.Ctx, tsstypes.NewMember(m.ID, gid, m.Acc.Addr, m.Pub, false, true))
				}
				tk.AddPendingProcessGroup(r.Ctx, gid)
				done = true
			}
		}
		d.W.Step("Env", tf.M{"what": "DkgDone", "created": s.collect(nil)}, tf.M{"ok": done}, s.project())
	case "SignAll":
		// the current group signs the hand-over message (real partial signatures)
		ok := false
		if tr, found := bk.GetGroupTransition(r.Ctx); found && tr.Status == bandtsstypes.TRANSITION_STATUS_WAITING_SIGN {
			if sg, err := tk.GetSigning(r.Ctx, tr.SigningID); err == nil && sg.Status == tsstypes.SIGNING_STATUS_WAITING {
				if sa, err := tk.GetSigningAttempt(r.Ctx, tr.SigningID, sg.CurrentAttempt); err == nil {
					ok = true
					for _, am := range sa.AssignedMembers {
						m, _ := d.g1.ByAddr(am.Address)
						de, have := d.des[tsskit.PubKey(am.PubD, am.PubE)]
						if !have {
							ok = false
							continue
						}
						sig, err := tsskit.PartialSign(m, sg, sa, de)
						if err != nil {
							ok = false
							continue
						}
						if o := r.Deliver(&tsstypes.MsgSubmitSignature{SigningID: tr.SigningID, MemberID: m.ID, Signature: sig, Signer: am.Address}); !o.OK() {
							ok = false
						}
					}
				}
			}
		}
		d.W.Step("Env", tf.M{"what": "SignAll", "created": s.collect(nil)}, tf.M{"ok": ok}, s.project())
	case "EndBlock":
		dt := tf.Int(step, "dt", 1)
		o := r.EndBlock()
		created := s.collect(nil)
		ob := r.BeginBlock(int64(dt))
		r.Ctx = r.Ctx.WithChainID(s.chain)
		d.W.Step("EndBlock", tf.M{"dt": dt, "created": created}, tf.M{"ok": o.OK() && ob.OK()}, s.project())
		if len(s.pending) > 0 {
			ok := true
			for _, p := range s.pending {
				ok = s.report(p).OK() && ok
			}
			s.pending = nil
			d.Events++
			d.W.Step("Env", tf.M{"what": "Report", "created": s.collect(nil)}, tf.M{"ok": ok}, s.project())
		}
	default:
		panic("unknown step " + e)
	}
}

// ---- prices ----

// resolvePrice: {"lit":"<decimal>"} | {"tick":t,"d":d} = decoded price of tick t (the real TickToPrice) plus d
func resolvePrice(m tf.M) uint64 {
	if l := tf.Str(m, "lit", ""); l != "" {
		v, err := strconv.ParseUint(l, 10, 64)
		must(err)
		return v
	}
	t, dlt := tf.Int(m, "tick", 0), tf.Int(m, "d", 0)
	base, err := tickmath.TickToPrice(int64(t))
	if err != nil {
		base = 1
	}
	if dlt < 0 && uint64(-dlt) >= base {
		return 1
	}
	if dlt > 0 && base > ^uint64(0)-uint64(dlt) {
		return ^uint64(0)
	}
	return uint64(int64(base) + int64(dlt))
}

var literals = []string{"0", "1", "2", "3", "9999", "10000", "10001", "1000000000", "4294967295", "4294967296", "4294967297",
	"9223372036854775807", "9223372036854775808", "18446744073709551614", "18446744073709551615"}

func randPrice(rng *rand.Rand) tf.M {
	if rng.Intn(3) == 0 {
		return tf.M{"lit": literals[rng.Intn(len(literals))]}
	}
	if rng.Intn(3) == 0 {
		// every binary band [2^k, 2^(k+1)) with a uniformly random mantissa (the tick conversion works on the
		// position of the most significant bit: each band is its own case)
		k := uint(rng.Intn(64))
		v := uint64(1) << k
		if k > 0 {
			v += rng.Uint64() & (v - 1)
		}
		return tf.M{"lit": strconv.FormatUint(v, 10)}
	}
	// ticks whose price fits 1 .. 2^64-1: about -207243 .. 236190
	var t int
	switch rng.Intn(4) {
	case 0:
		t = -207243 + rng.Intn(115200) // coarse band: below 10^4 units
	case 1:
		t = 236190 - rng.Intn(2000) // near 2^64
	default:
		t = -92000 + rng.Intn(328000)
	}
	return tf.M{"tick": t, "d": rng.Intn(5) - 2}
}

var strDom = []string{"", "a", "a|b", "a\x00", "a|", "|b", "b", "\x00a", "BAND", "0xAb12"}
var chainDom = []string{world.ChainID, world.ChainID, world.ChainID, "a", "a|b", "a\x00", "|b", "a|", ""}
var sigDom = []string{"s1", "s2", "s3", "s1", "s2", "", strings.Repeat("S", 32), strings.Repeat("L", 33)}

func pickStr(rng *rand.Rand) string { return strDom[rng.Intn(len(strDom))] }

// RandomScript: a seeded enumeration of requests over every entry point.
func RandomScript(rng *rand.Rand, mode string) tf.Script {
	c := tf.M{"chain": chainDom[rng.Intn(len(chainDom))]}
	if rng.Intn(20) != 0 && c["chain"] == "" {
		c["chain"] = world.ChainID
	}
	var steps []tf.M
	sigs := func() []string {
		n := 1 + rng.Intn(3)
		if rng.Intn(12) == 0 {
			n = []int{0, 4}[rng.Intn(2)]
		}
		out := []string{}
		for i := 0; i < n; i++ {
			sg := sigDom[rng.Intn(len(sigDom))]
			if mode != "nonul" && rng.Intn(200) == 0 {
				sg = "\x00s1"
			}
			out = append(out, sg)
		}
		return out
	}
	for _, sg := range []string{"s1", "s2", strings.Repeat("S", 32)} {
		if rng.Intn(5) != 0 {
			steps = append(steps, tf.M{"e": "SetPrice", "s": sg, "p": randPrice(rng)})
		}
	}
	// band sweep: every script prices s1, s2 and the 32-byte id inside three different binary bands [2^k, 2^(k+1))
	// (random mantissa) and asks for one tick-encoded signature over them, so that a run of a few hundred scripts
	// covers every band of the tick conversion several times (each band is its own case in PriceToTick)
	if rng.Intn(4) != 0 {
		k0 := rng.Intn(64)
		for j, sg := range []string{"s1", "s2", strings.Repeat("S", 32)} {
			k := uint((k0 + 21*j) % 64)
			v := uint64(1) << k
			if k > 0 {
				v += rng.Uint64() & (v - 1)
			}
			steps = append(steps, tf.M{"e": "SetPrice", "s": sg, "p": tf.M{"lit": strconv.FormatUint(v, 10)}})
		}
		steps = append(steps, tf.M{"e": "Request", "who": 0, "memo": "", "kind": "feeds", "enc": "tick",
			"sigs": []string{"s1", "s2", strings.Repeat("S", 32)}})
	}
	penc := func() string { return []string{"fixed", "tick", "tick"}[rng.Intn(3)] }
	oenc := func() string { return []string{"proto", "full", "partial"}[rng.Intn(3)] }
	n := 7 + rng.Intn(9)
	oracles, tunnels, proposed, blocks := 0, 0, false, 0
	var resolveAt []int // number of EndBlocks after which the k-th data request has a result
	for i := 0; i < n; i++ {
		switch x := rng.Intn(100); {
		case x < 40:
			st := tf.M{"e": "Request", "who": rng.Intn(2), "memo": pickStr(rng)}
			switch y := rng.Intn(20); {
			case y == 0:
				st["memoPad"] = MaxMemo + 1
			case y == 1:
				st["memoPad"] = MaxMemo
			}
			k := rng.Intn(12)
			if k >= 3 && k < 6 && oracles == 0 && rng.Intn(4) != 0 {
				k = 0
			}
			switch {
			case k < 3:
				st["kind"], st["msg"] = "text", pickStr(rng)
				switch y := rng.Intn(10); {
				case y == 0:
					st["msgPad"] = MaxText + 1
				case y == 1:
					st["msgPad"] = MaxText
				}
			case k < 6:
				j := 0
				if oracles > 0 && rng.Intn(6) != 0 {
					j = 1 + rng.Intn(oracles)
					// prefer a request that has been resolved by now
					var done []int
					for q, need := range resolveAt {
						if blocks >= need {
							done = append(done, q+1)
						}
					}
					if len(done) > 0 && rng.Intn(5) != 0 {
						j = done[rng.Intn(len(done))]
					}
				}
				st["kind"], st["enc"], st["j"] = "oracle", oenc(), j
			case k < 10:
				st["kind"], st["enc"], st["sigs"] = "feeds", penc(), sigs()
			case k < 11:
				st["kind"], st["enc"] = "tunnel", penc()
			default:
				st["kind"] = "transition"
			}
			steps = append(steps, st)
		case x < 50:
			steps = append(steps, tf.M{"e": "SetPrice", "s": sigDom[rng.Intn(7)], "p": randPrice(rng)})
		case x < 62:
			enc := oenc()
			if rng.Intn(6) == 0 {
				enc = "none"
			}
			ask := 1 + rng.Intn(3)
			min := 1 + rng.Intn(ask)
			late := rng.Intn(2) == 0
			steps = append(steps, tf.M{"e": "Oracle", "who": rng.Intn(2), "enc": enc, "client": pickStr(rng), "calldata": pickStr(rng),
				"ok": rng.Intn(5) != 0, "ask": ask, "min": min, "nrep": min + rng.Intn(ask-min+1), "late": late})
			oracles++
			if late {
				resolveAt = append(resolveAt, blocks+2)
			} else {
				resolveAt = append(resolveAt, blocks+1)
			}
		case x < 69 && tunnels < 2:
			ts := []string{}
			for _, sg := range sigs() {
				if !strings.HasPrefix(sg, "\x00") {
					ts = append(ts, sg)
				}
			}
			dst, addr := pickStr(rng), pickStr(rng)
			if rng.Intn(4) != 0 {
				if dst == "" {
					dst = "eth"
				}
				if addr == "" {
					addr = "0x1"
				}
			}
			steps = append(steps, tf.M{"e": "Tunnel", "dst": dst, "addr": addr, "enc": penc(), "sigs": ts, "iv": []int{1, 2, 1000}[rng.Intn(3)]})
			tunnels++
		case x < 77:
			steps = append(steps, tf.M{"e": "Trigger", "t": 1 + rng.Intn(2)})
		case x < 81 && !proposed:
			steps = append(steps, tf.M{"e": "Propose", "off": 3 + rng.Intn(8)}, tf.M{"e": "DkgDone"})
			if rng.Intn(2) == 0 {
				// through to WAITING_EXECUTION: from then on a request is put to the current and to the incoming group
				steps = append(steps, tf.M{"e": "EndBlock", "dt": 1}, tf.M{"e": "SignAll"}, tf.M{"e": "EndBlock", "dt": rng.Intn(2)})
				blocks += 2
			}
			proposed = true
		case x < 85:
			steps = append(steps, tf.M{"e": "SignAll"})
		default:
			steps = append(steps, tf.M{"e": "EndBlock", "dt": []int{0, 1, 1, 2, 3}[rng.Intn(5)]})
			blocks++
		}
	}
	steps = append(steps, tf.M{"e": "EndBlock", "dt": 1}, tf.M{"e": "EndBlock", "dt": 1})
	return tf.Script{Fam: "Payload", C: c, Steps: steps}
}
