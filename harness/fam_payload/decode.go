// Structural decoder of signed messages (property C11).  This file is the trusted base of the family: it
// carries the byte-layout knowledge, transcribed from the *documentation* of the layout (the comments next to
// the constants and the ABI / protobuf type definitions), not from the encoder functions:
//
//	message    = keccak(originator):32 | time:8 (big endian) | signing id:8 | content
//	content    = selector:4 | tag:4 | payload
//	             selector = keccak(<order route>)[:4]  (x/tss/types/content.go wrapHandler; the route of a content
//	                        is the name of its module: tss, bandtss, oracle, feeds, tunnel)
//	             tag      = keccak(<name>)[:4], names below (documented next to the constants)
//	originator = keccak("DirectOriginator")[:4] | keccak(chain) | keccak(requester) | keccak(memo)
//	           | keccak("TunnelOriginator")[:4] | keccak(chain) | tunnel id:8 | keccak(dst chain) | keccak(dst address)
//
// Nothing here calls an encoder of bandprotocol/chain.  Payloads are decoded with go-ethereum's abi package /
// a small protobuf wire reader and must re-encode to the same bytes (canonical form).
package fam_payload

import (
	"bytes"
	"encoding/binary"
	"encoding/hex"
	"fmt"
	"math"
	"reflect"

	"github.com/ethereum/go-ethereum/accounts/abi"
	"github.com/ethereum/go-ethereum/crypto"

	tf "vdrive/tracefmt"
)

// selector table: route (module name) -> shape of the content
var routeShape = map[string]string{"tss": "text", "bandtss": "transition", "oracle": "oracle", "feeds": "feeds", "tunnel": "tunnel"}
var selTable = func() map[string]string {
	m := map[string]string{}
	for r, sh := range routeShape {
		m[string(crypto.Keccak256([]byte(r))[:4])] = sh
	}
	return m
}()

// which tags a shape admits
var shapeTags = map[string][]string{"text": {"Text"}, "transition": {"Transition"}, "oracle": {"Proto", "FullABI", "PartialABI"},
	"feeds": {"FixedPointABI", "TickABI"}, "tunnel": {"FixedPointABI", "TickABI"}}

// tag table, computed from the documented pre-images
var tagNames = []string{"Text", "Transition", "Proto", "FullABI", "PartialABI", "FixedPointABI", "TickABI"}
var tagTable = func() map[string]string {
	m := map[string]string{}
	for _, n := range tagNames {
		m[string(crypto.Keccak256([]byte(n))[:4])] = n
	}
	return m
}()

func mustType(t string, comps []abi.ArgumentMarshaling) abi.Type {
	ty, err := abi.NewType(t, "", comps)
	if err != nil {
		panic(err)
	}
	return ty
}

var (
	priceComps = []abi.ArgumentMarshaling{{Name: "SignalID", Type: "bytes32"}, {Name: "Price", Type: "uint64"}}
	// feeds: abi.encode((bytes32 signalID, uint64 price)[] prices, int64 timestamp)
	feedsArgs = abi.Arguments{{Name: "Prices", Type: mustType("tuple[]", priceComps)}, {Name: "Timestamp", Type: mustType("int64", nil)}}
	// tunnel: abi.encode((uint64 sequence, (bytes32, uint64)[] relayPrices, int64 createdAt) packet)
	tunnelArgs = abi.Arguments{{Name: "packet", Type: mustType("tuple", []abi.ArgumentMarshaling{
		{Name: "Sequence", Type: "uint64"},
		{Name: "RelayPrices", Type: "tuple[]", Components: priceComps},
		{Name: "CreatedAt", Type: "int64"},
	})}}
	// oracle result, full
	fullArgs = abi.Arguments{{Name: "result", Type: mustType("tuple", []abi.ArgumentMarshaling{
		{Name: "ClientID", Type: "string"}, {Name: "OracleScriptID", Type: "uint64"}, {Name: "Calldata", Type: "bytes"},
		{Name: "AskCount", Type: "uint64"}, {Name: "MinCount", Type: "uint64"}, {Name: "RequestID", Type: "uint64"},
		{Name: "AnsCount", Type: "uint64"}, {Name: "RequestTime", Type: "int64"}, {Name: "ResolveTime", Type: "int64"},
		{Name: "ResolveStatus", Type: "int32"}, {Name: "Result", Type: "bytes"},
	})}}
	// oracle result, partial
	partialArgs = abi.Arguments{{Name: "result", Type: mustType("tuple", []abi.ArgumentMarshaling{
		{Name: "Calldata", Type: "bytes"}, {Name: "OracleScriptID", Type: "uint64"}, {Name: "RequestID", Type: "uint64"},
		{Name: "MinCount", Type: "uint64"}, {Name: "ResolveTime", Type: "int64"}, {Name: "ResolveStatus", Type: "int32"},
		{Name: "Result", Type: "bytes"},
	})}}
)

// ---- value rendering (shared by the decoded and the expected side) ----

func ints(b []byte) []int {
	out := make([]int, 0, len(b))
	for _, x := range b {
		out = append(out, int(x))
	}
	return out
}

func dec64(x uint64) string { return fmt.Sprintf("%d", x) }

// small renders a number the spec computes with (ids, relative times); out of range -> -1
func small(x int64) int {
	if x < -1_000_000_000 || x > 1_000_000_000 {
		return -1
	}
	return int(x)
}

func stripZ(b []byte) []byte {
	i := 0
	for i < len(b) && b[i] == 0 {
		i++
	}
	return b[i:]
}

// limbs of a 64-bit value, most significant first
func limbs(x uint64) []int {
	return []int{int(x >> 48), int(x >> 32 & 0xffff), int(x >> 16 & 0xffff), int(x & 0xffff)}
}

// Decoded is the structural reading of one Signing.Message.
type Decoded struct {
	OK     bool
	Oh     string // hex of bytes 0..32
	Time   int    // bytes 32..40, seconds relative to genesis
	ID     int    // bytes 40..48
	Tag    string // name of the 4-byte tag
	Shape  string // text | transition | oracle | feeds | tunnel
	Fields []interface{}
	Vals   []uint64 // the price values of a feeds / tunnel payload, in order
	Why    string
}

func (d Decoded) M() tf.M {
	f := d.Fields
	if f == nil {
		f = []interface{}{}
	}
	m := tf.M{"ok": d.OK, "oh": d.Oh, "time": d.Time, "id": d.ID, "tag": d.Tag, "shape": d.Shape, "fields": f}
	if d.Why != "" {
		m["why"] = d.Why
	}
	return m
}

func field(v reflect.Value, name string) reflect.Value { return v.FieldByName(name) }

func priceList(v reflect.Value) ([]interface{}, []uint64) {
	out := []interface{}{}
	var vals []uint64
	for i := 0; i < v.Len(); i++ {
		e := v.Index(i)
		sid := field(e, "SignalID").Interface().([32]byte)
		p := field(e, "Price").Uint()
		out = append(out, []interface{}{ints(stripZ(sid[:])), dec64(p)})
		vals = append(vals, p)
	}
	return out, vals
}

// strict ABI decoding: the values must re-encode to exactly the payload
func unpackStrict(args abi.Arguments, payload []byte) ([]interface{}, bool) {
	vals, err := args.Unpack(payload)
	if err != nil {
		return nil, false
	}
	again, err := args.Pack(vals...)
	if err != nil || !bytes.Equal(again, payload) {
		return nil, false
	}
	return vals, true
}

// protobuf wire reader for oracle Result (fields 1..11); canonical = ascending field numbers, no default values
func readProtoResult(b []byte, genesis int64) ([]interface{}, bool) {
	str := map[int][]byte{}
	num := map[int]uint64{}
	last := 0
	for len(b) > 0 {
		key, n := binary.Uvarint(b)
		if n <= 0 {
			return nil, false
		}
		b = b[n:]
		fno, wt := int(key>>3), int(key&7)
		if fno <= last || fno > 11 {
			return nil, false
		}
		last = fno
		isStr := fno == 1 || fno == 3 || fno == 11
		switch {
		case wt == 0 && !isStr:
			v, n := binary.Uvarint(b)
			if n <= 0 || v == 0 {
				return nil, false
			}
			b = b[n:]
			num[fno] = v
		case wt == 2 && isStr:
			l, n := binary.Uvarint(b)
			if n <= 0 || l == 0 || uint64(len(b)-n) < l {
				return nil, false
			}
			str[fno] = b[n : n+int(l)]
			b = b[n+int(l):]
		default:
			return nil, false
		}
	}
	return []interface{}{
		ints(str[1]), dec64(num[2]), ints(str[3]), dec64(num[4]), dec64(num[5]), small(int64(num[6])), dec64(num[7]),
		small(int64(num[8]) - genesis), small(int64(num[9]) - genesis), small(int64(int32(num[10]))), ints(str[11]),
	}, true
}

// Decode reads a signed message with fixed offsets, the tag table and the payload decoders.
func Decode(msg []byte, genesis int64) Decoded {
	d := Decoded{Tag: "?", Shape: "?"}
	if len(msg) < 56 {
		d.Why = "shorter than the 56-byte header"
		return d
	}
	d.Oh = hex.EncodeToString(msg[:32])
	t := binary.BigEndian.Uint64(msg[32:40])
	if t > math.MaxInt64 {
		d.Time = -1
	} else {
		d.Time = small(int64(t) - genesis)
	}
	d.ID = small(int64(binary.BigEndian.Uint64(msg[40:48])))
	shape, ok := selTable[string(msg[48:52])]
	if !ok {
		d.Why = "unknown selector " + hex.EncodeToString(msg[48:52])
		return d
	}
	d.Shape = shape
	name, ok := tagTable[string(msg[52:56])]
	if !ok {
		d.Why = "unknown tag " + hex.EncodeToString(msg[52:56])
		return d
	}
	d.Tag = name
	fits := false
	for _, t := range shapeTags[shape] {
		fits = fits || t == name
	}
	if !fits {
		d.Why = "tag " + name + " under selector of " + shape
		return d
	}
	payload := msg[56:]
	switch name {
	case "Text":
		d.Fields, d.OK = []interface{}{ints(payload)}, true
	case "Transition":
		// public key | time:8
		if len(payload) < 8 {
			d.Why = "transition payload too short"
			return d
		}
		pk := payload[:len(payload)-8]
		et := binary.BigEndian.Uint64(payload[len(payload)-8:])
		d.Fields, d.OK = []interface{}{ints(pk), small(int64(et) - genesis)}, true
	case "Proto":
		f, ok := readProtoResult(payload, genesis)
		if !ok {
			d.Why = "not a canonical protobuf Result"
			return d
		}
		d.Fields, d.OK = f, true
	case "FullABI":
		vals, ok := unpackStrict(fullArgs, payload)
		if !ok {
			d.Why = "not a canonical abi full result"
			return d
		}
		r := reflect.ValueOf(vals[0])
		d.OK = true
		d.Fields = []interface{}{
			ints([]byte(field(r, "ClientID").String())), dec64(field(r, "OracleScriptID").Uint()), ints(field(r, "Calldata").Bytes()),
			dec64(field(r, "AskCount").Uint()), dec64(field(r, "MinCount").Uint()), small(int64(field(r, "RequestID").Uint())),
			dec64(field(r, "AnsCount").Uint()), small(field(r, "RequestTime").Int() - genesis), small(field(r, "ResolveTime").Int() - genesis),
			small(field(r, "ResolveStatus").Int()), ints(field(r, "Result").Bytes()),
		}
	case "PartialABI":
		vals, ok := unpackStrict(partialArgs, payload)
		if !ok {
			d.Why = "not a canonical abi partial result"
			return d
		}
		r := reflect.ValueOf(vals[0])
		d.OK = true
		d.Fields = []interface{}{
			ints(field(r, "Calldata").Bytes()), dec64(field(r, "OracleScriptID").Uint()), small(int64(field(r, "RequestID").Uint())),
			dec64(field(r, "MinCount").Uint()), small(field(r, "ResolveTime").Int() - genesis),
			small(field(r, "ResolveStatus").Int()), ints(field(r, "Result").Bytes()),
		}
	case "FixedPointABI", "TickABI":
		// the two price layouts share their tags; the selector says which one it is
		if shape == "feeds" {
			fv, ok := unpackStrict(feedsArgs, payload)
			if !ok {
				d.Why = "not a canonical abi feeds price list"
				return d
			}
			pl, vals := priceList(reflect.ValueOf(fv[0]))
			d.OK, d.Vals = true, vals
			d.Fields = []interface{}{pl, small(reflect.ValueOf(fv[1]).Int() - genesis)}
		} else {
			tv, ok := unpackStrict(tunnelArgs, payload)
			if !ok {
				d.Why = "not a canonical abi tunnel packet"
				return d
			}
			r := reflect.ValueOf(tv[0])
			pl, vals := priceList(field(r, "RelayPrices"))
			d.OK, d.Vals = true, vals
			d.Fields = []interface{}{dec64(field(r, "Sequence").Uint()), pl, small(field(r, "CreatedAt").Int() - genesis)}
		}
	}
	return d
}

// ---- originator hash, recomputed from the documented layout ----

func be8(x uint64) []byte {
	b := make([]byte, 8)
	binary.BigEndian.PutUint64(b, x)
	return b
}

func DirectHash(chain, requester, memo string) string {
	enc := bytes.Join([][]byte{crypto.Keccak256([]byte("DirectOriginator"))[:4], crypto.Keccak256([]byte(chain)),
		crypto.Keccak256([]byte(requester)), crypto.Keccak256([]byte(memo))}, nil)
	return hex.EncodeToString(crypto.Keccak256(enc))
}

func TunnelHash(chain string, tunnelID uint64, dstChain, dstAddr string) string {
	enc := bytes.Join([][]byte{crypto.Keccak256([]byte("TunnelOriginator"))[:4], crypto.Keccak256([]byte(chain)), be8(tunnelID),
		crypto.Keccak256([]byte(dstChain)), crypto.Keccak256([]byte(dstAddr))}, nil)
	return hex.EncodeToString(crypto.Keccak256(enc))
}
