package fam_grogu

import (
	"math/rand"

	tf "vdrive/tracefmt"
)

// code constants mirrored for choosing parameters that satisfy the timing assumptions (Grogu.tla TimingOK)
const (
	buffer = 3
	uoff   = 10
)

func timingOK(iv, cool, disc, grace, P, L, D int) bool {
	a := cool + buffer
	if b := iv * (distStart + distOffset - 1) / 100; b > a {
		a = b
	}
	return a+(P-1)+L <= iv && P+L <= uoff && D <= buffer && L <= disc && D <= disc && P+L+D <= grace
}

func q(st string, price int) tf.M { return tf.M{"st": st, "price": price} }

// a quote for a feed with deviation dev (basis points), biased to the neighbourhood of the threshold around
// the reference price ref
func randQuote(rng *rand.Rand, ref, dev int, allowMissing bool) tf.M {
	x := rng.Intn(100)
	switch {
	case x < 8:
		return q("unavail", 0)
	case x < 11:
		return q("unsupp", 0)
	case x < 14 && allowMissing:
		return q("missing", 0)
	}
	th := ref * dev / 10000
	d := []int{0, 1, th - 1, th, th + 1, 2 * th, -1, -(th - 1), -th, -(th + 1)}[rng.Intn(10)]
	p := ref + d
	if p < 1 {
		p = 1
	}
	return q("avail", p)
}

// RandomScript: mode "" alternates live (within the timing assumptions) and fault scripts.
func RandomScript(rng *rand.Rand, mode string, n int) tf.Script {
	live := n%2 == 0
	if mode == "live" {
		live = true
	} else if mode == "faults" {
		live = false
	}
	if live {
		return liveScript(rng)
	}
	return faultScript(rng)
}

func pickFeeds(rng *rand.Rand, ivs []int, nsig int) tf.M {
	f := tf.M{}
	for i, sg := range Sigs {
		if i < nsig {
			f[sg] = tf.M{"iv": ivs[rng.Intn(len(ivs))], "dev": []int{50, 100, 200}[rng.Intn(3)]}
		} else {
			f[sg] = tf.M{"iv": 0, "dev": 0}
		}
	}
	return f
}

func liveScript(rng *rand.Rand) tf.Script {
	var cool, disc, grace, P, L, D int
	var ivs []int
	for {
		cool = []int{10, 20, 30}[rng.Intn(3)]
		disc = []int{5, 10, 60}[rng.Intn(3)]
		grace = []int{10, 20, 30}[rng.Intn(3)]
		P = 1 + rng.Intn(4)
		L = 1 + rng.Intn(4)
		D = rng.Intn(4)
		ivs = nil
		for _, iv := range []int{30, 40, 45, 60, 90} {
			if timingOK(iv, cool, disc, grace, P, L, D) {
				ivs = append(ivs, iv)
			}
		}
		if len(ivs) >= 2 {
			break
		}
	}
	nsig := 1 + rng.Intn(3)
	feeds := pickFeeds(rng, ivs, nsig)
	ref := 10000 + 1000*rng.Intn(5)
	svc := tf.M{}
	for _, sg := range Sigs {
		svc[sg] = q("avail", ref)
	}
	c := tf.M{"cool": cool, "disc": disc, "grace": grace, "tries": 1 + rng.Intn(2), "P": P, "L": L, "D": D,
		"feeds0": feeds, "svc0": svc, "live": true}
	maxIv := 0
	for _, sg := range Sigs {
		if iv := tf.Int(tf.Sub(feeds, sg), "iv", 0); iv > maxIv {
			maxIv = iv
		}
	}
	horizon := 2*maxIv + maxIv/2 + rng.Intn(20)
	var steps []tf.M
	phase := rng.Intn(P)
	idle := 0 // consecutive seconds without a full flush (block + results)
	changes := 0
	for t := 0; t < horizon; t++ {
		if t > 0 {
			steps = append(steps, tf.M{"e": "Tick", "dt": 1})
		}
		if rng.Intn(5) == 0 {
			qq := tf.M{}
			for _, sg := range Sigs {
				if rng.Intn(2) == 0 {
					qq[sg] = randQuote(rng, ref, tf.Int(tf.Sub(feeds, sg), "dev", 50), false)
				}
			}
			steps = append(steps, tf.M{"e": "Svc", "q": qq})
		}
		// a feed-list change only right after a full flush (nothing in flight) and not too often
		if idle == 0 && t > maxIv/2 && changes < 2 && rng.Intn(40) == 0 {
			feeds = pickFeeds(rng, ivs, 1+rng.Intn(3))
			steps = append(steps, tf.M{"e": "SetFeeds", "f": feeds})
			changes++
		}
		if t%P == phase {
			steps = append(steps, tf.M{"e": "Poll"}, tf.M{"e": "Bcast", "id": 0, "r": "ok"})
		}
		// network: a submission made at second t must have returned before second t+L ends
		if idle+1 >= L || rng.Intn(3) != 0 {
			d := rng.Intn(D + 1)
			steps = append(steps, tf.M{"e": "Block", "d": d}, tf.M{"e": "TxResult", "id": 0, "r": "found"})
			idle = 0
		} else {
			if rng.Intn(2) == 0 {
				steps = append(steps, tf.M{"e": "Block", "d": rng.Intn(D + 1)})
			}
			idle++
		}
	}
	return tf.Script{Fam: "Grogu", C: c, Steps: steps}
}

func faultScript(rng *rand.Rand) tf.Script {
	cool := []int{2, 5, 10, 30}[rng.Intn(4)]
	disc := []int{2, 5, 60}[rng.Intn(3)]
	grace := []int{3, 10, 30}[rng.Intn(3)]
	ivs := []int{12, 20, 30, 60}
	feeds := pickFeeds(rng, ivs, 1+rng.Intn(3))
	ref := 10000
	svc := tf.M{}
	for _, sg := range Sigs {
		svc[sg] = randQuote(rng, ref, 50, true)
	}
	c := tf.M{"cool": cool, "disc": disc, "grace": grace, "tries": 1 + rng.Intn(3), "P": 1, "L": 2, "D": 3,
		"feeds0": feeds, "svc0": svc, "live": false}
	n := 60 + rng.Intn(80)
	var steps []tf.M
	down := false
	for i := 0; i < n; i++ {
		x := rng.Intn(100)
		switch {
		case x < 22:
			steps = append(steps, tf.M{"e": "Tick", "dt": []int{1, 1, 1, 2, 3, 7}[rng.Intn(6)]})
		case x < 30:
			qq := tf.M{}
			for _, sg := range Sigs {
				if rng.Intn(2) == 0 {
					qq[sg] = randQuote(rng, ref, tf.Int(tf.Sub(feeds, sg), "dev", 50), true)
				}
			}
			steps = append(steps, tf.M{"e": "Svc", "q": qq})
		case x < 55:
			poll := tf.M{"e": "Poll"}
			if rng.Intn(6) == 0 {
				// one or two of the daemon's chain queries fail in this poll
				poll["q"] = [][]string{{"valid"}, {"params"}, {"feeds"}, {"vprices"}, {"vprices"}, {"params", "vprices"}, {"feeds", "vprices"}}[rng.Intn(7)]
			}
			steps = append(steps, poll)
		case x < 70:
			steps = append(steps, tf.M{"e": "Bcast", "id": 0, "r": []string{"ok", "ok", "ok", "ok", "err", "chk", "oog"}[rng.Intn(7)]})
		case x < 83:
			steps = append(steps, tf.M{"e": "Block", "d": rng.Intn(5)})
		case x < 93:
			steps = append(steps, tf.M{"e": "TxResult", "id": 0, "r": []string{"found", "found", "timeout"}[rng.Intn(3)]})
		case x < 97:
			// a local prerequisite of submitPrice breaks (feeder key deleted from the keyring, account query or gas
			// simulation failing) or everything recovers
			if down {
				steps = append(steps, tf.M{"e": "Env", "down": []string{}})
			} else {
				steps = append(steps, tf.M{"e": "Env", "down": []string{[]string{"key", "key", "auth", "sim"}[rng.Intn(4)]}})
			}
			down = !down
		default:
			feeds = pickFeeds(rng, ivs, 1+rng.Intn(3))
			steps = append(steps, tf.M{"e": "SetFeeds", "f": feeds})
		}
	}
	return tf.Script{Fam: "Grogu", C: c, Steps: steps}
}
