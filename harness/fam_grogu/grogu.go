package fam_grogu

import (
	"fmt"
	"sort"
	"sync"
	"time"

	rpcclient "github.com/cometbft/cometbft/rpc/client"

	"cosmossdk.io/log"

	"github.com/cosmos/cosmos-sdk/client"
	"github.com/cosmos/cosmos-sdk/client/flags"
	"github.com/cosmos/cosmos-sdk/codec"
	"github.com/cosmos/cosmos-sdk/crypto/hd"
	"github.com/cosmos/cosmos-sdk/crypto/keyring"
	sdk "github.com/cosmos/cosmos-sdk/types"
	"github.com/cosmos/cosmos-sdk/x/authz"

	"github.com/bandprotocol/chain/v3/grogu/signaller"
	"github.com/bandprotocol/chain/v3/grogu/submitter"
	"github.com/bandprotocol/chain/v3/pkg/logger"
	feedstypes "github.com/bandprotocol/chain/v3/x/feeds/types"
	oracletypes "github.com/bandprotocol/chain/v3/x/oracle/types"

	tf "vdrive/tracefmt"
	"vdrive/world"
)

// Sigs are the signal ids of the family (the trace cfg lists the same set).
var Sigs = []string{"s1", "s2", "s3"}

const (
	distStart  = 50 // cmd/grogu/cmd/run.go: distribution-start-pct default
	distOffset = 30 // cmd/grogu/cmd/run.go: distribution-offset-pct default
	maxDevBP   = 3000
	nKeys      = 4
	mnemonic   = "abandon abandon abandon abandon abandon abandon abandon abandon abandon abandon abandon about"
)

type Stats struct {
	Traces, Events, Interesting int
	Submissions, Rejected       int
	Distinct                    map[string]bool
}

type Driver struct {
	w  *world.World
	W  *tf.Writer
	St Stats
	kb keyring.Keyring
	cc client.Context
}

// setKeys makes the feeder keys present in / absent from the keyring (a key deleted or rotated away while the
// daemon runs: its name is still in the submitter's pool of key ids).
func (d *Driver) setKeys(present bool) {
	for i := 0; i < nKeys; i++ {
		uid := fmt.Sprintf("feeder%d", i)
		_, err := d.kb.Key(uid)
		switch {
		case present && err != nil:
			path := hd.CreateHDPath(sdk.CoinType, 0, uint32(i)).String()
			if _, err := d.kb.NewAccount(uid, mnemonic, "", path, hd.Secp256k1); err != nil {
				panic(err)
			}
		case !present && err == nil:
			if err := d.kb.Delete(uid); err != nil {
				panic(err)
			}
		}
	}
}

func NewDriver(w *tf.Writer) *Driver {
	d := &Driver{W: w, St: Stats{Distinct: map[string]bool{}}}
	d.w = world.New(world.DefaultConfig())
	app := d.w.App
	d.kb = keyring.NewInMemory(app.AppCodec())
	d.setKeys(true)
	d.cc = client.Context{
		ChainID: world.ChainID, Codec: app.AppCodec(), InterfaceRegistry: app.InterfaceRegistry(),
		Keyring: d.kb, TxConfig: app.GetTxConfig(), BroadcastMode: flags.BroadcastSync,
	}
	return d
}

func (d *Driver) Close() { d.w.Close() }

// sub is the driver's record of one hand-off signaller -> submitter whose submitPrice has not returned.
type sub struct {
	id     int
	m      map[string]quote // what the signaller handed over
	ts     int              // virtual clock at submitPrice entry
	st     string           // "bcast" | "wait": the gate the goroutine is blocked at
	try    int
	res    string // chain result of the current try's transaction
	done   <-chan struct{}
	gate   gateEvent
	hashes map[string]int // tx hash -> try
}

type memTx struct {
	id, try int
	msg     *feedstypes.MsgSubmitSignalPrices
	m       map[string]quote
	ts      int
}

type session struct {
	d       *Driver
	fq      *chainFeedQuerier
	feedRot int
	w       *world.World
	r       *world.Run
	val     world.Account
	clk     int
	svc     map[string]quote
	both    *fakeBothan
	g       *gates
	sg      *signaller.Signaller
	sm      *submitter.Submitter
	pend    *sync.Map
	subs    []*sub
	nsub    int
	mem     []memTx
	last    int             // clock of the latest poll
	down    map[string]bool // local prerequisites switched off: "key" | "auth" | "sim"
	ch      chan submitter.SignalPriceSubmission

	interesting bool
}

func (s *session) genesis() int64 { return s.w.Cfg.GenesisTime.Unix() }
func (s *session) rel(t int64) int {
	if t <= 0 {
		return 0
	}
	return int(t - s.genesis())
}
func (s *session) bt() int { return s.rel(s.r.Time.Unix()) }

func stName(st feedstypes.SignalPriceStatus) string {
	switch st {
	case feedstypes.SIGNAL_PRICE_STATUS_AVAILABLE:
		return "avail"
	case feedstypes.SIGNAL_PRICE_STATUS_UNAVAILABLE:
		return "unavail"
	case feedstypes.SIGNAL_PRICE_STATUS_UNSUPPORTED:
		return "unsupp"
	}
	return "none"
}

func quotesJSON(m map[string]quote) tf.M {
	out := tf.M{}
	for k, q := range m {
		out[k] = tf.M{"st": q.St, "price": int(q.Price)}
	}
	return out
}

func inSigs(id string) bool {
	for _, s := range Sigs {
		if s == id {
			return true
		}
	}
	return false
}

// project reads the real stores, the real pending map and the driver's record of the goroutines.
func (s *session) project() tf.M {
	ctx := s.r.Ctx
	fk, ok := s.w.App.FeedsKeeper, s.w.App.OracleKeeper
	cf := fk.GetCurrentFeeds(ctx)
	p := fk.GetParams(ctx)
	feeds := tf.M{}
	for _, sg := range Sigs {
		feeds[sg] = tf.M{"iv": 0, "dev": 0}
	}
	ivOf := map[string]int64{}
	extra := 0
	for _, f := range cf.Feeds {
		if !inSigs(f.SignalID) {
			extra++
			continue
		}
		dev := feedstypes.CalculateDeviation(f.Power, p.PowerStepThreshold, p.MinDeviationBasisPoint, p.MaxDeviationBasisPoint)
		feeds[f.SignalID] = tf.M{"iv": int(f.Interval), "dev": int(dev)}
		ivOf[f.SignalID] = f.Interval
	}
	vp := tf.M{}
	slot := tf.M{}
	asg := tf.M{}
	for _, sg := range Sigs {
		vp[sg] = tf.M{"st": "none", "price": 0, "ts": 0, "bh": 0}
		slot[sg] = 0
		asg[sg] = 0
	}
	if lst, err := fk.GetValidatorPriceList(ctx, s.val.ValAddr); err == nil {
		for _, e := range lst.ValidatorPrices {
			if !inSigs(e.SignalID) || e.SignalPriceStatus == feedstypes.SIGNAL_PRICE_STATUS_UNSPECIFIED {
				continue
			}
			vp[e.SignalID] = tf.M{"st": stName(e.SignalPriceStatus), "price": int(e.Price), "ts": s.rel(e.Timestamp), "bh": int(e.BlockHeight)}
			// the percentage the hash yields for (validator, timestamp): the real function with interval 100
			k := signaller.VerifCalculateAssignedTime(s.val.ValAddr, 100, e.Timestamp, distOffset, distStart).Unix() - e.Timestamp
			slot[e.SignalID] = int(k)
			if iv := ivOf[e.SignalID]; iv > 0 {
				asg[e.SignalID] = int(s.sg.VerifAssignedTime(iv, e.Timestamp).Unix() - e.Timestamp)
			}
		}
	}
	st := ok.GetValidatorStatus(ctx, s.val.ValAddr)
	pend := s.sg.VerifPending()
	sort.Strings(pend)
	if pend == nil {
		pend = []string{}
	}
	subs := []tf.M{}
	for _, x := range s.subs {
		subs = append(subs, tf.M{"id": x.id, "m": quotesJSON(x.m), "ts": x.ts, "st": x.st, "try": x.try, "res": x.res})
	}
	mem := []tf.M{}
	for _, e := range s.mem {
		mem = append(mem, tf.M{"id": e.id, "try": e.try, "m": quotesJSON(e.m), "ts": e.ts})
	}
	return tf.M{
		"clk": s.clk, "bt": s.bt(), "h": int(s.r.Height),
		"feeds": feeds, "extraFeeds": extra, "updT": s.rel(cf.LastUpdateTimestamp), "updH": int(cf.LastUpdateBlock),
		"vp": vp, "slot": slot, "asg": asg,
		"active": st.IsActive, "since": s.rel(st.Since.Unix()),
		"svc": quotesJSON(s.svc), "pending": pend, "subs": subs, "nsub": s.nsub, "mempool": mem,
		"lastPoll": s.last, "keysBusy": nKeys - s.sm.VerifIdleKeys(), "queued": len(s.ch), "down": len(s.down) > 0,
	}
}

func (s *session) now() time.Time { return time.Unix(s.genesis()+int64(s.clk), 0) }

// waitGate blocks until the goroutine of x reaches its next gate or returns.
func (s *session) waitGate(x *sub) {
	select {
	case ev := <-s.g.events:
		x.gate = ev
		if ev.kind == "bcast" {
			x.st = "bcast"
			x.try++
			x.res = "none"
		} else {
			x.st = "wait"
		}
	case <-x.done:
		x.st = "done"
	}
}

func (s *session) dropDone() {
	var keep []*sub
	for _, x := range s.subs {
		if x.st != "done" {
			keep = append(keep, x)
		}
	}
	s.subs = keep
}

// decode the broadcast transaction: MsgExec{MsgSubmitSignalPrices}
func (s *session) decode(tx []byte) (*feedstypes.MsgSubmitSignalPrices, map[string]quote, bool) {
	t, err := s.d.cc.TxConfig.TxDecoder()(tx)
	if err != nil {
		return nil, nil, false
	}
	msgs := t.GetMsgs()
	if len(msgs) != 1 {
		return nil, nil, false
	}
	ex, ok := msgs[0].(*authz.MsgExec)
	if !ok {
		return nil, nil, false
	}
	inner, err := ex.GetMessages()
	if err != nil || len(inner) != 1 {
		return nil, nil, false
	}
	m, ok := inner[0].(*feedstypes.MsgSubmitSignalPrices)
	if !ok {
		return nil, nil, false
	}
	q := map[string]quote{}
	for _, sp := range m.SignalPrices {
		q[sp.SignalID] = quote{St: stName(sp.Status), Price: sp.Price}
	}
	return m, q, len(q) == len(m.SignalPrices)
}

func (s *session) find(id int) *sub {
	for _, x := range s.subs {
		if x.id == id {
			return x
		}
	}
	return nil
}

// setFeeds installs the current-feed list (environment: keeper setter, as the end-blocker's periodic update does).
func (s *session) setFeeds(f tf.M) {
	var fl []feedstypes.Feed
	// the position of a signal in the stored list is no part of the model (on chain it follows the power ranking): the
	// list is written in an order that rotates with every change, so that equal-sized lists come in different orders
	s.feedRot++
	order := append(append([]string{}, Sigs[s.feedRot%len(Sigs):]...), Sigs[:s.feedRot%len(Sigs)]...)
	for _, sg := range order {
		e := tf.Sub(f, sg)
		iv, dev := tf.Int(e, "iv", 0), tf.Int(e, "dev", 50)
		if iv > 0 {
			if dev <= 0 {
				dev = 50
			}
			fl = append(fl, feedstypes.NewFeed(sg, int64(maxDevBP/dev), int64(iv)))
		}
	}
	s.w.App.FeedsKeeper.SetCurrentFeeds(s.r.Ctx.WithEventManager(sdk.NewEventManager()), fl)
}

func parseQuotes(q tf.M, into map[string]quote) {
	for _, sg := range Sigs {
		if e, ok := q[sg].(map[string]interface{}); ok {
			into[sg] = quote{St: tf.Str(e, "st", "missing"), Price: uint64(tf.Int(e, "price", 0))}
		}
	}
}

// RunScript plays one script and records its trace.
func (d *Driver) RunScript(sc tf.Script) {
	w := d.w
	s := &session{d: d, w: w, r: w.Branch(), val: w.Vals[0], svc: map[string]quote{}, g: newGates(), pend: &sync.Map{},
		down: map[string]bool{}}
	d.setKeys(true)
	defer d.setKeys(true)
	fk, ok := w.App.FeedsKeeper, w.App.OracleKeeper
	c := sc.C

	// environment: parameters of this trace
	p := fk.GetParams(s.r.Ctx)
	p.CooldownTime = int64(tf.Int(c, "cool", 30))
	p.AllowableBlockTimeDiscrepancy = int64(tf.Int(c, "disc", 60))
	p.GracePeriod = int64(tf.Int(c, "grace", 30))
	p.CurrentFeedsUpdateInterval = 1_000_000_000 // the feed list changes only by SetFeeds steps
	p.PowerStepThreshold, p.MinInterval, p.MaxInterval, p.MaxCurrentFeeds = 1, 1, 3600, 10
	p.MinDeviationBasisPoint, p.MaxDeviationBasisPoint = 1, maxDevBP
	if err := fk.SetParams(s.r.Ctx, p); err != nil {
		panic(err)
	}
	op := ok.GetParams(s.r.Ctx)
	op.InactivePenaltyDuration = uint64(1000 * time.Second)
	if err := ok.SetParams(s.r.Ctx, op); err != nil {
		panic(err)
	}
	// prelude: block 2 (now = 100) activates the validators through the real handler; block 3 (now = 101)
	// receives the initial feed list (LastUpdate = 101 / 3) and ends
	s.r.BeginBlock(100)
	for _, v := range w.Vals {
		if o := s.r.Deliver(&oracletypes.MsgActivate{Validator: v.ValAddr.String()}); !o.OK() {
			panic(fmt.Sprint("prelude activate failed: ", o.Err))
		}
	}
	if o := s.r.EndBlock(); !o.OK() {
		panic(fmt.Sprint("prelude end block failed: ", o.Err, o.Panic))
	}
	s.r.BeginBlock(1)
	s.setFeeds(tf.Sub(c, "feeds0"))
	if o := s.r.EndBlock(); !o.OK() {
		panic(fmt.Sprint("prelude end block failed: ", o.Err, o.Panic))
	}
	s.clk = s.bt()
	s.last = s.clk
	for _, sg := range Sigs {
		s.svc[sg] = quote{St: "missing"}
	}
	parseQuotes(tf.Sub(c, "svc0"), s.svc)

	// the daemon: real signaller and submitter on fakes at the interface boundary
	s.both = &fakeBothan{q: s.svc}
	lg := logger.NewLogger(log.FilterFunc(func(_, _ string) bool { return true })) // drop everything
	submitCh := make(chan submitter.SignalPriceSubmission, 300)
	s.ch = submitCh
	fq := newChainFeedQuerier(fk, func() sdk.Context { cc, _ := s.r.Ctx.CacheContext(); return cc })
	s.fq = fq
	s.sg = signaller.New(fq, s.both, time.Second, submitCh, lg, s.val.ValAddr, s.pend, distStart, distOffset)
	cl := &fakeClient{g: s.g, cdc: codec.NewProtoCodec(w.App.InterfaceRegistry())}
	sm, err := submitter.New(d.cc, []rpcclient.RemoteClient{cl}, s.both, lg, submitCh, fakeAuthQuerier{g: s.g},
		&fakeTxQuerier{g: s.g}, s.val.ValAddr, s.pend, 3*time.Millisecond, uint64(tf.Int(c, "tries", 1)),
		time.Millisecond, "0.0025uband")
	if err != nil {
		panic(err)
	}
	s.sm = sm

	d.W.Reset(c, s.project(), sc.Steps)
	d.St.Traces++
	d.St.Events++
	for _, step := range sc.Steps {
		s.apply(step)
	}
	// let every goroutine finish (not logged): answer every gate with a failure
	s.setDown(nil)
	for guard := 0; len(s.subs) > 0 && guard < 100; guard++ {
		x := s.subs[0]
		if x.st == "bcast" {
			x.gate.reply <- gateReply{r: "err"}
		} else {
			x.gate.reply <- gateReply{r: "timeout"}
		}
		s.waitGate(x)
		s.dropDone()
	}
	if s.interesting {
		h := sc.Hash()
		if !d.St.Distinct[h] {
			d.St.Distinct[h] = true
			d.St.Interesting++
		}
	}
}

func (s *session) log(e string, a tf.M, o tf.M) {
	s.d.W.Step(e, a, o, s.project())
	s.d.St.Events++
}

// setDown switches exactly the named local prerequisites of submitPrice off.
func (s *session) setDown(kinds []string) {
	s.down = map[string]bool{}
	for _, k := range kinds {
		if k == "key" || k == "auth" || k == "sim" {
			s.down[k] = true
		}
	}
	s.d.setKeys(!s.down["key"])
	s.g.mu.Lock()
	s.g.off = map[string]bool{"auth": s.down["auth"], "sim": s.down["sim"]}
	s.g.mu.Unlock()
}

func (s *session) apply(step tf.M) {
	switch tf.Str(step, "e", "") {
	case "Env":
		kinds := tf.Strs(step, "down")
		s.setDown(kinds)
		ks := []string{}
		for _, k := range []string{"auth", "key", "sim"} {
			if s.down[k] {
				ks = append(ks, k)
			}
		}
		s.log("Env", tf.M{"kinds": ks}, tf.M{"ok": true})
	case "Tick":
		dt := tf.Int(step, "dt", 1)
		if dt < 1 {
			dt = 1
		}
		s.clk += dt
		s.log("Tick", tf.M{"dt": dt}, tf.M{"ok": true})
	case "Svc":
		parseQuotes(tf.Sub(step, "q"), s.svc)
		s.log("Svc", tf.M{"q": quotesJSON(s.svc)}, tf.M{"ok": true})
	case "SetFeeds":
		s.setFeeds(tf.Sub(step, "f"))
		s.log("SetFeeds", tf.M{}, tf.M{"ok": true})
	case "Poll":
		s.last = s.clk
		// scripted query faults of this poll
		qs := tf.Strs(step, "q")
		s.fq.fail = map[string]bool{}
		for _, q := range qs {
			s.fq.fail[q] = true
		}
		res := s.sg.VerifStep(s.now())
		s.fq.fail = nil
		stage := res.Stage
		if stage == "noSignals" {
			stage = "nothing"
		}
		m := map[string]quote{}
		for _, sp := range res.Prices {
			m[sp.SignalID] = quote{St: stName(sp.Status), Price: sp.Price}
		}
		if res.Stage == "submitted" {
			s.interesting = true
			s.d.St.Submissions++
			if s.sm.VerifIdleKeys() > 0 {
				// submitter.Start: take the submission and an idle key, go submitPrice
				s.nsub++
				x := &sub{id: s.nsub, m: m, ts: s.clk, res: "none", hashes: map[string]int{}}
				x.done = s.sm.VerifStartOne()
				s.subs = append(s.subs, x)
				s.waitGate(x)
				s.dropDone()
			}
		}
		if len(qs) > 0 {
			// a poll with a failed chain query: whatever the daemon did is compared with "decides nothing"
			s.log("PollFail", tf.M{"q": qs}, tf.M{"stage": stage, "n": len(res.Prices)})
			return
		}
		s.log("Poll", tf.M{}, tf.M{"stage": stage, "m": quotesJSON(m), "dup": len(m) != len(res.Prices)})
	case "Bcast":
		id, r := tf.Int(step, "id", 0), tf.Str(step, "r", "ok")
		for _, x := range append([]*sub{}, s.subs...) {
			if (id != 0 && x.id != id) || x.st != "bcast" {
				continue
			}
			msg, q, wf := s.decode(x.gate.tx)
			a := tf.M{"id": x.id, "r": r, "try": x.try, "m": quotesJSON(q), "wf": wf && msg != nil}
			if msg != nil {
				a["val"] = msg.Validator == s.val.ValAddr.String()
				if r == "ok" {
					// the message carries the wall clock of submitPrice's entry; under virtual time that is x.ts
					cp := *msg
					cp.Timestamp = s.genesis() + int64(x.ts)
					s.mem = append(s.mem, memTx{id: x.id, try: x.try, msg: &cp, m: q, ts: x.ts})
				}
			}
			x.gate.reply <- gateReply{r: r}
			s.waitGate(x)
			s.dropDone()
			s.log("Bcast", a, tf.M{"ok": true})
		}
	case "Block":
		dlag := tf.Int(step, "d", 0)
		if dlag < 0 {
			dlag = 0
		}
		t := s.clk - dlag
		if t < s.bt() {
			t = s.bt()
			dlag = s.clk - t
		}
		if ob := s.r.BeginBlock(int64(t - s.bt())); !ob.OK() {
			panic(fmt.Sprint("begin block failed: ", ob.Err, ob.Panic))
		}
		res := []string{}
		touched := false
		for _, e := range s.mem {
			o := s.r.Deliver(e.msg)
			rr := "rej"
			if o.OK() {
				rr = "ok"
				touched = true
			} else {
				s.d.St.Rejected++
			}
			res = append(res, rr)
			if x := s.find(e.id); x != nil && x.try == e.try {
				x.res = rr
			}
		}
		s.mem = nil
		oe := s.r.EndBlock()
		k := 0
		if touched {
			abs := s.genesis() + int64(t)
			k = int(signaller.VerifCalculateAssignedTime(s.val.ValAddr, 100, abs, distOffset, distStart).Unix() - abs)
		}
		s.log("Block", tf.M{"d": dlag, "k": k}, tf.M{"ok": oe.OK(), "res": res})
	case "TxResult":
		id, r := tf.Int(step, "id", 0), tf.Str(step, "r", "found")
		for _, x := range append([]*sub{}, s.subs...) {
			if (id != 0 && x.id != id) || x.st != "wait" {
				continue
			}
			if r == "found" && x.res == "none" {
				continue // not included yet: QueryTx cannot find it
			}
			code := uint32(0)
			if x.res == "rej" {
				code = 1
			}
			x.gate.reply <- gateReply{r: r, code: code}
			s.waitGate(x)
			s.dropDone()
			s.log("TxResult", tf.M{"id": x.id, "r": r}, tf.M{"ok": true})
		}
	default:
		panic("unknown step " + fmt.Sprint(step))
	}
}
