// Package fam_grogu runs the real grogu signaller and submitter (through the verif hooks
// grogu/signaller/export_verif.go and grogu/submitter/export_verif.go) in closed loop with the real
// x/feeds message server, query server and end-blocker of the in-process chain, under a virtual clock.
// The verdict is TLC's (Grogu_Trace.tla), not this package's.
package fam_grogu

import (
	"context"
	"errors"
	"fmt"
	"sync"
	"time"

	abci "github.com/cometbft/cometbft/abci/types"
	"github.com/cometbft/cometbft/crypto/tmhash"
	cmtbytes "github.com/cometbft/cometbft/libs/bytes"
	rpcclient "github.com/cometbft/cometbft/rpc/client"
	coretypes "github.com/cometbft/cometbft/rpc/core/types"
	cmttypes "github.com/cometbft/cometbft/types"

	"github.com/cosmos/cosmos-sdk/codec"
	codectypes "github.com/cosmos/cosmos-sdk/codec/types"
	sdk "github.com/cosmos/cosmos-sdk/types"
	sdkerrors "github.com/cosmos/cosmos-sdk/types/errors"
	authtypes "github.com/cosmos/cosmos-sdk/x/auth/types"

	bothan "github.com/bandprotocol/bothan/bothan-api/client/go-client/proto/bothan/v1"

	feedskeeper "github.com/bandprotocol/chain/v3/x/feeds/keeper"
	feedstypes "github.com/bandprotocol/chain/v3/x/feeds/types"
)

// ---------------------------------------------------------------------------------------------
// gates: the goroutine running the real submitPrice blocks in the fakes until the script answers
// ---------------------------------------------------------------------------------------------

type gateEvent struct {
	kind  string // "bcast" | "query"
	tx    []byte // bcast: the signed transaction bytes
	hash  string // query: the hash asked for
	reply chan gateReply
}

type gateReply struct {
	r    string // bcast: ok | err | chk ; query: found | timeout
	code uint32 // query found: the code of the delivered transaction
}

type gates struct {
	events chan gateEvent
	mu     sync.Mutex
	dead   map[string]bool // tx hashes whose QueryTx keeps failing (scripted time-out)
	// local prerequisites of submitPrice that the script has switched off ("auth": account query, "sim": gas
	// simulation; "key" is realised on the keyring itself)
	off map[string]bool
}

func (g *gates) isOff(kind string) bool {
	g.mu.Lock()
	defer g.mu.Unlock()
	return g.off[kind]
}

func newGates() *gates {
	return &gates{events: make(chan gateEvent), dead: map[string]bool{}, off: map[string]bool{}}
}

// fakeClient implements only what client.Context needs for CalculateGas and BroadcastTx; any other
// method of the embedded nil interface panics (none is reached by the submitter).
type fakeClient struct {
	rpcclient.RemoteClient
	g   *gates
	cdc *codec.ProtoCodec
}

func (c *fakeClient) Remote() string { return "verif" }

func (c *fakeClient) ABCIQueryWithOptions(_ context.Context, _ string, _ cmtbytes.HexBytes,
	_ rpcclient.ABCIQueryOptions) (*coretypes.ResultABCIQuery, error) {
	// the only query the submitter makes through the node is tx simulation (gas estimate)
	if c.g.isOff("sim") {
		return nil, errors.New("scripted: simulation unavailable")
	}
	simRes := &sdk.SimulationResponse{GasInfo: sdk.GasInfo{GasWanted: 200000, GasUsed: 100000}}
	bz, err := c.cdc.GRPCCodec().Marshal(simRes)
	if err != nil {
		return nil, err
	}
	return &coretypes.ResultABCIQuery{Response: abci.ResponseQuery{Codespace: sdkerrors.RootCodespace, Height: 1, Value: bz}}, nil
}

func (c *fakeClient) BroadcastTxSync(_ context.Context, tx cmttypes.Tx) (*coretypes.ResultBroadcastTx, error) {
	// a retry re-signs the same message with the same sequence: same bytes, same hash; the scripted
	// time-out of the previous try must not leak into this one
	c.g.mu.Lock()
	delete(c.g.dead, fmt.Sprintf("%X", tmhash.Sum(tx)))
	c.g.mu.Unlock()
	rep := make(chan gateReply)
	c.g.events <- gateEvent{kind: "bcast", tx: tx, reply: rep}
	r := <-rep
	switch r.r {
	case "ok":
		return &coretypes.ResultBroadcastTx{Code: 0, Hash: tmhash.Sum(tx)}, nil
	case "chk":
		return &coretypes.ResultBroadcastTx{Code: 5, Codespace: "sdk", Log: "scripted CheckTx failure", Hash: tmhash.Sum(tx)}, nil
	case "oog":
		return &coretypes.ResultBroadcastTx{Code: sdkerrors.ErrOutOfGas.ABCICode(), Codespace: sdkerrors.RootCodespace,
			Log: "scripted out of gas", Hash: tmhash.Sum(tx)}, nil
	}
	return nil, errors.New("scripted transport error")
}

type fakeTxQuerier struct{ g *gates }

func (q *fakeTxQuerier) QueryTx(hash string) (*sdk.TxResponse, error) {
	q.g.mu.Lock()
	dead := q.g.dead[hash]
	q.g.mu.Unlock()
	if dead {
		return nil, errors.New("scripted: tx not found")
	}
	rep := make(chan gateReply)
	q.g.events <- gateEvent{kind: "query", hash: hash, reply: rep}
	r := <-rep
	if r.r == "found" {
		return &sdk.TxResponse{TxHash: hash, Code: r.code}, nil
	}
	q.g.mu.Lock()
	q.g.dead[hash] = true
	q.g.mu.Unlock()
	return nil, errors.New("scripted: tx not found")
}

type fakeAuthQuerier struct{ g *gates }

func (a fakeAuthQuerier) QueryAccount(address sdk.Address) (*authtypes.QueryAccountResponse, error) {
	if a.g.isOff("auth") {
		return nil, errors.New("scripted: account query unavailable")
	}
	acc := authtypes.NewBaseAccountWithAddress(sdk.AccAddress(address.Bytes()))
	any, err := codectypes.NewAnyWithValue(acc)
	if err != nil {
		return nil, err
	}
	return &authtypes.QueryAccountResponse{Account: any}, nil
}

// ---------------------------------------------------------------------------------------------
// price service = the script's quotes
// ---------------------------------------------------------------------------------------------

type quote struct {
	St    string // avail | unavail | unsupp | missing
	Price uint64
}

type fakeBothan struct {
	mu  sync.Mutex
	q   map[string]quote
	seq int
}

func (b *fakeBothan) GetInfo() (*bothan.GetInfoResponse, error) {
	return &bothan.GetInfoResponse{MonitoringEnabled: false}, nil
}
func (b *fakeBothan) UpdateRegistry(string, string) error        { return nil }
func (b *fakeBothan) PushMonitoringRecords(string, string) error { return nil }
func (b *fakeBothan) GetPrices(ids []string) (*bothan.GetPricesResponse, error) {
	b.mu.Lock()
	defer b.mu.Unlock()
	b.seq++
	out := &bothan.GetPricesResponse{Uuid: fmt.Sprintf("uuid-%d", b.seq)}
	for _, id := range ids {
		q, ok := b.q[id]
		if !ok {
			continue
		}
		switch q.St {
		case "avail":
			out.Prices = append(out.Prices, &bothan.Price{SignalId: id, Price: q.Price, Status: bothan.Status_STATUS_AVAILABLE})
		case "unavail":
			// a real service may leave a stale number next to a non-available status: convertPriceData must drop it
			out.Prices = append(out.Prices, &bothan.Price{SignalId: id, Price: q.Price, Status: bothan.Status_STATUS_UNAVAILABLE})
		case "unsupp":
			out.Prices = append(out.Prices, &bothan.Price{SignalId: id, Price: 0, Status: bothan.Status_STATUS_UNSUPPORTED})
		}
	}
	return out, nil
}

// ---------------------------------------------------------------------------------------------
// FeedQuerier = the real feeds query server on the current state of the in-process chain
// ---------------------------------------------------------------------------------------------

type chainFeedQuerier struct {
	mu  sync.Mutex // the signaller issues its three queries concurrently
	qs  feedstypes.QueryServer
	ctx func() sdk.Context
	// fail: the queries ("valid", "params", "feeds", "vprices") that fail during the current poll (scripted fault).  A
	// failing query answers at once, the others a little later, so that a failure is never the last answer to arrive.
	fail map[string]bool
}

var errScriptedQuery = fmt.Errorf("scripted query failure")

func (q *chainFeedQuerier) gate(name string) error {
	if q.fail[name] {
		return errScriptedQuery
	}
	if len(q.fail) > 0 {
		time.Sleep(3 * time.Millisecond)
	}
	return nil
}

func newChainFeedQuerier(k feedskeeper.Keeper, ctx func() sdk.Context) *chainFeedQuerier {
	return &chainFeedQuerier{qs: feedskeeper.NewQueryServer(k), ctx: ctx}
}

func (q *chainFeedQuerier) QueryValidValidator(v sdk.ValAddress) (*feedstypes.QueryValidValidatorResponse, error) {
	if err := q.gate("valid"); err != nil {
		return nil, err
	}
	q.mu.Lock()
	defer q.mu.Unlock()
	return q.qs.ValidValidator(q.ctx(), &feedstypes.QueryValidValidatorRequest{Validator: v.String()})
}

func (q *chainFeedQuerier) QueryValidatorPrices(v sdk.ValAddress) (*feedstypes.QueryValidatorPricesResponse, error) {
	if err := q.gate("vprices"); err != nil {
		return nil, err
	}
	q.mu.Lock()
	defer q.mu.Unlock()
	return q.qs.ValidatorPrices(q.ctx(), &feedstypes.QueryValidatorPricesRequest{Validator: v.String()})
}

func (q *chainFeedQuerier) QueryParams() (*feedstypes.QueryParamsResponse, error) {
	if err := q.gate("params"); err != nil {
		return nil, err
	}
	q.mu.Lock()
	defer q.mu.Unlock()
	return q.qs.Params(q.ctx(), &feedstypes.QueryParamsRequest{})
}

func (q *chainFeedQuerier) QueryCurrentFeeds() (*feedstypes.QueryCurrentFeedsResponse, error) {
	if err := q.gate("feeds"); err != nil {
		return nil, err
	}
	q.mu.Lock()
	defer q.mu.Unlock()
	return q.qs.CurrentFeeds(q.ctx(), &feedstypes.QueryCurrentFeedsRequest{})
}
