// Package fam_rewards drives the real block-reward allocators (property C14, Rewards.tla):
//
//	OracleAlloc = oracle.BeginBlocker(ctx, app.OracleKeeper)        alone
//	TssAlloc    = bandtss.BeginBlocker(ctx, app.BandtssKeeper)      alone
//	FullBegin   = app.BeginBlocker(ctx) (world.Run.BeginBlock) with the mint module neutralised
//	              (zero inflation), so that the real order oracle -> bandtss -> distribution runs
//
// Before every event the environment is installed (pool minted into the fee collector, vote infos,
// proposer, oracle activity flags, member flags, percentages, community tax) and logged as an "Env"
// line; after the event the integer observations are logged.  Nothing is asserted here: TLC decides.
package fam_rewards

import (
	"fmt"
	"hash/fnv"
	"math/rand"
	"time"

	abci "github.com/cometbft/cometbft/abci/types"
	cmtproto "github.com/cometbft/cometbft/proto/tendermint/types"

	"cosmossdk.io/math"

	sdk "github.com/cosmos/cosmos-sdk/types"
	authtypes "github.com/cosmos/cosmos-sdk/x/auth/types"
	distrtypes "github.com/cosmos/cosmos-sdk/x/distribution/types"
	minttypes "github.com/cosmos/cosmos-sdk/x/mint/types"

	"github.com/bandprotocol/chain/v3/pkg/tss"
	"github.com/bandprotocol/chain/v3/x/bandtss"
	bandtsstypes "github.com/bandprotocol/chain/v3/x/bandtss/types"
	"github.com/bandprotocol/chain/v3/x/oracle"
	oracletypes "github.com/bandprotocol/chain/v3/x/oracle/types"
	tsstypes "github.com/bandprotocol/chain/v3/x/tss/types"

	tf "vdrive/tracefmt"
	"vdrive/tsskit"
	"vdrive/world"
)

var denoms = []struct{ k, d string }{{"u", "uband"}, {"x", "uxyz"}}

const clampAbs = 2_000_000_000 // sentinel bound: everything logged fits TLC's 32-bit integers

type Driver struct {
	w           *world.World
	W           *tf.Writer
	Traces      int
	Events      int
	Interesting int
	Extra       tf.M
	seen        map[string]bool
	members     []world.Account
	sink        world.Account
	deN         int
}

func NewDriver(w *tf.Writer) *Driver {
	cfg := world.DefaultConfig()
	cfg.DistinctConsKeys = true // operator address != consensus address, as on a live chain
	d := &Driver{w: world.New(cfg), W: w, seen: map[string]bool{}, Extra: tf.M{}}
	for i := 1; i <= 3; i++ {
		a := world.NewAccount(fmt.Sprintf("rw-member%d", i))
		a.Name = fmt.Sprintf("m%d", i)
		d.members = append(d.members, a)
	}
	d.sink = world.NewAccount("rw-sink")
	d.probe150()
	return d
}

func (d *Driver) Close() { d.w.Close() }

// probe150 records (in the stats, not in the verdict) whether the two modules' SetParams accept a
// reward percentage of 150 (a C02 matter; C14's scripts stay within 0..100).
func (d *Driver) probe150() {
	r := d.w.Branch()
	op := d.w.App.OracleKeeper.GetParams(r.Ctx)
	op.OracleRewardPercentage = 150
	d.Extra["setparams150_oracle_accepted"] = d.w.App.OracleKeeper.SetParams(r.Ctx, op) == nil
	bp := d.w.App.BandtssKeeper.GetParams(r.Ctx)
	bp.RewardPercentage = 150
	d.Extra["setparams150_bandtss_accepted"] = d.w.App.BandtssKeeper.SetParams(r.Ctx, bp) == nil
}

func clampInt(x math.Int) int {
	if !x.IsInt64() {
		if x.IsNegative() {
			return -clampAbs
		}
		return clampAbs
	}
	v := x.Int64()
	if v > clampAbs {
		return clampAbs
	}
	if v < -clampAbs {
		return -clampAbs
	}
	return int(v)
}

// decIF projects an 18-decimal value onto (floor, has-fraction).
func decIF(x math.LegacyDec) tf.M {
	var fl math.Int
	if x.IsNegative() {
		fl = x.Neg().Ceil().TruncateInt().Neg()
	} else {
		fl = x.TruncateInt()
	}
	return tf.M{"i": clampInt(fl), "f": !x.IsInteger()}
}

type snapshot struct {
	out map[string]map[string]math.LegacyDec // validator -> denom key -> exact outstanding reward
}

type session struct {
	d     *Driver
	r     *world.Run
	g     *tsskit.Group
	rest0 map[string]math.Int
}

func (s *session) feeCollector() sdk.AccAddress {
	return authtypes.NewModuleAddress(authtypes.FeeCollectorName)
}

func (s *session) distrAddr() sdk.AccAddress { return authtypes.NewModuleAddress(distrtypes.ModuleName) }

// sumAll is the sum of every bank balance (all accounts and modules) per denom.
func (s *session) sumAll(ctx sdk.Context) map[string]math.Int {
	tot := map[string]math.Int{}
	for _, dn := range denoms {
		tot[dn.k] = math.ZeroInt()
	}
	s.d.w.App.BankKeeper.IterateAllBalances(ctx, func(_ sdk.AccAddress, c sdk.Coin) bool {
		for _, dn := range denoms {
			if c.Denom == dn.d {
				tot[dn.k] = tot[dn.k].Add(c.Amount)
			}
		}
		return false
	})
	return tot
}

func (s *session) outstanding(ctx sdk.Context) snapshot {
	sn := snapshot{out: map[string]map[string]math.LegacyDec{}}
	for _, v := range s.d.w.Vals {
		m := map[string]math.LegacyDec{}
		for _, dn := range denoms {
			m[dn.k] = math.LegacyZeroDec()
		}
		if o, err := s.d.w.App.DistrKeeper.GetValidatorOutstandingRewards(ctx, v.ValAddr); err == nil {
			for _, dn := range denoms {
				m[dn.k] = o.Rewards.AmountOf(dn.d)
			}
		}
		sn.out[v.Name] = m
	}
	return sn
}

// tracked = fee collector + distribution module + members (logged absolutely); everything else is
// logged as `rest`, relative to its value at the start of the trace.
func (s *session) project() (tf.M, snapshot) {
	ctx := s.r.Ctx
	app := s.d.w.App
	bk := app.BankKeeper
	st := tf.M{}
	fc, dm, sup, rest, cp, acc := tf.M{}, tf.M{}, tf.M{}, tf.M{}, tf.M{}, tf.M{}
	all := s.sumAll(ctx)
	sn := s.outstanding(ctx)
	pool := sdk.DecCoins{}
	if fp, err := app.DistrKeeper.FeePool.Get(ctx); err == nil {
		pool = fp.CommunityPool
	}
	accounted := map[string]math.LegacyDec{}
	for _, dn := range denoms {
		accounted[dn.k] = pool.AmountOf(dn.d)
	}
	app.DistrKeeper.IterateValidatorOutstandingRewards(ctx, func(_ sdk.ValAddress, o distrtypes.ValidatorOutstandingRewards) bool {
		for _, dn := range denoms {
			accounted[dn.k] = accounted[dn.k].Add(o.Rewards.AmountOf(dn.d))
		}
		return false
	})
	mb := tf.M{}
	for _, m := range s.d.members {
		mb[m.Name] = tf.M{}
	}
	for _, dn := range denoms {
		f := bk.GetBalance(ctx, s.feeCollector(), dn.d).Amount
		g := bk.GetBalance(ctx, s.distrAddr(), dn.d).Amount
		tracked := f.Add(g)
		for _, m := range s.d.members {
			b := bk.GetBalance(ctx, m.Addr, dn.d).Amount
			mb[m.Name].(tf.M)[dn.k] = clampInt(b)
			tracked = tracked.Add(b)
		}
		fc[dn.k] = clampInt(f)
		dm[dn.k] = clampInt(g)
		r := all[dn.k].Sub(tracked)
		if s.rest0 == nil {
			s.rest0 = map[string]math.Int{}
		}
		if _, ok := s.rest0[dn.k]; !ok {
			s.rest0[dn.k] = r
		}
		rest[dn.k] = clampInt(r.Sub(s.rest0[dn.k]))
		sup[dn.k] = clampInt(bk.GetSupply(ctx, dn.d).Amount.Sub(s.rest0[dn.k]))
		cp[dn.k] = decIF(pool.AmountOf(dn.d))
		acc[dn.k] = decIF(accounted[dn.k])
	}
	out := tf.M{}
	for _, v := range s.d.w.Vals {
		o := tf.M{}
		for _, dn := range denoms {
			o[dn.k] = decIF(sn.out[v.Name][dn.k])
		}
		out[v.Name] = o
	}
	st["fc"], st["dm"], st["sup"], st["rest"], st["cp"], st["acc"], st["mb"], st["out"] = fc, dm, sup, rest, cp, acc, mb, out
	return st, sn
}

func zeroInc(vals []world.Account) tf.M {
	inc := tf.M{}
	for _, v := range vals {
		o := tf.M{}
		for _, dn := range denoms {
			o[dn.k] = tf.M{"i": 0, "f": false}
		}
		inc[v.Name] = o
	}
	return inc
}

func bools(m tf.M, k string, n int, def bool) []bool {
	out := make([]bool, n)
	for i := range out {
		out[i] = def
	}
	if v, ok := m[k].([]interface{}); ok {
		for i := 0; i < n && i < len(v); i++ {
			if b, ok := v[i].(bool); ok {
				out[i] = b
			}
		}
	}
	if v, ok := m[k].([]bool); ok {
		copy(out, v)
	}
	return out
}

func (d *Driver) RunScript(sc tf.Script) {
	w := d.w
	app := w.App
	s := &session{d: d, r: w.Branch()}
	r := s.r
	// environment: the mint module is neutralised (zero inflation => BlockProvision = 0); that nothing is
	// minted is itself observed (total supply is part of the projection of every FullBegin).
	if mp, err := app.MintKeeper.Params.Get(r.Ctx); err == nil {
		mp.InflationMax, mp.InflationMin, mp.InflationRateChange = math.LegacyZeroDec(), math.LegacyZeroDec(), math.LegacyZeroDec()
		if err := app.MintKeeper.Params.Set(r.Ctx, mp); err != nil {
			panic(err)
		}
	}
	nmem := tf.Int(sc.C, "nmem", 0)
	if nmem > len(d.members) {
		nmem = len(d.members)
	}
	if nmem > 0 {
		thr := 1
		if nmem >= 2 {
			thr = 2
		}
		s.g = tsskit.NewGroup("rw-g1", thr, d.members[:nmem])
		s.g.Install(r.Ctx, app, bandtsstypes.ModuleName)
		s.g.InstallAsCurrent(r.Ctx, app)
	}
	st0, _ := s.project()
	d.W.Reset(sc.C, st0, sc.Steps)
	d.Traces++
	d.Events++
	interesting := false
	for _, step := range sc.Steps {
		if d.runStep(s, step) {
			interesting = true
		}
	}
	if interesting {
		h := sc.Hash()
		if !d.seen[h] {
			d.seen[h] = true
			d.Interesting++
		}
	}
}

func (d *Driver) runStep(s *session, step tf.M) (interesting bool) {
	w, r := d.w, s.r
	app := w.App
	ctx := r.Ctx
	kind := tf.Str(step, "e", "OracleAlloc")
	pw := tf.Ints(step, "pw")
	for len(pw) < len(w.Vals) {
		pw = append(pw, 0)
	}
	propIdx := tf.Int(step, "prop", 0) % len(w.Vals)
	act := bools(step, "act", len(w.Vals), true)
	mact := bools(step, "mact", len(d.members), true)
	mde := bools(step, "mde", len(d.members), true)
	grp := tf.Bool(step, "grp", true) && s.g != nil
	pctO, pctT, tax := tf.Int(step, "pctO", 70), tf.Int(step, "pctT", 10), tf.Int(step, "tax", 2)
	poolArg := tf.Sub(step, "pool")

	// ---- environment -------------------------------------------------------------------------------
	op := app.OracleKeeper.GetParams(ctx)
	op.OracleRewardPercentage = uint64(pctO)
	if err := app.OracleKeeper.SetParams(ctx, op); err != nil {
		panic(err)
	}
	bp := app.BandtssKeeper.GetParams(ctx)
	bp.RewardPercentage = uint64(pctT)
	if err := app.BandtssKeeper.SetParams(ctx, bp); err != nil {
		panic(err)
	}
	dp, err := app.DistrKeeper.Params.Get(ctx)
	if err != nil {
		panic(err)
	}
	dp.CommunityTax = math.LegacyNewDecWithPrec(int64(tax), 2)
	if err := app.DistrKeeper.Params.Set(ctx, dp); err != nil {
		panic(err)
	}
	for i, v := range w.Vals {
		app.OracleKeeper.SetValidatorStatus(ctx, v.ValAddr, oracletypes.NewValidatorStatus(act[i], r.Time))
	}
	// the staking record's jailed flag is an input the allocation must not depend on (a validator jailed in the previous
	// block is still in the last commit's vote set with its power and still oracle-active): varied as a function of the step
	for i, v := range w.Vals {
		sv, err := app.StakingKeeper.GetValidator(ctx, v.ValAddr)
		if err != nil {
			continue
		}
		jh := fnv.New32a()
		fmt.Fprint(jh, "jail", step, i)
		want := jh.Sum32()%6 == 0
		if sv.Jailed != want {
			sv.Jailed = want
			if err := app.StakingKeeper.SetValidator(ctx, sv); err != nil {
				panic(err)
			}
		}
	}
	if s.g != nil {
		gid := tss.GroupID(0)
		if grp {
			gid = s.g.ID
		}
		app.BandtssKeeper.SetCurrentGroup(ctx, bandtsstypes.NewCurrentGroup(gid, r.Time))
		for i, m := range s.g.Members {
			if err := app.TSSKeeper.SetMemberIsActive(ctx, s.g.ID, m.Acc.Addr, mact[i]); err != nil {
				panic(err)
			}
			q := app.TSSKeeper.GetDEQueue(ctx, m.Acc.Addr)
			has := q.Tail > q.Head
			if mde[i] && !has {
				d.deN++
				de := tsskit.NewDE(fmt.Sprintf("rw-de-%d", d.deN))
				if err := app.TSSKeeper.EnqueueDEs(ctx, m.Acc.Addr, []tsstypes.DE{de.Pub()}); err != nil {
					panic(err)
				}
			} else if !mde[i] && has {
				if o := r.Deliver(&tsstypes.MsgResetDE{Sender: m.Acc.Addr.String()}); !o.OK() {
					panic(fmt.Sprint("MsgResetDE: ", o.Err, o.Panic))
				}
			}
		}
	}
	// the fee collector holds exactly the script's pool: drain what is left, mint the pool
	if left := app.BankKeeper.GetAllBalances(ctx, s.feeCollector()); !left.IsZero() {
		if err := app.BankKeeper.SendCoinsFromModuleToAccount(ctx, authtypes.FeeCollectorName, d.sink.Addr, left); err != nil {
			panic(err)
		}
	}
	pool := sdk.NewCoins()
	for _, dn := range denoms {
		if n := tf.Int(poolArg, dn.k, 0); n > 0 {
			pool = pool.Add(sdk.NewInt64Coin(dn.d, int64(n)))
		}
	}
	if !pool.IsZero() {
		if err := app.BankKeeper.MintCoins(ctx, minttypes.ModuleName, pool); err != nil {
			panic(err)
		}
		if err := app.BankKeeper.SendCoinsFromModuleToModule(ctx, minttypes.ModuleName, authtypes.FeeCollectorName, pool); err != nil {
			panic(err)
		}
	}
	var votes []abci.VoteInfo
	for i, v := range w.Vals {
		if pw[i] > 0 {
			// the vote's flag is an input the allocation must not depend on (a validator of the last commit's set that
			// was absent or voted nil is still paid by its power): varied as a function of the step
			flag := cmtproto.BlockIDFlagCommit
			fh := fnv.New32a()
			fmt.Fprint(fh, step, i)
			switch fh.Sum32() % 5 {
			case 0:
				flag = cmtproto.BlockIDFlagAbsent
			case 1:
				flag = cmtproto.BlockIDFlagNil
			}
			votes = append(votes, abci.VoteInfo{
				Validator:   abci.Validator{Address: v.ConsAddress(), Power: int64(pw[i])},
				BlockIdFlag: flag,
			})
		}
	}
	envState, pre := s.project()
	d.W.Step("Env", tf.M{}, tf.M{"ok": true}, envState)
	d.Events++

	// ---- the arguments of the event, read back from the real state where they are state -----------------
	a := tf.M{"prop": w.Vals[propIdx].Name, "grp": app.BandtssKeeper.GetCurrentGroup(ctx).GroupID != 0}
	apw, aact := tf.M{}, tf.M{}
	for i, v := range w.Vals {
		apw[v.Name] = pw[i]
		aact[v.Name] = app.OracleKeeper.GetValidatorStatus(ctx, v.ValAddr).IsActive
	}
	a["pw"], a["act"] = apw, aact
	min, am, ade := tf.M{}, tf.M{}, tf.M{}
	curGid := app.BandtssKeeper.GetCurrentGroup(ctx).GroupID
	for _, m := range d.members {
		in, ia := false, false
		if curGid != 0 {
			if tm, err := app.TSSKeeper.GetMemberByAddress(ctx, curGid, m.Addr.String()); err == nil {
				in, ia = true, tm.IsActive
			}
		}
		q := app.TSSKeeper.GetDEQueue(ctx, m.Addr)
		min[m.Name], am[m.Name], ade[m.Name] = in, ia, q.Tail > q.Head
	}
	a["min"], a["mact"], a["mde"] = min, am, ade
	a["pctO"] = int(app.OracleKeeper.GetParams(ctx).OracleRewardPercentage)
	a["pctT"] = int(app.BandtssKeeper.GetParams(ctx).RewardPercentage)
	taxDec := math.LegacyZeroDec()
	if t, err := app.DistrKeeper.GetCommunityTax(ctx); err == nil {
		taxDec = t
	}
	t100 := taxDec.MulInt64(100)
	if !t100.IsInteger() {
		panic("community tax is not a multiple of 1/100: the contract's num/den form does not cover it")
	}
	a["taxN"], a["taxD"] = clampInt(t100.TruncateInt()), 100
	a["pool"] = tf.M{"u": envState["fc"].(tf.M)["u"], "x": envState["fc"].(tf.M)["x"]}

	// ---- the event: real entry point on a cache context (kept only if it succeeds) ------------------------
	r.Height++
	r.Time = r.Time.Add(5 * time.Second)
	var ok bool
	switch kind {
	case "FullBegin":
		// world.Run.BeginBlock sets the header / votes / proposer and calls the real app.BeginBlocker
		r.Height-- // BeginBlock advances height and time itself
		r.Time = r.Time.Add(-5 * time.Second)
		r.Votes, r.Proposer = votes, propIdx
		saved := r.Ctx
		cc, write := saved.CacheContext()
		r.Ctx = cc
		o := r.BeginBlock(5)
		ok = o.OK()
		if ok {
			write()
		}
		r.Ctx = saved.WithBlockHeader(cc.BlockHeader())
		r.InBlock = false
	default:
		hdr := w.BaseHeader
		hdr.Height, hdr.Time = r.Height, r.Time
		hdr.ProposerAddress = w.Vals[propIdx].ConsAddress()
		bctx := r.Ctx.WithBlockHeader(hdr).WithHeaderHash(world.BlockHash(r.Height)).WithVoteInfos(votes).
			WithEventManager(sdk.NewEventManager()).WithBlockHeight(r.Height)
		cc, write := bctx.CacheContext()
		func() {
			defer func() {
				if p := recover(); p != nil {
					ok = false
				}
			}()
			var err error
			if kind == "TssAlloc" {
				err = bandtss.BeginBlocker(cc, app.BandtssKeeper)
			} else {
				err = oracle.BeginBlocker(cc, app.OracleKeeper)
			}
			ok = err == nil
		}()
		if ok {
			write()
		}
		r.Ctx = bctx
	}
	post, after := s.project()
	inc := tf.M{}
	for _, v := range w.Vals {
		o := tf.M{}
		for _, dn := range denoms {
			o[dn.k] = decIF(after.out[v.Name][dn.k].Sub(pre.out[v.Name][dn.k]))
		}
		inc[v.Name] = o
	}
	d.W.Step(kind, a, tf.M{"ok": ok, "inc": inc}, post)
	d.Events++
	return nonExact(kind, a, pw, act, envState)
}

// nonExact: DESIGN Appendix A — the event has a pool with a non-exact division somewhere (percentage,
// tax, power share or member share).  Computed from the inputs only.
func nonExact(kind string, a tf.M, pw []int, act []bool, env tf.M) bool {
	P := 0
	for i := range pw {
		if pw[i] > 0 && act[i] {
			P += pw[i]
		}
	}
	n := 0
	for _, k := range []string{"m1", "m2", "m3"} {
		if a["grp"].(bool) && a["min"].(tf.M)[k].(bool) && a["mact"].(tf.M)[k].(bool) && a["mde"].(tf.M)[k].(bool) {
			n++
		}
	}
	pctO, pctT, taxN := a["pctO"].(int), a["pctT"].(int), a["taxN"].(int)
	for _, dn := range denoms {
		F := env["fc"].(tf.M)[dn.k].(int)
		if kind != "TssAlloc" && P > 0 {
			if (F*pctO)%100 != 0 {
				return true
			}
			O := F * pctO / 100
			if (O*taxN)%100 != 0 {
				return true
			}
			R := O - O*taxN/100
			for i := range pw {
				if pw[i] > 0 && act[i] && (R*pw[i])%P != 0 {
					return true
				}
			}
			F -= O
		}
		if kind != "OracleAlloc" && n > 0 {
			if (F*pctT)%100 != 0 {
				return true
			}
			T := F * pctT / 100
			if (T*(100-taxN))%(100*n) != 0 {
				return true
			}
		}
	}
	return false
}

var poolSet = []int{0, 1, 2, 3, 7, 10, 99, 100, 101, 1000000}
var pctSet = []int{0, 1, 50, 70, 99, 100}
var taxSet = []int{0, 2, 50, 100, 0, 2, 50, 100, 33, 7} // DESIGN's {0, 0.02, 0.5, 1} plus two taxes that do not divide evenly
var pwSet = [][]int{{1, 1, 1}, {1, 2, 3}, {1, 1, 100}, {100, 1, 1}, {0, 1, 1}, {0, 0, 5}, {0, 0, 0}, {3, 0, 0},
	{33, 33, 34}, {97, 2, 1}, {10, 0, 90}, {7, 7, 7}, {1, 0, 2}}

// RandomScript: one to three events with parameter tuples from the small sets of DESIGN §C14.
func RandomScript(rng *rand.Rand) tf.Script {
	nmem := []int{0, 1, 1, 2, 2, 2, 3, 3, 3, 3}[rng.Intn(10)]
	pick := func(s []int) int { return s[rng.Intn(len(s))] }
	var steps []tf.M
	n := 1 + rng.Intn(3)
	for i := 0; i < n; i++ {
		kind := []string{"OracleAlloc", "TssAlloc", "FullBegin"}[rng.Intn(3)]
		pool := tf.M{"u": pick(poolSet), "x": 0}
		if rng.Intn(2) == 0 {
			pool["x"] = pick(poolSet)
		}
		if rng.Intn(6) == 0 {
			pool["u"] = rng.Intn(1000)
		}
		pw := append([]int{}, pwSet[rng.Intn(len(pwSet))]...)
		if rng.Intn(4) == 0 {
			pw = []int{rng.Intn(101), rng.Intn(101), rng.Intn(101)}
		}
		bits := func(k int, pTrue int) []bool {
			out := make([]bool, k)
			for j := range out {
				out[j] = rng.Intn(100) < pTrue
			}
			return out
		}
		steps = append(steps, tf.M{"e": kind, "pool": pool, "pw": pw, "prop": rng.Intn(3), "act": bits(3, 65),
			"grp": rng.Intn(10) != 0, "mact": bits(3, 85), "mde": bits(3, 85),
			"pctO": pick(pctSet), "pctT": pick(pctSet), "tax": pick(taxSet)})
	}
	return tf.Script{Fam: "Rewards", C: tf.M{"nmem": nmem}, Steps: steps}
}
