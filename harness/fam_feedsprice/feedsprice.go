// Package fam_feedsprice drives the real x/feeds price aggregation (MsgSubmitSignalPrices, the feeds end-blocker,
// types.MedianValidatorPriceInfos, Keeper.CalculatePrice) and the oracle validator status it touches with abstract
// scripts (FeedsPrice.tla actions) and records, after every step, the projection of the real stores onto the
// variables of FeedsPrice.tla.  Verdicts are TLC's (FeedsPrice_Trace.tla), not this package's.
//
// Environment (installed with keeper setters, not the subject of this family): module params, signal total powers
// (the feed list itself is then computed by the real end-blocker), the initial feed list, jailing of validators.
// Subject (changes only through real entry points): validator price lists, the price store, oracle validator status.
package fam_feedsprice

import (
	"encoding/json"
	"fmt"
	"hash/fnv"
	"math/rand"
	"sort"
	"time"

	sdkmath "cosmossdk.io/math"

	sdk "github.com/cosmos/cosmos-sdk/types"
	stakingtypes "github.com/cosmos/cosmos-sdk/x/staking/types"

	feedstypes "github.com/bandprotocol/chain/v3/x/feeds/types"
	oracletypes "github.com/bandprotocol/chain/v3/x/oracle/types"

	tf "vdrive/tracefmt"
	"vdrive/world"
)

const (
	unit        = 1_000_000 // one logged token = 10^6 uband
	maxInterval = 60        // feeds params.MaxInterval; a feed with interval I is produced by signal power 60/I
)

var Sigs = []string{"s1", "s2"}

type Stats struct {
	Traces, Events, Interesting int
	Distinct                    map[string]bool
	Calc, CalcAvail2            int
	Deactivations, SubmitRej    int
	SubmitOK, PricesAvailable   int
	EndBlockErr                 int
}

type Driver struct {
	worlds map[string]*world.World
	order  []string
	W      *tf.Writer
	St     Stats
	Mode   string // "" (C06) or "c15f": changes only what counts as interesting
}

func NewDriver(w *tf.Writer) *Driver {
	return &Driver{worlds: map[string]*world.World{}, W: w, St: Stats{Distinct: map[string]bool{}}}
}

func (d *Driver) Close() {
	for _, w := range d.worlds {
		w.Close()
	}
}

// world returns the chain whose genesis bonds the given tokens (whole tokens) to validators v1..vn.
func (d *Driver) world(tokens []int) *world.World {
	key := fmt.Sprint(tokens)
	if w, ok := d.worlds[key]; ok {
		return w
	}
	if len(d.order) >= 12 { // bound the memory: drop the oldest world
		old := d.order[0]
		d.order = d.order[1:]
		d.worlds[old].Close()
		delete(d.worlds, old)
	}
	cfg := world.DefaultConfig()
	cfg.ValTokens = nil
	for _, t := range tokens {
		cfg.ValTokens = append(cfg.ValTokens, int64(t)*unit)
	}
	w := world.New(cfg)
	d.worlds[key] = w
	d.order = append(d.order, key)
	return w
}

type session struct {
	d           *Driver
	w           *world.World
	r           *world.Run
	stranger    world.Account
	deact       map[string]int
	qn          int
	interesting bool
	halted      bool
}

func (s *session) rel(unix int64) int { return int(unix - s.w.Cfg.GenesisTime.Unix()) }

func (s *session) relTime(t time.Time) int {
	if t.IsZero() || t.Unix() <= 0 {
		return -1
	}
	return s.rel(t.Unix())
}

func (s *session) now() int { return s.rel(s.r.Time.Unix()) }

func (s *session) account(name string) (world.Account, bool) {
	for _, v := range s.w.Vals {
		if v.Name == name {
			return v, true
		}
	}
	if name == s.stranger.Name {
		return s.stranger, true
	}
	return world.Account{}, false
}

func (s *session) bind(role tf.M) world.Account {
	k := tf.Int(role, "k", 1)
	if tf.Str(role, "role", "val") == "stranger" {
		return s.stranger
	}
	return s.w.Vals[(k-1)%len(s.w.Vals)]
}

func sigStatusName(st feedstypes.SignalPriceStatus) string {
	switch st {
	case feedstypes.SIGNAL_PRICE_STATUS_AVAILABLE:
		return "avail"
	case feedstypes.SIGNAL_PRICE_STATUS_UNAVAILABLE:
		return "unavail"
	case feedstypes.SIGNAL_PRICE_STATUS_UNSUPPORTED:
		return "unsupp"
	case feedstypes.SIGNAL_PRICE_STATUS_UNSPECIFIED:
		return "none"
	}
	return "other"
}

func sigStatus(name string) feedstypes.SignalPriceStatus {
	switch name {
	case "avail":
		return feedstypes.SIGNAL_PRICE_STATUS_AVAILABLE
	case "unavail":
		return feedstypes.SIGNAL_PRICE_STATUS_UNAVAILABLE
	case "unsupp":
		return feedstypes.SIGNAL_PRICE_STATUS_UNSUPPORTED
	}
	return feedstypes.SIGNAL_PRICE_STATUS_UNSPECIFIED
}

func priceStatusName(st feedstypes.PriceStatus) string {
	switch st {
	case feedstypes.PRICE_STATUS_AVAILABLE:
		return "AVAILABLE"
	case feedstypes.PRICE_STATUS_NOT_READY:
		return "NOT_READY"
	case feedstypes.PRICE_STATUS_UNKNOWN_SIGNAL_ID:
		return "UNKNOWN_SIGNAL_ID"
	case feedstypes.PRICE_STATUS_NOT_IN_CURRENT_FEEDS:
		return "NOT_IN_CURRENT_FEEDS"
	}
	return "OTHER"
}

// small converts a value that must fit TLC's 32-bit integers; anything else becomes a sentinel the spec rejects.
func small(x int64) int {
	if x < -1_000_000_000 || x > 1_000_000_000 {
		return -999_999_999
	}
	return int(x)
}

func smallU(x uint64) int {
	if x > 1_000_000_000 {
		return -999_999_999
	}
	return int(x)
}

// powerIndexOrder lists the validators the feeds end-blocker will iterate (staking power index, status Bonded).
func (s *session) powerIndexOrder(ctx sdk.Context) []string {
	order := []string{}
	_ = s.w.App.StakingKeeper.IterateBondedValidatorsByPower(ctx, func(_ int64, v stakingtypes.ValidatorI) bool {
		order = append(order, s.w.Name(v.GetOperator()))
		return false
	})
	return order
}

// project reads the real stores.
func (s *session) project() tf.M {
	ctx := s.r.Ctx
	fk := s.w.App.FeedsKeeper
	ok := s.w.App.OracleKeeper
	sk := s.w.App.StakingKeeper

	p := fk.GetParams(ctx)
	op := ok.GetParams(ctx)
	q, err := sdkmath.LegacyNewDecFromStr(p.PriceQuorum)
	qn := -1
	if err == nil {
		q100 := q.MulInt64(100)
		if q100.IsInteger() {
			qn = small(q100.TruncateInt64())
		}
	}

	cf := fk.GetCurrentFeeds(ctx)
	feeds := tf.M{}
	for _, sg := range Sigs {
		feeds[sg] = 0
	}
	for _, f := range cf.Feeds {
		feeds[f.SignalID] = small(f.Interval)
	}

	vprice, vstat, deact, bonded, power := tf.M{}, tf.M{}, tf.M{}, tf.M{}, tf.M{}
	jailed := []string{}
	for _, v := range s.w.Vals {
		per := tf.M{}
		for _, sg := range Sigs {
			per[sg] = tf.M{"st": "none", "price": 0, "ts": 0, "bh": 0}
		}
		if lst, err := fk.GetValidatorPriceList(ctx, v.ValAddr); err == nil {
			for _, vp := range lst.ValidatorPrices {
				if vp.SignalPriceStatus == feedstypes.SIGNAL_PRICE_STATUS_UNSPECIFIED {
					continue
				}
				per[vp.SignalID] = tf.M{"st": sigStatusName(vp.SignalPriceStatus), "price": smallU(vp.Price),
					"ts": small(vp.Timestamp - s.w.Cfg.GenesisTime.Unix()), "bh": small(vp.BlockHeight)}
			}
		}
		vprice[v.Name] = per
		b, j, pw := false, false, 0
		if sv, err := sk.GetValidator(ctx, v.ValAddr); err == nil {
			b, j = sv.IsBonded(), sv.IsJailed()
			if !sv.Tokens.ModRaw(unit).IsZero() {
				panic("harness: validator tokens are not a multiple of 10^6")
			}
			pw = small(sv.Tokens.QuoRaw(unit).Int64())
		}
		bonded[v.Name], power[v.Name] = b, pw
		if j {
			jailed = append(jailed, v.Name)
		}
	}
	for _, a := range append(append([]world.Account{}, s.w.Vals...), s.stranger) {
		st := ok.GetValidatorStatus(ctx, a.ValAddr)
		vstat[a.Name] = tf.M{"active": st.IsActive, "since": s.relTime(st.Since)}
		deact[a.Name] = s.deact[a.Name]
	}
	sort.Strings(jailed)

	price := tf.M{}
	for _, sg := range Sigs {
		price[sg] = tf.M{"status": "NONE", "price": 0, "ts": 0}
	}
	for _, pr := range fk.GetAllPrices(ctx) {
		price[pr.SignalID] = tf.M{"status": priceStatusName(pr.Status), "price": smallU(pr.Price),
			"ts": small(pr.Timestamp - s.w.Cfg.GenesisTime.Unix())}
	}

	return tf.M{
		"h": int(s.r.Height), "now": s.now(),
		"grace": small(p.GracePeriod), "cool": small(p.CooldownTime), "disc": small(p.AllowableBlockTimeDiscrepancy),
		"upd": small(p.CurrentFeedsUpdateInterval), "qn": qn,
		"penalty": small(int64(time.Duration(op.InactivePenaltyDuration) / time.Second)),
		"feeds":   feeds, "updT": small(cf.LastUpdateTimestamp - s.w.Cfg.GenesisTime.Unix()), "updH": small(cf.LastUpdateBlock),
		"vprice": vprice, "price": price, "vstat": vstat, "deactEv": deact,
		"bonded": bonded, "jailed": jailed, "power": power,
	}
}

func outc(o world.Outcome) tf.M {
	m := tf.M{"ok": o.OK()}
	if o.Panic != nil {
		m["panic"] = fmt.Sprint(o.Panic)
	}
	return m
}

func intsOf(v interface{}, def []int) []int {
	arr, ok := v.([]interface{})
	if !ok {
		return def
	}
	out := []int{}
	for _, x := range arr {
		if f, ok := x.(float64); ok {
			out = append(out, int(f))
		}
	}
	return out
}

func boolsOf(v interface{}, n int, def bool) []bool {
	out := make([]bool, n)
	for i := range out {
		out[i] = def
	}
	if arr, ok := v.([]interface{}); ok {
		for i, x := range arr {
			if b, ok := x.(bool); ok && i < n {
				out[i] = b
			}
		}
	}
	return out
}

// installFeeds sets the signal total powers (environment) so that CalculateNewCurrentFeeds yields the wanted list.
func (s *session) installFeeds(want tf.M) {
	fk := s.w.App.FeedsKeeper
	for _, sg := range Sigs {
		iv := tf.Int(want, sg, 0)
		pw := int64(0)
		if iv > 0 {
			pw = int64(maxInterval / iv)
		}
		fk.SetSignalTotalPower(s.r.Ctx.WithEventManager(sdk.NewEventManager()), feedstypes.NewSignal(sg, pw))
	}
}

func fracSeed(sc tf.Script) uint64 {
	h := fnv.New64a()
	h.Write([]byte(sc.Hash()))
	return h.Sum64()
}

// RunScript plays one script and records its trace.
func (d *Driver) RunScript(sc tf.Script) {
	// scripts built in memory and scripts read from a file must look the same to the loosely typed readers below
	if b, err := json.Marshal(sc); err == nil {
		var n tf.Script
		if json.Unmarshal(b, &n) == nil {
			sc = n
		}
	}
	tokens := intsOf(sc.C["tokens"], []int{1, 2, 3})
	w := d.world(tokens)
	s := &session{d: d, w: w, r: w.Branch(), deact: map[string]int{}}
	if d.Mode != "c15f" {
		// x/feeds reads block times in whole seconds only: block times get sub-second parts (C15's activation rule of the
		// oracle module compares full time values, so its traces keep whole seconds)
		s.r.Fracs = world.FracsFor(fracSeed(sc))
	}
	s.stranger = world.NewAccount("stranger1")
	s.stranger.Name = "x1"
	w.RegisterName(s.stranger.ValAddr.String(), "x1")
	fk, ok := w.App.FeedsKeeper, w.App.OracleKeeper

	// environment: parameters of this trace
	s.qn = tf.Int(sc.C, "qn", 50)
	p := fk.GetParams(s.r.Ctx)
	p.GracePeriod = int64(tf.Int(sc.C, "grace", 3))
	p.CooldownTime = int64(tf.Int(sc.C, "cool", 1))
	p.AllowableBlockTimeDiscrepancy = int64(tf.Int(sc.C, "disc", 1))
	p.CurrentFeedsUpdateInterval = int64(tf.Int(sc.C, "upd", 100))
	p.PriceQuorum = sdkmath.LegacyNewDecWithPrec(int64(s.qn), 2).String()
	p.PowerStepThreshold, p.MinInterval, p.MaxInterval, p.MaxCurrentFeeds = 1, 1, maxInterval, 10
	if err := fk.SetParams(s.r.Ctx, p); err != nil {
		panic(err)
	}
	op := ok.GetParams(s.r.Ctx)
	op.InactivePenaltyDuration = uint64(time.Duration(tf.Int(sc.C, "penalty", 2)) * time.Second)
	if err := ok.SetParams(s.r.Ctx, op); err != nil {
		panic(err)
	}

	// prelude: block 2 (now = 100) activates the initially active validators through the real handler;
	// block 3 (now = 101) gets the initial feed list (LastUpdate = 101 / 3)
	s.r.BeginBlock(100)
	active := boolsOf(sc.C["active"], len(w.Vals), true)
	for i, v := range w.Vals {
		if active[i] {
			if o := s.r.Deliver(&oracletypes.MsgActivate{Validator: v.ValAddr.String()}); !o.OK() {
				panic(fmt.Sprint("prelude activate failed: ", o.Err))
			}
		}
	}
	if o := s.r.EndBlock(); !o.OK() {
		panic(fmt.Sprint("prelude end block failed: ", o.Err, o.Panic))
	}
	s.r.BeginBlock(1)
	f0 := tf.Sub(sc.C, "feeds0")
	s.installFeeds(f0)
	var fl []feedstypes.Feed
	for _, sg := range Sigs {
		if iv := tf.Int(f0, sg, 0); iv > 0 {
			fl = append(fl, feedstypes.NewFeed(sg, int64(maxInterval/iv), int64(iv)))
		}
	}
	fk.SetCurrentFeeds(s.r.Ctx.WithEventManager(sdk.NewEventManager()), fl)

	d.W.Reset(sc.C, s.project(), sc.Steps)
	d.St.Traces++
	d.St.Events++
	for _, step := range sc.Steps {
		if s.halted {
			break
		}
		if s.apply(step) {
			d.St.Events++
		}
	}
	if s.interesting {
		h := sc.Hash()
		if !d.St.Distinct[h] {
			d.St.Distinct[h] = true
			d.St.Interesting++
		}
	}
}

// apply plays one step; false if the step was skipped (nothing logged).
func (s *session) apply(step tf.M) bool {
	switch tf.Str(step, "e", "") {
	case "Submit":
		s.submit(step)
	case "Activate":
		who := s.bind(tf.Sub(step, "who"))
		o := s.r.Deliver(&oracletypes.MsgActivate{Validator: who.ValAddr.String()})
		s.d.W.Step("Activate", tf.M{"a": who.Name}, outc(o), s.project())
	case "Jail":
		return s.jail(step)
	case "EndBlock":
		s.endBlock(step)
	case "Calc":
		s.calc(step)
	case "SetMaxInterval":
		// environment: governance changes feeds params.MaxInterval.  The parameter enters the feed list only when the
		// list is recomputed (an input of the specification: `nf`); until then the intervals stored in the current
		// feeds keep defining freshness.  Logged as an `Env` line: nothing of the model may change.
		fk := s.w.App.FeedsKeeper
		p := fk.GetParams(s.r.Ctx)
		p.MinInterval, p.MaxInterval = 1, int64(tf.Int(step, "v", maxInterval))
		if err := fk.SetParams(s.r.Ctx, p); err != nil {
			panic(err)
		}
		s.d.W.Step("Env", tf.M{"maxInterval": int(p.MaxInterval)}, tf.M{"ok": true}, s.project())
	default:
		panic("unknown step " + fmt.Sprint(step))
	}
	return true
}

func (s *session) submit(step tf.M) {
	who := s.bind(tf.Sub(step, "who"))
	toff := tf.Int(step, "toff", 0)
	shape := tf.Str(step, "shape", "wf")
	var sps []feedstypes.SignalPrice
	logged := []tf.M{}
	if arr, ok := step["sps"].([]interface{}); ok {
		for _, x := range arr {
			m, _ := x.(map[string]interface{})
			sg, st, pr := tf.Str(m, "sig", "s1"), tf.Str(m, "st", "avail"), tf.Int(m, "price", 0)
			sps = append(sps, feedstypes.NewSignalPrice(sigStatus(st), sg, uint64(pr)))
			logged = append(logged, tf.M{"sig": sg, "st": st, "price": pr})
		}
	}
	// malformed messages: the logged list is the well-formed base, `shape` says how it was damaged
	switch shape {
	case "dup":
		if len(sps) > 0 {
			sps = append(sps, sps[0])
		} else {
			shape = "wf"
		}
	case "nzprice":
		done := false
		for i := range sps {
			if sps[i].Status != feedstypes.SIGNAL_PRICE_STATUS_AVAILABLE {
				sps[i].Price = 7
				done = true
				break
			}
		}
		if !done {
			shape = "wf"
		}
	case "unspec":
		if len(sps) > 0 {
			sps[0].Status = feedstypes.SIGNAL_PRICE_STATUS_UNSPECIFIED
			sps[0].Price = 0
		} else {
			shape = "wf"
		}
	default:
		shape = "wf"
	}
	msg := feedstypes.NewMsgSubmitSignalPrices(who.ValAddr.String(), s.r.Time.Unix()+int64(toff), sps)
	o := s.r.Deliver(msg)
	if o.OK() {
		s.d.St.SubmitOK++
	} else {
		s.d.St.SubmitRej++
		if s.d.Mode == "c15f" {
			s.interesting = true
		}
	}
	s.d.W.Step("Submit", tf.M{"v": who.Name, "toff": toff, "sps": logged, "shape": shape}, outc(o), s.project())
}

// jail: environment step through the staking keeper; never empties the validator set.
func (s *session) jail(step tf.M) bool {
	who := s.bind(tf.Sub(step, "who"))
	sk := s.w.App.StakingKeeper
	sv, err := sk.GetValidator(s.r.Ctx, who.ValAddr)
	if err != nil || sv.IsJailed() || !sv.IsBonded() || len(s.powerIndexOrder(s.r.Ctx)) < 2 {
		return false
	}
	cons, err := sv.GetConsAddr()
	if err != nil {
		return false
	}
	if err := sk.Jail(s.r.Ctx.WithEventManager(sdk.NewEventManager()), cons); err != nil {
		panic(fmt.Sprint("harness: jail failed: ", err))
	}
	s.d.W.Step("Jail", tf.M{"v": who.Name}, tf.M{"ok": true}, s.project())
	return true
}

// availableInputs counts, for the interesting-rule only, the largest number of fresh AVAILABLE validator prices
// that went into one stored price of the block that just ended.
func (s *session) availableInputs(order []string, activeBefore map[string]bool) int {
	ctx := s.r.Ctx
	fk := s.w.App.FeedsKeeper
	best := 0
	for _, f := range fk.GetCurrentFeeds(ctx).Feeds {
		n := 0
		for _, name := range order {
			if !activeBefore[name] {
				continue
			}
			a, _ := s.account(name)
			lst, err := fk.GetValidatorPriceList(ctx, a.ValAddr)
			if err != nil {
				continue
			}
			for _, vp := range lst.ValidatorPrices {
				if vp.SignalID == f.SignalID && vp.SignalPriceStatus == feedstypes.SIGNAL_PRICE_STATUS_AVAILABLE &&
					vp.Timestamp >= s.r.Time.Unix()-f.Interval {
					n++
				}
			}
		}
		if n > best {
			best = n
		}
	}
	return best
}

func (s *session) endBlock(step tf.M) {
	dt := tf.Int(step, "dt", 1)
	if want, ok := step["feeds"].(map[string]interface{}); ok {
		s.installFeeds(want)
	}
	order := s.powerIndexOrder(s.r.Ctx)
	activeBefore := map[string]bool{}
	for _, name := range order {
		acc, _ := s.account(name)
		activeBefore[name] = s.w.App.OracleKeeper.GetValidatorStatus(s.r.Ctx, acc.ValAddr).IsActive
	}
	o := s.r.EndBlock()
	for _, va := range o.Attrs(oracletypes.EventTypeDeactivate, oracletypes.AttributeKeyValidator) {
		s.deact[s.w.Name(va)]++
		s.d.St.Deactivations++
		if s.d.Mode == "c15f" {
			s.interesting = true
		}
	}
	a := tf.M{"dt": dt, "order": order}
	if s.qn == 0 {
		a["tag"] = "quorum0" // input-only tag: PriceQuorum = 0 (lead of C02)
	}
	if !o.OK() {
		// the block cannot be produced: the trace ends here
		s.halted = true
		s.d.St.EndBlockErr++
		// the feed-list update precedes the price computation; the L1 context keeps it although the block failed
		nf := tf.M{}
		for _, f := range s.w.App.FeedsKeeper.GetCurrentFeeds(s.r.Ctx).Feeds {
			nf[f.SignalID] = small(f.Interval)
		}
		a["nf"] = nf
		s.d.W.Step("EndBlock", a, outc(o), s.project())
		return
	}
	// harness assumption of the spec: total bonded tokens = tokens of the validators in the power index
	ctx := s.r.Ctx
	tbt, err := s.w.App.StakingKeeper.TotalBondedTokens(ctx)
	if err != nil {
		panic(err)
	}
	sum := sdkmath.ZeroInt()
	after := s.powerIndexOrder(ctx)
	for _, name := range after {
		acc, _ := s.account(name)
		sv, _ := s.w.App.StakingKeeper.GetValidator(ctx, acc.ValAddr)
		sum = sum.Add(sv.Tokens)
	}
	if !sum.Equal(tbt) || fmt.Sprint(after) != fmt.Sprint(order) {
		panic(fmt.Sprintf("harness: bonded pool %s vs power index %s, order %v -> %v", tbt, sum, order, after))
	}
	if s.d.Mode != "c15f" {
		if s.availableInputs(order, activeBefore) >= 2 {
			s.interesting = true
		}
		for _, pr := range s.w.App.FeedsKeeper.GetAllPrices(ctx) {
			if pr.Status == feedstypes.PRICE_STATUS_AVAILABLE {
				s.d.St.PricesAvailable++
			}
		}
	}
	nf := tf.M{}
	for _, f := range s.w.App.FeedsKeeper.GetCurrentFeeds(ctx).Feeds {
		nf[f.SignalID] = small(f.Interval)
	}
	a["nf"] = nf
	ob := s.r.BeginBlock(int64(dt))
	if !ob.OK() {
		panic(fmt.Sprint("harness: begin block failed: ", ob.Err, ob.Panic))
	}
	s.d.W.Step("EndBlock", a, tf.M{"ok": true}, s.project())
}

// calc: the pure binding.  Powers are multiplied by 2^kexp, prices by 2^pexp, timestamps shifted to the block time.
func (s *session) calc(step tf.M) {
	fn := tf.Str(step, "fn", "price")
	kexp, pexp := uint(tf.Int(step, "kexp", 0)), uint(tf.Int(step, "pexp", 0))
	quorum := tf.Int(step, "quorum", 0)
	base := s.r.Time.Unix()
	var infos []feedstypes.ValidatorPriceInfo
	logged := []tf.M{}
	nAvail := 0
	if arr, ok := step["infos"].([]interface{}); ok {
		for _, x := range arr {
			m, _ := x.(map[string]interface{})
			pw, ts, pr, st := tf.Int(m, "pw", 1), tf.Int(m, "ts", 0), tf.Int(m, "price", 0), tf.Str(m, "st", "avail")
			if st == "avail" {
				nAvail++
			}
			infos = append(infos, feedstypes.NewValidatorPriceInfo(sigStatus(st),
				sdkmath.NewInt(int64(pw)).Mul(sdkmath.NewIntFromUint64(uint64(1)<<kexp)), uint64(pr)<<pexp, base+int64(ts)))
			logged = append(logged, tf.M{"pw": pw, "ts": ts, "price": pr, "st": st})
		}
	}
	res := tf.M{"ok": false, "status": "PANIC", "price": 0}
	unscale := func(p uint64) int {
		if p&((uint64(1)<<pexp)-1) != 0 {
			return -999_999_999
		}
		return smallU(p >> pexp)
	}
	func() {
		defer func() {
			if p := recover(); p != nil {
				res["panic"] = fmt.Sprint(p)
			}
		}()
		if fn == "median" {
			p, err := feedstypes.MedianValidatorPriceInfos(infos)
			if err != nil {
				res = tf.M{"ok": false, "status": "-", "price": 0}
			} else {
				res = tf.M{"ok": true, "status": "-", "price": unscale(p)}
			}
			return
		}
		q := sdkmath.NewInt(int64(quorum)).Mul(sdkmath.NewIntFromUint64(uint64(1) << kexp))
		pr, err := s.w.App.FeedsKeeper.CalculatePrice(s.r.Sub(), feedstypes.NewFeed("s1", 1, 1), infos, q)
		if err != nil {
			res = tf.M{"ok": false, "status": "ERROR", "price": 0}
		} else {
			res = tf.M{"ok": true, "status": priceStatusName(pr.Status), "price": unscale(pr.Price)}
		}
	}()
	s.d.St.Calc++
	if nAvail >= 2 {
		s.d.St.CalcAvail2++
		if s.d.Mode != "c15f" {
			s.interesting = true
		}
	}
	s.d.W.Step("Calc", tf.M{"fn": fn, "infos": logged, "quorum": quorum, "kexp": int(kexp), "pexp": int(pexp)}, res, s.project())
}

// ---- random scripts ---------------------------------------------------------------------------------------------

// token palettes: a few genesis token vectors (one validator holding most power, equal powers, distinct powers)
var palettes = [][]int{{1, 2, 3}, {9, 1, 1}, {2, 2, 2}, {4, 3, 1}, {1, 1, 2, 3}, {9, 1, 2, 1}, {3, 3, 3, 3}}

func pick(rng *rand.Rand, xs []int) int { return xs[rng.Intn(len(xs))] }

func randomEntries(rng *rand.Rand, n int) []tf.M {
	out := []tf.M{}
	for i := 0; i < n; i++ {
		st := "avail"
		if x := rng.Intn(10); x < 2 {
			st = "unavail"
		} else if x < 4 {
			st = "unsupp"
		}
		pr := 0
		if st == "avail" {
			pr = 1 + rng.Intn(4)
		}
		out = append(out, tf.M{"pw": pick(rng, []int{1, 2, 3, 4, 9}), "ts": rng.Intn(4), "price": pr, "st": st})
	}
	return out
}

// RandomCalcScript: a list of Calc cases (0..5 entries; quorum around the boundaries; all power / price scales).
func RandomCalcScript(rng *rand.Rand) tf.Script {
	var steps []tf.M
	for i := 0; i < 40; i++ {
		infos := randomEntries(rng, rng.Intn(6))
		total := 0
		for _, e := range infos {
			total += e["pw"].(int)
		}
		q := []int{0, total, total + 1, (total + 1) / 2, total - 1, rng.Intn(total + 2)}[rng.Intn(6)]
		if q < 0 {
			q = 0
		}
		fn := "price"
		if rng.Intn(3) == 0 {
			fn = "median"
		}
		steps = append(steps, tf.M{"e": "Calc", "fn": fn, "infos": infos, "quorum": q,
			"kexp": pick(rng, []int{0, 32, 58}), "pexp": pick(rng, []int{0, 60})})
	}
	return tf.Script{Fam: "FeedsPrice", C: tf.M{"mode": "calc", "tokens": []int{1, 2, 3}, "active": []bool{true, true, true},
		"feeds0": tf.M{"s1": 0, "s2": 0}, "grace": 3, "cool": 1, "disc": 1, "upd": 100, "qn": 50, "penalty": 2}, Steps: steps}
}

// randomSps: a price list over the signals that are current feeds (each left out now and then); rarely a signal that
// is not a current feed ("zz" never is).
func randomSps(rng *rand.Rand, cur tf.M, priceMax int, statuses []string) []tf.M {
	sps := []tf.M{}
	for _, sg := range Sigs {
		if tf.Int(cur, sg, 0) == 0 {
			if rng.Intn(20) != 0 {
				continue
			}
		} else if rng.Intn(8) == 0 {
			continue
		}
		st := statuses[rng.Intn(len(statuses))]
		pr := 0
		if st == "avail" {
			pr = 1 + rng.Intn(priceMax)
		}
		sps = append(sps, tf.M{"sig": sg, "st": st, "price": pr})
	}
	if rng.Intn(40) == 0 {
		sps = append(sps, tf.M{"sig": "zz", "st": "avail", "price": 1})
	}
	return sps
}

// feedTracker mirrors, for the generators only, which feed list is current: the list of an EndBlock step takes
// effect when the height of that block is a multiple of the update interval (the trace starts in block 3).
type feedTracker struct {
	h, upd int
	cur    tf.M
}

func (t *feedTracker) endBlock(feeds tf.M) {
	if t.h%t.upd == 0 {
		t.cur = feeds
	}
	t.h++
}

func randomFeeds(rng *rand.Rand, ivs []int) tf.M {
	f := tf.M{}
	for _, sg := range Sigs {
		if rng.Intn(4) == 0 {
			f[sg] = 0
		} else {
			f[sg] = pick(rng, ivs)
		}
	}
	return f
}

func activeVector(rng *rand.Rand, n int, pInactive int) []bool {
	out := make([]bool, n)
	for i := range out {
		out[i] = rng.Intn(pInactive) != 0
	}
	return out
}

// RandomScript (C06): system scripts with all statuses, several prices, quorum boundaries, stale prices, inactive and
// jailed validators; one in four scripts is a list of Calc cases.
func RandomScript(rng *rand.Rand) tf.Script {
	if rng.Intn(4) == 0 {
		return RandomCalcScript(rng)
	}
	tokens := palettes[rng.Intn(len(palettes))]
	nval := len(tokens)
	qn := pick(rng, []int{25, 30, 50, 50, 67, 100})
	if rng.Intn(40) == 0 {
		qn = 0 // degenerate quorum: end-block events are tagged "quorum0"
	}
	ivs := []int{1, 2, 3, 3, 6, 6}
	want := randomFeeds(rng, ivs)
	upd := pick(rng, []int{3, 4, 100, 100})
	ft := &feedTracker{h: 3, upd: upd, cur: want}
	c := tf.M{"mode": "sys", "tokens": tokens, "active": activeVector(rng, nval, 8), "feeds0": want,
		"grace": pick(rng, []int{4, 10, 30}), "cool": pick(rng, []int{1, 1, 2}), "disc": 1,
		"upd": upd, "qn": qn, "penalty": pick(rng, []int{0, 2})}
	var steps []tf.M
	// rounds: most validators submit fresh prices (in a random order), then the block ends
	nblocks := 5 + rng.Intn(6)
	for b := 0; b < nblocks; b++ {
		if rng.Intn(4) == 0 {
			steps = append(steps, tf.M{"e": "Activate", "who": tf.M{"role": "val", "k": 1 + rng.Intn(nval)}})
		}
		if rng.Intn(20) == 0 {
			steps = append(steps, tf.M{"e": "Jail", "who": tf.M{"role": "val", "k": 1 + rng.Intn(nval)}})
		}
		if rng.Intn(6) == 0 {
			// governance changes MaxInterval below / back above the intervals of the current feeds
			steps = append(steps, tf.M{"e": "SetMaxInterval", "v": pick(rng, []int{1, 1, 2, 3, maxInterval})})
		}
		for _, i := range rng.Perm(nval) {
			if rng.Intn(20) < 17 {
				steps = append(steps, tf.M{"e": "Submit", "who": tf.M{"role": "val", "k": i + 1}, "toff": 0,
					"sps": randomSps(rng, ft.cur, 3, []string{"avail", "avail", "avail", "avail", "unavail", "unsupp"}), "shape": "wf"})
			}
		}
		if rng.Intn(5) == 0 {
			want = randomFeeds(rng, ivs)
		}
		steps = append(steps, tf.M{"e": "EndBlock", "dt": pick(rng, []int{0, 1, 1, 1, 1, 2, 3}), "feeds": want})
		ft.endBlock(want)
	}
	return tf.Script{Fam: "FeedsPrice", C: c, Steps: steps}
}

// RandomScriptC15F: timing around the miss rule (equal timestamps, slow blocks, short grace and intervals, frequent
// feed-list updates), submissions at the cooldown / discrepancy boundaries, malformed and foreign submissions,
// (re)activation around the penalty.
func RandomScriptC15F(rng *rand.Rand) tf.Script {
	tokens := palettes[rng.Intn(len(palettes))]
	nval := len(tokens)
	ivs := []int{1, 2, 3, 4, 6}
	want := randomFeeds(rng, ivs)
	upd := pick(rng, []int{2, 3, 5, 100, 100})
	ft := &feedTracker{h: 3, upd: upd, cur: want}
	c := tf.M{"mode": "sys", "tokens": tokens, "active": activeVector(rng, nval, 4), "feeds0": want,
		"grace": pick(rng, []int{2, 3, 4, 6}), "cool": pick(rng, []int{1, 2, 4}), "disc": pick(rng, []int{1, 2}),
		"upd": upd, "qn": 50, "penalty": pick(rng, []int{0, 2, 5})}
	var steps []tf.M
	n := 18 + rng.Intn(22)
	for i := 0; i < n; i++ {
		x := rng.Intn(100)
		who := tf.M{"role": "val", "k": 1 + rng.Intn(nval)}
		if rng.Intn(15) == 0 {
			who = tf.M{"role": "stranger", "k": 1}
		}
		switch {
		case x < 40:
			toff := 0
			if rng.Intn(4) == 0 {
				toff = pick(rng, []int{-2, -1, 1, 2})
			}
			shape := "wf"
			if rng.Intn(10) == 0 {
				shape = []string{"dup", "nzprice", "unspec"}[rng.Intn(3)]
			}
			steps = append(steps, tf.M{"e": "Submit", "who": who, "toff": toff,
				"sps": randomSps(rng, ft.cur, 1, []string{"avail", "avail", "unavail", "unsupp"}), "shape": shape})
		case x < 52:
			steps = append(steps, tf.M{"e": "Activate", "who": who})
		case x < 54:
			steps = append(steps, tf.M{"e": "Jail", "who": who})
		case x < 57:
			steps = append(steps, tf.M{"e": "SetMaxInterval", "v": pick(rng, []int{1, 2, 3, 5, maxInterval})})
		default:
			if rng.Intn(3) == 0 {
				want = randomFeeds(rng, ivs)
			}
			steps = append(steps, tf.M{"e": "EndBlock", "dt": pick(rng, []int{0, 0, 1, 1, 2, 3, 4}), "feeds": want})
			ft.endBlock(want)
		}
	}
	for i := 0; i < 2; i++ {
		steps = append(steps, tf.M{"e": "EndBlock", "dt": 1, "feeds": want})
		ft.endBlock(want)
	}
	return tf.Script{Fam: "FeedsPrice", C: c, Steps: steps}
}
