// Package tracefmt writes the ndjson traces that TLC validates (one JSON object per step) and reads
// the abstract scripts (one JSON object per script) produced by TLC's GEN role or by the random
// generators of the family drivers.
package tracefmt

import (
	"bufio"
	"crypto/sha256"
	"encoding/hex"
	"encoding/json"
	"os"
)

type M = map[string]interface{}

// Script is an abstract input sequence; participants are roles, never concrete identities.
type Script struct {
	Fam   string `json:"fam,omitempty"`
	C     M      `json:"c"`
	Steps []M    `json:"steps"`
}

// Hash identifies a script (for distinct counting).
func (s Script) Hash() string {
	b, _ := json.Marshal(s)
	h := sha256.Sum256(b)
	return hex.EncodeToString(h[:8])
}

// ReadScripts reads one script per line; missing file => nil.
func ReadScripts(path string) ([]Script, error) {
	if path == "" {
		return nil, nil
	}
	f, err := os.Open(path)
	if err != nil {
		return nil, err
	}
	defer f.Close()
	var out []Script
	sc := bufio.NewScanner(f)
	sc.Buffer(make([]byte, 1<<20), 1<<26)
	for sc.Scan() {
		line := sc.Bytes()
		if len(line) == 0 {
			continue
		}
		var s Script
		if err := json.Unmarshal(line, &s); err != nil {
			return nil, err
		}
		out = append(out, s)
	}
	return out, sc.Err()
}

// Writer emits trace lines.
type Writer struct {
	f     *os.File
	w     *bufio.Writer
	T     int // trace number
	I     int // step number within the trace
	Lines int
}

func NewWriter(path string) (*Writer, error) {
	f, err := os.Create(path)
	if err != nil {
		return nil, err
	}
	return &Writer{f: f, w: bufio.NewWriterSize(f, 1<<20)}, nil
}

// Reset starts a new trace.
func (w *Writer) Reset(c interface{}, s interface{}, script interface{}) {
	w.T++
	w.I = 0
	w.emit(M{"t": w.T, "i": 0, "e": "Reset", "c": c, "s": s, "script": script})
}

// Step logs one step: event name, arguments, outcome and projected state.
func (w *Writer) Step(e string, a interface{}, o interface{}, s interface{}) {
	w.I++
	w.emit(M{"t": w.T, "i": w.I, "e": e, "a": a, "o": o, "s": s})
}

func (w *Writer) emit(m M) {
	b, err := json.Marshal(m)
	if err != nil {
		panic(err)
	}
	w.w.Write(b)
	w.w.WriteByte('\n')
	w.Lines++
}

func (w *Writer) Close() error {
	if err := w.w.Flush(); err != nil {
		return err
	}
	return w.f.Close()
}

// Helpers to read loosely typed script steps.
func Int(m M, k string, def int) int {
	switch v := m[k].(type) {
	case float64:
		return int(v)
	case int:
		return v
	case int64:
		return int(v)
	}
	return def
}

func Str(m M, k string, def string) string {
	if v, ok := m[k].(string); ok {
		return v
	}
	return def
}

func Bool(m M, k string, def bool) bool {
	if v, ok := m[k].(bool); ok {
		return v
	}
	return def
}

func Sub(m M, k string) M {
	if v, ok := m[k].(map[string]interface{}); ok {
		return v
	}
	return M{}
}

// Ints reads a list of integers whether it came from JSON ([]interface{} of float64) or from Go code.
func Ints(m M, k string) []int {
	var out []int
	switch v := m[k].(type) {
	case []int:
		return v
	case []interface{}:
		for _, x := range v {
			switch y := x.(type) {
			case float64:
				out = append(out, int(y))
			case int:
				out = append(out, y)
			}
		}
	}
	return out
}

// Strs reads a list of strings whether it came from JSON or from Go code.
func Strs(m M, k string) []string {
	var out []string
	switch v := m[k].(type) {
	case []string:
		return v
	case []interface{}:
		for _, x := range v {
			if s, ok := x.(string); ok {
				out = append(out, s)
			}
		}
	}
	return out
}
