package fam_oracleibc

import (
	"fmt"
	"testing"

	clienttypes "github.com/cosmos/ibc-go/v8/modules/core/02-client/types"
	channeltypes "github.com/cosmos/ibc-go/v8/modules/core/04-channel/types"
	host "github.com/cosmos/ibc-go/v8/modules/core/24-host"
	ibcexported "github.com/cosmos/ibc-go/v8/modules/core/exported"
	localhost "github.com/cosmos/ibc-go/v8/modules/light-clients/09-localhost"

	sdk "github.com/cosmos/cosmos-sdk/types"

	oracletypes "github.com/bandprotocol/chain/v3/x/oracle/types"

	"vdrive/world"
)

func TestProbe(t *testing.T) {
	w := world.New(world.DefaultConfig())
	defer w.Close()
	r := w.Branch()
	r.BeginBlock(100)
	for _, v := range w.Vals {
		if o := r.Deliver(&oracletypes.MsgActivate{Validator: v.ValAddr.String()}); !o.OK() {
			t.Fatal(o.Err)
		}
	}
	app := w.App
	cs, found := app.IBCKeeper.ClientKeeper.GetClientState(r.Ctx, ibcexported.LocalhostClientID)
	fmt.Println("localhost client", found, cs)
	rel := w.Accts[1]
	hops := []string{ibcexported.LocalhostConnectionID}
	o := r.Deliver(channeltypes.NewMsgChannelOpenInit("oracle", oracletypes.Version, channeltypes.UNORDERED, hops, "oracle", rel.Addr.String()))
	fmt.Println("init", o.Err, o.Panic)
	ph := clienttypes.GetSelfHeight(r.Ctx)
	o = r.Deliver(channeltypes.NewMsgChannelOpenTry("oracle", oracletypes.Version, channeltypes.UNORDERED, hops, "oracle", "channel-0", oracletypes.Version, localhost.SentinelProof, ph, rel.Addr.String()))
	fmt.Println("try", o.Err, o.Panic)
	o = r.Deliver(channeltypes.NewMsgChannelOpenAck("oracle", "channel-0", "channel-1", oracletypes.Version, localhost.SentinelProof, ph, rel.Addr.String()))
	fmt.Println("ack", o.Err, o.Panic)
	o = r.Deliver(channeltypes.NewMsgChannelOpenConfirm("oracle", "channel-1", localhost.SentinelProof, ph, rel.Addr.String()))
	fmt.Println("confirm", o.Err, o.Panic)
	r.EndBlock()
	r.BeginBlock(1)

	data := oracletypes.NewOracleRequestPacketData("cl-1", world.ScriptOK3, []byte("cd"), 2, 1, 0, sdk.NewCoins(sdk.NewInt64Coin("uband", 100)), 40000, 300000)
	cap, ok := app.ScopedOracleKeeper.GetCapability(r.Ctx, host.ChannelCapabilityPath("oracle", "channel-1"))
	fmt.Println("cap", ok)
	ts := uint64(r.Time.UnixNano() + 600e9)
	seq, err := app.IBCKeeper.ChannelKeeper.SendPacket(r.Ctx, cap, "oracle", "channel-1", clienttypes.ZeroHeight(), ts, data.GetBytes())
	fmt.Println("send", seq, err)
	pkt := channeltypes.NewPacket(data.GetBytes(), seq, "oracle", "channel-1", "oracle", "channel-0", clienttypes.ZeroHeight(), ts)
	bal0 := app.BankKeeper.GetBalance(r.Ctx, rel.Addr, "uband")
	ph = clienttypes.GetSelfHeight(r.Ctx)
	o = r.Deliver(channeltypes.NewMsgRecvPacket(pkt, localhost.SentinelProof, ph, rel.Addr.String()))
	fmt.Println("recv", o.Err, o.Panic, len(o.Events))
	for _, e := range o.Events {
		fmt.Println("  ev", e.Type)
	}
	bal1 := app.BankKeeper.GetBalance(r.Ctx, rel.Addr, "uband")
	fmt.Println("bal", bal0, bal1, "count", app.OracleKeeper.GetRequestCount(r.Ctx))
	ackc, f := app.IBCKeeper.ChannelKeeper.GetPacketAcknowledgement(r.Ctx, "oracle", "channel-0", seq)
	fmt.Printf("ack commitment %x %v\n", ackc, f)
	rq, err := app.OracleKeeper.GetRequest(r.Ctx, 1)
	fmt.Println(rq.IBCChannel, rq.Requester == rel.Addr.String(), err)
	// report
	for _, v := range rq.RequestedValidators {
		va, _ := sdk.ValAddressFromBech32(v)
		var reps []oracletypes.RawReport
		for _, rr := range rq.RawRequests {
			reps = append(reps, oracletypes.NewRawReport(rr.ExternalID, 0, []byte("ans")))
		}
		o = r.Deliver(oracletypes.NewMsgReportData(1, reps, va))
		fmt.Println("report", o.Err)
		break
	}
	o = r.EndBlock()
	fmt.Println("endblock", o.Err, o.Panic)
	for _, e := range o.Events {
		if e.Type == "send_packet" || e.Type == "resolve" || e.Type == "send_packet_fail" {
			fmt.Println("  ev", e.Type)
			for _, a := range e.Attributes {
				fmt.Println("     ", a.Key, "=", a.Value)
			}
		}
	}
	c := app.IBCKeeper.ChannelKeeper.GetPacketCommitment(r.Ctx, "oracle", "channel-0", 1)
	fmt.Printf("commitment %x\n", c)
	ns, _ := app.IBCKeeper.ChannelKeeper.GetNextSequenceSend(r.Ctx, "oracle", "channel-0")
	fmt.Println("nextseq", ns)
}
