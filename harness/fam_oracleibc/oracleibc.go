// Package fam_oracleibc drives the IBC side of x/oracle (extension X04, OracleIBC.tla) on the real
// in-process app (L1 layer of harness/world):
//
//   - request packets go through the REAL ibc core message server (MsgRecvPacket -> channel keeper ->
//     router -> oracle.IBCModule.OnRecvPacket -> keeper/relay.go), on real oracle channels that are opened
//     per trace with the real handshake messages over ibc-go's localhost client (09-localhost,
//     connection-localhost): both channel ends live on this chain, the band side is channel-0 / channel-2,
//     the "client chain" side is channel-1 / channel-3, and proofs are the localhost sentinel proof;
//   - response packets are observed as `send_packet` events plus the packet commitments in the ibc store;
//   - data sources / oracle scripts go through the real oracle message server.
//
// After every step the real stores are projected onto the variables of OracleIBC.tla.  Verdicts are
// TLC's (OracleIBC_Trace.tla), not this package's.
package fam_oracleibc

import (
	"bytes"
	gz "compress/gzip"
	"crypto/sha256"
	"encoding/base64"
	"encoding/hex"
	"encoding/json"
	"fmt"
	"sort"
	"strconv"
	"strings"
	"time"

	abci "github.com/cometbft/cometbft/abci/types"

	clienttypes "github.com/cosmos/ibc-go/v8/modules/core/02-client/types"
	channeltypes "github.com/cosmos/ibc-go/v8/modules/core/04-channel/types"
	host "github.com/cosmos/ibc-go/v8/modules/core/24-host"
	ibcexported "github.com/cosmos/ibc-go/v8/modules/core/exported"
	localhost "github.com/cosmos/ibc-go/v8/modules/light-clients/09-localhost"

	sdk "github.com/cosmos/cosmos-sdk/types"
	authtypes "github.com/cosmos/cosmos-sdk/x/auth/types"
	govtypes "github.com/cosmos/cosmos-sdk/x/gov/types"

	"github.com/bandprotocol/chain/v3/testing/testdata"
	oracletypes "github.com/bandprotocol/chain/v3/x/oracle/types"

	tf "vdrive/tracefmt"
	"vdrive/world"
)

const port = "oracle"

// band-side channel token -> (band channel id, counterparty channel id)
var chanIDs = map[string][2]string{"c0": {"channel-0", "channel-1"}, "c1": {"channel-2", "channel-3"}}
var chanTok = map[string]string{"channel-0": "c0", "channel-2": "c1"}
var chanOrder = []string{"c0", "c1"}

type Stats struct {
	Traces, Events, Interesting int
	Distinct                    map[string]bool
	Packets, Fails, ErrAcks     int
}

type Driver struct {
	worlds map[int]*world.World
	W      *tf.Writer
	St     Stats
	Mode   string

	dsCont   map[string][]byte // data-source content token -> bytes of the message
	osCode   map[string][]byte // oracle-script code token -> bytes of the message
	fileTok  map[string]string // file name (sha256 hex) -> file token
	fileBody map[string][]byte // file token -> the bytes the cached file must hold
}

func gzipOf(b []byte) []byte {
	var buf bytes.Buffer
	w := gz.NewWriter(&buf)
	_, _ = w.Write(b)
	_ = w.Close()
	return buf.Bytes()
}

func sha(b []byte) string {
	h := sha256.Sum256(b)
	return hex.EncodeToString(h[:])
}

func NewDriver(w *tf.Writer) *Driver {
	d := &Driver{worlds: map[int]*world.World{}, W: w, St: Stats{Distinct: map[string]bool{}},
		dsCont: map[string][]byte{}, osCode: map[string][]byte{}, fileTok: map[string]string{}, fileBody: map[string][]byte{}}
	plain := map[string][]byte{"e1": []byte("#!/bin/sh\necho one\n"), "e2": []byte("#!/bin/sh\necho two\n"),
		"g1": []byte("code1"), "g2": []byte("code2"), "g3": []byte("code3")}
	for t, b := range plain {
		d.fileTok[sha(b)] = t
		d.fileBody[t] = b
	}
	d.dsCont["e1"], d.dsCont["e2"] = plain["e1"], plain["e2"]
	d.dsCont["gz1"] = gzipOf(plain["e1"])
	d.dsCont["dnm"] = oracletypes.DoNotModifyBytes
	d.dsCont["gzdnm"] = gzipOf(oracletypes.DoNotModifyBytes)
	d.dsCont["empty"] = []byte{}
	d.dsCont["big"] = bytes.Repeat([]byte("x"), oracletypes.MaxExecutableSize+1)
	d.dsCont["gzbad"] = append([]byte{0x1f, 0x8b, 0x08}, []byte("this is no gzip stream")...)

	wasm := map[string][]byte{"w3": testdata.Wasm1, "wfail": world.Wat2Wasm(watFail1), "w4": testdata.Wasm4,
		"w1": world.Wat2Wasm(watOK1), "wnil": world.Wat2Wasm(watOKNil)}

	for t, code := range wasm {
		comp := testdata.Compile(code)
		d.fileTok[sha(comp)] = t
		d.fileBody[t] = comp
		d.osCode[t] = code
	}
	d.osCode["gzw1"] = gzipOf(wasm["w1"])
	d.osCode["dnm"] = oracletypes.DoNotModifyBytes
	d.osCode["gzdnm"] = gzipOf(oracletypes.DoNotModifyBytes)
	d.osCode["empty"] = []byte{}
	d.osCode["notwasm"] = []byte("this is certainly not a wasm module")
	d.osCode["gzbad"] = d.dsCont["gzbad"]
	return d
}

func (d *Driver) Close() {
	for _, w := range d.worlds {
		w.Close()
	}
}

func (d *Driver) world(nval int) *world.World {
	if w, ok := d.worlds[nval]; ok {
		return w
	}
	cfg := world.DefaultConfig()
	cfg.GenesisScripts = 5 // the scripts of this family use oracle script id 6 as "the first id that does not exist yet"
	toks := []int64{100_000_000, 1_000_000, 99_999_999, 50_000_000, 70_000_000}
	cfg.ValTokens = toks[:nval]
	w := world.New(cfg)
	d.worlds[nval] = w
	return w
}

type pkt struct {
	Ch     string `json:"ch"`
	Seq    int    `json:"seq"`
	ID     int    `json:"id"`
	Client string `json:"client"`
	Ans    int    `json:"ans"`
	Rt     int    `json:"rt"`
	ResT   int    `json:"resT"`
	Status string `json:"status"`
	Result string `json:"result"`
	raw    channeltypes.Packet
}

type session struct {
	d           *Driver
	w           *world.World
	r           *world.Run
	strangers   []world.Account
	payers      map[string]world.Account
	accts       map[string]world.Account
	acctName    map[string]string // bech32 -> token
	resolveEv   map[uint64]int
	committee   map[uint64][]string
	rawReqs     map[uint64][]oracletypes.RawRequest
	cstate      map[string]string
	acks        []tf.M
	sent        []pkt
	nfail       int
	nclient     int
	interesting bool
}

func (s *session) now() int { return int(s.r.Time.Unix() - s.w.Cfg.GenesisTime.Unix()) }

func (s *session) rel(t time.Time) int {
	if t.IsZero() || t.Unix() <= 0 {
		return -1
	}
	return int(t.Unix() - s.w.Cfg.GenesisTime.Unix())
}

func (s *session) relUnix(u int64) int { return int(u - s.w.Cfg.GenesisTime.Unix()) }

func (s *session) valByName(n string) (sdk.ValAddress, bool) {
	for _, v := range s.w.Vals {
		if v.Name == n {
			return v.ValAddr, true
		}
	}
	for _, v := range s.strangers {
		if v.Name == n {
			return v.ValAddr, true
		}
	}
	return nil, false
}

func (s *session) allNames() []string {
	var out []string
	for _, v := range s.w.Vals {
		out = append(out, v.Name)
	}
	for _, v := range s.strangers {
		out = append(out, v.Name)
	}
	return out
}

// deliver is world.Run.Deliver that also keeps the events of the message results (the router gives every
// handler its own event manager): the acknowledgement is only visible there.
func (s *session) deliver(msgs ...sdk.Msg) world.Outcome {
	r := s.r
	em := sdk.NewEventManager()
	txCtx, write := r.Ctx.WithEventManager(em).CacheContext()
	txCtx = txCtx.WithEventManager(em)
	var out world.Outcome
	var evs []abci.Event
	func() {
		defer func() {
			if p := recover(); p != nil {
				out.Panic = p
			}
		}()
		for _, m := range msgs {
			if v, ok := m.(interface{ ValidateBasic() error }); ok {
				if err := v.ValidateBasic(); err != nil {
					out.Err = err
					return
				}
			}
			h := r.W.App.MsgServiceRouter().Handler(m)
			if h == nil {
				out.Err = fmt.Errorf("no handler for %T", m)
				return
			}
			res, err := h(txCtx, m)
			if err != nil {
				out.Err = err
				return
			}
			if res != nil {
				evs = append(evs, res.Events...)
			}
		}
	}()
	if out.OK() {
		write()
		out.Events = append(em.Events().ToABCIEvents(), evs...)
	}
	return out
}

func tokOfString(x string) string {
	if x == oracletypes.DoNotModify {
		return "dnm"
	}
	return x
}

func strOfTok(t string) string {
	switch t {
	case "dnm":
		return oracletypes.DoNotModify
	case "long":
		return strings.Repeat("n", oracletypes.MaxNameLength+1)
	}
	return t
}

func (s *session) fileToken(fn string) string {
	if fn == oracletypes.DoNotModify {
		return "dnm"
	}
	if t, ok := s.d.fileTok[fn]; ok {
		return t
	}
	if len(fn) > 8 {
		return "?" + fn[:8]
	}
	return "?" + fn
}

// fileHeld reports whether the file cache holds, under that name, exactly the bytes that belong to the token.
func (s *session) fileHeld(fn string) (ok bool) {
	defer func() {
		if recover() != nil {
			ok = false
		}
	}()
	tok, known := s.d.fileTok[fn]
	if !known {
		return false
	}
	got := s.w.App.OracleKeeper.GetFile(fn)
	return bytes.Equal(got, s.d.fileBody[tok]) && sha(got) == fn
}

func resultTok(b []byte) string {
	switch {
	case len(b) == 0:
		return "empty"
	case string(b) == "test":
		return "data"
	}
	return "other:" + hex.EncodeToString(b)
}

func statusName(st oracletypes.ResolveStatus) string {
	switch st {
	case oracletypes.RESOLVE_STATUS_SUCCESS:
		return "SUCCESS"
	case oracletypes.RESOLVE_STATUS_FAILURE:
		return "FAILURE"
	case oracletypes.RESOLVE_STATUS_EXPIRED:
		return "EXPIRED"
	case oracletypes.RESOLVE_STATUS_OPEN:
		return "OPEN"
	}
	return "OTHER"
}

func (s *session) name(bech string) string {
	if n, ok := s.acctName[bech]; ok {
		return n
	}
	return s.w.Name(bech)
}

// project reads the real stores.
func (s *session) project() tf.M {
	ctx := s.r.Ctx
	app := s.w.App
	k := app.OracleKeeper
	count := k.GetRequestCount(ctx)
	reqs, ress, metas, rxs := []tf.M{}, []tf.M{}, []tf.M{}, []tf.M{}
	reps := [][]string{}
	evs := []int{}
	chans := []string{}
	for id := uint64(1); id <= count; id++ {
		rid := oracletypes.RequestID(id)
		if rq, err := k.GetRequest(ctx, rid); err == nil {
			vals := []string{}
			for _, v := range rq.RequestedValidators {
				vals = append(vals, s.w.Name(v))
			}
			sort.Strings(vals)
			ok := true
			if scr, err := k.GetOracleScript(ctx, rq.OracleScriptID); err == nil {
				ok = s.fileToken(scr.Filename) != "wfail"
			}
			reqs = append(reqs, tf.M{"present": true, "vals": vals, "min": int(rq.MinCount), "rh": int(rq.RequestHeight),
				"rt": s.relUnix(rq.RequestTime), "ok": ok})
			ch := "none"
			if rq.IBCChannel != nil {
				ch = rq.IBCChannel.PortId + "/" + rq.IBCChannel.ChannelId
				if t, ok := chanTok[rq.IBCChannel.ChannelId]; ok && rq.IBCChannel.PortId == port {
					ch = t
				}
			}
			chans = append(chans, ch)
			metas = append(metas, tf.M{"os": int(rq.OracleScriptID), "client": rq.ClientID})
		} else {
			reqs = append(reqs, tf.M{"present": false})
			chans = append(chans, "none")
			metas = append(metas, tf.M{"os": 0, "client": ""})
		}
		rs := []string{}
		for _, rp := range k.GetReports(ctx, rid) {
			rs = append(rs, s.w.Name(rp.Validator))
		}
		sort.Strings(rs)
		reps = append(reps, rs)
		if rr, err := k.GetResult(ctx, rid); err == nil {
			ress = append(ress, tf.M{"status": statusName(rr.ResolveStatus), "ans": int(rr.AnsCount), "ask": int(rr.AskCount),
				"min": int(rr.MinCount), "rt": s.relUnix(rr.RequestTime), "resT": s.relUnix(rr.ResolveTime)})
			cl := rr.ClientID
			if uint64(rr.RequestID) != id {
				cl = fmt.Sprintf("%s@wrong-id-%d", cl, rr.RequestID)
			}
			rxs = append(rxs, tf.M{"client": cl, "result": resultTok(rr.Result)})
		} else {
			ress = append(ress, tf.M{"status": "NONE"})
			rxs = append(rxs, tf.M{"client": "", "result": ""})
		}
		evs = append(evs, s.resolveEv[id])
	}
	pend := []int{}
	for _, p := range k.GetPendingResolveList(ctx) {
		pend = append(pend, int(p))
	}
	vst := tf.M{}
	for _, n := range s.allNames() {
		va, _ := s.valByName(n)
		st := k.GetValidatorStatus(ctx, va)
		vst[n] = tf.M{"active": st.IsActive, "since": s.rel(st.Since)}
	}
	p := k.GetParams(ctx)

	// channels: next send sequence from the store; every logged packet must have its commitment, and no other
	nsend := tf.M{}
	commitOK := true
	for _, c := range chanOrder {
		ns, _ := app.IBCKeeper.ChannelKeeper.GetNextSequenceSend(ctx, port, chanIDs[c][0])
		nsend[c] = int(ns)
		n := 0
		for _, pk := range s.sent {
			if pk.Ch != c {
				continue
			}
			n++
			got := app.IBCKeeper.ChannelKeeper.GetPacketCommitment(ctx, port, chanIDs[c][0], uint64(pk.Seq))
			if !bytes.Equal(got, channeltypes.CommitPacket(app.AppCodec(), pk.raw)) {
				commitOK = false
			}
		}
		all := app.IBCKeeper.ChannelKeeper.GetAllPacketCommitmentsAtChannel(ctx, port, chanIDs[c][0])
		if len(all) != n {
			commitOK = false
		}
	}
	bk := app.BankKeeper
	bal, tre := tf.M{}, tf.M{}
	for n, a := range s.payers {
		bal[n] = int(bk.GetBalance(ctx, a.Addr, "uband").Amount.Int64())
	}
	for _, t := range s.w.Treasuries {
		tre[t.Name] = int(bk.GetBalance(ctx, t.Addr, "uband").Amount.Int64())
	}

	// registries
	filesOK := true
	dss, oss := []tf.M{}, []tf.M{}
	nds := int(k.GetDataSourceCount(ctx))
	for i := 1; i <= nds; i++ {
		x, err := k.GetDataSource(ctx, oracletypes.DataSourceID(i))
		if err != nil {
			dss = append(dss, tf.M{"owner": "?missing", "name": "", "desc": "", "file": "", "fee": 0, "tre": ""})
			continue
		}
		fee := int(x.Fee.AmountOf("uband").Int64())
		if len(x.Fee) > 1 || (len(x.Fee) == 1 && x.Fee[0].Denom != "uband") {
			fee = -1
		}
		if !s.fileHeld(x.Filename) {
			filesOK = false
		}
		dss = append(dss, tf.M{"owner": s.name(x.Owner), "name": tokOfString(x.Name), "desc": tokOfString(x.Description),
			"file": s.fileToken(x.Filename), "fee": fee, "tre": s.name(x.Treasury)})
	}
	nos := int(k.GetOracleScriptCount(ctx))
	for i := 1; i <= nos; i++ {
		x, err := k.GetOracleScript(ctx, oracletypes.OracleScriptID(i))
		if err != nil {
			oss = append(oss, tf.M{"owner": "?missing", "name": "", "desc": "", "file": "", "schema": "", "url": ""})
			continue
		}
		if !s.fileHeld(x.Filename) {
			filesOK = false
		}
		oss = append(oss, tf.M{"owner": s.name(x.Owner), "name": tokOfString(x.Name), "desc": tokOfString(x.Description),
			"file": s.fileToken(x.Filename), "schema": tokOfString(x.Schema), "url": tokOfString(x.SourceCodeURL)})
	}
	acks := s.acks
	if acks == nil {
		acks = []tf.M{}
	}
	sent := s.sent
	if sent == nil {
		sent = []pkt{}
	}
	cst := tf.M{}
	for _, c := range chanOrder {
		cst[c] = s.cstate[c]
	}
	return tf.M{
		"h": int(s.r.Height), "now": s.now(), "count": int(count),
		"lastExpired": int(k.GetRequestLastExpired(ctx)),
		"exp":         int(p.ExpirationBlockCount), "penalty": int(time.Duration(p.InactivePenaltyDuration) / time.Second),
		"req": reqs, "rep": reps, "res": ress, "pending": pend, "vstat": vst, "resolveEv": evs,
		"ibcOn": p.IBCRequestEnabled, "cstate": cst, "chan": chans, "meta": metas, "acks": acks, "sent": sent,
		"nsend": nsend, "nfail": s.nfail, "bal": bal, "tre": tre, "rx": rxs, "commitOK": commitOK,
		"ds": dss, "nds": nds, "os": oss, "nos": nos, "filesOK": filesOK,
	}
}

func attr(e abci.Event, key string) string {
	for _, a := range e.Attributes {
		if a.Key == key {
			return a.Value
		}
	}
	return ""
}

// noteEvents collects what the property observes in events: resolve (per id), send_packet on the band-side
// channels, send_packet_fail.
func (s *session) noteEvents(o world.Outcome) {
	for _, id := range o.Attrs(oracletypes.EventTypeResolve, oracletypes.AttributeKeyID) {
		n, _ := strconv.ParseUint(id, 10, 64)
		s.resolveEv[n]++
	}
	for _, e := range o.Events {
		switch e.Type {
		case oracletypes.EventTypeSendPacketFail:
			s.nfail++
			s.d.St.Fails++
			s.interesting = true
		case channeltypes.EventTypeSendPacket:
			c, ok := chanTok[attr(e, channeltypes.AttributeKeySrcChannel)]
			if !ok || attr(e, channeltypes.AttributeKeySrcPort) != port {
				continue
			}
			seq, _ := strconv.ParseUint(attr(e, channeltypes.AttributeKeySequence), 10, 64)
			data, _ := hex.DecodeString(attr(e, channeltypes.AttributeKeyDataHex))
			ts, _ := strconv.ParseUint(attr(e, channeltypes.AttributeKeyTimeoutTimestamp), 10, 64)
			th, _ := clienttypes.ParseHeight(attr(e, channeltypes.AttributeKeyTimeoutHeight))
			p := pkt{Ch: c, Seq: int(seq), Status: "UNDECODABLE",
				raw: channeltypes.NewPacket(data, seq, port, attr(e, channeltypes.AttributeKeySrcChannel),
					attr(e, channeltypes.AttributeKeyDstPort), attr(e, channeltypes.AttributeKeyDstChannel), th, ts)}
			var rd oracletypes.OracleResponsePacketData
			if err := oracletypes.ModuleCdc.UnmarshalJSON(data, &rd); err == nil {
				p.ID, p.Client, p.Ans = int(rd.RequestID), rd.ClientID, int(rd.AnsCount)
				p.Rt, p.ResT = s.relUnix(rd.RequestTime), s.relUnix(rd.ResolveTime)
				p.Status, p.Result = statusName(rd.ResolveStatus), resultTok(rd.Result)
			}
			s.sent = append(s.sent, p)
			s.d.St.Packets++
			s.interesting = true
		}
	}
}

func outc(o world.Outcome) tf.M {
	m := tf.M{"ok": o.OK()}
	if o.Panic != nil {
		m["panic"] = fmt.Sprint(o.Panic)
	}
	return m
}

// role binding for reporters, as in fam_oracle
func (s *session) bind(role tf.M, defID uint64) string {
	k := tf.Int(role, "k", 1)
	switch tf.Str(role, "role", "val") {
	case "stranger":
		return s.strangers[(k-1)%len(s.strangers)].Name
	case "chosen", "other":
		id := uint64(tf.Int(role, "id", int(defID)))
		com := s.committee[id]
		if tf.Str(role, "role", "") == "chosen" {
			if len(com) == 0 {
				return s.w.Vals[(k-1)%len(s.w.Vals)].Name
			}
			return com[(k-1)%len(com)]
		}
		in := map[string]bool{}
		for _, c := range com {
			in[c] = true
		}
		var others []string
		for _, v := range s.w.Vals {
			if !in[v.Name] {
				others = append(others, v.Name)
			}
		}
		if len(others) == 0 {
			return s.strangers[0].Name
		}
		return others[(k-1)%len(others)]
	}
	return s.w.Vals[(k-1)%len(s.w.Vals)].Name
}

func (s *session) must(o world.Outcome, what string) {
	if !o.OK() {
		panic(fmt.Sprint("prelude ", what, " failed: ", o.Err, o.Panic))
	}
}

// openChannels plays the real four-step handshake for both oracle channel pairs over connection-localhost.
func (s *session) openChannels() {
	rel := s.w.Accts[1].Addr.String()
	hops := []string{ibcexported.LocalhostConnectionID}
	for _, c := range chanOrder {
		a, b := chanIDs[c][0], chanIDs[c][1]
		s.must(s.deliver(channeltypes.NewMsgChannelOpenInit(port, oracletypes.Version, channeltypes.UNORDERED, hops, port, rel)), "chan-init")
		ph := clienttypes.GetSelfHeight(s.r.Ctx)
		s.must(s.deliver(channeltypes.NewMsgChannelOpenTry(port, oracletypes.Version, channeltypes.UNORDERED, hops, port, a,
			oracletypes.Version, localhost.SentinelProof, ph, rel)), "chan-try")
		s.must(s.deliver(channeltypes.NewMsgChannelOpenAck(port, a, b, oracletypes.Version, localhost.SentinelProof, ph, rel)), "chan-ack")
		s.must(s.deliver(channeltypes.NewMsgChannelOpenConfirm(port, b, localhost.SentinelProof, ph, rel)), "chan-confirm")
		ch, ok := s.w.App.IBCKeeper.ChannelKeeper.GetChannel(s.r.Ctx, port, a)
		if !ok || ch.State != channeltypes.OPEN || ch.Counterparty.ChannelId != b {
			panic("channel " + a + " not open after the handshake")
		}
		s.cstate[c] = "open"
	}
}

// cost of a request as the stores stand now (input selection only: limits "relative to the cost")
func (s *session) cost(osid, ask int) int {
	k := s.w.App.OracleKeeper
	scr, err := k.GetOracleScript(s.r.Ctx, oracletypes.OracleScriptID(osid))
	if err != nil {
		return 0
	}
	srcs := []int{1}
	if s.fileToken(scr.Filename) == "w3" {
		srcs = []int{1, 2, 3}
	}
	sum := 0
	for _, d := range srcs {
		if x, err := k.GetDataSource(s.r.Ctx, oracletypes.DataSourceID(d)); err == nil {
			sum += int(x.Fee.AmountOf("uband").Int64())
		}
	}
	return ask * sum
}

func encOf(t string) oracletypes.Encoder {
	switch t {
	case "bad":
		return oracletypes.Encoder(7)
	case "proto":
		return oracletypes.ENCODER_PROTO
	}
	return oracletypes.ENCODER_UNSPECIFIED
}

func coinsOf(n int) sdk.Coins {
	if n <= 0 {
		return sdk.NewCoins()
	}
	return sdk.NewCoins(sdk.NewInt64Coin("uband", int64(n)))
}

// RunScript plays one script and records its trace.
func (d *Driver) RunScript(sc tf.Script) {
	nval := tf.Int(sc.C, "nval", 3)
	w := d.world(nval)
	s := &session{d: d, w: w, r: w.Branch(), resolveEv: map[uint64]int{}, committee: map[uint64][]string{},
		rawReqs: map[uint64][]oracletypes.RawRequest{}, payers: map[string]world.Account{}, accts: map[string]world.Account{},
		acctName: map[string]string{}, cstate: map[string]string{}}
	st := world.NewAccount("stranger1")
	st.Name = "x1"
	s.strangers = []world.Account{st}
	s.accts["own"], s.accts["a1"], s.accts["a2"] = w.Owner, w.Accts[2], w.Accts[3]
	for n, a := range s.accts {
		s.acctName[a.Addr.String()] = n
	}
	for _, t := range w.Treasuries {
		s.acctName[t.Addr.String()] = t.Name
	}
	k := w.App.OracleKeeper

	// environment: parameters and payer balances of this trace
	p := k.GetParams(s.r.Ctx)
	p.ExpirationBlockCount = uint64(tf.Int(sc.C, "exp", 2))
	p.InactivePenaltyDuration = uint64(time.Duration(tf.Int(sc.C, "penalty", 2)) * time.Second)
	p.IBCRequestEnabled = tf.Bool(sc.C, "ibcOn", true)
	if err := k.SetParams(s.r.Ctx, p); err != nil {
		panic(err)
	}
	bal := tf.Sub(sc.C, "bal")
	for _, n := range []string{"p1", "p2", "p3"} {
		a := world.NewAccount("ibc-payer-" + n)
		a.Name = n
		s.payers[n] = a
		s.acctName[a.Addr.String()] = n
		if amt := tf.Int(bal, n, 0); amt > 0 {
			if err := w.App.BankKeeper.SendCoins(s.r.Ctx, w.Accts[0].Addr, a.Addr, coinsOf(amt)); err != nil {
				panic(err)
			}
		}
	}
	s.r.BeginBlock(100) // h = 2
	for _, v := range w.Vals {
		s.must(s.r.Deliver(&oracletypes.MsgActivate{Validator: v.ValAddr.String()}), "activate")
	}
	s.openChannels()
	s.r.EndBlock()
	s.r.BeginBlock(1)
	d.W.Reset(sc.C, s.project(), sc.Steps)
	d.St.Traces++
	d.St.Events++
	for _, step := range sc.Steps {
		s.apply(step)
		d.St.Events++
	}
	if s.interesting {
		h := sc.Hash()
		if !d.St.Distinct[h] {
			d.St.Distinct[h] = true
			d.St.Interesting++
		}
	}
}

func (s *session) remember(id uint64) {
	k := s.w.App.OracleKeeper
	rq, err := k.GetRequest(s.r.Ctx, oracletypes.RequestID(id))
	if err != nil {
		return
	}
	var com []string
	for _, v := range rq.RequestedValidators {
		com = append(com, s.w.Name(v))
	}
	sort.Strings(com)
	s.committee[id] = com
	s.rawReqs[id] = rq.RawRequests
}

func (s *session) limitOf(step tf.M, osid, ask int) int {
	if _, ok := step["rel"]; ok {
		l := s.cost(osid, ask) + tf.Int(step, "rel", 0)
		if l < 0 {
			l = 0
		}
		return l
	}
	return tf.Int(step, "limit", 100)
}

func (s *session) apply(step tf.M) {
	app := s.w.App
	k := app.OracleKeeper
	switch tf.Str(step, "e", "") {
	case "Request", "Recv":
		isIBC := tf.Str(step, "e", "") == "Recv"
		pn := tf.Str(step, "p", "p1")
		payer := s.payers[pn]
		osid, ask, min := tf.Int(step, "os", 1), tf.Int(step, "ask", 1), tf.Int(step, "min", 1)
		enc := tf.Str(step, "enc", "none")
		limit := s.limitOf(step, osid, ask)
		s.nclient++
		client := fmt.Sprintf("cl-%d", s.nclient)
		calldata := []byte(fmt.Sprintf("cd-%d", s.nclient))
		before := k.GetRequestCount(s.r.Ctx)
		if !isIBC {
			msg := oracletypes.NewMsgRequestData(oracletypes.OracleScriptID(osid), calldata, uint64(ask), uint64(min), client,
				coinsOf(limit), 40000, 300000, payer.Addr, encOf(enc))
			o := s.deliver(msg)
			s.noteEvents(o)
			if o.OK() {
				s.remember(k.GetRequestCount(s.r.Ctx))
			}
			s.d.W.Step("Request", tf.M{"p": pn, "os": osid, "ask": ask, "min": min, "limit": limit, "enc": enc, "client": client},
				outc(o), s.project())
			return
		}
		c := tf.Str(step, "c", "c0")
		form := tf.Str(step, "form", "good")
		data := oracletypes.NewOracleRequestPacketData(client, oracletypes.OracleScriptID(osid), calldata, uint64(ask), uint64(min),
			encOf(enc), coinsOf(limit), 40000, 300000)
		var bz []byte
		switch form {
		case "notjson":
			bz = []byte("this is not json")
		case "resp":
			bz = oracletypes.NewOracleResponsePacketData(client, 1, 1, 1, 1, oracletypes.RESOLVE_STATUS_SUCCESS, []byte("x")).GetBytes()
		case "gas0":
			data.PrepareGas = 0
			bz = data.GetBytes()
		case "longcl":
			data.ClientID = strings.Repeat("c", oracletypes.MaxClientIDLength+1)
			bz = data.GetBytes()
		default:
			bz = data.GetBytes()
		}
		// environment: the client chain's end of the channel commits the packet
		band, cp := chanIDs[c][0], chanIDs[c][1]
		cap, ok := app.ScopedOracleKeeper.GetCapability(s.r.Ctx, host.ChannelCapabilityPath(port, cp))
		if !ok {
			panic("counterparty channel capability missing")
		}
		ts := uint64(s.r.Time.UnixNano()) + uint64(time.Hour)
		seq, err := app.IBCKeeper.ChannelKeeper.SendPacket(s.r.Ctx, cap, port, cp, clienttypes.ZeroHeight(), ts, bz)
		if err != nil {
			panic(fmt.Sprint("counterparty send failed: ", err))
		}
		packet := channeltypes.NewPacket(bz, seq, port, cp, port, band, clienttypes.ZeroHeight(), ts)
		o := s.deliver(channeltypes.NewMsgRecvPacket(packet, localhost.SentinelProof, clienttypes.GetSelfHeight(s.r.Ctx), payer.Addr.String()))
		s.noteEvents(o)
		res := outc(o)
		res["ack"], res["ackStored"], res["ackId"] = "none", false, 0
		res["ok"] = false
		if o.OK() {
			for _, e := range o.Events {
				if e.Type != channeltypes.EventTypeWriteAck || attr(e, channeltypes.AttributeKeyDstChannel) != band {
					continue
				}
				ackBz, _ := hex.DecodeString(attr(e, channeltypes.AttributeKeyAckHex))
				var js map[string]json.RawMessage
				_ = json.Unmarshal(ackBz, &js)
				if r, isRes := js["result"]; isRes {
					res["ack"], res["ok"] = "ok", true
					var b64 string
					_ = json.Unmarshal(r, &b64)
					inner, _ := base64.StdEncoding.DecodeString(b64)
					var ackData oracletypes.OracleRequestPacketAcknowledgement
					if err := oracletypes.ModuleCdc.UnmarshalJSON(inner, &ackData); err == nil {
						res["ackId"] = int(ackData.RequestID)
						s.acks = append(s.acks, tf.M{"ch": c, "id": int(ackData.RequestID)})
					} else {
						res["ackId"] = -1
						s.acks = append(s.acks, tf.M{"ch": c, "id": -1})
					}
				} else if _, isErr := js["error"]; isErr {
					res["ack"] = "err"
					s.d.St.ErrAcks++
					s.interesting = true
				}
				stored, found := app.IBCKeeper.ChannelKeeper.GetPacketAcknowledgement(s.r.Ctx, port, band, seq)
				res["ackStored"] = found && bytes.Equal(stored, channeltypes.CommitAcknowledgement(ackBz))
			}
			if n := k.GetRequestCount(s.r.Ctx); n > before {
				s.remember(n)
			}
		}
		a := tf.M{"c": c, "p": pn, "os": osid, "ask": ask, "min": min, "limit": limit, "enc": enc, "form": form, "client": client}
		if enc == "bad" {
			a["tag"] = "ibc-unknown-encoder"
		}
		s.d.W.Step("Recv", a, res, s.project())
	case "Report":
		id := uint64(tf.Int(step, "id", 1))
		who := s.bind(tf.Sub(step, "who"), id)
		shape := tf.Str(step, "shape", "exact")
		raws := s.rawReqs[id]
		if len(raws) == 0 {
			raws = []oracletypes.RawRequest{{ExternalID: 1}}
		}
		var reps []oracletypes.RawReport
		for _, rq := range raws {
			reps = append(reps, oracletypes.NewRawReport(rq.ExternalID, 0, []byte("ans")))
		}
		switch shape {
		case "missing":
			reps = reps[:len(reps)-1]
		case "extra":
			reps = append(reps, oracletypes.NewRawReport(99, 0, []byte("ans")))
		case "wrongId":
			reps[len(reps)-1].ExternalID = 99
		}
		va, _ := s.valByName(who)
		o := s.deliver(oracletypes.NewMsgReportData(oracletypes.RequestID(id), reps, va))
		s.noteEvents(o)
		s.d.W.Step("Report", tf.M{"v": who, "id": int(id), "shape": shape}, outc(o), s.project())
	case "EndBlock":
		dt := tf.Int(step, "dt", 1)
		o := s.r.EndBlock()
		s.noteEvents(o)
		ob := s.r.BeginBlock(int64(dt))
		res := tf.M{"ok": o.OK() && ob.OK()}
		if o.Panic != nil {
			res["panic"] = fmt.Sprint(o.Panic)
		}
		s.d.W.Step("EndBlock", tf.M{"dt": dt}, res, s.project())
	case "SetIBC":
		on := tf.Bool(step, "on", true)
		p := k.GetParams(s.r.Ctx)
		p.IBCRequestEnabled = on
		o := s.deliver(oracletypes.NewMsgUpdateParams(authtypes.NewModuleAddress(govtypes.ModuleName).String(), p))
		s.d.W.Step("SetIBC", tf.M{"on": on}, outc(o), s.project())
	case "Break":
		c, how := tf.Str(step, "c", "c0"), tf.Str(step, "how", "closed")
		band := chanIDs[c][0]
		if s.cstate[c] == "open" {
			switch how {
			case "closed":
				ch, _ := app.IBCKeeper.ChannelKeeper.GetChannel(s.r.Ctx, port, band)
				ch.State = channeltypes.CLOSED
				app.IBCKeeper.ChannelKeeper.SetChannel(s.r.Ctx, port, band, ch)
			default:
				how = "nocap"
				if cap, ok := app.ScopedOracleKeeper.GetCapability(s.r.Ctx, host.ChannelCapabilityPath(port, band)); ok {
					if err := app.ScopedOracleKeeper.ReleaseCapability(s.r.Ctx, cap); err != nil {
						panic(err)
					}
				}
			}
			s.cstate[c] = how
		}
		s.d.W.Step("Break", tf.M{"c": c, "how": how}, tf.M{"ok": true}, s.project())
	case "CreateDS", "EditDS":
		sn, on := tf.Str(step, "s", "a1"), tf.Str(step, "owner", "a1")
		name, desc, cont := tf.Str(step, "name", "n1"), tf.Str(step, "desc", "d1"), tf.Str(step, "cont", "e1")
		fee, tn := tf.Int(step, "fee", 0), tf.Str(step, "tre", "t1")
		var tre sdk.AccAddress
		for _, t := range s.w.Treasuries {
			if t.Name == tn {
				tre = t.Addr
			}
		}
		a := tf.M{"s": sn, "owner": on, "name": name, "desc": desc, "cont": cont, "fee": fee, "tre": tn}
		if tf.Str(step, "e", "") == "CreateDS" {
			o := s.deliver(oracletypes.NewMsgCreateDataSource(strOfTok(name), strOfTok(desc), s.d.dsCont[cont], coinsOf(fee), tre,
				s.accts[on].Addr, s.accts[sn].Addr))
			if cont == "gzdnm" {
				a["tag"] = "create-gzipped-do-not-modify"
			}
			s.d.W.Step("CreateDS", a, outc(o), s.project())
		} else {
			id := tf.Int(step, "id", 1)
			a["id"] = id
			o := s.deliver(oracletypes.NewMsgEditDataSource(oracletypes.DataSourceID(id), strOfTok(name), strOfTok(desc), s.d.dsCont[cont],
				coinsOf(fee), tre, s.accts[on].Addr, s.accts[sn].Addr))
			s.d.W.Step("EditDS", a, outc(o), s.project())
		}
	case "CreateOS", "EditOS":
		sn, on := tf.Str(step, "s", "a1"), tf.Str(step, "owner", "a1")
		name, desc := tf.Str(step, "name", "n1"), tf.Str(step, "desc", "d1")
		schema, url, cont := tf.Str(step, "schema", "s1"), tf.Str(step, "url", "u1"), tf.Str(step, "cont", "w1")
		a := tf.M{"s": sn, "owner": on, "name": name, "desc": desc, "schema": schema, "url": url, "cont": cont}
		if tf.Str(step, "e", "") == "CreateOS" {
			o := s.deliver(oracletypes.NewMsgCreateOracleScript(strOfTok(name), strOfTok(desc), strOfTok(schema), strOfTok(url),
				s.d.osCode[cont], s.accts[on].Addr, s.accts[sn].Addr))
			if cont == "gzdnm" {
				a["tag"] = "create-gzipped-do-not-modify"
			}
			s.d.W.Step("CreateOS", a, outc(o), s.project())
		} else {
			id := tf.Int(step, "id", 1)
			a["id"] = id
			o := s.deliver(oracletypes.NewMsgEditOracleScript(oracletypes.OracleScriptID(id), strOfTok(name), strOfTok(desc),
				strOfTok(schema), strOfTok(url), s.d.osCode[cont], s.accts[on].Addr, s.accts[sn].Addr))
			s.d.W.Step("EditOS", a, outc(o), s.project())
		}
	case "ChanOpen":
		kind, order, ver := tf.Str(step, "step", "init"), tf.Str(step, "order", "UNORDERED"), tf.Str(step, "ver", oracletypes.Version)
		ord := channeltypes.UNORDERED
		if order == "ORDERED" {
			ord = channeltypes.ORDERED
		}
		rel := s.w.Accts[1].Addr.String()
		hops := []string{ibcexported.LocalhostConnectionID}
		var o world.Outcome
		if kind == "init" {
			o = s.deliver(channeltypes.NewMsgChannelOpenInit(port, ver, ord, hops, port, rel))
		} else {
			// environment: the other chain's channel end in INIT, exactly as the Try message describes it
			other := "channel-77"
			app.IBCKeeper.ChannelKeeper.SetChannel(s.r.Ctx, port, other, channeltypes.NewChannel(channeltypes.INIT, ord,
				channeltypes.NewCounterparty(port, ""), hops, ver))
			o = s.deliver(channeltypes.NewMsgChannelOpenTry(port, oracletypes.Version, ord, hops, port, other, ver,
				localhost.SentinelProof, clienttypes.GetSelfHeight(s.r.Ctx), rel))
		}
		s.d.W.Step("ChanOpen", tf.M{"step": kind, "order": order, "ver": ver}, outc(o), s.project())
	default:
		panic("unknown step " + fmt.Sprint(step))
	}
}

const watFail1 = `
(module
	(type $t0 (func))
	(type $t1 (func (param i64 i64 i64 i64)))
	(type $t2 (func (param i64 i64)))
	(import "env" "ask_external_data" (func $ask_external_data (type $t1)))
	(import "env" "set_return_data" (func $set_return_data (type $t2)))
	(func $prepare (export "prepare") (type $t0)
	  i64.const 1
	  i64.const 1
	  i32.const 1024
	  i64.extend_i32_u
	  i64.const 4
	  call $ask_external_data)
	(func $execute (export "execute") (type $t0))
	(table $T0 1 1 funcref)
	(memory $memory (export "memory") 17)
	(data (i32.const 1024) "test"))
`

const watOK1 = `
(module
	(type $t0 (func))
	(type $t1 (func (param i64 i64 i64 i64)))
	(type $t2 (func (param i64 i64)))
	(import "env" "ask_external_data" (func $ask_external_data (type $t1)))
	(import "env" "set_return_data" (func $set_return_data (type $t2)))
	(func $prepare (export "prepare") (type $t0)
	  i64.const 1
	  i64.const 1
	  i32.const 1024
	  i64.extend_i32_u
	  i64.const 4
	  call $ask_external_data)
	(func $execute (export "execute") (type $t0)
	  i32.const 1024
	  i64.extend_i32_u
	  i64.const 4
	  call $set_return_data)
	(table $T0 1 1 funcref)
	(memory $memory (export "memory") 17)
	(data (i32.const 1024) "test"))
`

const watOKNil = `
(module
	(type $t0 (func))
	(type $t1 (func (param i64 i64 i64 i64)))
	(type $t2 (func (param i64 i64)))
	(import "env" "ask_external_data" (func $ask_external_data (type $t1)))
	(import "env" "set_return_data" (func $set_return_data (type $t2)))
	(func $prepare (export "prepare") (type $t0)
	  i64.const 1
	  i64.const 1
	  i32.const 1024
	  i64.extend_i32_u
	  i64.const 4
	  call $ask_external_data)
	(func $execute (export "execute") (type $t0)
	  i32.const 1024
	  i64.extend_i32_u
	  i64.const 0
	  call $set_return_data)
	(table $T0 1 1 funcref)
	(memory $memory (export "memory") 17)
	(data (i32.const 1024) "test"))
`
