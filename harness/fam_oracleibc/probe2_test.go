package fam_oracleibc

import (
	"bytes"
	gz "compress/gzip"
	"fmt"
	"testing"

	sdk "github.com/cosmos/cosmos-sdk/types"

	oracletypes "github.com/bandprotocol/chain/v3/x/oracle/types"

	"vdrive/world"
)

func gzipOf(b []byte) []byte {
	var buf bytes.Buffer
	w := gz.NewWriter(&buf)
	w.Write(b)
	w.Close()
	return buf.Bytes()
}

func TestProbe2(t *testing.T) {
	w := world.New(world.DefaultConfig())
	defer w.Close()
	r := w.Branch()
	r.BeginBlock(100)
	var d oracletypes.OracleRequestPacketData
	err := oracletypes.ModuleCdc.UnmarshalJSON([]byte(`{"client_id":"x","oracle_script_id":"1","calldata":"AA==","ask_count":"1","min_count":"1","fee_limit":[],"prepare_gas":"1","execute_gas":"1","tss_encoder":7}`), &d)
	fmt.Println("enum 7:", err, d.TSSEncoder, d.ValidateBasic())
	resp := oracletypes.NewOracleResponsePacketData("c", 1, 1, 1, 1, 1, []byte("x"))
	err = oracletypes.ModuleCdc.UnmarshalJSON(resp.GetBytes(), &d)
	fmt.Println("resp as req:", err)
	a := w.Accts[1]
	o := r.Deliver(oracletypes.NewMsgCreateDataSource("n", "d", gzipOf(oracletypes.DoNotModifyBytes), sdk.NewCoins(), a.Addr, a.Addr, a.Addr))
	fmt.Println("create ds gz-dnm:", o.Err, o.Panic)
	ds, err := w.App.OracleKeeper.GetDataSource(r.Ctx, 4)
	fmt.Println(ds.Filename, err)
	o = r.Deliver(oracletypes.NewMsgCreateOracleScript("n", "d", "", "", gzipOf(oracletypes.DoNotModifyBytes), a.Addr, a.Addr))
	fmt.Println("create os gz-dnm:", o.Err, o.Panic)
	os, err := w.App.OracleKeeper.GetOracleScript(r.Ctx, 6)
	fmt.Println(os.Filename, err)
	o = r.Deliver(oracletypes.NewMsgCreateDataSource("[do-not-modify]", "d", []byte("abc"), sdk.NewCoins(), a.Addr, a.Addr, a.Addr))
	fmt.Println("create ds name dnm:", o.Err, o.Panic)
}
