package fam_oracleibc

import (
	"math/rand"

	tf "vdrive/tracefmt"
)

func eb(dt int) tf.M { return tf.M{"e": "EndBlock", "dt": dt} }

func chosen(id, k int) tf.M { return tf.M{"role": "chosen", "k": k, "id": id} }

func report(id, k int) tf.M {
	return tf.M{"e": "Report", "id": id, "shape": "exact", "who": chosen(id, k)}
}

func recv(c, p string, os, ask, min int, extra tf.M) tf.M {
	m := tf.M{"e": "Recv", "c": c, "p": p, "os": os, "ask": ask, "min": min, "rel": 0, "enc": "none", "form": "good"}
	for k, v := range extra {
		if k == "limit" {
			delete(m, "rel")
		}
		m[k] = v
	}
	return m
}

func direct(p string, os, ask, min int, extra tf.M) tf.M {
	m := tf.M{"e": "Request", "p": p, "os": os, "ask": ask, "min": min, "rel": 0, "enc": "none"}
	for k, v := range extra {
		if k == "limit" {
			delete(m, "rel")
		}
		m[k] = v
	}
	return m
}

func dsMsg(e, s, owner, name, desc, cont string, fee int, tre string, id int) tf.M {
	m := tf.M{"e": e, "s": s, "owner": owner, "name": name, "desc": desc, "cont": cont, "fee": fee, "tre": tre}
	if e == "EditDS" {
		m["id"] = id
	}
	return m
}

func osMsg(e, s, owner, name, desc, schema, url, cont string, id int) tf.M {
	m := tf.M{"e": e, "s": s, "owner": owner, "name": name, "desc": desc, "schema": schema, "url": url, "cont": cont}
	if e == "EditOS" {
		m["id"] = id
	}
	return m
}

func consts(nval, exp int, p1, p2, p3 int) tf.M {
	return tf.M{"nval": nval, "exp": exp, "penalty": 2, "ibcOn": true, "bal": tf.M{"p1": p1, "p2": p2, "p3": p3}}
}

// Catalogue is the fixed set of hand-written scenarios; every facet of X04 occurs in at least one of them
// whatever the seed.
func Catalogue() []tf.Script {
	mk := func(c tf.M, steps ...tf.M) tf.Script { return tf.Script{Fam: "OracleIBC", C: c, Steps: steps} }
	return []tf.Script{
		// 1. the three statuses over IBC next to a direct request: SUCCESS, FAILURE, EXPIRED, empty SUCCESS
		mk(consts(3, 2, 100, 100, 0),
			recv("c0", "p1", 1, 2, 1, nil), direct("p2", 4, 1, 1, nil), recv("c1", "p2", 2, 1, 1, nil), recv("c0", "p1", 5, 1, 1, nil),
			recv("c0", "p2", 1, 3, 3, nil),
			report(1, 1), report(2, 1), report(3, 1), report(4, 1), eb(1), report(1, 2), report(5, 1), eb(1), eb(1), eb(1), eb(1)),
		// 2. the channel cannot send: closed before resolution, capability lost before expiry; packets refused by ibc core afterwards
		mk(consts(3, 1, 100, 100, 0),
			recv("c0", "p1", 1, 1, 1, nil), recv("c1", "p1", 4, 2, 2, nil), recv("c0", "p2", 2, 1, 1, nil), report(1, 1),
			tf.M{"e": "Break", "c": "c0", "how": "closed"}, eb(1), recv("c0", "p1", 1, 1, 1, nil),
			tf.M{"e": "Break", "c": "c1", "how": "nocap"}, eb(1), recv("c1", "p1", 1, 1, 1, nil), direct("p1", 1, 1, 1, nil), eb(1), eb(1)),
		// 3. the parameter: disabled -> error acknowledgement, nothing moves; enabled again -> accepted
		mk(consts(3, 2, 50, 0, 0),
			tf.M{"e": "SetIBC", "on": false}, recv("c0", "p1", 1, 1, 1, nil), direct("p1", 1, 1, 1, nil),
			tf.M{"e": "SetIBC", "on": true}, recv("c0", "p1", 1, 1, 1, nil), report(1, 1), report(2, 1), eb(1), eb(1), eb(1)),
		// 4. fee limit and balance at the boundary; malformed packets; counts
		mk(consts(3, 2, 5, 40, 0),
			recv("c0", "p2", 1, 2, 1, tf.M{"rel": -1}), recv("c0", "p2", 1, 2, 1, tf.M{"rel": 0}), recv("c0", "p1", 1, 2, 1, tf.M{"rel": 3}),
			recv("c0", "p1", 1, 1, 1, tf.M{"rel": 0}), recv("c0", "p1", 4, 2, 1, tf.M{"rel": 0}), recv("c0", "p1", 4, 1, 1, tf.M{"rel": 0}),
			recv("c0", "p1", 4, 1, 1, tf.M{"rel": 0}), recv("c0", "p3", 4, 1, 1, nil),
			recv("c1", "p2", 1, 1, 1, tf.M{"form": "notjson"}), recv("c1", "p2", 1, 1, 1, tf.M{"form": "resp"}),
			recv("c1", "p2", 1, 1, 1, tf.M{"form": "gas0"}), recv("c1", "p2", 1, 1, 1, tf.M{"form": "longcl"}),
			recv("c1", "p2", 1, 1, 2, nil), recv("c1", "p2", 1, 1, 0, nil), recv("c1", "p2", 1, 4, 1, nil), recv("c1", "p2", 9, 1, 1, nil),
			recv("c1", "p2", 3, 1, 1, nil), recv("c1", "p2", 1, 1, 1, tf.M{"enc": "proto"}), direct("p2", 1, 1, 1, tf.M{"enc": "bad"}),
			report(1, 1), report(5, 1), eb(1), eb(1), eb(1)),
		// 5. ownership of a data source: creation for somebody else, non-owner refused, transfer, do-not-modify, gzip, bad contents
		mk(consts(3, 2, 30, 0, 0),
			dsMsg("CreateDS", "a1", "a2", "n1", "d1", "e1", 2, "t2", 0), dsMsg("EditDS", "a1", "a1", "n2", "d2", "e2", 1, "t1", 4),
			dsMsg("EditDS", "a2", "a1", "dnm", "d2", "dnm", 0, "t3", 4), dsMsg("EditDS", "a2", "a2", "n2", "d2", "e2", 1, "t1", 4),
			dsMsg("EditDS", "a1", "a1", "n2", "dnm", "gz1", 5, "t1", 4), dsMsg("EditDS", "a1", "a1", "dnm", "dnm", "gzdnm", 5, "t2", 4),
			dsMsg("CreateDS", "a1", "a1", "dnm", "dnm", "gz1", 0, "t1", 0), dsMsg("CreateDS", "a1", "a1", "n1", "d1", "dnm", 0, "t1", 0),
			dsMsg("CreateDS", "a1", "a1", "n1", "d1", "big", 0, "t1", 0), dsMsg("CreateDS", "a1", "a1", "n1", "d1", "empty", 0, "t1", 0),
			dsMsg("CreateDS", "a1", "a1", "n1", "d1", "gzbad", 0, "t1", 0), dsMsg("EditDS", "a1", "a1", "n1", "d1", "e1", 0, "t1", 9),
			dsMsg("EditDS", "a1", "a1", "long", "d1", "e1", 0, "t1", 4),
			// the genesis owner edits the fee and the treasury of data source 1: the next request pays the new fee to the new treasury
			recv("c0", "p1", 4, 2, 1, nil), dsMsg("EditDS", "own", "a1", "dnm", "dnm", "dnm", 3, "t3", 1), recv("c0", "p1", 4, 2, 1, nil),
			dsMsg("EditDS", "own", "own", "dnm", "dnm", "dnm", 0, "t3", 1), dsMsg("EditDS", "a1", "a1", "dnm", "dnm", "dnm", 0, "t1", 1),
			recv("c0", "p1", 1, 2, 1, tf.M{"rel": -1}), recv("c0", "p1", 4, 2, 1, tf.M{"limit": 0}), eb(1), eb(1), eb(1)),
		// 6. ownership of an oracle script; new code governs requests in flight and later ones
		mk(consts(3, 3, 60, 0, 0),
			osMsg("CreateOS", "a1", "a1", "n1", "d1", "s1", "u1", "w1", 0), recv("c0", "p1", 6, 1, 1, nil), recv("c1", "p1", 6, 1, 1, nil),
			osMsg("EditOS", "a2", "a2", "n2", "d2", "s2", "u2", "wfail", 6), osMsg("EditOS", "a1", "a2", "dnm", "d2", "dnm", "u2", "wfail", 6),
			report(1, 1), eb(1), osMsg("EditOS", "a1", "a1", "n1", "d1", "s1", "u1", "w3", 6),
			osMsg("EditOS", "a2", "a2", "dnm", "dnm", "dnm", "dnm", "gzw1", 6), report(2, 1), recv("c0", "p1", 6, 1, 1, nil),
			osMsg("EditOS", "a2", "a2", "dnm", "dnm", "dnm", "dnm", "wnil", 6), report(3, 1), eb(1),
			osMsg("EditOS", "a2", "a2", "dnm", "dnm", "dnm", "dnm", "notwasm", 6), osMsg("EditOS", "a2", "a2", "dnm", "dnm", "dnm", "dnm", "dnm", 6),
			osMsg("CreateOS", "a2", "a1", "dnm", "d1", "s1", "u1", "gzw1", 0), osMsg("CreateOS", "a2", "a1", "n1", "d1", "s1", "u1", "dnm", 0),
			osMsg("CreateOS", "a2", "a1", "n1", "d1", "s1", "u1", "notwasm", 0), osMsg("CreateOS", "a2", "a1", "n1", "d1", "s1", "u1", "empty", 0),
			osMsg("EditOS", "a1", "a1", "n1", "d1", "s1", "u1", "w1", 11), eb(1), eb(1), eb(1)),
		// 7. channel handshake callbacks
		mk(consts(3, 2, 10, 0, 0),
			tf.M{"e": "ChanOpen", "step": "init", "order": "UNORDERED", "ver": "bandchain-1"},
			tf.M{"e": "ChanOpen", "step": "init", "order": "UNORDERED", "ver": ""},
			tf.M{"e": "ChanOpen", "step": "init", "order": "ORDERED", "ver": "bandchain-1"},
			tf.M{"e": "ChanOpen", "step": "init", "order": "UNORDERED", "ver": "ics20-1"},
			tf.M{"e": "ChanOpen", "step": "try", "order": "UNORDERED", "ver": "bandchain-1"},
			tf.M{"e": "ChanOpen", "step": "try", "order": "ORDERED", "ver": "bandchain-1"},
			tf.M{"e": "ChanOpen", "step": "try", "order": "UNORDERED", "ver": "bandchain-2"},
			tf.M{"e": "ChanOpen", "step": "try", "order": "UNORDERED", "ver": ""},
			recv("c0", "p1", 1, 1, 1, nil), report(1, 1), eb(1), eb(1)),
		// 8. two requests resolved and one expired in the same end-block, on two channels: order and sequences
		mk(consts(4, 1, 100, 100, 0),
			recv("c1", "p1", 1, 2, 1, nil), recv("c0", "p2", 4, 1, 1, nil), recv("c1", "p2", 4, 1, 1, nil), recv("c1", "p1", 2, 1, 1, nil),
			report(3, 1), report(1, 1), report(4, 1), eb(1), eb(1), eb(1)),
	}
}

// DefectScripts (mode "defects", entry X04D): the inputs on which the unchanged tree is rejected; each
// triggering event carries an input-derived tag.
func DefectScripts() []tf.Script {
	mk := func(c tf.M, steps ...tf.M) tf.Script { return tf.Script{Fam: "OracleIBC", C: c, Steps: steps} }
	return []tf.Script{
		mk(consts(3, 2, 50, 0, 0), direct("p1", 4, 1, 1, tf.M{"enc": "bad"}), recv("c0", "p1", 4, 1, 1, tf.M{"enc": "bad"}),
			report(1, 1), eb(1), eb(1)),
		mk(consts(3, 2, 50, 0, 0), dsMsg("CreateDS", "a1", "a1", "n1", "d1", "dnm", 0, "t1", 0),
			dsMsg("CreateDS", "a1", "a1", "n1", "d1", "gzdnm", 0, "t1", 0), eb(1)),
		mk(consts(3, 2, 50, 0, 0), osMsg("CreateOS", "a1", "a1", "n1", "d1", "s1", "u1", "dnm", 0),
			osMsg("CreateOS", "a1", "a1", "n1", "d1", "s1", "u1", "gzdnm", 0), eb(1)),
	}
}

// RandomScript makes one abstract script.  It never produces the two inputs of DefectScripts.
func RandomScript(rng *rand.Rand) tf.Script {
	nval := 3 + rng.Intn(2)
	c := consts(nval, 1+rng.Intn(3), []int{0, 3, 6, 20, 60, 60}[rng.Intn(6)], 20+rng.Intn(60), []int{0, 100}[rng.Intn(2)])
	if rng.Intn(10) == 0 {
		c["ibcOn"] = false
	}
	pick := func(xs ...string) string { return xs[rng.Intn(len(xs))] }
	n := 12 + rng.Intn(22)
	breakAt := -1
	if rng.Intn(3) == 0 {
		breakAt = n/3 + rng.Intn(n/2)
	}
	var steps []tf.M
	reqs := 0        // upper bound on the number of requests so far
	nds, nos := 3, 5 // upper bounds on the registry counters
	dsOwner := map[int]string{1: "own", 2: "own", 3: "own"}
	osOwner := map[int]string{}
	runnable := []int{1, 2, 4, 5}
	for i := 0; i < n; i++ {
		x := rng.Intn(100)
		if i == breakAt {
			steps = append(steps, tf.M{"e": "Break", "c": pick("c0", "c1"), "how": pick("closed", "nocap")})
			continue
		}
		if reqs == 0 && x >= 22 && x < 55 {
			x = rng.Intn(22)
		}
		switch {
		case x < 22: // a request, mostly over IBC
			if reqs >= 7 {
				steps = append(steps, eb(1))
				continue
			}
			os := runnable[rng.Intn(len(runnable))]
			if rng.Intn(15) == 0 {
				os = []int{3, 9, 13}[rng.Intn(3)]
			}
			ask := 1 + rng.Intn(nval)
			min := 1 + rng.Intn(ask)
			if rng.Intn(14) == 0 {
				min = ask + 1
			}
			if rng.Intn(20) == 0 {
				min = 0
			}
			if rng.Intn(16) == 0 {
				ask = nval + 1
			}
			extra := tf.M{"rel": []int{0, 0, 0, 1, 5, 5, -1}[rng.Intn(7)], "enc": pick("none", "none", "none", "proto")}
			if rng.Intn(10) == 0 {
				extra = tf.M{"limit": rng.Intn(8), "enc": "none"}
			}
			p := pick("p1", "p2", "p2", "p2", "p3")
			if rng.Intn(4) == 0 {
				if rng.Intn(8) == 0 {
					extra["enc"] = "bad" // refused by MsgRequestData.ValidateBasic
				}
				steps = append(steps, direct(p, os, ask, min, extra))
			} else {
				if rng.Intn(9) == 0 {
					extra["form"] = pick("notjson", "resp", "gas0", "longcl")
				}
				steps = append(steps, recv(pick("c0", "c0", "c1"), p, os, ask, min, extra))
			}
			reqs++
		case x < 55:
			id := 1 + rng.Intn(reqs)
			role := "chosen"
			if y := rng.Intn(12); y == 0 {
				role = "other"
			} else if y == 1 {
				role = "stranger"
			}
			shape := "exact"
			if y := rng.Intn(12); y < 3 {
				shape = []string{"missing", "extra", "wrongId"}[y]
			}
			steps = append(steps, tf.M{"e": "Report", "id": id, "shape": shape, "who": tf.M{"role": role, "k": 1 + rng.Intn(nval), "id": id}})
		case x < 58:
			steps = append(steps, tf.M{"e": "SetIBC", "on": rng.Intn(3) != 0})
		case x < 68: // data sources
			s := pick("own", "a1", "a2")
			owner := pick("own", "a1", "a2")
			name, desc := pick("n1", "n2", "dnm"), pick("d1", "d2", "dnm")
			fee, tre := []int{0, 0, 1, 2, 4}[rng.Intn(5)], pick("t1", "t2", "t3")
			if rng.Intn(3) == 0 && nds < 9 {
				cont := pick("e1", "e2", "gz1", "gz1", "e1", "e2", "dnm", "big", "empty", "gzbad")
				steps = append(steps, dsMsg("CreateDS", s, owner, name, desc, cont, fee, tre, 0))
				if cont == "e1" || cont == "e2" || cont == "gz1" {
					nds++
					dsOwner[nds] = owner
				}
			} else {
				id := 1 + rng.Intn(nds)
				if rng.Intn(12) == 0 {
					id = nds + 1 + rng.Intn(2)
				}
				if o, ok := dsOwner[id]; ok && rng.Intn(4) != 0 {
					s = o
				}
				cont := pick("e1", "e2", "gz1", "dnm", "dnm", "dnm", "gzdnm", "big", "gzbad")
				steps = append(steps, dsMsg("EditDS", s, owner, name, desc, cont, fee, tre, id))
				if s == dsOwner[id] && cont != "big" && cont != "gzbad" {
					dsOwner[id] = owner
				}
			}
		case x < 77: // oracle scripts
			s := pick("own", "a1", "a2")
			owner := pick("own", "a1", "a2")
			name, desc, schema, url := pick("n1", "n2", "dnm"), pick("d1", "dnm"), pick("s1", "s2", "dnm"), pick("u1", "dnm")
			if (rng.Intn(3) == 0 || nos == 5) && nos < 11 {
				cont := pick("w1", "w3", "wfail", "wnil", "gzw1", "w1", "w3", "dnm", "notwasm", "empty")
				steps = append(steps, osMsg("CreateOS", s, owner, name, desc, schema, url, cont, 0))
				if cont == "w1" || cont == "w3" || cont == "wfail" || cont == "wnil" || cont == "gzw1" {
					nos++
					osOwner[nos] = owner
					runnable = append(runnable, nos)
				}
			} else {
				id := 6 + rng.Intn(nos-5)
				if rng.Intn(5) == 0 {
					id = 1 + rng.Intn(5)
				}
				if rng.Intn(14) == 0 {
					id = nos + 1
				}
				if o, ok := osOwner[id]; ok && rng.Intn(4) != 0 {
					s = o
				} else if id <= 5 && rng.Intn(2) == 0 {
					s = "own"
					osOwner[id] = "own"
				}
				cont := pick("w1", "w3", "wfail", "wnil", "gzw1", "dnm", "dnm", "gzdnm", "notwasm")
				steps = append(steps, osMsg("EditOS", s, owner, name, desc, schema, url, cont, id))
				if s == osOwner[id] && cont != "notwasm" {
					osOwner[id] = owner
				}
			}
		case x < 79:
			steps = append(steps, tf.M{"e": "ChanOpen", "step": pick("init", "try"), "order": pick("UNORDERED", "UNORDERED", "ORDERED"),
				"ver": pick("bandchain-1", "bandchain-1", "", "v2")})
		default:
			steps = append(steps, eb([]int{0, 1, 1, 2, 3}[rng.Intn(5)]))
		}
	}
	for i := 0; i < 4; i++ {
		steps = append(steps, eb(1))
	}
	return tf.Script{Fam: "OracleIBC", C: c, Steps: steps}
}
