package fam_tssalgebra

// Scenario generation (GEN role on the Go side, seeded by VERIF_SEED): a deterministic covering set that touches
// every entry of the precomputed Lagrange table as numerator and as difference, plus random scenarios
// (n, t, committee S as member ids, submission order, corruption kinds at chosen members, time-outs, retries).

import (
	"fmt"
	"math/rand"
	"sort"

	tf "vdrive/tracefmt"
)

var kindsNeedOther = map[string]bool{"nonceOther": true, "signer": true}

var allKinds = []string{"scalar", "nonce", "nonceOther", "signer", "steal", "committee", "staleRho", "outsider"}

func sortedCopy(a []int) []int {
	b := append([]int{}, a...)
	sort.Ints(b)
	return b
}

func contains(a []int, x int) bool {
	for _, y := range a {
		if y == x {
			return true
		}
	}
	return false
}

func outside(n int, S []int) []int {
	var out []int
	for i := 1; i <= n; i++ {
		if !contains(S, i) {
			out = append(out, i)
		}
	}
	return out
}

// corruptStep builds one corrupted submission of member m (assigned in S) of the given kind; ok=false if the kind
// makes no sense for this (n, S, m).
func corruptStep(rng *rand.Rand, n int, S []int, m int, kind string) (tf.M, bool) {
	others := []int{}
	for _, x := range S {
		if x != m {
			others = append(others, x)
		}
	}
	out := outside(n, S)
	step := tf.M{"e": "Submit", "m": m, "kind": kind}
	switch kind {
	case "scalar":
		step["v"] = rng.Intn(4)
	case "nonce":
		step["v"] = rng.Intn(2)
	case "nonceOther", "signer":
		if len(others) == 0 {
			return nil, false
		}
		step["x"] = others[rng.Intn(len(others))]
	case "staleRho":
		if len(others) > 0 && rng.Intn(2) == 0 {
			step["x"] = others[rng.Intn(len(others))]
		}
	case "steal":
		cands := append(append([]int{0}, others...), out...)
		step["x"] = cands[rng.Intn(len(cands))]
	case "outsider":
		if len(out) == 0 {
			return nil, false
		}
		step = tf.M{"e": "Submit", "m": out[rng.Intn(len(out))], "kind": "none"}
	case "committee":
		var sp []int
		switch {
		case len(out) > 0 && len(others) > 0 && rng.Intn(3) != 0: // replace one other member by a non-assigned one
			drop := others[rng.Intn(len(others))]
			for _, x := range S {
				if x != drop {
					sp = append(sp, x)
				}
			}
			sp = append(sp, out[rng.Intn(len(out))])
		case len(out) > 0: // one member more
			sp = append(append(sp, S...), out[rng.Intn(len(out))])
		case len(others) > 0: // one member fewer
			drop := others[rng.Intn(len(others))]
			for _, x := range S {
				if x != drop {
					sp = append(sp, x)
				}
			}
		default:
			return nil, false
		}
		step["Sp"] = sortedCopy(sp)
	default:
		return nil, false
	}
	return step, true
}

func anyCorruption(rng *rand.Rand, n int, S []int, m int) tf.M {
	for tries := 0; tries < 10; tries++ {
		if st, ok := corruptStep(rng, n, S, m, allKinds[rng.Intn(len(allKinds))]); ok {
			return st
		}
	}
	st, _ := corruptStep(rng, n, S, m, "scalar")
	return st
}

// submitAll: the members of `who` submit in the given order; with probability pc a corruption by that member comes
// before its correct share, with probability pd one (possibly a plain duplicate) comes after.
func submitAll(rng *rand.Rand, n int, S []int, who []int, pc, pd int) []tf.M {
	var steps []tf.M
	for _, m := range who {
		if rng.Intn(100) < pc {
			steps = append(steps, anyCorruption(rng, n, S, m))
		}
		steps = append(steps, tf.M{"e": "Submit", "m": m, "kind": "none"})
		if rng.Intn(100) < pd {
			if rng.Intn(2) == 0 {
				steps = append(steps, tf.M{"e": "Submit", "m": m, "kind": "none"}) // duplicate
			} else {
				steps = append(steps, anyCorruption(rng, n, S, m))
			}
		}
	}
	return steps
}

func shuffled(rng *rand.Rand, a []int) []int {
	b := append([]int{}, a...)
	rng.Shuffle(len(b), func(i, j int) { b[i], b[j] = b[j], b[i] })
	return b
}

func randomCommittee(rng *rand.Rand, n, t int, wantHigh bool) []int {
	for {
		S := sortedCopy(rng.Perm(n)[:t])
		for i := range S {
			S[i]++
		}
		if !wantHigh || n <= 20 || S[len(S)-1] > 20 {
			return S
		}
	}
}

// CompleteScript: everybody signs (with corruptions sprinkled in), the block ends, late submissions are refused.
func CompleteScript(rng *rand.Rand, n, t int, S []int, key int, pc, pd int) tf.Script {
	steps := []tf.M{{"e": "Nonces", "ms": S}, {"e": "Request", "msg": fmt.Sprintf("msg-%d-%d-%d", n, t, key)}}
	steps = append(steps, submitAll(rng, n, S, shuffled(rng, S), pc, pd)...)
	if rng.Intn(4) == 0 { // everything is in: one more attempt to push something
		steps = append(steps, anyCorruption(rng, n, S, S[rng.Intn(len(S))]))
	}
	steps = append(steps, tf.M{"e": "EndBlock"})
	steps = append(steps, tf.M{"e": "Submit", "m": S[rng.Intn(len(S))], "kind": "none"}) // after SUCCESS
	if rng.Intn(2) == 0 {
		steps = append(steps, tf.M{"e": "EndBlock"}) // the attempt record expires
		steps = append(steps, tf.M{"e": "Submit", "m": S[rng.Intn(len(S))], "kind": "none"})
	}
	return tf.Script{Fam: "TssAlgebra", C: tf.M{"n": n, "t": t, "S": S, "key": key}, Steps: steps}
}

// TimeoutScript: only some members sign, the attempt times out; either a second committee (which may keep members
// that signed) finishes the job - after somebody tried the share of the first attempt again - or the signing fails.
func TimeoutScript(rng *rand.Rand, n, t int, S []int, key int) tf.Script {
	steps := []tf.M{{"e": "Nonces", "ms": S}, {"e": "Request", "msg": fmt.Sprintf("retry-%d-%d-%d", n, t, key)}}
	k := rng.Intn(t) // 0..t-1 members sign
	A := sortedCopy(shuffled(rng, S)[:k])
	steps = append(steps, submitAll(rng, n, S, shuffled(rng, A), 30, 20)...)
	steps = append(steps, tf.M{"e": "EndBlock"})
	out := outside(n, S)
	c := tf.M{"n": n, "t": t, "S": S, "key": key}
	if len(A)+len(out) >= t && rng.Intn(5) != 0 {
		keepN := 0
		if len(A) > 0 {
			keepN = 1 + rng.Intn(len(A))
		}
		if t-keepN > len(out) {
			keepN = t - len(out)
		}
		if keepN > t {
			keepN = t
		}
		S2 := append([]int{}, shuffled(rng, A)[:keepN]...)
		S2 = sortedCopy(append(S2, shuffled(rng, out)[:t-keepN]...))
		c["S2"] = S2
		if rng.Intn(3) == 0 { // a late share of the first attempt, still in time
			rest := outsideOf(S, A)
			if len(rest) > 0 {
				steps = append(steps, tf.M{"e": "Submit", "m": rest[rng.Intn(len(rest))], "kind": "none"})
			}
		}
		steps = append(steps, tf.M{"e": "Nonces", "ms": S2})
		steps = append(steps, tf.M{"e": "EndBlock"}) // time-out, second attempt with committee S2
		for _, m := range S2 {
			if contains(A, m) {
				steps = append(steps, tf.M{"e": "Submit", "m": m, "kind": "prevAttempt"})
			}
		}
		// a member of the first committee that is not in the second one
		for _, m := range S {
			if !contains(S2, m) && rng.Intn(2) == 0 {
				steps = append(steps, tf.M{"e": "Submit", "m": m, "kind": "none"})
				break
			}
		}
		steps = append(steps, submitAll(rng, n, S2, shuffled(rng, S2), 30, 15)...)
		steps = append(steps, tf.M{"e": "EndBlock"})
		steps = append(steps, tf.M{"e": "Submit", "m": S2[0], "kind": "none"})
	} else {
		steps = append(steps, tf.M{"e": "EndBlock"}) // time-out, nobody available: FALLEN
		steps = append(steps, tf.M{"e": "Submit", "m": S[rng.Intn(len(S))], "kind": "none"})
		steps = append(steps, tf.M{"e": "EndBlock"})
	}
	return tf.Script{Fam: "TssAlgebra", C: c, Steps: steps}
}

func outsideOf(S, A []int) []int {
	var out []int
	for _, x := range S {
		if !contains(A, x) {
			out = append(out, x)
		}
	}
	return out
}

// CoverScripts: committees {1, j}, j = 2..20, in a group of 20 (every table entry 2..20 as numerator, every
// difference 1..19), the full committees 1..k for k = 3, 8, 13, 20 (high prime powers), single signers, and ids > 20.
func CoverScripts(rng *rand.Rand) []tf.Script {
	var out []tf.Script
	for j := 2; j <= 20; j++ {
		out = append(out, CompleteScript(rng, 20, 2, []int{1, j}, j, 60, 30))
	}
	for _, k := range []int{3, 8, 13, 20} {
		S := []int{}
		for i := 1; i <= k; i++ {
			S = append(S, i)
		}
		out = append(out, CompleteScript(rng, 20, k, S, 100+k, 10, 5))
	}
	out = append(out, CompleteScript(rng, 1, 1, []int{1}, 1, 100, 100))
	out = append(out, CompleteScript(rng, 20, 1, []int{20}, 2, 100, 50))
	out = append(out, CompleteScript(rng, 22, 2, []int{16, 22}, 3, 100, 50))
	out = append(out, CompleteScript(rng, 22, 3, []int{1, 21, 22}, 4, 100, 50))
	out = append(out, CompleteScript(rng, 21, 21, randomCommittee(rng, 21, 21, false), 5, 10, 5))
	out = append(out, TimeoutScript(rng, 4, 2, []int{1, 3}, 6))
	out = append(out, TimeoutScript(rng, 5, 3, []int{1, 3, 5}, 7))
	return out
}

// RandomScript draws (n, t, S) with a bias to small groups, some large thresholds and some ids above 20.
func RandomScript(rng *rand.Rand) tf.Script {
	var n int
	switch x := rng.Intn(100); {
	case x < 45:
		n = 1 + rng.Intn(6)
	case x < 75:
		n = 7 + rng.Intn(14)
	case x < 95:
		n = 21 + rng.Intn(6)
	default:
		n = 27 + rng.Intn(MaxMembers-26)
	}
	var t int
	switch x := rng.Intn(100); {
	case x < 55:
		t = 1 + rng.Intn(min(n, 4))
	case x < 85:
		t = 1 + rng.Intn(n)
	default:
		t = n
	}
	if t > 20 && rng.Intn(3) != 0 {
		t = 1 + rng.Intn(20)
	}
	S := randomCommittee(rng, n, t, rng.Intn(2) == 0)
	key := rng.Intn(1 << 20)
	if t < n || t >= 2 {
		if rng.Intn(100) < 22 {
			return TimeoutScript(rng, n, t, S, key)
		}
	}
	pc, pd := 35, 20
	if t > 8 {
		pc, pd = 12, 6
	}
	return CompleteScript(rng, n, t, S, key, pc, pd)
}

func min(a, b int) int {
	if a < b {
		return a
	}
	return b
}
