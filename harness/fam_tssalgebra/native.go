package fam_tssalgebra

// Thorough-tier extra ("native invariant evaluations"): the interpolation invariant of TssAlgebra.tla,
//
//	LagrangeInterp:  sum_{i in S} lambda_i(S) * f(i) = f(0)      for deg f < |S|,
//
// which TLC checks in Z_q, is evaluated here in Z_N with the real exported tss.ComputeLagrangeCoefficient (the
// hand-written prime-factor table for ids <= 20, the generic path above 20). The polynomial is evaluated with the
// harness' own Horner scheme. One trace event per batch carries the counts and the boolean `ok`; TLC only sees the
// boolean. This is reported separately (driver_stats.native_*) and is not what the level claim rests on.

import (
	"fmt"
	"math/rand"
	"time"

	"github.com/decred/dcrd/dcrec/secp256k1/v4"

	"github.com/bandprotocol/chain/v3/pkg/tss"

	tf "vdrive/tracefmt"
	"vdrive/tsskit"
)

const maxNativeID = 40

type nativeCtx struct {
	coef []secp256k1.ModNScalar   // a_0 .. a_19
	F    [][]secp256k1.ModNScalar // F[k][i] = sum_{j<k} a_j i^j   (k = 1..20, i = 1..40)
}

func newNativeCtx(seed int64) *nativeCtx {
	c := &nativeCtx{}
	for j := 0; j < 20; j++ {
		var a secp256k1.ModNScalar
		a.SetByteSlice(tsskit.ScalarFromSeed(fmt.Sprintf("native|%d|%d", seed, j)))
		c.coef = append(c.coef, a)
	}
	c.F = make([][]secp256k1.ModNScalar, 21)
	for k := 1; k <= 20; k++ {
		c.F[k] = make([]secp256k1.ModNScalar, maxNativeID+1)
		for i := 1; i <= maxNativeID; i++ {
			var x, acc secp256k1.ModNScalar
			x.SetInt(uint32(i))
			for j := k - 1; j >= 0; j-- { // Horner
				acc.Mul(&x)
				acc.Add(&c.coef[j])
			}
			c.F[k][i] = acc
		}
	}
	return c
}

// holds evaluates the invariant for one committee.
func (c *nativeCtx) holds(ids []tss.MemberID) bool {
	k := len(ids)
	var sum secp256k1.ModNScalar
	for _, id := range ids {
		lam, err := tss.ComputeLagrangeCoefficient(id, ids)
		if err != nil {
			return false
		}
		var l secp256k1.ModNScalar
		if overflow := l.SetByteSlice(lam); overflow {
			return false
		}
		l.Mul(&c.F[k][int(id)])
		sum.Add(&l)
	}
	return sum.Equals(&c.coef[0])
}

func idsOfMask(mask uint32) []tss.MemberID {
	var ids []tss.MemberID
	for b := 0; b < 20; b++ {
		if mask&(1<<uint(b)) != 0 {
			ids = append(ids, tss.MemberID(b+1))
		}
	}
	return ids
}

func popcount(x uint32) int {
	n := 0
	for ; x != 0; x &= x - 1 {
		n++
	}
	return n
}

// runNative writes one trace: a Reset line and one "Native" event per batch.
func (d *Driver) runNative(sc tf.Script) {
	level := tf.Str(sc.C, "level", "quick")
	seed := int64(tf.Int(sc.C, "seed", 1))
	budget := time.Duration(tf.Int(sc.C, "budget_s", 600)) * time.Second
	ctx := newNativeCtx(seed)
	rng := rand.New(rand.NewSource(seed*7919 + 17))
	st0 := tf.M{"h": 1, "n": 1, "t": 1, "st": "none", "att": 0, "S": []int{}, "signed": []int{}, "pend": false,
		"sig": tf.M{"present": false, "valid": false}}
	d.W.Reset(sc.C, st0, []tf.M{})
	d.Traces++
	d.Events++
	emit := func(batch string, size int, done, of int, ok bool, firstBad []int) {
		d.NativeEvals += done
		d.NativeBatches++
		d.NativeAllOK = d.NativeAllOK && ok
		d.W.Step("Native", tf.M{"batch": batch, "size": size, "done": done, "of": of, "firstBad": firstBad}, tf.M{"ok": ok}, st0)
		d.Events++
	}
	toInts := func(ids []tss.MemberID) []int {
		out := []int{}
		for _, x := range ids {
			out = append(out, int(x))
		}
		return out
	}
	// (a) subsets of 1..20, by size: exhaustive up to maxFull, then (thorough) every remaining size while time permits
	maxFull := 5
	if level == "thorough" {
		maxFull = 20
	}
	binom := func(n, k int) int {
		r := 1
		for i := 1; i <= k; i++ {
			r = r * (n - k + i) / i
		}
		return r
	}
	start := time.Now()
	for size := 1; size <= maxFull; size++ {
		done, ok := 0, true
		firstBad := []int{}
		complete := true
		for mask := uint32(1); mask < 1<<20; mask++ {
			if popcount(mask) != size {
				continue
			}
			if size > 4 && done%4096 == 0 && time.Since(start) > budget {
				complete = false
				break
			}
			ids := idsOfMask(mask)
			if !ctx.holds(ids) {
				if ok {
					firstBad = toInts(ids)
				}
				ok = false
			}
			done++
		}
		name := "subsets(1..20)"
		if !complete {
			name = "subsets(1..20),truncated"
		}
		emit(name, size, done, binom(20, size), ok, firstBad)
	}
	// (b) sampled larger subsets of 1..20 (quick tier only: the thorough tier enumerates them)
	sample := func(name string, lo, hi, minSize, maxSize, count int, needHigh bool) {
		done, ok := 0, true
		firstBad := []int{}
		for done < count {
			size := minSize + rng.Intn(maxSize-minSize+1)
			perm := rng.Perm(hi - lo + 1)
			var ids []tss.MemberID
			high := false
			for _, p := range perm[:size] {
				ids = append(ids, tss.MemberID(lo+p))
				high = high || lo+p > 20
			}
			if needHigh && !high {
				continue
			}
			// ComputeLagrangeCoefficient does not need sorted input; the chain always passes ascending ids
			for i := 1; i < len(ids); i++ {
				for j := i; j > 0 && ids[j-1] > ids[j]; j-- {
					ids[j-1], ids[j] = ids[j], ids[j-1]
				}
			}
			if !ctx.holds(ids) {
				if ok {
					firstBad = toInts(ids)
				}
				ok = false
			}
			done++
		}
		emit(name, 0, done, done, ok, firstBad)
	}
	if level != "thorough" {
		sample("sampled(1..20),size6..20", 1, 20, 6, 20, 3000, false)
		sample("sampled(1..40),with id>20,size1..20", 1, 40, 1, 20, 2000, true)
	} else {
		sample("sampled(1..40),with id>20,size1..20", 1, 40, 1, 20, 200000, true)
		sample("sampled(21..40),size1..20", 21, 40, 1, 20, 50000, true)
	}
}
