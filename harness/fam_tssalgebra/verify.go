package fam_tssalgebra

// An independent verifier for published BAND-TSS group signatures. It does not import pkg/tss: curve arithmetic comes
// from decred's secp256k1, the hash from golang.org/x/crypto/sha3, and the challenge bytes are assembled here from the
// format stated by property C03 (and documented in pkg/tss/hash.go):
//
//	c = keccak256( "BAND-TSS-secp256k1-v0" || 0x00 || "challenge" || 0x00 || address(R) || (parity(Y)+25) || Y.x || keccak256(msg) )
//	address(R) = keccak256( R.x || R.y )[12:]                (x, y as 32-byte big-endian)
//	parity(Y)  = first byte of the 33-byte compressed encoding of Y (0x02 even y, 0x03 odd y)
//
// A signature is the 65 bytes  compressed(R) || s  and is valid iff  s*G - c*Y == R  (R not the point at infinity).

import (
	"github.com/decred/dcrd/dcrec/secp256k1/v4"
	"golang.org/x/crypto/sha3"
)

const contextString = "BAND-TSS-secp256k1-v0"

func keccak(chunks ...[]byte) []byte {
	h := sha3.NewLegacyKeccak256()
	for _, c := range chunks {
		h.Write(c)
	}
	return h.Sum(nil)
}

func be32(f *secp256k1.FieldVal) []byte {
	b := f.Bytes()
	return b[:]
}

// challengeBytes is the pre-image of the challenge hash.
func challengeBytes(R, Y *secp256k1.PublicKey, yCompressed []byte, msg []byte) [][]byte {
	rx, ry := R.X(), R.Y()
	var fx, fy secp256k1.FieldVal
	fx.SetByteSlice(rx.Bytes())
	fy.SetByteSlice(ry.Bytes())
	addr := keccak(be32(&fx), be32(&fy))[12:]
	var yx secp256k1.FieldVal
	yx.SetByteSlice(Y.X().Bytes())
	return [][]byte{
		[]byte(contextString), {0}, []byte("challenge"), {0},
		addr, {yCompressed[0] + 25}, be32(&yx), keccak(msg),
	}
}

// VerifyGroupSignature decides, independently of pkg/tss, whether sig is a valid BAND-TSS signature of msg under the
// compressed public key groupPub.
func VerifyGroupSignature(groupPub []byte, msg []byte, sig []byte) bool {
	if len(sig) != 65 || len(groupPub) != 33 {
		return false
	}
	R, err := secp256k1.ParsePubKey(sig[:33])
	if err != nil {
		return false
	}
	Y, err := secp256k1.ParsePubKey(groupPub)
	if err != nil {
		return false
	}
	var s secp256k1.ModNScalar
	if overflow := s.SetByteSlice(sig[33:65]); overflow {
		return false
	}
	var c secp256k1.ModNScalar
	if overflow := c.SetByteSlice(keccak(challengeBytes(R, Y, groupPub, msg)...)); overflow {
		return false
	}
	// s*G - c*Y
	var sG, cY, yj, sum secp256k1.JacobianPoint
	secp256k1.ScalarBaseMultNonConst(&s, &sG)
	Y.AsJacobian(&yj)
	c.Negate()
	secp256k1.ScalarMultNonConst(&c, &yj, &cY)
	secp256k1.AddNonConst(&sG, &cY, &sum)
	if (sum.X.IsZero() && sum.Y.IsZero()) || sum.Z.IsZero() {
		return false
	}
	sum.ToAffine()
	var rj secp256k1.JacobianPoint
	R.AsJacobian(&rj)
	rj.ToAffine()
	return sum.X.Equals(&rj.X) && sum.Y.Equals(&rj.Y)
}
