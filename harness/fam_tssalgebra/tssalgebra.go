// Package fam_tssalgebra binds TssAlgebra.tla (property C03) to the real curve: it creates real threshold groups of
// any size (trusted dealer, tsskit), forces the signing committee to be a chosen set of member ids by handing nonce
// pairs (MsgSubmitDEs) to exactly those members, requests a signature through the real x/bandtss MsgRequestSignature,
// computes real partial signatures with the pkg/tss calls the cylinder daemon uses, applies one corruption to the
// real share, submits MsgSubmitSignature and runs the real end-blocker.
//
// Projection after every step: signing status, current attempt, assigned member ids, the member ids whose partial
// signature is stored, the pending flag, and whether a signature is published and valid according to the harness'
// own verifier (verify.go: decred secp256k1 + keccak, no pkg/tss).
//
// Environment (not the subject of C03): the group and its members are installed with keeper setters (DKG is C04);
// which members hold nonces is the driver's choice (the DE queues are C05, the sampler is C09).
package fam_tssalgebra

import (
	"bytes"
	"fmt"
	"sort"

	"github.com/decred/dcrd/dcrec/secp256k1/v4"

	sdk "github.com/cosmos/cosmos-sdk/types"

	"github.com/bandprotocol/chain/v3/pkg/tss"
	bandtsstypes "github.com/bandprotocol/chain/v3/x/bandtss/types"
	tsstypes "github.com/bandprotocol/chain/v3/x/tss/types"

	tf "vdrive/tracefmt"
	"vdrive/tsskit"
	"vdrive/world"
)

const (
	MaxMembers = 40
	Period     = 1
	MaxAttempt = 2
)

type Driver struct {
	w           *world.World
	W           *tf.Writer
	Traces      int
	Events      int
	Interesting int
	Signings    int
	Successes   int
	Rejected    int
	Kinds       map[string]int
	seen        map[string]bool
	members     []world.Account // m1..m40
	stranger    world.Account
	requester   world.Account
	// native invariant evaluations (thorough tier extra)
	NativeEvals   int
	NativeBatches int
	NativeAllOK   bool
}

func NewDriver(w *tf.Writer) *Driver {
	cfg := world.DefaultConfig()
	d := &Driver{w: world.New(cfg), W: w, seen: map[string]bool{}, Kinds: map[string]int{}, NativeAllOK: true}
	for i := 1; i <= MaxMembers; i++ {
		a := world.NewAccount(fmt.Sprintf("alg-member-%d", i))
		a.Name = fmt.Sprintf("m%d", i)
		d.members = append(d.members, a)
		d.w.RegisterName(a.Addr.String(), a.Name)
	}
	d.stranger = world.NewAccount("alg-stranger")
	d.stranger.Name = "x"
	d.requester = d.w.Accts[0]
	return d
}

func (d *Driver) Close() { d.w.Close() }

type session struct {
	d     *Driver
	r     *world.Run
	g     *tsskit.Group
	des   map[string]tsskit.DE
	deN   int
	sid   tss.SigningID
	saved map[uint64]map[tss.MemberID]tss.Signature // attempt -> member -> its correct share (as computed when asked)
	n, t  int
	dev   bool
}

func (s *session) member(id int) (tsskit.Member, bool) {
	if id < 1 || id > len(s.g.Members) {
		return tsskit.Member{}, false
	}
	return s.g.Members[id-1], true
}

// live returns the signing and its current attempt record if both exist.
func (s *session) live() (tsstypes.Signing, tsstypes.SigningAttempt, bool, bool) {
	k := s.d.w.App.TSSKeeper
	if s.sid == 0 {
		return tsstypes.Signing{}, tsstypes.SigningAttempt{}, false, false
	}
	sg, err := k.GetSigning(s.r.Ctx, s.sid)
	if err != nil {
		return tsstypes.Signing{}, tsstypes.SigningAttempt{}, false, false
	}
	sa, err := k.GetSigningAttempt(s.r.Ctx, s.sid, sg.CurrentAttempt)
	return sg, sa, true, err == nil
}

func (s *session) project() tf.M {
	k := s.d.w.App.TSSKeeper
	ctx := s.r.Ctx
	st := tf.M{"h": int(s.r.Height), "n": s.n, "t": s.t, "st": "none", "att": 0, "S": []int{}, "signed": []int{},
		"pend": false, "sig": tf.M{"present": false, "valid": false}, "asgOK": true}
	if s.sid == 0 {
		return st
	}
	sg, err := k.GetSigning(ctx, s.sid)
	if err != nil {
		st["st"] = "missing"
		return st
	}
	switch sg.Status {
	case tsstypes.SIGNING_STATUS_WAITING:
		st["st"] = "waiting"
	case tsstypes.SIGNING_STATUS_SUCCESS:
		st["st"] = "success"
	case tsstypes.SIGNING_STATUS_FALLEN:
		st["st"] = "fallen"
	default:
		st["st"] = "other"
	}
	st["att"] = int(sg.CurrentAttempt)
	if sa, err := k.GetSigningAttempt(ctx, s.sid, sg.CurrentAttempt); err == nil {
		ids := []int{}
		for _, am := range sa.AssignedMembers {
			ids = append(ids, int(am.MemberID))
		}
		sort.Ints(ids)
		st["S"] = ids
		st["asgOK"] = assignmentOK(sg, sa)
	}
	signed := []int{}
	for _, e := range k.GetPartialSignaturesWithKey(ctx, s.sid, sg.CurrentAttempt) {
		signed = append(signed, int(e.MemberID))
	}
	sort.Ints(signed)
	st["signed"] = signed
	for _, id := range k.GetPendingProcessSignings(ctx) {
		if id == s.sid {
			st["pend"] = true
		}
	}
	present := len(sg.Signature) > 0
	valid := false
	if present {
		valid = VerifyGroupSignature(sg.GroupPubKey, sg.Message, sg.Signature)
	}
	st["sig"] = tf.M{"present": present, "valid": valid}
	return st
}

func oc(o world.Outcome) tf.M {
	m := tf.M{"ok": o.OK()}
	if o.Err != nil {
		e := o.Err.Error()
		if len(e) > 100 {
			e = e[:100]
		}
		m["err"] = e
	}
	if o.Panic != nil {
		m["panic"] = fmt.Sprint(o.Panic)
	}
	return m
}

func (d *Driver) RunScript(sc tf.Script) {
	if tf.Bool(sc.C, "native", false) {
		d.runNative(sc)
		return
	}
	w := d.w
	n, t := tf.Int(sc.C, "n", 3), tf.Int(sc.C, "t", 2)
	if n < 1 || n > MaxMembers || t < 1 || t > n {
		return
	}
	s := &session{d: d, r: w.Branch(), des: map[string]tsskit.DE{}, saved: map[uint64]map[tss.MemberID]tss.Signature{}, n: n, t: t}
	r := s.r
	tk, bk := w.App.TSSKeeper, w.App.BandtssKeeper
	// environment: parameters (the group size limit only guards group creation; it is raised anyway for n > 20)
	tp := tk.GetParams(r.Ctx)
	tp.MaxSigningAttempt, tp.SigningPeriod = MaxAttempt, Period
	if uint64(n) > tp.MaxGroupSize {
		tp.MaxGroupSize = uint64(n)
	}
	if err := tp.Validate(); err != nil {
		panic(err)
	}
	if err := tk.SetParams(r.Ctx, tp); err != nil {
		panic(err)
	}
	bp := bk.GetParams(r.Ctx)
	bp.FeePerSigner = sdk.NewCoins()
	if err := bk.SetParams(r.Ctx, bp); err != nil {
		panic(err)
	}
	r.BeginBlock(10)
	s.g = tsskit.NewGroup(fmt.Sprintf("alg-%d-%d-%d", n, t, tf.Int(sc.C, "key", 0)), t, d.members[:n])
	s.g.Install(r.Ctx, w.App, bandtsstypes.ModuleName)
	s.g.InstallAsCurrent(r.Ctx, w.App)
	d.W.Reset(sc.C, s.project(), sc.Steps)
	d.Traces++
	d.Events++
	for _, step := range sc.Steps {
		if s.apply(step) {
			d.Events++
		}
	}
	if s.dev {
		hh := sc.Hash()
		if !d.seen[hh] {
			d.seen[hh] = true
			d.Interesting++
		}
	}
}

func (s *session) newDE() tsskit.DE {
	s.deN++
	de := tsskit.NewDE(fmt.Sprintf("alg-%d-%d-%d", s.d.Traces, s.n, s.deN))
	s.des[de.Key()] = de
	return de
}

// honest computes member mid's correct share for the live attempt exactly like cylinder (tsskit.PartialSign).
func (s *session) honest(mid int) (tss.Signature, bool) {
	sg, sa, ok, live := s.live()
	m, isMember := s.member(mid)
	if !ok || !live || !isMember {
		return nil, false
	}
	am, found := tsstypes.AssignedMembers(sa.AssignedMembers).FindAssignedMember(m.ID)
	if !found {
		return nil, false
	}
	de, ok := s.des[tsskit.PubKey(am.PubD, am.PubE)]
	if !ok {
		return nil, false
	}
	sig, err := tsskit.PartialSign(m, sg, sa, de)
	if err != nil {
		return nil, false
	}
	if s.saved[sa.Attempt] == nil {
		s.saved[sa.Attempt] = map[tss.MemberID]tss.Signature{}
	}
	s.saved[sa.Attempt][m.ID] = sig
	return sig, true
}

func joinSig(r tss.Point, z tss.Scalar) tss.Signature {
	return tss.Signature(append(append([]byte{}, r...), z...))
}

func plusOne(z tss.Scalar) tss.Scalar {
	var x, one secp256k1.ModNScalar
	x.SetByteSlice(z)
	one.SetInt(1)
	x.Add(&one)
	b := x.Bytes()
	return tss.Scalar(b[:])
}

// wrongScalar is one of the algebraically meaningful wrong values for a share's scalar z (k = the member's private
// nonce d + rho*e, so that z = k + c*lambda*x): 0: z+1; 1: z-2k, the share for the NEGATED nonce (z'G - c*lambda*Y = -R:
// right x-coordinate, wrong y); 2: -z; 3: z-1.
func wrongScalar(z, k tss.Scalar, variant int) tss.Scalar {
	var x, y secp256k1.ModNScalar
	x.SetByteSlice(z)
	switch variant % 4 {
	case 0:
		y.SetInt(1)
		x.Add(&y)
	case 1:
		y.SetByteSlice(k)
		y.Add(&y).Negate()
		x.Add(&y)
	case 2:
		x.Negate()
	default:
		y.SetInt(1)
		y.Negate()
		x.Add(&y)
	}
	b := x.Bytes()
	return tss.Scalar(b[:])
}

// assignmentOK recomputes the announced assignment of an attempt from the public inputs: commitment over (member id,
// D, E) of the committee, binding factor of each member from ITS member id, public nonce D + rho*E, group nonce = sum.
func assignmentOK(sg tsstypes.Signing, sa tsstypes.SigningAttempt) bool {
	ams := tsstypes.AssignedMembers(sa.AssignedMembers)
	commitment, err := tss.ComputeCommitment(ams.MemberIDs(), ams.PubDs(), ams.PubEs())
	if err != nil {
		return false
	}
	var nonces tss.Points
	for _, am := range ams {
		bf, err := tss.ComputeOwnBindingFactor(am.MemberID, sg.Message, commitment)
		if err != nil || !bytes.Equal(bf, am.BindingFactor) {
			return false
		}
		pn, err := tss.ComputeOwnPubNonce(am.PubD, am.PubE, bf)
		if err != nil || !bytes.Equal(pn, am.PubNonce) {
			return false
		}
		nonces = append(nonces, pn)
	}
	gn, err := tss.ComputeGroupPublicNonce(nonces...)
	return err == nil && bytes.Equal(gn, sg.GroupPubNonce)
}

// dummySig is a well-formed signature that belongs to nothing.
func dummySig(seed string) tss.Signature {
	return joinSig(tsskit.ScalarFromSeed(seed+"|R").Point(), tsskit.ScalarFromSeed(seed+"|z"))
}

// signWith makes a share for member m with the given private nonce and Lagrange coefficient over `ids`.
func signWith(sg tsstypes.Signing, m tsskit.Member, privNonce tss.Scalar, ids []tss.MemberID) (tss.Signature, error) {
	lagrange, err := tss.ComputeLagrangeCoefficient(m.ID, ids)
	if err != nil {
		return nil, err
	}
	return tss.SignSigning(sg.GroupPubNonce, sg.GroupPubKey, sg.Message, lagrange, privNonce, m.Priv)
}

// build resolves a Submit step against the real state: who sends, which member id is claimed, which bytes.
func (s *session) build(step tf.M) (sender world.Account, snd int, mid int, sig tss.Signature, kind string, ok bool) {
	kind = tf.Str(step, "kind", "none")
	m := tf.Int(step, "m", 1)
	x := tf.Int(step, "x", 0)
	mem, isMember := s.member(m)
	if !isMember {
		return sender, 0, 0, nil, kind, false
	}
	sender, snd, mid = mem.Acc, m, m
	sg, sa, haveSigning, live := s.live()
	hon, haveHon := s.honest(m)
	ams := tsstypes.AssignedMembers(sa.AssignedMembers)
	am, _ := ams.FindAssignedMember(mem.ID)
	de := s.des[tsskit.PubKey(am.PubD, am.PubE)]
	needHon := func() bool { return haveHon }
	switch kind {
	case "none":
		if haveHon {
			sig = hon
		} else if haveSigning && live {
			// not assigned: an "as if" share with an own nonce and a committee that includes the sender
			kind = "outsider"
			ids := append(ams.MemberIDs(), mem.ID)
			sort.Slice(ids, func(i, j int) bool { return ids[i] < ids[j] })
			var err error
			sig, err = signWith(sg, mem, tsskit.ScalarFromSeed(fmt.Sprintf("out-%d-%d", s.d.Traces, m)), ids)
			if err != nil {
				sig = dummySig("out")
			}
		} else {
			kind = "nosigning"
			sig = dummySig(fmt.Sprintf("nosig-%d", m))
		}
	case "scalar":
		if !needHon() {
			return sender, 0, 0, nil, kind, false
		}
		// which wrong scalar: named by the script ("v") or a function of the state (sid, attempt, member)
		variant := tf.Int(step, "v", -1)
		if variant < 0 {
			variant = int(s.sid) + int(sg.CurrentAttempt) + m
		}
		priv, err := tss.ComputeOwnPrivNonce(de.PrivD, de.PrivE, am.BindingFactor)
		if err != nil {
			variant = 0
		}
		sig = joinSig(hon.R(), wrongScalar(hon.S(), priv, variant))
	case "nonce":
		if !needHon() {
			return sender, 0, 0, nil, kind, false
		}
		if v := tf.Int(step, "v", 0); v%2 == 1 && len(hon.R()) == 33 {
			// the negated nonce point: same x-coordinate, other y (compressed prefix 02 <-> 03)
			neg := append(tss.Point{}, hon.R()...)
			neg[0] ^= 1
			sig = joinSig(neg, hon.S())
		} else {
			sig = joinSig(tsskit.ScalarFromSeed(fmt.Sprintf("rnd-%d-%d", s.d.Traces, m)).Point(), hon.S())
		}
	case "nonceOther":
		other, found := ams.FindAssignedMember(tss.MemberID(x))
		if !needHon() || !found || x == m {
			return sender, 0, 0, nil, kind, false
		}
		sig = joinSig(other.PubNonce, hon.S())
	case "signer": // own correct share under another assigned member's id
		if _, found := ams.FindAssignedMember(tss.MemberID(x)); !needHon() || !found || x == m {
			return sender, 0, 0, nil, kind, false
		}
		mid, sig = x, hon
	case "steal": // m's correct share sent by somebody else (x = 0: an account outside the group)
		if !needHon() || x == m {
			return sender, 0, 0, nil, kind, false
		}
		sig = hon
		if o, isM := s.member(x); isM {
			sender, snd = o.Acc, x
		} else {
			sender, snd = s.d.stranger, 0
		}
	case "committee": // Lagrange coefficient of a different committee that contains m
		if !needHon() {
			return sender, 0, 0, nil, kind, false
		}
		var ids []tss.MemberID
		for _, v := range tf.Ints(step, "Sp") {
			ids = append(ids, tss.MemberID(v))
		}
		priv, err := tss.ComputeOwnPrivNonce(de.PrivD, de.PrivE, am.BindingFactor)
		if err != nil || len(ids) == 0 {
			return sender, 0, 0, nil, kind, false
		}
		sig, err = signWith(sg, mem, priv, ids)
		if err != nil {
			return sender, 0, 0, nil, kind, false
		}
	case "staleRho": // binding factor of another member (or an unrelated one): wrong own nonce, everything else right
		if !needHon() {
			return sender, 0, 0, nil, kind, false
		}
		bf := tsskit.ScalarFromSeed(fmt.Sprintf("bf-%d-%d", s.d.Traces, m))
		if other, found := ams.FindAssignedMember(tss.MemberID(x)); found && x != m {
			bf = other.BindingFactor
		}
		priv, err := tss.ComputeOwnPrivNonce(de.PrivD, de.PrivE, bf)
		if err != nil {
			return sender, 0, 0, nil, kind, false
		}
		sig, err = signWith(sg, mem, priv, ams.MemberIDs())
		if err != nil {
			return sender, 0, 0, nil, kind, false
		}
	case "prevAttempt": // the correct share of the previous attempt, sent again
		if !haveSigning || sg.CurrentAttempt < 2 || s.saved[sg.CurrentAttempt-1] == nil {
			return sender, 0, 0, nil, kind, false
		}
		old, found := s.saved[sg.CurrentAttempt-1][mem.ID]
		if !found {
			return sender, 0, 0, nil, kind, false
		}
		sig = old
	default:
		panic("unknown corruption kind " + kind)
	}
	return sender, snd, mid, sig, kind, true
}

func (s *session) apply(step tf.M) bool {
	w := s.d.w
	r := s.r
	tk := w.App.TSSKeeper
	switch e := tf.Str(step, "e", ""); e {
	case "Nonces":
		// environment: one fresh nonce pair for each listed member, through the real MsgSubmitDEs
		ms := tf.Ints(step, "ms")
		if ms == nil {
			ms = []int{}
		}
		allOK := true
		for _, id := range ms {
			m, ok := s.member(id)
			if !ok {
				continue
			}
			de := s.newDE()
			if o := r.Deliver(&tsstypes.MsgSubmitDEs{DEs: []tsstypes.DE{de.Pub()}, Sender: m.Acc.Addr.String()}); !o.OK() {
				allOK = false
			}
		}
		s.d.W.Step("Nonces", tf.M{"ms": ms}, tf.M{"ok": allOK}, s.project())
	case "Request":
		if s.sid != 0 {
			return false
		}
		text := []byte(tf.Str(step, "msg", "hello"))
		msg, err := bandtsstypes.NewMsgRequestSignature(tsstypes.NewTextSignatureOrder(text),
			sdk.NewCoins(sdk.NewInt64Coin("uband", 1_000_000)), s.d.requester.Addr.String())
		if err != nil {
			panic(err)
		}
		before := tk.GetSigningCount(r.Ctx)
		o := r.Deliver(msg)
		if o.OK() && tk.GetSigningCount(r.Ctx) == before+1 {
			s.sid = tss.SigningID(before + 1)
			s.d.Signings++
		}
		s.d.W.Step("Request", tf.M{"msg": string(text)}, oc(o), s.project())
	case "Submit":
		sender, snd, mid, sig, kind, ok := s.build(step)
		if !ok {
			return false
		}
		// classify the input against the claimed member's correct share (inputs only, nothing the handler decided)
		rBad, zBad := true, true
		if hon, have := s.honest(mid); have {
			rBad = !bytes.Equal(sig.R(), hon.R())
			zBad = !bytes.Equal(sig.S(), hon.S())
		}
		sid := s.sid
		if sid == 0 {
			sid = 1
		}
		o := r.Deliver(&tsstypes.MsgSubmitSignature{SigningID: sid, MemberID: tss.MemberID(mid), Signature: sig,
			Signer: sender.Addr.String()})
		if kind != "none" || !o.OK() {
			s.dev = true
		}
		if !o.OK() {
			s.d.Rejected++
		}
		s.d.Kinds[kind]++
		s.d.W.Step("Submit", tf.M{"snd": snd, "mid": mid, "rBad": rBad, "zBad": zBad, "kind": kind}, oc(o), s.project())
	case "EndBlock":
		o := r.EndBlock()
		for _, ev := range o.Events {
			if ev.Type == tsstypes.EventTypeSigningSuccess {
				s.d.Successes++
			}
		}
		ob := r.BeginBlock(1)
		s.d.W.Step("EndBlock", tf.M{}, tf.M{"ok": o.OK() && ob.OK()}, s.project())
	default:
		panic("unknown step " + e)
	}
	return true
}
