#!/usr/bin/env python3
"""Generate harness/go.mod from /repo/go.mod (same require/replace blocks + replace => /repo)."""
import re,sys,os,shutil
repo=os.environ.get("VERIF_REPO","/repo")
src=open(os.path.join(repo,"go.mod")).read()
out=["module vdrive","","go 1.22.3",""]
# copy require and replace blocks verbatim
for m in re.finditer(r'^(require|replace)\s*\((.*?)^\)', src, re.S|re.M):
    out.append(m.group(0)); out.append("")
for m in re.finditer(r'^(require|replace)\s+[^(\n][^\n]*$', src, re.M):
    out.append(m.group(0))
out.append("require github.com/bandprotocol/chain/v3 v3.0.0")
out.append("replace github.com/bandprotocol/chain/v3 => %s" % repo)
here=os.path.dirname(os.path.abspath(__file__))
new="\n".join(out)+"\n"
p=os.path.join(here,"go.mod")
if not os.path.exists(p) or open(p).read()!=new:
    open(p,"w").write(new)
shutil.copyfile(os.path.join(repo,"go.sum"), os.path.join(here,"go.sum"))
