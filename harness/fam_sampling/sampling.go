// Package fam_sampling binds Sampling.tla (property C09) to the real code:
//
//	Pure  bandrng.ChooseOne / ChooseSome / ChooseSomeMaxWeight on script-chosen weight vectors (scaled by
//	      K = 2^kexp up to totals of 2^64 - 2^48) with a real bandrng.Rng;
//	Req   a real MsgRequestData in a world with script-chosen validator tokens / oracle-activity / jailing:
//	      the committee stored in Request.RequestedValidators;
//	Sign  a real bandtss MsgRequestSignature (and the retries made by the real tss end-blocker) on a
//	      trusted-dealer group with script-chosen member activity / nonce queues: SigningAttempt.AssignedMembers;
//	Block the real begin-blocker with a script-chosen header hash: the rolling seed;
//	Drbg  bandrng.Rng against the twin generator.
//
// No hook is needed: next to every call the driver builds a twin HMAC_DRBG (drbg.go) from the inputs the
// sampling specification names (rolling seed read from the store, request id or signingID||attempt, chain id)
// and logs its first outputs as 16-bit limbs.  TLC recomputes the selection from those draws and the logged
// eligible list and requires equality with what the code returned.
//
// Environment (not the subject of C09, installed through keeper setters): oracle params, validator
// activity flags after the prelude, jailing, the signing group (tsskit), member activity, nonce queues.
package fam_sampling

import (
	"crypto/sha256"
	"encoding/binary"
	"fmt"
	"math/big"
	"math/rand"
	"time"

	"cosmossdk.io/core/header"

	sdk "github.com/cosmos/cosmos-sdk/types"
	stakingtypes "github.com/cosmos/cosmos-sdk/x/staking/types"

	"github.com/bandprotocol/chain/v3/pkg/bandrng"
	"github.com/bandprotocol/chain/v3/pkg/tss"
	bandtsstypes "github.com/bandprotocol/chain/v3/x/bandtss/types"
	oracletypes "github.com/bandprotocol/chain/v3/x/oracle/types"
	tsstypes "github.com/bandprotocol/chain/v3/x/tss/types"

	tf "vdrive/tracefmt"
	"vdrive/tsskit"
	"vdrive/world"
)

// worldSpec: validator k is bonded with W[k] * 2^Kexp uband.
type worldSpec struct {
	W    []int64
	Kexp uint
}

// Genesis menus (tokens are fixed per world; activity, jailing and the ask count vary per trace).
// Every validator has >= 2^20 uband so that its consensus power is positive (really bonded).
var worldSpecs = []worldSpec{
	{[]int64{5, 3, 3, 2, 1, 1}, 20},                               // skewed with ties
	{[]int64{1, 1, 1, 1}, 22},                                     // equal
	{[]int64{1000003, 1999993, 1500007, 1000003, 2500009}, 0},     // K = 1, realistic uband amounts
	{[]int64{30000, 20000, 10000, 5000, 535}, 48},                 // total = 65535 * 2^48 = 2^64 - 2^48
	{[]int64{7}, 32},                                              // single validator
	{[]int64{9, 8, 7, 6, 5, 4, 3, 2}, 32},                         // eight validators
	{[]int64{32767, 32767, 1}, 48},                                // two whales (2^63 - 2^48 each) and a dwarf
	{[]int64{4000, 4000, 4000, 4000, 4000, 4000, 4000, 4000, 4000, 4000, 4000, 4000}, 48}, // twelve equal, huge
}

const (
	maxAttempt = 3
	nMembers   = 6
)

type Driver struct {
	W           *tf.Writer
	Traces      int
	Events      int
	Interesting int
	Counts      map[string]int
	seen        map[string]bool
	worlds      map[int]*world.World
}

func NewDriver(w *tf.Writer) *Driver {
	return &Driver{W: w, seen: map[string]bool{}, worlds: map[int]*world.World{}, Counts: map[string]int{}}
}

func (d *Driver) Close() {
	for _, w := range d.worlds {
		w.Close()
	}
}

func (d *Driver) world(i int) (*world.World, worldSpec) {
	i = ((i % len(worldSpecs)) + len(worldSpecs)) % len(worldSpecs)
	sp := worldSpecs[i]
	if w, ok := d.worlds[i]; ok {
		return w, sp
	}
	cfg := world.DefaultConfig()
	cfg.NumAccounts = nMembers + 2
	cfg.ValTokens = nil
	for _, a := range sp.W {
		cfg.ValTokens = append(cfg.ValTokens, a<<sp.Kexp)
	}
	w := world.New(cfg)
	d.worlds[i] = w
	return w, sp
}

func be64(x uint64) []byte {
	b := make([]byte, 8)
	binary.BigEndian.PutUint64(b, x)
	return b
}

func ints(xs []int) []int {
	if xs == nil {
		return []int{}
	}
	return xs
}

func seedInts(b []byte) []int {
	out := make([]int, len(b))
	for i, x := range b {
		out[i] = int(x)
	}
	return out
}

func (d *Driver) mark(sc tf.Script, interesting bool) {
	if interesting {
		h := sc.Hash()
		if !d.seen[h] {
			d.seen[h] = true
			d.Interesting++
		}
	}
}

func (d *Driver) RunScript(sc tf.Script) {
	switch tf.Str(sc.C, "kind", "pure") {
	case "chain":
		d.runChain(sc)
	default:
		d.runPure(sc)
	}
}

// ---------------------------------------------------------------------------------------------
// pure level

func pureInputs(seedNo int) (entropy, nonce, pers []byte) {
	h := sha256.Sum256([]byte(fmt.Sprintf("verif-sampling-entropy|%d", seedNo)))
	return h[:], be64(uint64(seedNo)), []byte("pure-level")
}

// guarded call of a bandrng function with a fresh real generator
func callPure(fn string, weights []uint64, cnt, tries, seedNo int) (sel []int, ok bool) {
	defer func() {
		if p := recover(); p != nil {
			sel, ok = nil, false
		}
	}()
	rng, err := bandrng.NewRng(pureInputs(seedNo))
	if err != nil {
		return nil, false
	}
	switch fn {
	case "one":
		return []int{bandrng.ChooseOne(rng, weights)}, true
	case "some":
		return bandrng.ChooseSome(rng, weights, cnt), true
	default:
		return bandrng.ChooseSomeMaxWeight(rng, weights, cnt, tries), true
	}
}

// purePre: the precondition of the bandrng functions and of the spec's arithmetic
func purePre(w []int, kexp uint, cnt int) bool {
	pos, sum := 0, uint64(0)
	for _, x := range w {
		if x < 0 {
			return false
		}
		if x > 0 {
			pos++
		}
		sum += uint64(x)
	}
	if sum == 0 || sum > 1<<23 || cnt < 0 || pos < cnt {
		return false
	}
	return kexp == 0 || sum < 1<<(64-kexp)
}

func (d *Driver) runPure(sc tf.Script) {
	zero := seedInts(make([]byte, 32))
	st := tf.M{"seed": zero}
	d.W.Reset(sc.C, st, sc.Steps)
	d.Traces++
	d.Events++
	interesting := false
	for _, step := range sc.Steps {
		seedNo := tf.Int(step, "seed", 1)
		switch tf.Str(step, "e", "Pure") {
		case "Drbg":
			k := tf.Int(step, "k", 6)
			real := [][]int{}
			func() {
				defer func() { _ = recover() }()
				rng, err := bandrng.NewRng(pureInputs(seedNo))
				if err != nil {
					return
				}
				for i := 0; i < k; i++ {
					real = append(real, limbs(rng.NextUint64()))
				}
			}()
			tw := limbsShifted(newTwin(pureInputs(seedNo)).take(k), 0)
			d.W.Step("Drbg", tf.M{"seed": seedNo, "k": k, "real": real, "twin": tw}, tf.M{"ok": true}, st)
			d.Events++
			d.Counts["drbg"]++
		default:
			fn := tf.Str(step, "fn", "max")
			w := tf.Ints(step, "w")
			kexp := uint(tf.Int(step, "kexp", 0))
			cnt, tries := tf.Int(step, "cnt", 1), tf.Int(step, "tries", 1)
			if fn == "one" {
				cnt, tries = 1, 1
			}
			if fn == "some" {
				tries = 1
			}
			if !purePre(w, kexp, cnt) || tries < 1 || kexp > 63 {
				continue
			}
			weights := make([]uint64, len(w))
			for i, x := range w {
				weights[i] = uint64(x) << kexp
			}
			need := cnt * tries
			sel, ok := callPure(fn, weights, cnt, tries, seedNo)
			again, ok2 := callPure(fn, weights, cnt, tries, seedNo)
			ds := newTwin(pureInputs(seedNo)).take(need)
			d.W.Step("Pure", tf.M{"fn": fn, "w": ints(w), "kexp": int(kexp), "cnt": cnt, "tries": tries, "seed": seedNo,
				"ds": limbsShifted(ds, kexp)},
				tf.M{"ok": ok, "sel": ints(sel), "okAgain": ok2, "again": ints(again)}, st)
			d.Events++
			d.Counts["pure"]++
			if cnt >= 2 {
				interesting = true
			}
		}
	}
	d.mark(sc, interesting)
}

// ---------------------------------------------------------------------------------------------
// keeper level

type elig struct {
	name string
	op   string
	w    int
}

type session struct {
	d      *Driver
	w      *world.World
	sp     worldSpec
	r      *world.Run
	g      *tsskit.Group
	wantDE map[int]bool
	// lean traces: queues hold at most two pairs and run empty (2 -> 1 -> 0 -> refill); which members still hold a pair is
	// then the harness's OWN count (pairs it enqueued minus pairs the chain assigned), not the stored queue bounds
	lean bool
	cnt  map[int]int
	deN    int
	msgN   int
	tries  int
}

func (s *session) state() tf.M {
	return tf.M{"seed": seedInts(s.w.App.RollingseedKeeper.GetRollingSeed(s.r.Ctx))}
}

// eligible: bonded (power index) and oracle-active, in the order of the staking power index, with the
// abstract weight tokens / 2^kexp.  Read with the staking keeper's own iterator, not through x/oracle.
func (s *session) eligible(ctx sdk.Context) []elig {
	var out []elig
	ok := s.w.App.OracleKeeper
	_ = s.w.App.StakingKeeper.IterateBondedValidatorsByPower(ctx, func(_ int64, v stakingtypes.ValidatorI) bool {
		op, err := sdk.ValAddressFromBech32(v.GetOperator())
		if err != nil {
			return false
		}
		if !ok.GetValidatorStatus(ctx, op).IsActive {
			return false
		}
		tok := v.GetTokens().BigInt()
		a := new(big.Int).Rsh(tok, s.sp.Kexp)
		if new(big.Int).Lsh(a, s.sp.Kexp).Cmp(tok) != 0 || !a.IsInt64() || a.Int64() > 1<<23 {
			panic(fmt.Sprintf("harness: tokens %s of %s are not a multiple of 2^%d", tok, v.GetOperator(), s.sp.Kexp))
		}
		out = append(out, elig{name: s.w.Name(v.GetOperator()), op: v.GetOperator(), w: int(a.Int64())})
		return false
	})
	return out
}

// available: members of the group that are active and have a queued nonce, in store order (read from the
// member records and the queue bounds, not through GetAvailableMembers)
func (s *session) available(ctx sdk.Context) []int {
	tk := s.w.App.TSSKeeper
	out := []int{}
	ms, err := tk.GetGroupMembers(ctx, s.g.ID)
	if err != nil {
		return out
	}
	for _, m := range ms {
		acc, err := sdk.AccAddressFromBech32(m.Address)
		if err != nil || !m.IsActive {
			continue
		}
		if s.lean {
			if s.cnt[int(m.ID)] > 0 {
				out = append(out, int(m.ID))
			}
			continue
		}
		q := tk.GetDEQueue(ctx, acc)
		if q.Tail > q.Head {
			out = append(out, int(m.ID))
		}
	}
	return out
}

// topUp keeps the nonce queues at "empty" or "comfortably filled" so that a dequeue never changes availability
func (s *session) topUp() {
	tk := s.w.App.TSSKeeper
	for i, m := range s.g.Members {
		q := tk.GetDEQueue(s.r.Ctx, m.Acc.Addr)
		n := int(q.Tail - q.Head)
		if !s.wantDE[i+1] {
			if n > 0 {
				_ = tk.ResetDE(s.r.Ctx, m.Acc.Addr)
			}
			s.cnt[i+1] = 0
			continue
		}
		fill := 12
		if s.lean {
			if s.cnt[i+1] > 0 {
				continue
			}
			n, fill = 0, 2
			s.cnt[i+1] = 2
		} else if n >= 8 {
			continue
		}
		var pubs []tsstypes.DE
		for ; n < fill; n++ {
			s.deN++
			pubs = append(pubs, tsskit.NewDE(fmt.Sprintf("smp-%d", s.deN)).Pub())
		}
		if err := tk.EnqueueDEs(s.r.Ctx, m.Acc.Addr, pubs); err != nil {
			panic(err)
		}
	}
}

func (s *session) setMember(k int, active bool) {
	if k < 1 || k > len(s.g.Members) {
		return
	}
	tk, bk := s.w.App.TSSKeeper, s.w.App.BandtssKeeper
	m := s.g.Members[k-1]
	if !active {
		_ = bk.DeactivateMember(s.r.Ctx, m.Acc.Addr, s.g.ID)
		return
	}
	_ = tk.SetMemberIsActive(s.r.Ctx, s.g.ID, m.Acc.Addr, true)
	if bm, err := bk.GetMember(s.r.Ctx, m.Acc.Addr, s.g.ID); err == nil && !bm.IsActive {
		bm.IsActive = true
		bk.SetMember(s.r.Ctx, bm)
	}
}

// onBranch delivers the message on a throw-away branch and reads the result there (determinism: a second
// node executing the same transaction on the same state)
func (s *session) onBranch(msg sdk.Msg, read func(ctx sdk.Context) []int) (bool, []int) {
	saved := s.r.Ctx
	s.r.Ctx = s.r.Sub()
	o := s.r.Deliver(msg)
	var sel []int
	if o.OK() {
		sel = read(s.r.Ctx)
	}
	s.r.Ctx = saved
	return o.OK(), sel
}

func (d *Driver) runChain(sc tf.Script) {
	w, sp := d.world(tf.Int(sc.C, "world", 0))
	s := &session{d: d, w: w, sp: sp, r: w.Branch(), wantDE: map[int]bool{}, tries: tf.Int(sc.C, "tries", 3),
		lean: tf.Bool(sc.C, "lean", false), cnt: map[int]int{}}
	if s.tries < 1 {
		s.tries = 1
	}
	r := s.r
	app := w.App
	// environment: parameters
	op := app.OracleKeeper.GetParams(r.Ctx)
	op.SamplingTryCount = uint64(s.tries)
	if err := app.OracleKeeper.SetParams(r.Ctx, op); err != nil {
		panic(err)
	}
	tp := app.TSSKeeper.GetParams(r.Ctx)
	tp.MaxSigningAttempt, tp.SigningPeriod, tp.MaxDESize = maxAttempt, 1, 100
	if s.lean {
		tp.MaxSigningAttempt = 1 // no retries: every committee is drawn by a request, where the own count is exact
	}
	if err := app.TSSKeeper.SetParams(r.Ctx, tp); err != nil {
		panic(err)
	}
	r.BeginBlock(10)
	// prelude through the real handler: the validators of this trace activate
	inactive := map[int]bool{}
	for _, k := range tf.Ints(sc.C, "inactive") {
		inactive[k] = true
	}
	for i, v := range w.Vals {
		if inactive[i+1] {
			continue
		}
		if o := r.Deliver(&oracletypes.MsgActivate{Validator: v.ValAddr.String()}); !o.OK() {
			panic(fmt.Sprint("prelude activate failed: ", o.Err))
		}
	}
	// environment: the signing group
	gn := tf.Int(sc.C, "gn", 3)
	if gn < 1 {
		gn = 1
	}
	if gn > nMembers {
		gn = nMembers
	}
	gt := tf.Int(sc.C, "gt", 2)
	if gt < 1 {
		gt = 1
	}
	if gt > gn {
		gt = gn
	}
	s.g = tsskit.NewGroup(fmt.Sprintf("smp-g-%d-%d", gn, gt), gt, w.Accts[:gn])
	s.g.Install(r.Ctx, app, bandtsstypes.ModuleName)
	s.g.InstallAsCurrent(r.Ctx, app)
	for i := 1; i <= gn; i++ {
		s.wantDE[i] = true
	}
	for _, k := range tf.Ints(sc.C, "node") {
		s.wantDE[k] = false
	}
	for _, k := range tf.Ints(sc.C, "minactive") {
		s.setMember(k, false)
	}
	s.topUp()
	d.W.Reset(sc.C, s.state(), sc.Steps)
	d.Traces++
	d.Events++
	interesting := false
	for _, step := range sc.Steps {
		s.topUp()
		if s.apply(step) {
			interesting = true
		}
	}
	d.mark(sc, interesting)
}

func (s *session) valAt(k int) (world.Account, bool) {
	if k < 1 || k > len(s.w.Vals) {
		return world.Account{}, false
	}
	return s.w.Vals[k-1], true
}

// apply returns true if the step sampled a committee of at least two
func (s *session) apply(step tf.M) bool {
	w, r, d := s.w, s.r, s.d
	app := w.App
	ok, tk, bk := app.OracleKeeper, app.TSSKeeper, app.BandtssKeeper
	chain := []byte(w.Cfg.ChainID)
	switch tf.Str(step, "e", "") {
	case "SetVal": // environment
		v, found := s.valAt(tf.Int(step, "v", 1))
		if found {
			ok.SetValidatorStatus(r.Ctx, v.ValAddr, oracletypes.NewValidatorStatus(tf.Bool(step, "active", true), r.Time))
		}
	case "Jail": // environment; at least one validator stays in the power index
		v, found := s.valAt(tf.Int(step, "v", 1))
		if !found {
			return false
		}
		n := 0
		_ = app.StakingKeeper.IterateBondedValidatorsByPower(r.Ctx, func(_ int64, _ stakingtypes.ValidatorI) bool { n++; return false })
		val, err := app.StakingKeeper.GetValidator(r.Ctx, v.ValAddr)
		if err != nil || val.IsJailed() || n <= 1 {
			return false
		}
		if cons, err := val.GetConsAddr(); err == nil {
			_ = app.StakingKeeper.Jail(r.Ctx, cons)
		}
	case "SetMember": // environment
		k := tf.Int(step, "m", 1)
		s.setMember(k, tf.Bool(step, "active", true))
		if k >= 1 && k <= len(s.g.Members) {
			s.wantDE[k] = tf.Bool(step, "de", true)
		}
		s.topUp()
	case "Req":
		ask := tf.Int(step, "ask", 1)
		if ask < 1 {
			ask = 1
		}
		id := ok.GetRequestCount(r.Ctx) + 1
		el := s.eligible(r.Ctx)
		need := 0
		if len(el) >= ask {
			need = ask * s.tries
		}
		ds := newTwin(app.RollingseedKeeper.GetRollingSeed(r.Ctx), be64(id), chain).take(need)
		s.msgN++
		msg := oracletypes.NewMsgRequestData(world.ScriptOK1, []byte(fmt.Sprintf("cd-%d", s.msgN)), uint64(ask), 1,
			fmt.Sprintf("cl-%d", s.msgN), sdk.NewCoins(sdk.NewInt64Coin("uband", 1_000_000)), 40000, 300000, w.Accts[nMembers].Addr, 0)
		read := func(ctx sdk.Context) []int {
			rq, err := ok.GetRequest(ctx, oracletypes.RequestID(id))
			if err != nil {
				return nil
			}
			var sel []int
			for _, v := range rq.RequestedValidators {
				p := -1
				for i, e := range el {
					if e.op == v {
						p = i
					}
				}
				sel = append(sel, p)
			}
			return sel
		}
		ok2, again := s.onBranch(msg, read)
		o := r.Deliver(msg)
		var sel []int
		if o.OK() {
			sel = read(r.Ctx)
		}
		ws, names := []int{}, []string{}
		for _, e := range el {
			ws = append(ws, e.w)
			names = append(names, e.name)
		}
		d.W.Step("Req", tf.M{"id": int(id), "cnt": ask, "tries": s.tries, "w": ws, "kexp": int(s.sp.Kexp), "names": names,
			"ds": limbsShifted(ds, s.sp.Kexp)},
			tf.M{"ok": o.OK(), "sel": ints(sel), "okAgain": ok2, "again": ints(again), "err": errText(o)}, s.state())
		d.Events++
		d.Counts["req"]++
		if !o.OK() {
			d.Counts["req_rejected"]++
		}
		return o.OK() && ask >= 2
	case "SignReq":
		sid := tk.GetSigningCount(r.Ctx) + 1
		avail := s.available(r.Ctx)
		t := s.g.T
		need := 0
		if len(avail) >= t {
			need = t
		}
		nonce := append(be64(sid), be64(1)...)
		ds := newTwin(app.RollingseedKeeper.GetRollingSeed(r.Ctx), nonce, chain).take(need)
		s.msgN++
		msg, err := bandtsstypes.NewMsgRequestSignature(tsstypes.NewTextSignatureOrder([]byte(fmt.Sprintf("m%d", s.msgN))),
			sdk.NewCoins(sdk.NewInt64Coin("uband", 10)), bk.GetAuthority()) // the authority signs for free; the limit must be positive
		if err != nil {
			panic(err)
		}
		read := func(ctx sdk.Context) []int { return assigned(ctx, s, sid, 1) }
		ok2, again := s.onBranch(msg, read)
		o := r.Deliver(msg)
		var sel []int
		if o.OK() {
			sel = read(r.Ctx)
			for _, m := range sel {
				s.cnt[m]--
			}
		}
		d.W.Step("Sign", tf.M{"sid": int(sid), "att": 1, "w": avail, "cnt": t, "ds": limbsShifted(ds, 0)},
			tf.M{"ok": o.OK(), "sel": ints(sel), "okAgain": ok2, "again": ints(again), "err": errText(o)}, s.state())
		d.Events++
		d.Counts["sign"]++
		if !o.OK() {
			d.Counts["sign_rejected"]++
		}
		return o.OK() && t >= 2
	case "Block":
		interesting := false
		// signings that may be retried by this end-block
		type snap struct {
			att uint64
		}
		before := map[uint64]snap{}
		n := tk.GetSigningCount(r.Ctx)
		for sid := uint64(1); sid <= n; sid++ {
			if sg, err := tk.GetSigning(r.Ctx, tss.SigningID(sid)); err == nil && sg.Status == tsstypes.SIGNING_STATUS_WAITING {
				before[sid] = snap{att: sg.CurrentAttempt}
			}
		}
		r.EndBlock()
		// the end-block first deactivates the idle members of every timed-out attempt, then retries; no retry
		// changes activity or empties a queue (topUp), so the availability read now is the one every retry saw
		avail := s.available(r.Ctx)
		seed := app.RollingseedKeeper.GetRollingSeed(r.Ctx)
		t := s.g.T
		for sid := uint64(1); sid <= n; sid++ {
			b, was := before[sid]
			if !was {
				continue
			}
			sg, err := tk.GetSigning(r.Ctx, tss.SigningID(sid))
			if err != nil {
				continue
			}
			var okRetry bool
			switch {
			case sg.Status == tsstypes.SIGNING_STATUS_WAITING && sg.CurrentAttempt == b.att+1:
				okRetry = true
			case sg.Status == tsstypes.SIGNING_STATUS_FALLEN && b.att < maxAttempt && !s.lean:
				okRetry = false
			default:
				continue // not expired yet, or out of attempts (not a sampling outcome)
			}
			need := 0
			if len(avail) >= t {
				need = t
			}
			ds := newTwin(seed, append(be64(sid), be64(b.att+1)...), chain).take(need)
			var sel []int
			if okRetry {
				sel = assigned(r.Ctx, s, sid, b.att+1)
			}
			d.W.Step("Sign", tf.M{"sid": int(sid), "att": int(b.att + 1), "w": avail, "cnt": t, "ds": limbsShifted(ds, 0)},
				tf.M{"ok": okRetry, "sel": ints(sel), "okAgain": okRetry, "again": ints(sel)}, s.state())
			d.Events++
			d.Counts["sign_retry"]++
			if !okRetry {
				d.Counts["sign_retry_rejected"]++
			}
			if okRetry && t >= 2 {
				interesting = true
			}
		}
		// next block: the real begin-blocker with the script's header hash (first byte hb; -1 = no hash)
		hb := tf.Int(step, "hb", -1)
		var hash []byte
		if hb >= 0 {
			hash = make([]byte, 32)
			hash[0] = byte(hb)
			hash[31] = byte(r.Height + 1)
		}
		r.Ctx = r.Ctx.WithHeaderInfo(header.Info{Height: r.Height + 1, Hash: hash, Time: r.Time.Add(time.Second), ChainID: w.Cfg.ChainID})
		o := r.BeginBlock(1)
		d.W.Step("Block", tf.M{"hb": hb}, tf.M{"ok": o.OK()}, s.state())
		d.Events++
		d.Counts["block"]++
		return interesting
	}
	return false
}

// errText is for humans reading replays only (the spec reads "ok")
func errText(o world.Outcome) string {
	e := ""
	if o.Err != nil {
		e = o.Err.Error()
	}
	if o.Panic != nil {
		e = fmt.Sprint("panic: ", o.Panic)
	}
	if len(e) > 100 {
		e = e[:100]
	}
	return e
}

// assigned reads SigningAttempt.AssignedMembers (member ids in stored order)
func assigned(ctx sdk.Context, s *session, sid, att uint64) []int {
	sa, err := s.w.App.TSSKeeper.GetSigningAttempt(ctx, tss.SigningID(sid), att)
	if err != nil {
		return nil
	}
	var out []int
	for _, am := range sa.AssignedMembers {
		out = append(out, int(am.MemberID))
	}
	return out
}

// ---------------------------------------------------------------------------------------------
// scripts

func randWeights(rng *rand.Rand, kexp uint) []int {
	capSum := 1 << 23
	if kexp >= 41 {
		capSum = (1 << (64 - kexp)) - 1
	}
	n := 1 + rng.Intn(8)
	if rng.Intn(10) == 0 {
		n = 9 + rng.Intn(8)
	}
	w := make([]int, n)
	switch rng.Intn(7) {
	case 0: // equal
		x := 1 + rng.Intn(4)
		for i := range w {
			w[i] = x
		}
	case 1: // tiny
		for i := range w {
			w[i] = 1 + rng.Intn(4)
		}
	case 2: // tiny with zeros
		for i := range w {
			w[i] = rng.Intn(4)
		}
	case 3: // skewed: one whale
		for i := range w {
			w[i] = 1 + rng.Intn(3)
		}
		w[rng.Intn(n)] = capSum / 2
	case 4: // medium
		for i := range w {
			w[i] = 1 + rng.Intn(1000)
		}
	case 5: // total exactly at the cap (K * total = 2^64 - K for kexp = 48)
		left := capSum
		for i := 0; i < n-1; i++ {
			w[i] = 1 + rng.Intn(capSum/(n+1))
			left -= w[i]
		}
		w[n-1] = left
	default: // large
		for i := range w {
			w[i] = 1 + rng.Intn(capSum/n)
		}
	}
	sum := 0
	for _, x := range w {
		sum += x
	}
	for sum > capSum { // shrink the largest
		j := 0
		for i := range w {
			if w[i] > w[j] {
				j = i
			}
		}
		sum -= w[j] - w[j]/2
		w[j] /= 2
	}
	if sum == 0 {
		w[0] = 1
	}
	return w
}

func positives(w []int) int {
	n := 0
	for _, x := range w {
		if x > 0 {
			n++
		}
	}
	return n
}

func randPure(rng *rand.Rand) tf.Script {
	var steps []tf.M
	n := 15 + rng.Intn(16)
	for i := 0; i < n; i++ {
		if rng.Intn(25) == 0 {
			steps = append(steps, tf.M{"e": "Drbg", "seed": rng.Intn(1 << 30), "k": 1 + rng.Intn(8)})
			continue
		}
		kexp := []uint{0, 0, 0, 1, 2, 16, 16, 48, 48}[rng.Intn(9)]
		w := randWeights(rng, kexp)
		pos := positives(w)
		cnt := 1 + rng.Intn(pos)
		if rng.Intn(3) == 0 && pos > 4 {
			cnt = 1 + rng.Intn(4)
		}
		if rng.Intn(6) == 0 {
			cnt = pos
		}
		fn := []string{"one", "some", "some", "max", "max", "max"}[rng.Intn(6)]
		steps = append(steps, tf.M{"e": "Pure", "fn": fn, "w": w, "kexp": int(kexp), "cnt": cnt,
			"tries": []int{1, 2, 3, 3, 5}[rng.Intn(5)], "seed": rng.Intn(1 << 30)})
	}
	return tf.Script{Fam: "Sampling", C: tf.M{"kind": "pure"}, Steps: steps}
}

func subset(rng *rand.Rand, n, pct int) []int {
	out := []int{}
	for i := 1; i <= n; i++ {
		if rng.Intn(100) < pct {
			out = append(out, i)
		}
	}
	return out
}

func randChain(rng *rand.Rand) tf.Script {
	wi := rng.Intn(len(worldSpecs))
	nv := len(worldSpecs[wi].W)
	gn := 1 + rng.Intn(nMembers)
	gt := 1 + rng.Intn(gn)
	if rng.Intn(2) == 0 && gn >= 2 {
		gt = 1 + rng.Intn(gn/2) // leaves room for retries after the idle members are deactivated
	}
	c := tf.M{"kind": "chain", "world": wi, "tries": []int{1, 2, 3, 3, 3, 5}[rng.Intn(6)], "inactive": subset(rng, nv, 15),
		"gn": gn, "gt": gt, "minactive": subset(rng, gn, 12), "node": subset(rng, gn, 12), "lean": rng.Intn(3) == 0}
	var steps []tf.M
	n := 8 + rng.Intn(10)
	for i := 0; i < n; i++ {
		x := rng.Intn(100)
		switch {
		case x < 34:
			ask := 1 + rng.Intn(nv)
			if rng.Intn(3) != 0 && nv > 2 {
				ask = 1 + rng.Intn(nv-1)
			}
			if rng.Intn(12) == 0 {
				ask = nv + 1
			}
			if ask > 16 {
				ask = 16
			}
			steps = append(steps, tf.M{"e": "Req", "ask": ask})
		case x < 56:
			hb := rng.Intn(256)
			if rng.Intn(10) == 0 {
				hb = -1
			}
			steps = append(steps, tf.M{"e": "Block", "hb": hb})
		case x < 66:
			steps = append(steps, tf.M{"e": "SetVal", "v": 1 + rng.Intn(nv), "active": rng.Intn(2) == 0})
		case x < 69:
			steps = append(steps, tf.M{"e": "Jail", "v": 1 + rng.Intn(nv)})
		case x < 88:
			steps = append(steps, tf.M{"e": "SignReq"})
		default:
			steps = append(steps, tf.M{"e": "SetMember", "m": 1 + rng.Intn(gn), "active": rng.Intn(3) != 0, "de": rng.Intn(4) != 0})
		}
	}
	return tf.Script{Fam: "Sampling", C: c, Steps: steps}
}

// RandomScript: 35% pure-level scripts, 65% keeper-level scripts.
func RandomScript(rng *rand.Rand) tf.Script {
	if rng.Intn(100) < 35 {
		return randPure(rng)
	}
	return randChain(rng)
}

// SystematicScripts: every weight vector of <= 3 entries over 0..2 and of 4 entries over 1..2, every feasible
// cnt, ChooseSome and ChooseSomeMaxWeight (2 tries), two generator seeds each, K = 1 — the small cases where a
// boundary slip (> vs >=) shows on most draws.
func SystematicScripts() []tf.Script {
	var out []tf.Script
	var vecs [][]int
	var gen func(n int, lo int, cur []int)
	gen = func(n int, lo int, cur []int) {
		if len(cur) == n {
			if positives(cur) > 0 {
				vecs = append(vecs, append([]int{}, cur...))
			}
			return
		}
		for x := lo; x <= 2; x++ {
			gen(n, lo, append(cur, x))
		}
	}
	for n := 1; n <= 3; n++ {
		gen(n, 0, nil)
	}
	gen(4, 1, nil)
	seed := 1000
	var steps []tf.M
	flush := func() {
		if len(steps) > 0 {
			out = append(out, tf.Script{Fam: "Sampling", C: tf.M{"kind": "pure", "sys": len(out) + 1}, Steps: steps})
			steps = nil
		}
	}
	for _, w := range vecs {
		for cnt := 1; cnt <= positives(w); cnt++ {
			for _, fn := range []string{"some", "max"} {
				for k := 0; k < 2; k++ {
					seed++
					steps = append(steps, tf.M{"e": "Pure", "fn": fn, "w": w, "kexp": 0, "cnt": cnt, "tries": 2, "seed": seed})
				}
			}
		}
		if len(steps) >= 40 {
			flush()
		}
	}
	flush()
	return out
}
