package fam_sampling

// A twin of the chain's random generator, written from NIST SP 800-90A Rev.1 section 10.1.2
// (HMAC_DRBG, SHA-256, no reseeding, no additional input) with the standard library only.
//
// pkg/bandrng/rng.go wraps github.com/oasisprotocol/oasis-core/go/common/crypto/drbg, which is a
// plain HMAC_DRBG: instantiate with seed_material = entropy || nonce || personalization, and
// NextUint64 = big-endian of the leftmost 8 bytes of one Generate(8 bytes) call (so K and V are
// updated after every 64-bit draw).  The twin mirrors exactly that; the `Drbg` events of every run
// compare the twin's stream with bandrng.Rng's for script-chosen inputs (TLC decides equality).

import (
	"crypto/hmac"
	"crypto/sha256"
	"encoding/binary"
)

type twin struct{ k, v []byte }

func mac(key []byte, parts ...[]byte) []byte {
	m := hmac.New(sha256.New, key)
	for _, p := range parts {
		m.Write(p)
	}
	return m.Sum(nil)
}

// update is HMAC_DRBG_Update(provided_data, K, V) (10.1.2.2).
func (t *twin) update(data []byte) {
	t.k = mac(t.k, t.v, []byte{0x00}, data)
	t.v = mac(t.k, t.v)
	if len(data) == 0 {
		return
	}
	t.k = mac(t.k, t.v, []byte{0x01}, data)
	t.v = mac(t.k, t.v)
}

// newTwin is HMAC_DRBG_Instantiate (10.1.2.3).
func newTwin(entropy, nonce, personalization []byte) *twin {
	t := &twin{k: make([]byte, 32), v: make([]byte, 32)}
	for i := range t.v {
		t.v[i] = 0x01
	}
	seed := append(append(append([]byte{}, entropy...), nonce...), personalization...)
	t.update(seed)
	return t
}

// next is one HMAC_DRBG_Generate of 64 bits (10.1.2.5): V = HMAC(K, V); output leftmost 8 bytes;
// then Update(nil).
func (t *twin) next() uint64 {
	t.v = mac(t.k, t.v)
	out := binary.BigEndian.Uint64(t.v[:8])
	t.update(nil)
	return out
}

func (t *twin) take(n int) []uint64 {
	out := make([]uint64, n)
	for i := range out {
		out[i] = t.next()
	}
	return out
}

// limbs renders a 64-bit value as four 16-bit limbs, most significant first.
func limbs(d uint64) []int {
	return []int{int(d >> 48), int((d >> 32) & 0xffff), int((d >> 16) & 0xffff), int(d & 0xffff)}
}

// limbsShifted logs d >> kexp for every draw (see the scaling argument in specs/Sampling.tla).
func limbsShifted(ds []uint64, kexp uint) [][]int {
	out := make([][]int, len(ds))
	for i, d := range ds {
		out[i] = limbs(d >> kexp)
	}
	return out
}
