//go:build fam_oraclefee || fam_all

package main

import "vdrive/fam_oraclefee"

func init() {
	register("oraclefee", func(c *Common) map[string]interface{} {
		d := fam_oraclefee.NewDriver(c.W)
		defer d.Close()
		for _, s := range c.Scripts {
			d.RunScript(s)
		}
		for i := 0; i < c.NRand; i++ {
			d.RunScript(fam_oraclefee.RandomScript(c.Rng))
		}
		return map[string]interface{}{"traces": d.Traces, "events": d.Events, "interesting": d.Interesting}
	})
}
