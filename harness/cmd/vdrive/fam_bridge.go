//go:build fam_bridge || fam_all

package main

import "vdrive/fam_bridge"

func init() {
	register("bridge", func(c *Common) map[string]interface{} {
		d := fam_bridge.NewDriver(c.W)
		defer d.Close()
		for _, s := range c.Scripts {
			d.RunScript(s)
		}
		// -nrand is the number of PROOFS wanted; five proof requests per chain
		per := 5
		for i := 0; i*per < c.NRand; i++ {
			d.RunScript(fam_bridge.RandomScript(c.Rng, i+int(c.Seed), per))
		}
		return d.Finish()
	})
}
