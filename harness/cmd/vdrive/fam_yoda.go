//go:build fam_yoda || fam_all

package main

import (
	"os"
	"strconv"

	"vdrive/fam_yoda"
)

func init() {
	register("yoda", func(c *Common) map[string]interface{} {
		if c.Mode == "child" {
			// re-exec of this binary by the parent: plays scripts, writes protocol lines next to -out
			fam_yoda.RunChild(c.Scripts, c.Out+".lines")
			return map[string]interface{}{"traces": 0, "events": 0, "interesting": 0}
		}
		scripts := c.Scripts
		for i := 0; i < c.NRand; i++ {
			scripts = append(scripts, fam_yoda.RandomScript(c.Rng, c.Mode))
		}
		par := 6
		if v, err := strconv.Atoi(os.Getenv("VDRIVE_PAR")); err == nil && v > 0 {
			par = v
		}
		// replays (only -scripts, no random ones) are played exactly as recorded
		capTagged := c.NRand > 0
		st := fam_yoda.RunParent(scripts, c.W, par, 24, capTagged)
		return map[string]interface{}{"traces": st.Traces, "events": st.Events, "interesting": st.Interesting,
			"crashed": st.Crashed, "tagged": st.Tagged, "children": st.Children}
	})
}
