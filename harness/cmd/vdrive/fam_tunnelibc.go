//go:build fam_tunnelibc || fam_all

package main

import "vdrive/fam_tunnelibc"

func init() {
	register("tunnelibc", func(c *Common) map[string]interface{} {
		d := fam_tunnelibc.NewDriver(c.W)
		d.Mode = c.Mode
		defer d.Close()
		for _, s := range c.Scripts {
			d.RunScript(s)
		}
		if len(c.Scripts) == 0 || c.NRand > 0 {
			if c.Mode == "defects" {
				for _, s := range fam_tunnelibc.DefectScripts() {
					d.RunScript(s)
				}
			} else {
				for _, s := range fam_tunnelibc.Catalogue() {
					d.RunScript(s)
				}
			}
		}
		for i := 0; i < c.NRand; i++ {
			d.RunScript(fam_tunnelibc.RandomScript(c.Rng, c.Mode == "defects"))
		}
		return map[string]interface{}{"traces": d.St.Traces, "events": d.St.Events, "interesting": d.St.Interesting,
			"ibc_packets_at_endblock": d.St.Packets, "ibc_packets_by_trigger": d.St.Triggers, "tss_packets": d.St.TSSPackets,
			"produce_packet_fail_by_cause": d.St.FailByCause, "trigger_rejected_by_cause": d.St.TriggerRej,
			"route_updates_accepted": d.St.RouteOK, "route_updates_refused": d.St.RouteRej,
			"chan_init_accepted": d.St.ChanInitOK, "chan_init_refused": d.St.ChanInitRej, "close_init": d.St.CloseInit,
			"incoming_packets": d.St.RecvIn, "acknowledgements": d.St.Acks, "timeouts": d.St.Timeouts,
			"deactivations_at_endblock": d.St.Deactivations, "tagged_inputs": d.St.Tagged}
	})
}
