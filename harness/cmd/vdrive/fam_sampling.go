//go:build fam_sampling || fam_all

package main

import "vdrive/fam_sampling"

func init() {
	register("sampling", func(c *Common) map[string]interface{} {
		d := fam_sampling.NewDriver(c.W)
		defer d.Close()
		for _, s := range c.Scripts {
			d.RunScript(s)
		}
		if c.NRand > 0 {
			// the small exhaustive pure cases first, then the seeded random scripts
			for _, s := range fam_sampling.SystematicScripts() {
				d.RunScript(s)
			}
		}
		for i := 0; i < c.NRand; i++ {
			d.RunScript(fam_sampling.RandomScript(c.Rng))
		}
		return map[string]interface{}{"traces": d.Traces, "events": d.Events, "interesting": d.Interesting, "counts": d.Counts}
	})
}
