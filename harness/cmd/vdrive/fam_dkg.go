//go:build fam_dkg || fam_all

package main

import "vdrive/fam_dkg"

func init() {
	register("dkg", func(c *Common) map[string]interface{} {
		d := fam_dkg.NewDriver(c.W)
		defer d.Close()
		for _, s := range c.Scripts {
			d.RunScript(s)
		}
		for i := 0; i < c.NRand; i++ {
			d.RunScript(fam_dkg.RandomScript(c.Rng))
		}
		return map[string]interface{}{"traces": d.St.Traces, "events": d.St.Events, "interesting": d.St.Interesting,
			"active": d.St.Active, "fallen": d.St.Fallen, "expired": d.St.Expired,
			"complain_success": d.St.ComplainOK, "complain_failed": d.St.ComplainFailed, "rejected_inputs": d.St.Rejected}
	})
}
