//go:build fam_grogu || fam_all

package main

import "vdrive/fam_grogu"

func init() {
	register("grogu", func(c *Common) map[string]interface{} {
		d := fam_grogu.NewDriver(c.W)
		defer d.Close()
		for _, s := range c.Scripts {
			d.RunScript(s)
		}
		for i := 0; i < c.NRand; i++ {
			d.RunScript(fam_grogu.RandomScript(c.Rng, c.Mode, i))
		}
		return map[string]interface{}{"traces": d.St.Traces, "events": d.St.Events, "interesting": d.St.Interesting,
			"submissions": d.St.Submissions, "rejected_by_chain": d.St.Rejected}
	})
}
