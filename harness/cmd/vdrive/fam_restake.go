//go:build fam_restake || fam_all

package main

import (
	"vdrive/fam_restake"
	tf "vdrive/tracefmt"
)

// family "restake": -mode c16 (default; Restake.tla) or -mode c07 (FeedsVote.tla).
func init() {
	register("restake", func(c *Common) map[string]interface{} {
		d := fam_restake.NewDriver(c.W)
		d.Mode = c.Mode
		defer d.Close()
		scripts := append([]tf.Script{}, c.Scripts...)
		for i := 0; i < c.NRand; i++ {
			if c.Mode == "c07" && i%4 == 3 {
				scripts = append(scripts, fam_restake.JailScriptC07(c.Rng))
			} else if c.Mode == "c07" {
				scripts = append(scripts, fam_restake.RandomScriptC07(c.Rng))
			} else if i%3 == 2 {
				scripts = append(scripts, fam_restake.JailScript(c.Rng))
			} else {
				scripts = append(scripts, fam_restake.RandomScriptC16(c.Rng))
			}
		}
		if c.Mode == "c07" && c.NRand > 0 {
			scripts = append(scripts, fam_restake.WrapScripts(c.Rng)...)
		}
		// scripts with a vote whose true sum is beyond int64 are played last (a rejected trace makes the
		// orchestrator re-validate everything recorded after it)
		var last []tf.Script
		for _, s := range scripts {
			if fam_restake.WrapTagged(s) {
				last = append(last, s)
			} else {
				d.RunScript(s)
			}
		}
		for _, s := range last {
			d.RunScript(s)
		}
		st := map[string]interface{}{"traces": d.St.Traces, "events": d.St.Events, "interesting": d.St.Interesting}
		for k, v := range d.St.Count {
			st[k] = v
		}
		return st
	})
}
