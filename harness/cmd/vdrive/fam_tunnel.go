//go:build fam_tunnel || fam_all

package main

import "vdrive/fam_tunnel"

func init() {
	register("tunnel", func(c *Common) map[string]interface{} {
		d := fam_tunnel.NewDriver(c.W)
		d.Mode = c.Mode
		defer d.Close()
		for _, s := range c.Scripts {
			d.RunScript(s)
		}
		for i := 0; i < c.NRand; i++ {
			if c.Mode == "c17" {
				d.RunScript(fam_tunnel.RandomScriptC17(c.Rng))
			} else {
				d.RunScript(fam_tunnel.RandomScript(c.Rng))
			}
		}
		return map[string]interface{}{"traces": d.St.Traces, "events": d.St.Events, "interesting": d.St.Interesting,
			"packets_at_endblock": d.St.Packets, "packets_by_trigger": d.St.Triggers,
			"produce_packet_fail_by_cause": d.St.FailByMode, "trigger_rejected_by_mode_kind": d.St.TriggerRejByMode,
			"deactivations_at_endblock": d.St.Deactivations, "withdrawals": d.St.Withdrawals,
			"withdrawals_deactivating": d.St.WithdrawDeactivations, "activations": d.St.Activations, "rejected_msgs": d.St.RejectedMsgs}
	})
}
