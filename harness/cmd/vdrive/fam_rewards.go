//go:build fam_rewards || fam_all

package main

import "vdrive/fam_rewards"

func init() {
	register("rewards", func(c *Common) map[string]interface{} {
		d := fam_rewards.NewDriver(c.W)
		defer d.Close()
		for _, s := range c.Scripts {
			d.RunScript(s)
		}
		for i := 0; i < c.NRand; i++ {
			d.RunScript(fam_rewards.RandomScript(c.Rng))
		}
		out := map[string]interface{}{"traces": d.Traces, "events": d.Events, "interesting": d.Interesting}
		for k, v := range d.Extra {
			out[k] = v
		}
		return out
	})
}
