//go:build fam_bandtss || fam_all

package main

import "vdrive/fam_bandtss"

func init() {
	register("bandtss", func(c *Common) map[string]interface{} {
		d := fam_bandtss.NewDriver(c.W, c.Mode)
		defer d.Close()
		for _, s := range c.Scripts {
			d.RunScript(s)
		}
		for i := 0; i < c.NRand; i++ {
			d.RunScript(fam_bandtss.RandomScript(c.Rng, c.Mode))
		}
		return map[string]interface{}{"traces": d.Traces, "events": d.Events, "interesting": d.Interesting}
	})
}
