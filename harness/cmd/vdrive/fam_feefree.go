//go:build fam_feefree || fam_all

package main

import "vdrive/fam_feefree"

func init() {
	register("feefree", func(c *Common) map[string]interface{} {
		d := fam_feefree.NewDriver(c.W)
		for _, s := range c.Scripts {
			d.RunScript(s)
		}
		if c.Mode == "multidenom" && len(c.Scripts) == 0 {
			for _, s := range fam_feefree.MultiDenom() {
				d.RunScript(s)
			}
			return d.Finish()
		}
		if len(c.Scripts) == 0 || c.NRand > 0 {
			if c.Mode != "randonly" && len(c.Scripts) == 0 {
				for _, s := range fam_feefree.Fixed() {
					d.RunScript(s)
				}
			}
			// -nrand counts transactions, not scripts: random scripts of ~25 txs until the budget is used
			base := d.St.Txs
			for d.St.Txs-base < c.NRand {
				d.RunScript(fam_feefree.RandomScript(c.Rng, 25))
			}
		}
		return d.Finish()
	})
}
