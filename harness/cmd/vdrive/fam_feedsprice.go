//go:build fam_feedsprice || fam_all

package main

import (
	"fmt"
	"sort"

	"vdrive/fam_feedsprice"
	tf "vdrive/tracefmt"
)

func init() {
	register("feedsprice", func(c *Common) map[string]interface{} {
		d := fam_feedsprice.NewDriver(c.W)
		d.Mode = c.Mode
		defer d.Close()
		scripts := append([]tf.Script{}, c.Scripts...)
		for i := 0; i < c.NRand; i++ {
			if c.Mode == "c15f" {
				scripts = append(scripts, fam_feedsprice.RandomScriptC15F(c.Rng))
			} else {
				scripts = append(scripts, fam_feedsprice.RandomScript(c.Rng))
			}
		}
		// one in-process chain per genesis token vector: run the scripts grouped by it
		sort.SliceStable(scripts, func(i, j int) bool {
			return fmt.Sprint(scripts[i].C["tokens"]) < fmt.Sprint(scripts[j].C["tokens"])
		})
		for _, s := range scripts {
			d.RunScript(s)
		}
		return map[string]interface{}{"traces": d.St.Traces, "events": d.St.Events, "interesting": d.St.Interesting,
			"calc_cases": d.St.Calc, "calc_cases_2plus_available": d.St.CalcAvail2, "deactivations": d.St.Deactivations,
			"submit_ok": d.St.SubmitOK, "submit_rejected": d.St.SubmitRej, "prices_available": d.St.PricesAvailable,
			"endblock_errors": d.St.EndBlockErr}
	})
}
