//go:build fam_genesis || fam_all

package main

import (
	"vdrive/fam_genesis"
)

func init() {
	register("genesis", func(c *Common) map[string]interface{} {
		d := fam_genesis.NewDriver(c.W)
		defer d.Close()
		if len(c.Scripts) > 0 {
			for _, s := range c.Scripts {
				d.RunScript(s)
			}
		} else {
			for _, s := range fam_genesis.Plan(c.NRand, c.Seed) {
				d.RunScript(s)
			}
		}
		return d.Finish()
	})
}
