// vdrive: drives the real bandprotocol/chain code with abstract scripts and records ndjson traces
// for TLC trace validation.  usage: vdrive <family> [flags]
package main

import (
	"encoding/json"
	"flag"
	"fmt"
	"math/rand"
	"os"

	"vdrive/fam_oracle"
	tf "vdrive/tracefmt"
)

type common struct {
	scripts string
	nrand   int
	seed    int64
	out     string
	stats   string
	mode    string
}

func parse(args []string) common {
	var c common
	fs := flag.NewFlagSet("vdrive", flag.ExitOnError)
	fs.StringVar(&c.scripts, "scripts", "", "ndjson file of abstract scripts (from TLC GEN)")
	fs.IntVar(&c.nrand, "nrand", 0, "number of random scripts")
	fs.Int64Var(&c.seed, "seed", 1, "random seed")
	fs.StringVar(&c.out, "out", "trace.ndjson", "trace output")
	fs.StringVar(&c.stats, "stats", "", "stats json output")
	fs.StringVar(&c.mode, "mode", "", "family specific mode")
	_ = fs.Parse(args)
	return c
}

func writeStats(path string, v interface{}) {
	if path == "" {
		return
	}
	b, _ := json.MarshalIndent(v, "", " ")
	_ = os.WriteFile(path, b, 0o644)
}

func main() {
	if len(os.Args) < 2 {
		fmt.Fprintln(os.Stderr, "usage: vdrive <family> [flags]")
		os.Exit(2)
	}
	fam := os.Args[1]
	c := parse(os.Args[2:])
	rng := rand.New(rand.NewSource(c.seed))
	w, err := tf.NewWriter(c.out)
	if err != nil {
		panic(err)
	}
	scripts, err := tf.ReadScripts(c.scripts)
	if err != nil {
		panic(err)
	}
	switch fam {
	case "oracle":
		d := fam_oracle.NewDriver(w)
		d.Mode = c.mode
		defer d.Close()
		for _, s := range scripts {
			d.RunScript(s)
		}
		for i := 0; i < c.nrand; i++ {
			if c.mode == "c15" {
				d.RunScript(fam_oracle.RandomScriptC15(rng))
			} else {
				d.RunScript(fam_oracle.RandomScript(rng))
			}
		}
		writeStats(c.stats, map[string]interface{}{"traces": d.St.Traces, "events": d.St.Events, "interesting": d.St.Interesting})
	default:
		fmt.Fprintln(os.Stderr, "unknown family", fam)
		os.Exit(2)
	}
	if err := w.Close(); err != nil {
		panic(err)
	}
}
