// vdrive: drives the real bandprotocol/chain code with abstract scripts and records ndjson traces
// for TLC trace validation.  usage: vdrive <family> [flags]
//
// Each family registers itself from its own file cmd/vdrive/fam_<name>.go (func init -> register).
package main

import (
	"encoding/json"
	"flag"
	"fmt"
	"math/rand"
	"os"
	"sort"

	tf "vdrive/tracefmt"
)

// Common holds the flags shared by all families.
type Common struct {
	Scripts []tf.Script
	NRand   int
	Seed    int64
	Out     string
	Stats   string
	Mode    string
	Rng     *rand.Rand
	W       *tf.Writer
	Args    []string // remaining args
}

// FamilyFn runs a family and returns its stats (must contain traces, events, interesting).
type FamilyFn func(c *Common) map[string]interface{}

var families = map[string]FamilyFn{}

func register(name string, fn FamilyFn) { families[name] = fn }

func main() {
	if len(os.Args) < 2 {
		fmt.Fprintln(os.Stderr, "usage: vdrive <family> [flags]")
		os.Exit(2)
	}
	fam := os.Args[1]
	fn, ok := families[fam]
	if !ok {
		var names []string
		for n := range families {
			names = append(names, n)
		}
		sort.Strings(names)
		fmt.Fprintln(os.Stderr, "unknown family", fam, "; known:", names)
		os.Exit(2)
	}
	var c Common
	var scripts string
	fs := flag.NewFlagSet("vdrive", flag.ExitOnError)
	fs.StringVar(&scripts, "scripts", "", "ndjson file of abstract scripts (from TLC GEN or a replay)")
	fs.IntVar(&c.NRand, "nrand", 0, "number of random scripts")
	fs.Int64Var(&c.Seed, "seed", 1, "random seed")
	fs.StringVar(&c.Out, "out", "trace.ndjson", "trace output")
	fs.StringVar(&c.Stats, "stats", "", "stats json output")
	fs.StringVar(&c.Mode, "mode", "", "family specific mode")
	_ = fs.Parse(os.Args[2:])
	c.Args = fs.Args()
	c.Rng = rand.New(rand.NewSource(c.Seed))
	w, err := tf.NewWriter(c.Out)
	if err != nil {
		panic(err)
	}
	c.W = w
	c.Scripts, err = tf.ReadScripts(scripts)
	if err != nil {
		panic(err)
	}
	stats := fn(&c)
	if err := w.Close(); err != nil {
		panic(err)
	}
	if c.Stats != "" {
		b, _ := json.MarshalIndent(stats, "", " ")
		_ = os.WriteFile(c.Stats, b, 0o644)
	}
}
