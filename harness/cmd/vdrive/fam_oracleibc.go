//go:build fam_oracleibc || fam_all

package main

import "vdrive/fam_oracleibc"

func init() {
	register("oracleibc", func(c *Common) map[string]interface{} {
		d := fam_oracleibc.NewDriver(c.W)
		d.Mode = c.Mode
		defer d.Close()
		for _, s := range c.Scripts {
			d.RunScript(s)
		}
		if len(c.Scripts) == 0 || c.NRand > 0 {
			if c.Mode == "defects" {
				for _, s := range fam_oracleibc.DefectScripts() {
					d.RunScript(s)
				}
			} else {
				for _, s := range fam_oracleibc.Catalogue() {
					d.RunScript(s)
				}
			}
		}
		for i := 0; i < c.NRand; i++ {
			d.RunScript(fam_oracleibc.RandomScript(c.Rng))
		}
		return map[string]interface{}{"traces": d.St.Traces, "events": d.St.Events, "interesting": d.St.Interesting,
			"response_packets": d.St.Packets, "send_failures": d.St.Fails, "error_acks": d.St.ErrAcks}
	})
}
