//go:build fam_block || fam_all

package main

import (
	"fmt"
	"os"

	"vdrive/fam_block"
)

func init() {
	register("block", func(c *Common) map[string]interface{} {
		if c.Mode == "replica" {
			// replica B: replay a recorded job in this (second) OS process
			if len(c.Args) != 2 {
				fmt.Fprintln(os.Stderr, "usage: vdrive block -mode replica -out <scratch> <job.json> <out.json>")
				os.Exit(2)
			}
			if err := fam_block.Replica(c.Args[0], c.Args[1]); err != nil {
				fmt.Fprintln(os.Stderr, "replica:", err)
				os.Exit(3)
			}
			return map[string]interface{}{"traces": 0, "events": 0, "interesting": 0}
		}
		d := fam_block.NewDriver(c.W)
		defer d.Close()
		if len(c.Scripts) > 0 {
			for _, s := range c.Scripts {
				d.RunScript(s)
			}
		} else {
			for _, s := range fam_block.Plan(c.NRand, c.Seed) {
				d.RunScript(s)
			}
		}
		return d.Finish()
	})
}
