//go:build fam_tsssigning || fam_all

package main

import "vdrive/fam_tsssigning"

func init() {
	register("tsssigning", func(c *Common) map[string]interface{} {
		d := fam_tsssigning.NewDriver(c.W)
		d.Mode = c.Mode
		defer d.Close()
		for _, s := range c.Scripts {
			d.RunScript(s)
		}
		for i := 0; i < c.NRand; i++ {
			d.RunScript(fam_tsssigning.RandomScript(c.Rng, c.Mode))
		}
		return map[string]interface{}{"traces": d.St.Traces, "events": d.St.Events, "interesting": d.St.Interesting,
			"scripts_with": d.St.Count}
	})
}
