//go:build fam_payload || fam_all

package main

import "vdrive/fam_payload"

func init() {
	register("payload", func(c *Common) map[string]interface{} {
		d := fam_payload.NewDriver(c.W, c.Mode)
		defer d.Close()
		for _, s := range c.Scripts {
			d.RunScript(s)
		}
		for i := 0; i < c.NRand; i++ {
			d.RunScript(fam_payload.RandomScript(c.Rng, c.Mode))
		}
		return d.Stats()
	})
}
