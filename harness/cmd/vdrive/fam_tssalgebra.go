//go:build fam_tssalgebra || fam_all

package main

import (
	"vdrive/fam_tssalgebra"
	tf "vdrive/tracefmt"
)

func init() {
	register("tssalgebra", func(c *Common) map[string]interface{} {
		d := fam_tssalgebra.NewDriver(c.W)
		defer d.Close()
		for _, s := range c.Scripts {
			d.RunScript(s)
		}
		if len(c.Scripts) == 0 || c.NRand > 0 {
			for _, s := range fam_tssalgebra.CoverScripts(c.Rng) {
				d.RunScript(s)
			}
			for i := 0; i < c.NRand; i++ {
				d.RunScript(fam_tssalgebra.RandomScript(c.Rng))
			}
			// native evaluations of the interpolation invariant: small in the quick tier, exhaustive over the 2^20
			// subsets of 1..20 in the thorough tier (the orchestrator passes the tier only through -nrand)
			level := "quick"
			if c.NRand >= 1000 || c.Mode == "native" {
				level = "thorough"
			}
			d.RunScript(tf.Script{Fam: "TssAlgebra", C: tf.M{"native": true, "level": level, "seed": int(c.Seed), "budget_s": 900},
				Steps: []tf.M{}})
		}
		return map[string]interface{}{"traces": d.Traces, "events": d.Events, "interesting": d.Interesting,
			"signings": d.Signings, "signing_successes": d.Successes, "rejected_submissions": d.Rejected,
			"submissions_by_kind":          d.Kinds,
			"native_invariant_evaluations": d.NativeEvals, "native_batches": d.NativeBatches, "native_all_ok": d.NativeAllOK}
	})
}
