//go:build fam_cylinder || fam_all

package main

import "vdrive/fam_cylinder"

func init() {
	register("cylinder", func(c *Common) map[string]interface{} {
		d := fam_cylinder.NewDriver(c.W)
		defer d.Close()
		// replays (only -scripts, no random ones) are played exactly as recorded; otherwise the number of traces that
		// contain a known-finding input is capped per tag (the orchestrator drops a whole trace per known finding)
		replay := c.NRand == 0 && len(c.Scripts) > 0
		if c.Mode == "all" {
			d.TagBudget = -1
		}
		for _, s := range c.Scripts {
			d.RunScript(s, replay)
		}
		if !replay {
			for _, s := range fam_cylinder.Catalogue() {
				d.RunScript(s, false)
			}
		}
		for i := 0; i < c.NRand; i++ {
			d.RunScript(fam_cylinder.RandomScript(c.Rng), false)
		}
		return map[string]interface{}{"traces": d.St.Traces, "events": d.St.Events, "interesting": d.St.Interesting,
			"scripts_with": d.St.Count, "tagged": d.St.Tagged, "skipped_tagged_inputs": d.St.Skipped}
	})
}
