//go:build fam_oracle || fam_all

package main

import "vdrive/fam_oracle"

func init() {
	register("oracle", func(c *Common) map[string]interface{} {
		d := fam_oracle.NewDriver(c.W)
		d.Mode = c.Mode
		defer d.Close()
		for _, s := range c.Scripts {
			d.RunScript(s)
		}
		for i := 0; i < c.NRand; i++ {
			if c.Mode == "c15" {
				d.RunScript(fam_oracle.RandomScriptC15(c.Rng))
			} else {
				d.RunScript(fam_oracle.RandomScript(c.Rng))
			}
		}
		return map[string]interface{}{"traces": d.St.Traces, "events": d.St.Events, "interesting": d.St.Interesting}
	})
}
