package fam_dkg

// Independent secp256k1 arithmetic for the harness's expectations (group key, member keys, Lagrange
// identity).  Deliberately NOT pkg/tss's polynomial helpers: the chain evaluates the accumulated
// commitments "in the exponent" with tss.ComputeOwnPublicKey; the harness evaluates the known scalar
// polynomials and multiplies the base point once.

import (
	"bytes"

	"github.com/decred/dcrd/dcrec/secp256k1/v4"

	"github.com/bandprotocol/chain/v3/pkg/tss"
)

func toModN(s tss.Scalar) *secp256k1.ModNScalar {
	var x secp256k1.ModNScalar
	x.SetByteSlice(s)
	return &x
}

func fromModN(x *secp256k1.ModNScalar) tss.Scalar {
	b := x.Bytes()
	return tss.Scalar(b[:])
}

func smallScalar(v int) *secp256k1.ModNScalar {
	var x secp256k1.ModNScalar
	if v >= 0 {
		x.SetInt(uint32(v))
	} else {
		x.SetInt(uint32(-v))
		x.Negate()
	}
	return &x
}

// evalPoly: f(x) = sum coeffs[k] x^k (Horner), over the scalar field.
func evalPoly(coeffs tss.Scalars, x int) *secp256k1.ModNScalar {
	var acc secp256k1.ModNScalar
	xs := smallScalar(x)
	for i := len(coeffs) - 1; i >= 0; i-- {
		acc.Mul(xs).Add(toModN(coeffs[i]))
	}
	return &acc
}

// basePoint returns the compressed encoding of s*G ("" for the point at infinity).
func basePoint(s *secp256k1.ModNScalar) []byte {
	var p secp256k1.JacobianPoint
	secp256k1.ScalarBaseMultNonConst(s, &p)
	return compress(&p)
}

func compress(p *secp256k1.JacobianPoint) []byte {
	if (p.X.IsZero() && p.Y.IsZero()) || p.Z.IsZero() {
		return nil
	}
	q := *p
	q.ToAffine()
	return secp256k1.NewPublicKey(&q.X, &q.Y).SerializeCompressed()
}

// addG returns P + G (a valid point different from P).
func addG(pt tss.Point) tss.Point {
	pk, err := secp256k1.ParsePubKey(pt)
	if err != nil {
		return pt
	}
	var p, g, r secp256k1.JacobianPoint
	pk.AsJacobian(&p)
	one := smallScalar(1)
	secp256k1.ScalarBaseMultNonConst(one, &g)
	secp256k1.AddNonConst(&p, &g, &r)
	return tss.Point(compress(&r))
}

func samePoint(a, b []byte) bool { return len(a) > 0 && bytes.Equal(a, b) }

// lagrangeAtZero: prod_{k in S, k != j} k / (k - j)
func lagrangeAtZero(j int, S []int) *secp256k1.ModNScalar {
	num := smallScalar(1)
	den := smallScalar(1)
	for _, k := range S {
		if k == j {
			continue
		}
		num.Mul(smallScalar(k))
		den.Mul(smallScalar(k - j))
	}
	den.InverseNonConst()
	return num.Mul(den)
}

// subsets of {1..n} of size t
func subsets(n, t int) [][]int {
	var out [][]int
	var rec func(start int, cur []int)
	rec = func(start int, cur []int) {
		if len(cur) == t {
			out = append(out, append([]int{}, cur...))
			return
		}
		for i := start; i <= n; i++ {
			rec(i+1, append(cur, i))
		}
	}
	rec(1, nil)
	return out
}
