// Package fam_dkg plays the distributed key generation of x/tss on the real chain code.
//
// Every member is played with the *real* member-side code: pkg/tss (GenerateRound1Info,
// ComputeEncryptedSecretShares, Encrypt, SignComplaint, SignOwnPubKey) and the cylinder daemon's
// round-3 share handling (cylinder/workers/group getOwnPrivKey/getSecretShare through the
// verif-tagged export).  Deviations are applied to the real messages.  After every step the real
// stores are projected onto the variables of TssDkg.tla; the verdict is TLC's (TssDkg_Trace.tla).
package fam_dkg

import (
	"fmt"
	"math/big"
	"math/rand"
	"strconv"

	"github.com/decred/dcrd/dcrec/secp256k1/v4"

	sdk "github.com/cosmos/cosmos-sdk/types"

	"github.com/bandprotocol/chain/v3/cylinder/client"
	"github.com/bandprotocol/chain/v3/cylinder/store"
	cgroup "github.com/bandprotocol/chain/v3/cylinder/workers/group"
	"github.com/bandprotocol/chain/v3/pkg/tss"
	tsstypes "github.com/bandprotocol/chain/v3/x/tss/types"

	tf "vdrive/tracefmt"
	"vdrive/tsskit"
	"vdrive/world"
)

const maxMembers = 5

// module owner of the groups: the real callback route ("bandtss"); without a pending bandtss
// transition its creation callbacks are no-ops.
const moduleOwner = "bandtss"

type Stats struct {
	Traces, Events, Interesting int
	Distinct                    map[string]bool
	Active, Fallen, Expired     int
	ComplainOK, ComplainFailed  int
	Rejected                    int
}

type Driver struct {
	w  *world.World
	W  *tf.Writer
	St Stats
}

func NewDriver(w *tf.Writer) *Driver {
	return &Driver{W: w, St: Stats{Distinct: map[string]bool{}}}
}

func (d *Driver) Close() {
	if d.w != nil {
		d.w.Close()
	}
}

func (d *Driver) world() *world.World {
	if d.w == nil {
		d.w = world.New(world.DefaultConfig())
	}
	return d.w
}

// member is what the harness knows about one participant.
type member struct {
	id       int
	acct     world.Account
	r1       *tss.Round1Info              // the daemon-side round-1 data (coefficients, one-time key)
	r1msg    *tsstypes.MsgSubmitDKGRound1 // last well-formed round-1 message (replayed on duplicates)
	accepted bool                         // round-1 info accepted by the chain
	r2msg    *tsstypes.MsgSubmitDKGRound2 // last well-formed round-2 message
	r2ok     bool                         // round-2 info accepted
	delta    map[int]int                  // recipient -> what was added to its share in the accepted round 2
	priv     tss.Scalar                   // own private key as derived in round 3
}

type session struct {
	d           *Driver
	w           *world.World
	r           *world.Run
	gid         tss.GroupID
	n, t        int
	ms          []*member // index id-1
	outsider    world.Account
	interesting bool
	daemonPanic bool // the daemon's share handling panicked during the current step
	// non-canonical share (script constant "nc" = [dealer, recipient]; 0 = none): the dealer picks its polynomial so that
	// f(recipient) is a small number s and sends the recipient the 32 bytes of s + N - the SAME share modulo the group
	// order, in an encoding that is not reduced.  For the model this dealer is honest.
	ncDealer, ncRecipient int
}

// ---------------------------------------------------------------------------------------------
// projection

func (s *session) project() tf.M {
	ctx := s.r.Ctx
	k := s.w.App.TSSKeeper
	st := tf.M{"h": int(s.r.Height), "n": s.n, "t": s.t, "period": int(k.GetParams(ctx).CreationPeriod)}
	g, err := k.GetGroup(ctx, s.gid)
	if err != nil {
		st["status"] = "MISSING"
		st["createdH"] = 0
	} else {
		st["status"] = statusName(g.Status)
		st["createdH"] = int(g.CreatedHeight)
	}
	r1 := make([]bool, s.n)
	r2 := make([]bool, s.n)
	conf := make([]bool, s.n)
	comp := make([]bool, s.n)
	mal := make([]bool, s.n)
	pubSet := make([]bool, s.n)
	pubOK := make([]bool, s.n)
	clog := make([][]tf.M, s.n)
	allDealt := true
	for _, m := range s.ms {
		if !m.accepted {
			allDealt = false
		}
	}
	for i := 0; i < s.n; i++ {
		mid := tss.MemberID(i + 1)
		r1[i] = k.HasRound1Info(ctx, s.gid, mid)
		r2[i] = k.HasRound2Info(ctx, s.gid, mid)
		conf[i] = k.HasConfirm(ctx, s.gid, mid)
		comp[i] = k.HasComplaintsWithStatus(ctx, s.gid, mid)
		clog[i] = []tf.M{}
		if cws, err := k.GetComplaintsWithStatus(ctx, s.gid, mid); err == nil {
			for _, c := range cws.ComplaintsWithStatus {
				clog[i] = append(clog[i], tf.M{"r": int(c.Complaint.Respondent), "st": complaintStatus(c.ComplaintStatus)})
			}
		}
		pubOK[i] = true
		if mem, err := k.GetMember(ctx, s.gid, mid); err == nil {
			mal[i] = mem.IsMalicious
			pubSet[i] = len(mem.PubKey) > 0
			if pubSet[i] {
				// expected: (sum_i f_i(j)) * G from the polynomials the harness dealt
				pubOK[i] = allDealt && samePoint(mem.PubKey, s.expectedMemberPub(i+1))
			}
		} else {
			pubOK[i] = false
		}
	}
	st["r1"], st["r2"], st["conf"], st["comp"], st["mal"] = r1, r2, conf, comp, mal
	st["pubSet"], st["pubOK"], st["clog"] = pubSet, pubOK, clog
	gpSet := err == nil && len(g.PubKey) > 0
	st["gpSet"] = gpSet
	st["gpOK"] = !gpSet || (allDealt && samePoint(g.PubKey, s.expectedGroupPub()))
	pend := false
	for _, p := range k.GetPendingProcessGroups(ctx) {
		if p == s.gid {
			pend = true
		}
	}
	st["pend"] = pend
	st["expDone"] = k.GetLastExpiredGroupID(ctx) >= s.gid
	// interim data still stored?
	_, ctxErr := k.GetDKGContext(ctx, s.gid)
	interim := ctxErr == nil || len(k.GetAllAccumulatedCommits(ctx, s.gid)) > 0 ||
		len(k.GetRound1Infos(ctx, s.gid)) > 0 || len(k.GetRound2Infos(ctx, s.gid)) > 0 ||
		len(k.GetConfirms(ctx, s.gid)) > 0 || len(k.GetAllComplainsWithStatus(ctx, s.gid)) > 0 ||
		k.GetRound1InfoCount(ctx, s.gid) > 0 || k.GetRound2InfoCount(ctx, s.gid) > 0 ||
		k.GetConfirmComplainCount(ctx, s.gid) > 0
	st["interim"] = interim
	st["accLen"] = len(k.GetAllAccumulatedCommits(ctx, s.gid))
	st["lagOK"] = true
	if err == nil && g.Status == tsstypes.GROUP_STATUS_ACTIVE {
		st["lagOK"] = s.lagrangeHolds()
	}
	return st
}

func statusName(st tsstypes.GroupStatus) string {
	switch st {
	case tsstypes.GROUP_STATUS_ROUND_1:
		return "R1"
	case tsstypes.GROUP_STATUS_ROUND_2:
		return "R2"
	case tsstypes.GROUP_STATUS_ROUND_3:
		return "R3"
	case tsstypes.GROUP_STATUS_ACTIVE:
		return "ACTIVE"
	case tsstypes.GROUP_STATUS_FALLEN:
		return "FALLEN"
	case tsstypes.GROUP_STATUS_EXPIRED:
		return "EXPIRED"
	}
	return "OTHER"
}

func complaintStatus(st tsstypes.ComplaintStatus) string {
	switch st {
	case tsstypes.COMPLAINT_STATUS_SUCCESS:
		return "success"
	case tsstypes.COMPLAINT_STATUS_FAILED:
		return "failed"
	}
	return "other"
}

// expectedGroupPub = (sum_i a_i0) * G over the accepted round-1 polynomials.
func (s *session) expectedGroupPub() []byte {
	sum := smallScalar(0)
	for _, m := range s.ms {
		if m.accepted {
			sum.Add(toModN(m.r1.Coefficients[0]))
		}
	}
	return basePoint(sum)
}

// expectedMemberPub(j) = (sum_i f_i(j)) * G.
func (s *session) expectedMemberPub(j int) []byte {
	sum := smallScalar(0)
	for _, m := range s.ms {
		if m.accepted {
			sum.Add(evalPoly(m.r1.Coefficients, j))
		}
	}
	return basePoint(sum)
}

// lagrangeHolds: every t-subset of the members' derived private keys interpolates the group secret
// sum_i a_i0 (independent arithmetic), and each derived key is the discrete log of the registered key.
func (s *session) lagrangeHolds() bool {
	secret := smallScalar(0)
	for _, m := range s.ms {
		if !m.accepted {
			return false
		}
		secret.Add(toModN(m.r1.Coefficients[0]))
	}
	for _, m := range s.ms {
		if len(m.priv) == 0 {
			return false
		}
		mem, err := s.w.App.TSSKeeper.GetMember(s.r.Ctx, s.gid, tss.MemberID(m.id))
		if err != nil || !samePoint(mem.PubKey, basePoint(toModN(m.priv))) {
			return false
		}
	}
	for _, S := range subsets(s.n, s.t) {
		acc := smallScalar(0)
		for _, j := range S {
			term := lagrangeAtZero(j, S)
			term.Mul(toModN(s.ms[j-1].priv))
			acc.Add(term)
		}
		if !acc.Equals(secret) {
			return false
		}
	}
	return true
}

// ---------------------------------------------------------------------------------------------
// member-side helpers (real pkg/tss + cylinder code)

func (s *session) dkgContext() []byte {
	if c, err := s.w.App.TSSKeeper.GetDKGContext(s.r.Ctx, s.gid); err == nil {
		return c
	}
	return tss.Hash([]byte("verif-no-context"))
}

// groupResult is what the daemon's client.QueryGroup returns (keeper.GetGroupResponse behind the gRPC query).
func (s *session) groupResult() (*client.GroupResult, error) {
	res, err := s.w.App.TSSKeeper.GetGroupResponse(s.r.Ctx, s.gid)
	if err != nil {
		return nil, err
	}
	return &client.GroupResult{GroupResult: *res}, nil
}

func (s *session) member(id int) *member {
	if id >= 1 && id <= s.n {
		return s.ms[id-1]
	}
	return nil
}

// ensureR1 makes the member's round-1 data exactly as cylinder's Round1.handleGroup does.
func (s *session) ensureR1(m *member) {
	if m.r1 != nil {
		return
	}
	data, err := tss.GenerateRound1Info(tss.MemberID(m.id), uint64(s.t), s.dkgContext())
	if err != nil {
		panic(err)
	}
	if m.id == s.ncDealer && s.ncRecipient >= 1 && s.ncRecipient <= s.n && s.ncRecipient != m.id {
		// a0 := small - sum_{k>=1} a_k j^k, so that f(j) = small; commitment and proof of a0 redone
		rest := append(tss.Scalars{fromModN(smallScalar(0))}, data.Coefficients[1:]...)
		a0 := smallScalar(1 + m.id)
		a0.Add(evalPoly(rest, s.ncRecipient).Negate())
		data.Coefficients[0] = fromModN(a0)
		data.A0PrivKey = data.Coefficients[0]
		data.A0PubKey = tss.Point(basePoint(a0))
		data.CoefficientCommits[0] = data.A0PubKey
		sig, err := tss.SignA0(tss.MemberID(m.id), s.dkgContext(), data.A0PubKey, data.A0PrivKey)
		if err != nil {
			panic(err)
		}
		data.A0Signature = sig
	}
	m.r1 = data
}

func r1InfoOf(mid int, d *tss.Round1Info) tsstypes.Round1Info {
	return tsstypes.Round1Info{
		MemberID:           tss.MemberID(mid),
		CoefficientCommits: d.CoefficientCommits,
		OneTimePubKey:      d.OneTimePubKey,
		A0Signature:        d.A0Signature,
		OneTimeSignature:   d.OneTimeSignature,
	}
}

func flipLastBit(b []byte) []byte {
	out := append([]byte{}, b...)
	out[len(out)-1] ^= 0x01
	return out
}

func outc(o world.Outcome) tf.M {
	m := tf.M{"ok": o.OK(), "res": []string{}}
	if o.Panic != nil {
		m["panic"] = fmt.Sprint(o.Panic)
	}
	return m
}

// sender resolves who signs the message: the member itself, or the outsider for shape nonMember.
func (s *session) sender(m *member, shape string) string {
	if shape == "nonMember" || m == nil {
		return s.outsider.Addr.String()
	}
	return m.acct.Addr.String()
}

// otherID is a member id different from id (for the wrong-member-id shapes).
func (s *session) otherID(id int) int {
	if s.n == 1 {
		return 2
	}
	return id%s.n + 1
}

// deliver runs one message as a transaction exactly like world.Run.Deliver (ValidateBasic, the real
// msg service router, all-or-nothing on a cache context) and additionally keeps the events the
// handler returned in its sdk.Result (baseapp emits those into the transaction's event list).
func (s *session) deliver(msg sdk.Msg) world.Outcome {
	r := s.r
	txCtx, write := r.Ctx.WithEventManager(sdk.NewEventManager()).CacheContext()
	var out world.Outcome
	func() {
		defer func() {
			if p := recover(); p != nil {
				out.Panic = p
			}
		}()
		if v, ok := msg.(interface{ ValidateBasic() error }); ok {
			if err := v.ValidateBasic(); err != nil {
				out.Err = err
				return
			}
		}
		h := r.W.App.MsgServiceRouter().Handler(msg)
		if h == nil {
			out.Err = fmt.Errorf("no handler for %T", msg)
			return
		}
		res, err := h(txCtx, msg)
		if err != nil {
			out.Err = err
			return
		}
		out.Events = res.GetEvents().ToABCIEvents()
	}()
	if out.OK() {
		write()
	} else {
		out.Events = nil
	}
	return out
}

// ---------------------------------------------------------------------------------------------
// steps

func (s *session) stepR1(mid int, shape string) {
	m := s.member(mid)
	var msg *tsstypes.MsgSubmitDKGRound1
	if m == nil {
		// a claimed id that does not exist
		d, _ := tss.GenerateRound1Info(tss.MemberID(mid), uint64(s.t), s.dkgContext())
		msg = tsstypes.NewMsgSubmitDKGRound1(s.gid, r1InfoOf(mid, d), s.outsider.Addr.String())
		shape = "nonMember"
	} else {
		switch shape {
		case "ok":
			if m.r1msg == nil {
				s.ensureR1(m)
				m.r1msg = tsstypes.NewMsgSubmitDKGRound1(s.gid, r1InfoOf(m.id, m.r1), m.acct.Addr.String())
			}
			msg = m.r1msg
		case "wrongLen":
			tt := s.t + 1
			if s.t > 1 && mid%2 == 0 {
				tt = s.t - 1
			}
			d, err := tss.GenerateRound1Info(tss.MemberID(m.id), uint64(tt), s.dkgContext())
			if err != nil {
				panic(err)
			}
			msg = tsstypes.NewMsgSubmitDKGRound1(s.gid, r1InfoOf(m.id, d), m.acct.Addr.String())
		case "badA0Sig", "badOneTimeSig":
			d, _ := tss.GenerateRound1Info(tss.MemberID(m.id), uint64(s.t), s.dkgContext())
			info := r1InfoOf(m.id, d)
			if shape == "badA0Sig" {
				info.A0Signature = flipLastBit(info.A0Signature)
			} else {
				info.OneTimeSignature = flipLastBit(info.OneTimeSignature)
			}
			msg = tsstypes.NewMsgSubmitDKGRound1(s.gid, info, m.acct.Addr.String())
		case "a0OtherId", "otOtherId", "a0OtherCtx", "otOtherCtx":
			// one proof of possession made (with the real signer) for another member id / DKG context
			d, _ := tss.GenerateRound1Info(tss.MemberID(m.id), uint64(s.t), s.dkgContext())
			info := r1InfoOf(m.id, d)
			id, dctx := tss.MemberID(m.id), s.dkgContext()
			if shape == "a0OtherId" || shape == "otOtherId" {
				id = tss.MemberID(s.otherID(m.id))
			} else {
				dctx = tss.Hash([]byte("another dkg context"))
			}
			var err error
			if shape[:2] == "a0" {
				info.A0Signature, err = tss.SignA0(id, dctx, d.A0PubKey, d.A0PrivKey)
			} else {
				info.OneTimeSignature, err = tss.SignOneTime(id, dctx, d.OneTimePubKey, d.OneTimePrivKey)
			}
			if err != nil {
				panic(err)
			}
			msg = tsstypes.NewMsgSubmitDKGRound1(s.gid, info, m.acct.Addr.String())
		case "wrongMemberId":
			// a member claims another member's id (with proofs valid for that id)
			o := s.otherID(m.id)
			d, _ := tss.GenerateRound1Info(tss.MemberID(o), uint64(s.t), s.dkgContext())
			msg = tsstypes.NewMsgSubmitDKGRound1(s.gid, r1InfoOf(o, d), m.acct.Addr.String())
		case "nonMember":
			d, _ := tss.GenerateRound1Info(tss.MemberID(m.id), uint64(s.t), s.dkgContext())
			msg = tsstypes.NewMsgSubmitDKGRound1(s.gid, r1InfoOf(m.id, d), s.outsider.Addr.String())
		default:
			panic("unknown R1 shape " + shape)
		}
	}
	o := s.deliver(msg)
	if o.OK() && m != nil && shape == "ok" {
		m.accepted = true
	}
	s.note(shape != "ok", o)
	s.d.W.Step("SubmitR1", tf.M{"m": mid, "shape": shape}, outc(o), s.project())
}

// oneTimePubs as cylinder's Round2.handleGroup collects them; members without round-1 info get a
// placeholder (only possible out of round, where the message is refused anyway).
func (s *session) oneTimePubs() tss.Points {
	pubs := make(tss.Points, s.n)
	for _, info := range s.w.App.TSSKeeper.GetRound1Infos(s.r.Ctx, s.gid) {
		if int(info.MemberID) >= 1 && int(info.MemberID) <= s.n {
			pubs[info.MemberID-1] = info.OneTimePubKey
		}
	}
	for i := range pubs {
		if len(pubs[i]) == 0 {
			pubs[i] = tsskit.ScalarFromSeed("placeholder").Point()
		}
	}
	return pubs
}

func (s *session) stepR2(mid int, shape string, d []int) {
	m := s.member(mid)
	delta := map[int]int{}
	for j := 1; j <= s.n && j <= len(d); j++ {
		if j != mid && d[j-1] != 0 {
			delta[j] = d[j-1]
		}
	}
	logD := make([]int, s.n)
	var msg *tsstypes.MsgSubmitDKGRound2
	src := m
	if src == nil {
		src = &member{id: mid, acct: s.outsider}
		shape = "nonMember"
	}
	if src.r2ok && src.r2msg != nil && shape == "ok" {
		msg = src.r2msg // replay of the message the chain already accepted
		for j, v := range src.delta {
			logD[j-1] = v
		}
	} else {
		s.ensureR1(src)
		pubs := s.oneTimePubs()
		// the daemon's round 2 (cylinder Round2.handleGroup)
		enc, err := tss.ComputeEncryptedSecretShares(tss.MemberID(src.id), src.r1.OneTimePrivKey, pubs,
			src.r1.Coefficients, tss.DefaultNonce16Generator{})
		if err != nil {
			panic(err)
		}
		// deviation: re-encrypt a different share for the chosen recipients
		for j, dv := range delta {
			share := evalPoly(src.r1.Coefficients, j)
			share.Add(smallScalar(dv))
			keySym, err := tss.ComputeSecretSym(src.r1.OneTimePrivKey, pubs[j-1])
			if err != nil {
				panic(err)
			}
			e, err := tss.Encrypt(fromModN(share), keySym, tss.DefaultNonce16Generator{})
			if err != nil {
				panic(err)
			}
			slot := j - 1 // position of j among 1..n without the dealer
			if j > src.id {
				slot = j - 2
			}
			if slot < len(enc) {
				enc[slot] = e
			}
			logD[j-1] = dv
		}
		if j := s.ncRecipient; src.id == s.ncDealer && j >= 1 && j <= s.n && j != src.id && delta[j] == 0 {
			// the share of j, congruent to the committed value, encoded as f(j) + N (fits 32 bytes because f(j) is small)
			v := new(big.Int).SetBytes(fromModN(evalPoly(src.r1.Coefficients, j)))
			v.Add(v, secp256k1.S256().N)
			if v.BitLen() <= 256 {
				keySym, err := tss.ComputeSecretSym(src.r1.OneTimePrivKey, pubs[j-1])
				if err != nil {
					panic(err)
				}
				e, err := tss.Encrypt(tss.Scalar(v.FillBytes(make([]byte, 32))), keySym, tss.DefaultNonce16Generator{})
				if err != nil {
					panic(err)
				}
				slot := j - 1
				if j > src.id {
					slot = j - 2
				}
				if slot < len(enc) {
					enc[slot] = e
					s.interesting = true
				}
			}
		}
		info := tsstypes.Round2Info{MemberID: tss.MemberID(src.id), EncryptedSecretShares: enc}
		switch shape {
		case "ok", "nonMember":
		case "wrongLen":
			if len(enc) > 0 && mid%2 == 1 {
				info.EncryptedSecretShares = enc[:len(enc)-1]
			} else if len(enc) == 0 {
				info.EncryptedSecretShares = tss.EncSecretShares{make([]byte, 48)}
			} else {
				info.EncryptedSecretShares = append(enc.Clone(), enc[0].Clone())
			}
		case "wrongMemberId":
			info.MemberID = tss.MemberID(s.otherID(src.id))
		default:
			panic("unknown R2 shape " + shape)
		}
		msg = tsstypes.NewMsgSubmitDKGRound2(s.gid, info, s.sender(m, shape))
	}
	o := s.deliver(msg)
	if o.OK() && m != nil && shape == "ok" && !m.r2ok {
		m.r2ok = true
		m.r2msg = msg
		m.delta = delta
	}
	s.note(shape != "ok" || len(delta) > 0, o)
	s.d.W.Step("SubmitR2", tf.M{"m": mid, "shape": shape, "d": logD}, outc(o), s.project())
}

// ownKey runs the daemon's round-3 share handling for member m.  It returns the key, the
// complaints the daemon would file, and whether the key had to be forced (summing the decrypted
// shares without the check, which is all a member that skips the protocol can do).
func (s *session) ownKey(m *member, force bool) (priv tss.Scalar, complaints []tsstypes.Complaint, forced bool, err error) {
	if m.r1 == nil {
		return nil, nil, false, fmt.Errorf("no round-1 data")
	}
	gr, err := s.groupResult()
	if err != nil {
		return nil, nil, false, err
	}
	dkg := store.DKG{GroupID: s.gid, MemberID: tss.MemberID(m.id), Coefficients: m.r1.Coefficients,
		OneTimePrivKey: m.r1.OneTimePrivKey}
	func() {
		defer func() {
			if p := recover(); p != nil {
				s.daemonPanic = true
				err = fmt.Errorf("daemon panic: %v", p)
			}
		}()
		priv, complaints, err = cgroup.GetOwnPrivKey(dkg, gr)
	}()
	if err != nil {
		return nil, nil, false, err
	}
	if len(complaints) == 0 || !force {
		return priv, complaints, false, nil
	}
	// forced: decrypt every share (position computed by the harness, not by types.FindMemberSlot) and sum
	var shares tss.Scalars
	for i := 1; i <= s.n; i++ {
		if i == m.id {
			own, _ := tss.ComputeSecretShare(m.r1.Coefficients, tss.MemberID(m.id))
			shares = append(shares, own)
			continue
		}
		r1i, e1 := gr.GetRound1Info(tss.MemberID(i))
		r2i, e2 := gr.GetRound2Info(tss.MemberID(i))
		if e1 != nil || e2 != nil {
			return nil, complaints, true, fmt.Errorf("missing round info")
		}
		slot := m.id - 1
		if m.id > i {
			slot = m.id - 2
		}
		if slot >= len(r2i.EncryptedSecretShares) {
			return nil, complaints, true, fmt.Errorf("no share")
		}
		keySym, e := tss.ComputeSecretSym(m.r1.OneTimePrivKey, r1i.OneTimePubKey)
		if e != nil {
			return nil, complaints, true, e
		}
		sh, e := tss.DecryptSecretShare(r2i.EncryptedSecretShares[slot], keySym)
		if e != nil {
			return nil, complaints, true, e
		}
		shares = append(shares, sh)
	}
	priv, err = tss.ComputeOwnPrivateKey(shares...)
	return priv, complaints, true, err
}

func (s *session) stepConfirm(mid int, shape string, hon bool) {
	m := s.member(mid)
	src := m
	if src == nil {
		src = &member{id: mid, acct: s.outsider}
		shape = "nonMember"
	}
	km := "na"
	forced := false
	var priv tss.Scalar
	if m != nil {
		p, _, f, err := s.ownKey(m, true)
		if err == nil && len(p) > 0 {
			priv, forced = p, f
			if mem, e := s.w.App.TSSKeeper.GetMember(s.r.Ctx, s.gid, tss.MemberID(m.id)); e == nil && len(mem.PubKey) > 0 {
				if samePoint(mem.PubKey, basePoint(toModN(priv))) {
					km = "yes"
				} else {
					km = "no"
				}
			}
		}
	}
	if len(priv) == 0 {
		priv = tsskit.ScalarFromSeed(fmt.Sprintf("dummy-key-%d", mid)) // out of round: nothing to derive
	}
	sigID := src.id
	if shape == "wrongMemberId" {
		sigID = s.otherID(src.id)
	}
	// the daemon's confirmation (cylinder Round3.handleGroup)
	sig, err := tss.SignOwnPubKey(tss.MemberID(sigID), s.dkgContext(), priv.Point(), priv)
	if err != nil {
		panic(err)
	}
	if shape == "badSig" {
		sig = flipLastBit(sig)
	}
	msg := tsstypes.NewMsgConfirm(s.gid, tss.MemberID(sigID), sig, s.sender(m, shape))
	o := s.deliver(msg)
	if o.OK() && m != nil && (shape == "ok") {
		m.priv = priv
	}
	s.note(shape != "ok" || forced, o)
	s.d.W.Step("Confirm", tf.M{"m": mid, "shape": shape, "km": km, "forced": forced, "dp": s.takePanic(), "hon": hon && !forced}, outc(o), s.project())
}

// complaint builds one complaint of c against r.
func (s *session) complaint(c *member, r int, kind string, gr *client.GroupResult) (tsstypes.Complaint, string) {
	sg := "na"
	if rm := s.member(r); rm != nil && rm.r2ok && r != c.id {
		if rm.delta[c.id] == 0 {
			sg = "good"
		} else {
			sg = "bad"
		}
	}
	s.ensureR1(c)
	// genuine complaints come out of the daemon's own getSecretShare when the share is bad
	if gr != nil && kind == "gen" && r != c.id {
		var cp *tsstypes.Complaint
		var err error
		func() {
			defer func() {
				if p := recover(); p != nil {
					s.daemonPanic = true
					err = fmt.Errorf("daemon panic: %v", p)
				}
			}()
			_, cp, err = cgroup.GetSecretShare(tss.MemberID(c.id), tss.MemberID(r), c.r1.OneTimePrivKey, gr)
		}()
		if err == nil && cp != nil {
			return *cp, sg
		}
	}
	// otherwise (a complaint about a share that verifies, or altered proofs): the real SignComplaint
	pubR := tsskit.ScalarFromSeed("placeholder").Point()
	if gr != nil {
		if info, err := gr.GetRound1Info(tss.MemberID(r)); err == nil {
			pubR = info.OneTimePubKey
		}
	}
	sig, keySym, err := tss.SignComplaint(c.r1.OneTimePubKey, pubR, c.r1.OneTimePrivKey)
	if err != nil {
		panic(err)
	}
	switch kind {
	case "badKeySym":
		// the strongest wrong-key-sym attack: claim another symmetric key K' and make the proof for it
		// as far as one can without the discrete log (SignComplaint with K' in place of K): the
		// Schnorr half of the proof is valid, only the DLEQ half (K' = priv * pubR) cannot be.
		keySym = addG(keySym)
		sig = forgeComplaintSig(c.r1.OneTimePubKey, pubR, c.r1.OneTimePrivKey, keySym)
	case "badSig":
		sig = flipLastBit(sig)
	}
	return tsstypes.Complaint{Complainant: tss.MemberID(c.id), Respondent: tss.MemberID(r), KeySym: keySym, Signature: sig}, sg
}

// forgeComplaintSig is pkg/tss SignComplaint with a caller-chosen symmetric key.
func forgeComplaintSig(pubI, pubJ tss.Point, privI tss.Scalar, keySym tss.Point) tss.ComplaintSignature {
	for {
		nonce, pubNonce, err := tss.GenerateDKGNonce()
		if err != nil {
			panic(err)
		}
		nonceSym, err := tss.ComputeSecretSym(nonce, pubJ)
		if err != nil {
			panic(err)
		}
		challenge, err := tss.HashRound3Complain(pubNonce, nonceSym, pubI, pubJ, keySym)
		if err != nil {
			continue
		}
		sg, err := tss.Sign(privI, challenge, nonce, nil)
		if err != nil {
			panic(err)
		}
		cs, err := tss.NewComplaintSignatureFromComponents(sg.R(), nonceSym, sg.S())
		if err != nil {
			panic(err)
		}
		return cs
	}
}

type cspec struct {
	r    int
	kind string
}

func (s *session) stepComplain(cid int, shape string, cs []cspec, hon bool) {
	c := s.member(cid)
	src := c
	if src == nil {
		src = &member{id: cid, acct: s.outsider}
		shape = "nonMember"
	}
	gr, _ := s.groupResult()
	var list []tsstypes.Complaint
	logCS := []tf.M{}
	for _, x := range cs {
		r := x.r
		if shape == "selfComplaint" {
			r = src.id
		}
		cp, sg := s.complaint(src, r, x.kind, gr)
		list = append(list, cp)
		logCS = append(logCS, tf.M{"r": r, "kind": x.kind, "sg": sg})
	}
	switch shape {
	case "malformed":
		if len(list) > 0 {
			bad := append([]byte{}, list[0].KeySym...)
			bad[0] = 0x05
			list[0].KeySym = bad
		}
	case "wrongMemberId":
		o := s.otherID(src.id)
		for i := range list {
			list[i].Complainant = tss.MemberID(o)
		}
	case "foreign":
		// the sender's own complaint(s) first, then one in the name of ANOTHER member (with a proof that cannot verify):
		// the whole message must be refused - processed, it would blame that member
		if len(list) > 0 {
			extra := list[len(list)-1]
			extra.Complainant = tss.MemberID(s.otherID(src.id))
			if extra.Respondent == extra.Complainant {
				extra.Respondent = tss.MemberID(src.id)
			}
			list = append(list, extra)
		}
	}
	msg := tsstypes.NewMsgComplain(s.gid, list, s.sender(c, shape))
	o := s.deliver(msg)
	out := outc(o)
	res := []string{}
	if o.OK() {
		for _, e := range o.Events {
			switch e.Type {
			case tsstypes.EventTypeComplainSuccess:
				res = append(res, "success")
				s.d.St.ComplainOK++
			case tsstypes.EventTypeComplainFailed:
				res = append(res, "failed")
				s.d.St.ComplainFailed++
			}
		}
	}
	out["res"] = res
	s.note(true, o)
	s.d.W.Step("Complain", tf.M{"c": cid, "shape": shape, "cs": logCS, "dp": s.takePanic(), "hon": hon}, out, s.project())
}

// stepHonestR3: exactly what the daemon does in round 3 - complain about every share that fails
// the check, otherwise confirm.
func (s *session) stepHonestR3(mid int) {
	m := s.member(mid)
	if m == nil {
		s.stepConfirm(mid, "nonMember", false)
		return
	}
	_, complaints, _, err := s.ownKey(m, false)
	if err == nil && len(complaints) > 0 {
		var cs []cspec
		for _, c := range complaints {
			cs = append(cs, cspec{int(c.Respondent), "gen"})
		}
		s.stepComplain(mid, "ok", cs, true)
		return
	}
	s.stepConfirm(mid, "ok", true)
}

func (s *session) stepEndBlock() {
	o := s.r.EndBlock()
	ob := s.r.BeginBlock(1)
	s.d.W.Step("EndBlock", tf.M{}, tf.M{"ok": o.OK() && ob.OK(), "res": []string{}}, s.project())
}

func (s *session) takePanic() bool {
	p := s.daemonPanic
	s.daemonPanic = false
	return p
}

func (s *session) note(deviation bool, o world.Outcome) {
	if deviation {
		s.interesting = true
	}
	if !o.OK() {
		s.d.St.Rejected++
	}
}

// ---------------------------------------------------------------------------------------------

// RunScript plays one script and records its trace.
func (d *Driver) RunScript(sc tf.Script) {
	w := d.world()
	n := tf.Int(sc.C, "n", 3)
	t := tf.Int(sc.C, "t", 2)
	period := tf.Int(sc.C, "period", 8)
	if n < 1 || n > maxMembers || t < 1 || t > n {
		panic(fmt.Sprint("bad script constants ", sc.C))
	}
	s := &session{d: d, w: w, r: w.Branch(), n: n, t: t}
	if nc := tf.Ints(sc.C, "nc"); len(nc) == 2 {
		s.ncDealer, s.ncRecipient = nc[0], nc[1]
	}
	s.outsider = world.NewAccount("dkg-outsider")
	k := w.App.TSSKeeper

	// environment: creation period of this trace
	p := k.GetParams(s.r.Ctx)
	p.CreationPeriod = uint64(period)
	if err := k.SetParams(s.r.Ctx, p); err != nil {
		panic(err)
	}
	s.r.BeginBlock(1) // h = 2
	var addrs []sdk.AccAddress
	for i := 1; i <= n; i++ {
		a := world.NewAccount("dkg-member" + strconv.Itoa(i))
		a.Name = "m" + strconv.Itoa(i)
		s.ms = append(s.ms, &member{id: i, acct: a})
		addrs = append(addrs, a.Addr)
	}
	// the group comes into existence through the keeper API the owning module (x/bandtss) calls
	gid, err := k.CreateGroup(s.r.Ctx, addrs, uint64(t), moduleOwner)
	if err != nil {
		panic(err)
	}
	s.gid = gid
	d.W.Reset(sc.C, s.project(), sc.Steps)
	d.St.Traces++
	d.St.Events++

	for _, step := range sc.Steps {
		s.apply(step)
		d.St.Events++
	}
	if g, err := k.GetGroup(s.r.Ctx, s.gid); err == nil {
		switch g.Status {
		case tsstypes.GROUP_STATUS_ACTIVE:
			d.St.Active++
		case tsstypes.GROUP_STATUS_FALLEN:
			d.St.Fallen++
		case tsstypes.GROUP_STATUS_EXPIRED:
			d.St.Expired++
		}
	}
	if s.interesting {
		h := sc.Hash()
		if !d.St.Distinct[h] {
			d.St.Distinct[h] = true
			d.St.Interesting++
		}
	}
}

func ints(v interface{}) []int {
	var out []int
	if a, ok := v.([]interface{}); ok {
		for _, x := range a {
			switch y := x.(type) {
			case float64:
				out = append(out, int(y))
			case int:
				out = append(out, y)
			}
		}
	}
	if a, ok := v.([]int); ok {
		return a
	}
	return out
}

func (s *session) apply(step tf.M) {
	switch tf.Str(step, "e", "") {
	case "SubmitR1":
		s.stepR1(tf.Int(step, "m", 1), tf.Str(step, "shape", "ok"))
	case "SubmitR2":
		s.stepR2(tf.Int(step, "m", 1), tf.Str(step, "shape", "ok"), ints(step["d"]))
	case "Confirm":
		s.stepConfirm(tf.Int(step, "m", 1), tf.Str(step, "shape", "ok"), false)
	case "HonestR3":
		s.stepHonestR3(tf.Int(step, "m", 1))
	case "Complain":
		var cs []cspec
		switch a := step["cs"].(type) {
		case []interface{}:
			for _, x := range a {
				if m, ok := x.(map[string]interface{}); ok {
					cs = append(cs, cspec{tf.Int(m, "r", 1), tf.Str(m, "kind", "gen")})
				}
			}
		case []tf.M:
			for _, m := range a {
				cs = append(cs, cspec{tf.Int(m, "r", 1), tf.Str(m, "kind", "gen")})
			}
		}
		if len(cs) == 0 {
			cs = []cspec{{tf.Int(step, "c", 1)%s.n + 1, "gen"}}
		}
		s.stepComplain(tf.Int(step, "c", 1), tf.Str(step, "shape", "ok"), cs, false)
	case "EndBlock":
		s.stepEndBlock()
	default:
		panic("unknown step " + fmt.Sprint(step))
	}
}

// ---------------------------------------------------------------------------------------------
// random scripts

var r1Bad = []string{"wrongLen", "badA0Sig", "badOneTimeSig", "a0OtherId", "otOtherId", "a0OtherCtx", "otOtherCtx", "wrongMemberId", "nonMember"}
var r2Bad = []string{"wrongLen", "wrongMemberId", "nonMember"}
var confBad = []string{"badSig", "wrongMemberId", "nonMember"}
var compBad = []string{"malformed", "selfComplaint", "wrongMemberId", "nonMember", "foreign", "foreign"}
var kinds = []string{"gen", "badKeySym", "badSig"}

// RandomScript: a DKG with random submission orders inside each round, block ends at random
// places, and a random selection of deviations, duplicates, out-of-round and foreign submissions.
func RandomScript(rng *rand.Rand) tf.Script {
	n := 2 + rng.Intn(3)
	if rng.Intn(12) == 0 {
		n = 1 + 4*rng.Intn(2)
	}
	t := 1 + rng.Intn(n)
	period := 6 + rng.Intn(8)
	if rng.Intn(4) == 0 {
		period = 1 + rng.Intn(5) // expiry in the middle of some round
	}
	c := tf.M{"n": n, "t": t, "period": period}
	if n >= 2 && rng.Intn(5) == 0 {
		// one dealer sends one recipient its share in a non-reduced encoding (see session.ncDealer)
		dl := 1 + rng.Intn(n)
		rc := 1 + rng.Intn(n-1)
		if rc >= dl {
			rc++
		}
		c["nc"] = []int{dl, rc}
	}
	var steps []tf.M
	add := func(m tf.M) { steps = append(steps, m) }
	other := func(i int) int {
		if n == 1 {
			return 2
		}
		j := 1 + rng.Intn(n-1)
		if j >= i {
			j++
		}
		return j
	}
	noise := func(round int) {
		// out-of-round, duplicate and foreign submissions
		m := 1 + rng.Intn(n)
		switch rng.Intn(8) {
		case 0:
			add(tf.M{"e": "SubmitR1", "m": m, "shape": "ok"})
		case 1:
			add(tf.M{"e": "SubmitR2", "m": m, "shape": "ok", "d": make([]int, n)})
		case 2:
			add(tf.M{"e": "Confirm", "m": m, "shape": "ok"})
		case 3:
			add(tf.M{"e": "Complain", "c": m, "shape": "ok", "cs": []tf.M{{"r": other(m), "kind": "gen"}}})
		case 4:
			add(tf.M{"e": "SubmitR1", "m": m, "shape": r1Bad[rng.Intn(len(r1Bad))]})
		case 5:
			add(tf.M{"e": "SubmitR2", "m": m, "shape": r2Bad[rng.Intn(len(r2Bad))], "d": make([]int, n)})
		case 6:
			add(tf.M{"e": "Confirm", "m": m, "shape": confBad[rng.Intn(len(confBad))]})
		case 7:
			add(tf.M{"e": "Complain", "c": m, "shape": compBad[rng.Intn(len(compBad))], "cs": []tf.M{{"r": other(m), "kind": "gen"}}})
		}
	}
	maybe := func(round int) {
		if rng.Intn(5) == 0 {
			noise(round)
		}
		if rng.Intn(7) == 0 {
			add(tf.M{"e": "EndBlock"})
		}
	}
	silent := 0
	if rng.Intn(8) == 0 {
		silent = 1 + rng.Intn(n) // this member stops at a random round -> the group expires
	}
	silentRound := 1 + rng.Intn(3)

	// round 1
	for _, i := range rng.Perm(n) {
		m := i + 1
		maybe(1)
		if m == silent && silentRound == 1 {
			continue
		}
		if rng.Intn(6) == 0 {
			add(tf.M{"e": "SubmitR1", "m": m, "shape": r1Bad[rng.Intn(len(r1Bad))]})
		}
		add(tf.M{"e": "SubmitR1", "m": m, "shape": "ok"})
		if rng.Intn(8) == 0 {
			add(tf.M{"e": "SubmitR1", "m": m, "shape": "ok"}) // duplicate
		}
	}
	maybe(1)
	add(tf.M{"e": "EndBlock"})

	// round 2: choose the corrupted shares
	deltas := make([][]int, n)
	for i := range deltas {
		deltas[i] = make([]int, n)
	}
	switch x := rng.Intn(10); {
	case x < 4:
	case x < 7 && n >= 2: // one corrupted share
		i := 1 + rng.Intn(n)
		deltas[i-1][other(i)-1] = []int{1, -1}[rng.Intn(2)]
	case x < 9 && n >= 2: // several, possibly several dealers
		for k := 0; k < 2+rng.Intn(2); k++ {
			i := 1 + rng.Intn(n)
			deltas[i-1][other(i)-1] = []int{1, -1}[rng.Intn(2)]
		}
	default:
		if n >= 3 { // two dealers whose corruptions cancel at one victim
			v := 1 + rng.Intn(n)
			a := other(v)
			b := a
			for b == a || b == v {
				b = 1 + rng.Intn(n)
			}
			deltas[a-1][v-1], deltas[b-1][v-1] = 1, -1
		}
	}
	for _, i := range rng.Perm(n) {
		m := i + 1
		maybe(2)
		if m == silent && silentRound == 2 {
			continue
		}
		if rng.Intn(8) == 0 {
			add(tf.M{"e": "SubmitR2", "m": m, "shape": r2Bad[rng.Intn(len(r2Bad))], "d": make([]int, n)})
		}
		add(tf.M{"e": "SubmitR2", "m": m, "shape": "ok", "d": deltas[i]})
		if rng.Intn(8) == 0 {
			add(tf.M{"e": "SubmitR2", "m": m, "shape": "ok", "d": deltas[i]})
		}
	}
	maybe(2)
	add(tf.M{"e": "EndBlock"})

	// round 3
	for _, i := range rng.Perm(n) {
		m := i + 1
		maybe(3)
		if m == silent && silentRound == 3 {
			continue
		}
		switch x := rng.Intn(20); {
		case x < 12 || n == 1:
			add(tf.M{"e": "HonestR3", "m": m})
		case x < 14:
			add(tf.M{"e": "Confirm", "m": m, "shape": "ok"}) // confirms whatever it received
		case x < 15:
			add(tf.M{"e": "Confirm", "m": m, "shape": confBad[rng.Intn(len(confBad))]})
			add(tf.M{"e": "HonestR3", "m": m})
		case x < 19:
			var cs []tf.M
			for k := 0; k < 1+rng.Intn(2); k++ {
				r := other(m)
				if rng.Intn(10) == 0 {
					r = n + 1
				}
				cs = append(cs, tf.M{"r": r, "kind": kinds[rng.Intn(len(kinds))]})
			}
			add(tf.M{"e": "Complain", "c": m, "shape": "ok", "cs": cs})
		default:
			add(tf.M{"e": "Complain", "c": m, "shape": compBad[rng.Intn(len(compBad))], "cs": []tf.M{{"r": other(m), "kind": "gen"}}})
			add(tf.M{"e": "HonestR3", "m": m})
		}
		if rng.Intn(8) == 0 {
			add(tf.M{"e": "HonestR3", "m": m}) // second confirmation / complaint
		}
	}
	maybe(3)
	add(tf.M{"e": "EndBlock"})
	// afterwards: late messages and the expiry block
	for i := 0; i < 2+rng.Intn(3); i++ {
		if rng.Intn(2) == 0 {
			noise(4)
		}
		add(tf.M{"e": "EndBlock"})
	}
	if silent != 0 || period <= 6 {
		for i := 0; i < period; i++ {
			add(tf.M{"e": "EndBlock"})
		}
		noise(4)
		add(tf.M{"e": "EndBlock"})
	}
	return tf.Script{Fam: "TssDkg", C: c, Steps: steps}
}
