// Package fam_genesis is the driver of the Genesis family (extension X01 of the specification):
// export -> import is the identity on the observable state of every band module, and the imported
// chain behaves the same afterwards.
//
// Chain A (the real BandApp, real FinalizeBlock/Commit, signed transactions of every band module) is
// driven for N blocks by a stateful generator (ideas copied from fam_block: nothing is imported
// from that package), then app.ExportAppStateAndValidators(false, nil, nil) is called at the
// committed height h.  Chain B is a second BandApp whose InitChain receives the exported application
// state (same chain id, time of block h, initial height h+1).  The stores of the eight band modules
// are then digested collection by collection on both chains, K further blocks of identical signed
// transactions are fed to both, and the digests and the transaction result codes are compared after
// every block.  Genesis_Trace.tla gives the verdict.
package fam_genesis

import (
	"fmt"
	"time"

	abci "github.com/cometbft/cometbft/abci/types"
	cmtproto "github.com/cometbft/cometbft/proto/tendermint/types"

	sdk "github.com/cosmos/cosmos-sdk/types"
	govtypes "github.com/cosmos/cosmos-sdk/x/gov/types"
	govv1 "github.com/cosmos/cosmos-sdk/x/gov/types/v1"

	band "github.com/bandprotocol/chain/v3/app"
	"github.com/bandprotocol/chain/v3/pkg/tss"
	bandtsstypes "github.com/bandprotocol/chain/v3/x/bandtss/types"
	feedstypes "github.com/bandprotocol/chain/v3/x/feeds/types"
	oracletypes "github.com/bandprotocol/chain/v3/x/oracle/types"
	restaketypes "github.com/bandprotocol/chain/v3/x/restake/types"
	tsstypes "github.com/bandprotocol/chain/v3/x/tss/types"
	tunneltypes "github.com/bandprotocol/chain/v3/x/tunnel/types"

	"vdrive/tsskit"
	"vdrive/world"
)

const (
	nGenesisDE = 6 // nonce pairs per member written into chain A's tss genesis
	groupT     = 2
)

// Env is chain A plus the key material the generator needs.
type Env struct {
	W      *world.World
	C      *world.Chain
	G1, G2 *tsskit.Group        // G1 = current bandtss group, G2 = a second ACTIVE tss group
	DEs    map[string]tsskit.DE // public key -> nonce pair (private part) of every pair ever published
	ValTok []int64
}

func deName(member string, i int) string { return fmt.Sprintf("gen-gen-%s-%d", member, i) }

// BuildEnv builds chain A.  Its genesis is the "fast" profile of the Block family: short periods, so
// that every end-blocker has work within a few dozen blocks; every value passes the modules' own
// Params.Validate (checked here: a refusal is a harness error).  Two trusted-dealer tss groups are
// written into the tss/bandtss genesis (environment; DKG is property C04's subject).
func BuildEnv() *Env {
	wc := world.DefaultConfig()
	wc.ValTokens = []int64{100_000_000, 1_000_000, 100_000_000, 50_000_000}
	wc.NumAccounts = 10
	wc.AccountBal = sdk.NewCoins(sdk.NewInt64Coin("uband", 10_000_000_000_000))
	wc.ExtraDenoms = []string{"uabc"}
	e := &Env{DEs: map[string]tsskit.DE{}, ValTok: wc.ValTokens}

	wc.Mutate = func(app *band.BandApp, gs band.GenesisState) {
		cdc := app.AppCodec()
		var og oracletypes.GenesisState
		var tg tsstypes.GenesisState
		var bg bandtsstypes.GenesisState
		var fg feedstypes.GenesisState
		var ug tunneltypes.GenesisState
		var rg restaketypes.GenesisState
		var gg govv1.GenesisState
		cdc.MustUnmarshalJSON(gs[oracletypes.ModuleName], &og)
		cdc.MustUnmarshalJSON(gs[tsstypes.ModuleName], &tg)
		cdc.MustUnmarshalJSON(gs[bandtsstypes.ModuleName], &bg)
		cdc.MustUnmarshalJSON(gs[feedstypes.ModuleName], &fg)
		cdc.MustUnmarshalJSON(gs[tunneltypes.ModuleName], &ug)
		cdc.MustUnmarshalJSON(gs[restaketypes.ModuleName], &rg)
		cdc.MustUnmarshalJSON(gs[govtypes.ModuleName], &gg)

		og.Params.ExpirationBlockCount = 3
		og.Params.InactivePenaltyDuration = uint64(5 * time.Second)
		tg.Params.SigningPeriod = 2
		tg.Params.CreationPeriod = 6
		tg.Params.MaxSigningAttempt = 2
		tg.Params.MaxDESize = 40
		bg.Params.InactivePenaltyDuration = 5 * time.Second
		bg.Params.MinTransitionDuration = 1 * time.Second
		bg.Params.MaxTransitionDuration = 1000 * time.Second
		fg.Params.PowerStepThreshold = 1000
		fg.Params.CurrentFeedsUpdateInterval = 2
		fg.Params.MinInterval = 1
		fg.Params.MaxInterval = 30
		fg.Params.CooldownTime = 1
		fg.Params.GracePeriod = 3
		fg.Params.Admin = world.NewAccount("owner").Addr.String()
		ug.Params.MinInterval = 1
		ug.Params.MinDeposit = sdk.NewCoins(sdk.NewInt64Coin("uband", 1000))
		ug.Params.BasePacketFee = sdk.NewCoins(sdk.NewInt64Coin("uband", 10))
		rg.Params.AllowedDenoms = []string{"uband"}
		vp := 4 * time.Second
		evp := 2 * time.Second
		gg.Params.VotingPeriod = &vp
		gg.Params.ExpeditedVotingPeriod = &evp
		gg.Params.MinDeposit = sdk.NewCoins(sdk.NewInt64Coin("uband", 1000))
		gg.Params.ExpeditedMinDeposit = sdk.NewCoins(sdk.NewInt64Coin("uband", 2000))

		accts := make([]world.Account, wc.NumAccounts)
		for i := range accts {
			accts[i] = world.NewAccount(fmt.Sprintf("acc%d", i+1))
			accts[i].Name = fmt.Sprintf("a%d", i+1)
		}
		e.G1 = tsskit.NewGroup("gen-g1", groupT, accts[0:3])
		e.G1.ID = 1
		e.G2 = tsskit.NewGroup("gen-g2", groupT, accts[1:4])
		e.G2.ID = 2
		for _, grp := range []*tsskit.Group{e.G1, e.G2} {
			tg.Groups = append(tg.Groups, tsstypes.NewGroup(grp.ID, uint64(grp.N), uint64(grp.T), grp.PubKey,
				tsstypes.GROUP_STATUS_ACTIVE, 1, bandtsstypes.ModuleName))
			for _, m := range grp.Members {
				tg.Members = append(tg.Members, tsstypes.NewMember(m.ID, grp.ID, m.Acc.Addr, m.Pub, false, true))
			}
		}
		bg.CurrentGroup = bandtsstypes.NewCurrentGroup(e.G1.ID, wc.GenesisTime)
		for _, m := range e.G1.Members {
			bg.Members = append(bg.Members, bandtsstypes.NewMember(m.Acc.Addr, e.G1.ID, true, wc.GenesisTime))
		}
		for i := 0; i < 4; i++ {
			for j := 0; j < nGenesisDE; j++ {
				de := tsskit.NewDE(deName(accts[i].Name, j))
				e.DEs[de.Key()] = de
				tg.DEs = append(tg.DEs, tsstypes.DEGenesis{Address: accts[i].Addr.String(), DE: de.Pub()})
			}
		}
		for _, c := range []struct {
			mod string
			err error
		}{
			{"oracle", og.Validate()}, {"tss", tg.Validate()}, {"bandtss", bg.Validate()}, {"feeds", fg.Validate()},
			{"tunnel", tunneltypes.ValidateGenesis(ug)}, {"restake", rg.Validate()},
		} {
			if c.err != nil {
				panic(fmt.Sprintf("harness error: chain A's own genesis is refused by %s: %v", c.mod, c.err))
			}
		}
		gs[oracletypes.ModuleName] = cdc.MustMarshalJSON(&og)
		gs[tsstypes.ModuleName] = cdc.MustMarshalJSON(&tg)
		gs[bandtsstypes.ModuleName] = cdc.MustMarshalJSON(&bg)
		gs[feedstypes.ModuleName] = cdc.MustMarshalJSON(&fg)
		gs[tunneltypes.ModuleName] = cdc.MustMarshalJSON(&ug)
		gs[restaketypes.ModuleName] = cdc.MustMarshalJSON(&rg)
		gs[govtypes.ModuleName] = cdc.MustMarshalJSON(&gg)
	}
	e.W = world.New(wc)
	e.C = e.W.L2()
	for i, v := range e.W.Vals {
		e.C.Votes = append(e.C.Votes, abci.VoteInfo{
			Validator:   abci.Validator{Address: v.Pub.Address().Bytes(), Power: wc.ValTokens[i] / 1_000_000},
			BlockIdFlag: cmtproto.BlockIDFlagCommit,
		})
	}
	return e
}

func (e *Env) Close() {
	if e != nil && e.W != nil {
		e.W.Close()
	}
}

// GroupByID returns the key material of a genesis group.
func (e *Env) GroupByID(id tss.GroupID) *tsskit.Group {
	switch {
	case e.G1 != nil && id == e.G1.ID:
		return e.G1
	case e.G2 != nil && id == e.G2.ID:
		return e.G2
	}
	return nil
}

func trunc(s string, n int) string {
	if len(s) > n {
		return s[:n]
	}
	return s
}
