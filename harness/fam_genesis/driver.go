package fam_genesis

import (
	"crypto/sha256"
	"encoding/hex"
	"encoding/json"
	"fmt"
	"math/rand"
	"os"
	"sort"
	"strings"

	abci "github.com/cometbft/cometbft/abci/types"
	cmtproto "github.com/cometbft/cometbft/proto/tendermint/types"

	storetypes "cosmossdk.io/store/types"

	servertypes "github.com/cosmos/cosmos-sdk/server/types"
	sdk "github.com/cosmos/cosmos-sdk/types"
	"github.com/cosmos/cosmos-sdk/types/module"

	tf "vdrive/tracefmt"
	"vdrive/world"
)

// Behaviour groups: what a facet's behaviour after the import may depend on (the table itself is in
// specs/Genesis.tla, `Deps`).  The collections of the vote side of x/feeds (votes, signal totals and
// their index, params, reference source config) form a group of their own: MsgVote reads only them,
// x/restake and staking, not the price side.
var feedsVoteSide = map[string]bool{
	"feeds.votes": true, "feeds.signalTotalPowers": true, "feeds.signalTotalPowersByPowerIndex": true,
	"feeds.params": true, "feeds.referenceSourceConfig": true,
}

func groupOfColl(c string) string {
	if feedsVoteSide[c] {
		return "feedsvote"
	}
	return modOf(c)
}

// groupOfTx attributes a transaction to a behaviour group by its message types (input only).
func groupOfTx(msgs []sdk.Msg) string {
	set := map[string]bool{}
	for _, m := range msgs {
		u := sdk.MsgTypeURL(m)
		switch {
		case strings.HasPrefix(u, "/band.feeds.") && !strings.Contains(u, "MsgSubmitSignalPrices"):
			set["feedsvote"] = true
		case strings.HasPrefix(u, "/band."):
			p := strings.Split(strings.TrimPrefix(u, "/band."), ".")
			set[p[0]] = true
		default:
			set["sdk"] = true
		}
	}
	if len(set) == 1 {
		for k := range set {
			return k
		}
	}
	return "multi"
}

var txGroups = []string{"oracle", "tss", "bandtss", "feeds", "feedsvote", "tunnel", "restake", "globalfee", "sdk", "multi"}

// Facets lists every facet: one per collection, one per transaction group, and "chain.live".
func Facets() []string {
	out := []string{"chain.live"}
	out = append(out, CollNames()...)
	for _, g := range txGroups {
		out = append(out, g+".tx")
	}
	return out
}

func groupOfFacet(f string) string {
	switch {
	case f == "chain.live":
		return "chain"
	case strings.HasSuffix(f, ".tx"):
		return strings.TrimSuffix(f, ".tx")
	}
	return groupOfColl(f)
}

// MakeScript is the abstract script of this family: a seed, the number of blocks before the export
// and after the import, and (for a replay) the one facet to record.
func MakeScript(seed int64, n, k int, tunnels, dkg bool, facet string) tf.Script {
	c := tf.M{"seed": seed, "n": n, "k": k, "tunnels": tunnels, "dkg": dkg}
	if facet != "" {
		c["facet"] = facet
	}
	return tf.Script{Fam: "Genesis", C: c, Steps: []tf.M{{"e": "Run", "n": n}, {"e": "Export"}, {"e": "Import"}, {"e": "Compare"}, {"e": "StepBoth", "k": k}}}
}

func scriptSeed(sc tf.Script) int64 {
	switch v := sc.C["seed"].(type) {
	case float64:
		return int64(v)
	case int64:
		return v
	case int:
		return int64(v)
	}
	return 1
}

// Plan: nrand scripts with different seeds and lengths.
func Plan(nrand int, seed int64) []tf.Script {
	var out []tf.Script
	for i := 0; i < nrand; i++ {
		n := []int{26, 34, 42, 30, 38, 48}[i%6]
		// profiles: 0 full, 1 no tunnels, 2 neither, 3 no tunnels, 4 neither, 5 tunnels only
		tunnels := i%6 == 0 || i%6 == 5
		dkg := i%6 == 0 || i%6 == 1 || i%6 == 3
		out = append(out, MakeScript(seed*1000+int64(i)+1, n, 6, tunnels, dkg, ""))
	}
	return out
}

type blockObs struct {
	h          int64
	ntx        int
	errA, errB string
	detailB    string
	sa, sb     *Snapshot
	codesA     map[string][]string // group -> code list
	codesB     map[string][]string
	kinds      map[string][]string // group -> message kind per tx (diagnosis)
}

// Driver runs scripts and writes the per-facet traces.
type Driver struct {
	W        *tf.Writer
	Scratch  string
	Debug    bool
	Traces   int
	Events   int
	Scripts  int
	Interest int
	NonEmpty map[string]int // collection -> scripts in which it was non-empty at export
	Differ   map[string]int // facet -> scripts in which Compare differed
	Diverge  map[string]int // facet -> scripts in which some StepBoth differed
	Exempt   map[string]int // facet -> scripts in which the behaviour comparison was exempt
	Invalid  map[string]int // module -> scripts in which its exported genesis failed Validate
	Notes    []string
	TxCodes  map[string]int
	Kinds    map[string]int
	Aborted  int
}

func NewDriver(w *tf.Writer) *Driver {
	scratch, err := os.MkdirTemp("", "vgenesis-")
	if err != nil {
		panic(err)
	}
	os.Setenv("TMPDIR", scratch)
	return &Driver{W: w, Scratch: scratch, NonEmpty: map[string]int{}, Differ: map[string]int{}, Diverge: map[string]int{},
		Exempt: map[string]int{}, Invalid: map[string]int{}, TxCodes: map[string]int{}, Kinds: map[string]int{}, Debug: os.Getenv("VGENESIS_DEBUG") != ""}
}

func (d *Driver) Close() { os.RemoveAll(d.Scratch) }

func (d *Driver) note(f string, a ...interface{}) {
	s := fmt.Sprintf(f, a...)
	if len(d.Notes) < 60 {
		d.Notes = append(d.Notes, s)
	}
	if d.Debug {
		fmt.Fprintln(os.Stderr, s)
	}
}

func sign(env *Env, a action) (bz []byte) {
	defer func() {
		if p := recover(); p != nil {
			bz = nil
		}
	}()
	out, err := env.C.SignTx(a.signer, a.gas, a.fee, a.msgs...)
	if err != nil {
		return nil
	}
	return out
}

// followValidatorSet: the votes of the next block are those of the validators still in the set.
func followValidatorSet(env *Env, resp *abci.ResponseFinalizeBlock) {
	if resp == nil {
		return
	}
	for _, vu := range resp.ValidatorUpdates {
		pk := vu.PubKey.GetSecp256K1()
		if pk == nil {
			continue
		}
		for _, v := range env.W.Vals {
			if string(v.Pub.Bytes()) != string(pk) {
				continue
			}
			ca := v.Pub.Address().Bytes()
			var nv []abci.VoteInfo
			found := false
			for _, vi := range env.C.Votes {
				if string(vi.Validator.Address) == string(ca) {
					found = true
					if vu.Power > 0 {
						vi.Validator.Power = vu.Power
						nv = append(nv, vi)
					}
				} else {
					nv = append(nv, vi)
				}
			}
			if !found && vu.Power > 0 {
				nv = append(nv, abci.VoteInfo{Validator: abci.Validator{Address: ca, Power: vu.Power}, BlockIdFlag: cmtproto.BlockIDFlagCommit})
			}
			env.C.Votes = nv
		}
	}
}

func codeOf(t world.TxResult) string {
	if t.Code == 0 {
		return "0"
	}
	return fmt.Sprintf("%s:%d", t.Space, t.Code)
}

func listDigest(xs []string) string {
	if len(xs) == 0 {
		return "-"
	}
	h := sha256.Sum256([]byte(strings.Join(xs, ",")))
	return fmt.Sprintf("%d:%s", len(xs), hex.EncodeToString(h[:8]))
}

// exportA calls the application's own export and the modules' own genesis validation.
func exportA(env *Env) (exp servertypes.ExportedApp, ok bool, detail string, bad []string) {
	app := env.W.App
	func() {
		defer func() {
			if p := recover(); p != nil {
				ok, detail = false, "panic: "+trunc(fmt.Sprint(p), 200)
			}
		}()
		var err error
		exp, err = app.ExportAppStateAndValidators(false, nil, nil)
		if err != nil {
			ok, detail = false, trunc(err.Error(), 200)
			return
		}
		ok = true
	}()
	if !ok {
		return exp, false, detail, nil
	}
	var gm map[string]json.RawMessage
	if err := json.Unmarshal(exp.AppState, &gm); err != nil {
		return exp, false, "exported state is not a JSON object: " + err.Error(), nil
	}
	bad = []string{}
	// every module of the application validates its own section (what `validate-genesis` does) ...
	names := make([]string, 0, len(app.ModuleBasics))
	for n := range app.ModuleBasics {
		names = append(names, n)
	}
	sort.Strings(names)
	for _, n := range names {
		func() {
			defer func() {
				if p := recover(); p != nil {
					bad = append(bad, n)
					detail += fmt.Sprintf("[%s: panic %s]", n, trunc(fmt.Sprint(p), 100))
				}
			}()
			hg, has := app.ModuleBasics[n].(module.HasGenesisBasics)
			if !has {
				return
			}
			if err := hg.ValidateGenesis(app.AppCodec(), app.GetTxConfig(), gm[n]); err != nil {
				bad = append(bad, n)
				detail += fmt.Sprintf("[%s: %s]", n, trunc(err.Error(), 160))
			}
		}()
	}
	return exp, true, detail, bad
}

// RunScript executes one script and writes its facet traces.
func (d *Driver) RunScript(sc tf.Script) {
	seed := scriptSeed(sc)
	n, k := tf.Int(sc.C, "n", 30), tf.Int(sc.C, "k", 6)
	only := tf.Str(sc.C, "facet", "")
	d.Scripts++
	env := BuildEnv()
	defer env.Close()
	g := newGen(env, rand.New(rand.NewSource(seed)))
	g.tunnels, g.dkg = tf.Bool(sc.C, "tunnels", true), tf.Bool(sc.C, "dkg", true)

	ntxRun, okRun := 0, 0
	runBlock := func(stage string) (dt int64, txs [][]byte, groups, kinds []string, res world.BlockResult) {
		dt, acts := g.nextBlock(stage)
		for _, a := range acts {
			bz := sign(env, a)
			if bz == nil {
				continue
			}
			txs = append(txs, bz)
			groups = append(groups, groupOfTx(a.msgs))
			kinds = append(kinds, a.kind)
		}
		res, resp := env.C.RunBlock(dt, txs)
		followValidatorSet(env, resp)
		for i, t := range res.Txs {
			d.TxCodes[codeOf(t)]++
			if d.Debug && t.Code != 0 && resp != nil {
				fmt.Fprintf(os.Stderr, "A h=%d %s %s: %s\n", res.Height, kinds[i], codeOf(t), trunc(resp.TxResults[i].Log, 160))
			}
		}
		return
	}

	// ---- Run: n blocks on chain A
	for i := 0; i < n; i++ {
		stage := stageRun
		if i == n-2 {
			stage = stagePre2
		}
		if i == n-1 {
			stage = stagePre1
		}
		_, txs, _, _, res := runBlock(stage)
		ntxRun += len(txs)
		for _, t := range res.Txs {
			if t.Code == 0 {
				okRun++
			}
		}
		if res.Err != "none" {
			// a block of chain A failed before the export: that is property C02's subject, not this family's
			d.Aborted++
			d.note("script seed=%d aborted: block %d of chain A failed (%s: %s)", seed, res.Height, res.Err, trunc(res.Detail, 160))
			return
		}
	}
	h := env.C.Height
	votesAtExport := append([]abci.VoteInfo{}, env.C.Votes...)
	_ = votesAtExport

	// ---- Export
	exp, expOK, expDetail, bad := exportA(env)
	valid := expOK && len(bad) == 0
	for _, m := range bad {
		d.Invalid[m]++
	}
	if expDetail != "" {
		d.note("seed=%d export: ok=%v %s", seed, expOK, expDetail)
	}
	sa0 := Take(CommittedReader(env.W.App))
	for _, c := range CollNames() {
		if sa0.Count(c) > 0 {
			d.NonEmpty[c]++
		}
	}

	// ---- Import
	var wb *world.World
	initOK, initDetail := false, ""
	if expOK {
		var err error
		wb, err = ImportChain(env.W, exp.AppState, &exp.ConsensusParams, exp.Height, env.C.Time)
		if err != nil {
			initDetail = trunc(err.Error(), 300)
			d.note("seed=%d import refused: %s", seed, initDetail)
		} else {
			initOK = true
			defer wb.Close()
		}
	}
	if expOK && exp.Height != h+1 {
		d.note("seed=%d exported height %d, expected %d", seed, exp.Height, h+1)
	}

	// ---- Compare + StepBoth
	var sb0 *Snapshot
	var blocks []blockObs
	if initOK {
		appB := wb.App
		hdr := wb.BaseHeader
		sb0 = Take(func(mod string) storetypes.KVStore { return appB.NewContextLegacy(false, hdr).KVStore(appB.GetKey(mod)) })
		cb := &world.Chain{W: wb, Height: h, Time: env.C.Time}
		for j := 0; j < k; j++ {
			votes := append([]abci.VoteInfo{}, env.C.Votes...)
			dt, txs, groups, kinds, resA := runBlock(stageAfter)
			cb.Votes = votes
			resB, respB := cb.RunBlock(dt, txs)
			ob := blockObs{h: resA.Height, ntx: len(txs), errA: resA.Err, errB: resB.Err, detailB: trunc(resB.Detail, 200),
				codesA: map[string][]string{}, codesB: map[string][]string{}, kinds: map[string][]string{}}
			for i := range txs {
				ca, cbb := "?", "?"
				if i < len(resA.Txs) {
					ca = codeOf(resA.Txs[i])
				}
				if i < len(resB.Txs) {
					cbb = codeOf(resB.Txs[i])
				}
				ob.codesA[groups[i]] = append(ob.codesA[groups[i]], ca)
				ob.codesB[groups[i]] = append(ob.codesB[groups[i]], cbb)
				ob.kinds[groups[i]] = append(ob.kinds[groups[i]], kinds[i])
				if d.Debug && ca != cbb && respB != nil && i < len(respB.TxResults) {
					fmt.Fprintf(os.Stderr, "B h=%d %s A=%s B=%s: %s\n", resA.Height, kinds[i], ca, cbb, trunc(respB.TxResults[i].Log, 160))
				}
			}
			ob.sa = Take(CommittedReader(env.W.App))
			ob.sb = Take(CommittedReader(appB))
			blocks = append(blocks, ob)
			if resA.Err != "none" || resB.Err != "none" {
				if resB.Err != "none" {
					d.note("seed=%d chain B failed at block %d: %s %s", seed, resB.Height, resB.Err, trunc(resB.Detail, 200))
				}
				break
			}
		}
	}

	// ---- the set of collections that did not round-trip (logged on every Compare line; each member is
	// established by TLC in that collection's own facet trace)
	diff := []string{}
	if initOK {
		for _, c := range CollNames() {
			if sa0.Digest(c) != sb0.Digest(c) {
				diff = append(diff, c)
			}
		}
	}
	nonEmpty := 0
	for _, c := range CollNames() {
		if sa0.Count(c) > 0 {
			nonEmpty++
		}
	}
	if nonEmpty >= 45 {
		d.Interest++
	}

	// ---- write one trace per facet
	for _, f := range Facets() {
		if only != "" && f != only {
			continue
		}
		isColl := f != "chain.live" && !strings.HasSuffix(f, ".tx")
		grp := groupOfFacet(f)
		if isColl && strings.HasSuffix(f, ".other") {
			// the catch-all collection is recorded only if it ever holds a key
			any := sa0.Count(f) > 0 || (sb0 != nil && sb0.Count(f) > 0)
			for _, ob := range blocks {
				any = any || ob.sa.Count(f) > 0 || ob.sb.Count(f) > 0
			}
			if !any && only == "" {
				continue
			}
		}
		c := tf.M{"seed": seed, "n": n, "k": k, "tunnels": g.tunnels, "dkg": g.dkg, "facet": f, "grp": grp}
		d.W.Reset(c, tf.M{}, MakeScript(seed, n, k, g.tunnels, g.dkg, f).Steps)
		d.Traces++
		dg := func(s *Snapshot) string {
			if !isColl || s == nil {
				return "-"
			}
			return s.Digest(f)
		}
		d.W.Step("Run", tf.M{"blocks": n, "txs": ntxRun, "oktxs": okRun}, tf.M{"err": "none"}, tf.M{"h": int(h), "a": dg(sa0)})
		d.W.Step("Export", tf.M{"h": int(h)}, tf.M{"ok": expOK, "valid": valid, "bad": bad2(bad), "detail": trunc(expDetail, 300)}, tf.M{})
		d.W.Step("Import", tf.M{"ih": int(h + 1)}, tf.M{"ok": valid && initOK, "init": initOK, "detail": initDetail}, tf.M{})
		d.Events += 3
		if !initOK {
			continue
		}
		first := ""
		if isColl {
			first = FirstDiff(sa0, sb0, f)
			if first != "" {
				d.Differ[f]++
				first = fmt.Sprintf("A has %d keys, B has %d; first difference: %s", sa0.Count(f), sb0.Count(f), first)
			}
		}
		d.W.Step("Compare", tf.M{"facet": f, "tag": f}, tf.M{"diff": diff, "first": first}, tf.M{"a": dg(sa0), "b": dg(sb0)})
		d.Events++
		diverged, exempt := false, !intact(grp, diff)
		for _, ob := range blocks {
			var a, b, fd string
			switch {
			case f == "chain.live":
				a, b = ob.errA, ob.errB
				fd = ob.detailB
			case !isColl:
				a, b = listDigest(ob.codesA[grp]), listDigest(ob.codesB[grp])
				for i := range ob.codesA[grp] {
					if ob.codesA[grp][i] != ob.codesB[grp][i] {
						fd = fmt.Sprintf("tx %d of the group (%s): A=%s B=%s", i, ob.kinds[grp][i], ob.codesA[grp][i], ob.codesB[grp][i])
						break
					}
				}
			default:
				a, b = ob.sa.Digest(f), ob.sb.Digest(f)
				if a != b {
					fd = fmt.Sprintf("A has %d keys, B has %d; first difference: %s", ob.sa.Count(f), ob.sb.Count(f), FirstDiff(ob.sa, ob.sb, f))
				}
			}
			if a != b {
				diverged = true
			}
			d.W.Step("StepBoth", tf.M{"facet": f, "tag": f, "h": int(ob.h), "ntx": ob.ntx}, tf.M{"errA": ob.errA, "errB": ob.errB, "first": fd}, tf.M{"a": a, "b": b})
			d.Events++
		}
		if diverged {
			d.Diverge[f]++
		}
		if exempt {
			d.Exempt[f]++
		}
	}
	for kk, v := range g.Kinds {
		d.Kinds[kk] += v
	}
}

func bad2(b []string) []string {
	if b == nil {
		return []string{}
	}
	return b
}

// intact mirrors Genesis.tla's Intact (used for statistics only - the verdict is TLC's).
func intact(grp string, diff []string) bool {
	in := func(pred func(string) bool) bool {
		for _, c := range diff {
			if pred(c) {
				return false
			}
		}
		return true
	}
	voteRestake := func(c string) bool { return feedsVoteSide[c] || modOf(c) == "restake" }
	switch grp {
	case "chain":
		return true
	case "globalfee":
		return in(func(c string) bool { return modOf(c) == "globalfee" })
	case "rollingseed":
		return in(func(c string) bool { return modOf(c) == "rollingseed" })
	case "restake", "feedsvote", "sdk":
		return in(voteRestake)
	}
	return len(diff) == 0
}

// Finish returns the statistics.
func (d *Driver) Finish() map[string]interface{} {
	return map[string]interface{}{
		"traces": d.Traces, "events": d.Events, "interesting": d.Interest, "scripts": d.Scripts, "scripts_aborted": d.Aborted,
		"nonempty_at_export": d.NonEmpty, "compare_differs": d.Differ, "behaviour_diverges": d.Diverge, "behaviour_exempt": d.Exempt,
		"export_invalid_modules": d.Invalid, "notes": d.Notes, "tx_results": d.TxCodes, "msg_kinds": d.Kinds,
		"facets": len(Facets()),
	}
}
