package fam_genesis

import (
	"crypto/sha256"
	"encoding/hex"
	"encoding/json"
	"fmt"
	"math/rand"
	"os"
	"sort"
	"strings"

	abci "github.com/cometbft/cometbft/abci/types"
	cmtproto "github.com/cometbft/cometbft/proto/tendermint/types"

	storetypes "cosmossdk.io/store/types"

	servertypes "github.com/cosmos/cosmos-sdk/server/types"
	sdk "github.com/cosmos/cosmos-sdk/types"
	"github.com/cosmos/cosmos-sdk/types/module"

	tf "vdrive/tracefmt"
	"vdrive/world"
)

// Behaviour groups: what a facet's behaviour after the import may depend on (the table itself is in
// specs/Genesis.tla, `Deps`).  The collections of the vote side of x/feeds (votes, signal totals and
// their index, params, reference source config) form a group of their own: MsgVote reads only them,
// x/restake and staking, not the price side.
var feedsVoteSide = map[string]bool{
	"feeds.votes": true, "feeds.signalTotalPowers": true, "feeds.signalTotalPowersByPowerIndex": true,
	"feeds.params": true, "feeds.referenceSourceConfig": true,
}

func groupOfColl(c string) string {
	if feedsVoteSide[c] {
		return "feedsvote"
	}
	return modOf(c)
}

// groupOfTx attributes a transaction to a behaviour group by its message types (input only).
func groupOfTx(msgs []sdk.Msg) string {
	set := map[string]bool{}
	for _, m := range msgs {
		u := sdk.MsgTypeURL(m)
		switch {
		case strings.HasPrefix(u, "/band.feeds.") && !strings.Contains(u, "MsgSubmitSignalPrices"):
			set["feedsvote"] = true
		case strings.HasPrefix(u, "/band."):
			p := strings.Split(strings.TrimPrefix(u, "/band."), ".")
			set[p[0]] = true
		default:
			set["sdk"] = true
		}
	}
	if len(set) == 1 {
		for k := range set {
			return k
		}
	}
	return "multi"
}

var txGroups = []string{"oracle", "tss", "bandtss", "feeds", "feedsvote", "tunnel", "restake", "globalfee", "sdk", "multi"}

// Facets lists every facet: one per collection, one per transaction group, and "chain.live".
func Facets() []string {
	out := []string{"chain.live"}
	out = append(out, CollNames()...)
	for _, g := range txGroups {
		out = append(out, g+".tx")
	}
	return out
}

func groupOfFacet(f string) string {
	switch {
	case f == "chain.live":
		return "chain"
	case strings.HasSuffix(f, ".tx"):
		return strings.TrimSuffix(f, ".tx")
	}
	return groupOfColl(f)
}

// RunSpec is one run of a script: a seed, the number of blocks before the export and after the
// import, and a profile.  The profile is a '+'-joined set of flags that switch parts of the generator on:
//
//	tunnels     tunnels are created, funded, activated, triggered
//	dkg         a new signing group is proposed (MsgTransitionGroup): its DKG starts and nobody completes it
//	transition  a transition to the second genesis group is proposed (MsgForceTransitionGroup)
//	delimit     governance lowers tss MaxDESize to 1 after the members' nonce queues were filled
//	plain       none of these
//
// The Export and Import lines of a run carry the flags as their tag (a function of the input only).
type RunSpec struct {
	Seed    int64
	N, K    int
	Profile string
}

func (r RunSpec) M() tf.M { return tf.M{"seed": r.Seed, "n": r.N, "k": r.K, "profile": r.Profile} }

// MakeScript is the abstract script of this family: a list of runs and (for a replay) the one facet to
// record.  A script is recorded once per facet: the trace of a facet holds that facet's view of every
// run, one after the other ("chain.live", whose lines carry the profile tags, gets one trace per
// profile).
func MakeScript(runs []RunSpec, facet string) tf.Script {
	var rs []interface{}
	steps := []tf.M{}
	for _, r := range runs {
		rs = append(rs, r.M())
		steps = append(steps, tf.M{"e": "Run", "n": r.N}, tf.M{"e": "Export"}, tf.M{"e": "Import"}, tf.M{"e": "Compare"}, tf.M{"e": "StepBoth", "k": r.K})
	}
	c := tf.M{"runs": rs}
	if facet != "" {
		c["facet"] = facet
	}
	return tf.Script{Fam: "Genesis", C: c, Steps: steps}
}

func scriptRuns(sc tf.Script) []RunSpec {
	var out []RunSpec
	list, _ := sc.C["runs"].([]interface{})
	for _, x := range list {
		m, ok := x.(map[string]interface{})
		if !ok {
			continue
		}
		seed := int64(1)
		switch v := m["seed"].(type) {
		case float64:
			seed = int64(v)
		case int64:
			seed = v
		case int:
			seed = int64(v)
		}
		out = append(out, RunSpec{Seed: seed, N: tf.Int(m, "n", 30), K: tf.Int(m, "k", 6), Profile: tf.Str(m, "profile", "plain")})
	}
	return out
}

// Plan: one script of nrand runs with different seeds, lengths and profiles.
func Plan(nrand int, seed int64) []tf.Script {
	var runs []RunSpec
	for i := 0; i < nrand; i++ {
		n := []int{26, 34, 42, 30, 38, 48}[i%6]
		prof := []string{"tunnels+dkg", "transition", "plain", "dkg", "delimit", "tunnels", "plain", "transition"}[i%8]
		runs = append(runs, RunSpec{Seed: seed*1000 + int64(i) + 1, N: n, K: 6, Profile: prof})
	}
	// the script is JSON round-tripped so that a planned script and a replayed one are read the same way
	sc := MakeScript(runs, "")
	bz, _ := json.Marshal(sc)
	var out tf.Script
	_ = json.Unmarshal(bz, &out)
	return []tf.Script{out}
}

type blockObs struct {
	h          int64
	ntx        int
	errA, errB string
	detailB    string
	sa, sb     *Snapshot
	codesA     map[string][]string // group -> code list
	codesB     map[string][]string
	kinds      map[string][]string // group -> message kind per tx (diagnosis)
}

// Driver runs scripts and writes the per-facet traces.
type Driver struct {
	W        *tf.Writer
	Scratch  string
	Debug    bool
	Traces   int
	Events   int
	Scripts  int
	Interest int
	NonEmpty map[string]int // collection -> scripts in which it was non-empty at export
	Differ   map[string]int // facet -> scripts in which Compare differed
	Diverge  map[string]int // facet -> scripts in which some StepBoth differed
	Exempt   map[string]int // facet -> scripts in which the behaviour comparison was exempt
	Invalid  map[string]int // module -> scripts in which its exported genesis failed Validate
	Notes    []string
	TxCodes  map[string]int
	Kinds    map[string]int
	Aborted  int
}

func NewDriver(w *tf.Writer) *Driver {
	scratch, err := os.MkdirTemp("", "vgenesis-")
	if err != nil {
		panic(err)
	}
	os.Setenv("TMPDIR", scratch)
	return &Driver{W: w, Scratch: scratch, NonEmpty: map[string]int{}, Differ: map[string]int{}, Diverge: map[string]int{},
		Exempt: map[string]int{}, Invalid: map[string]int{}, TxCodes: map[string]int{}, Kinds: map[string]int{}, Debug: os.Getenv("VGENESIS_DEBUG") != ""}
}

func (d *Driver) Close() { os.RemoveAll(d.Scratch) }

func (d *Driver) note(f string, a ...interface{}) {
	s := fmt.Sprintf(f, a...)
	if len(d.Notes) < 60 {
		d.Notes = append(d.Notes, s)
	}
	if d.Debug {
		fmt.Fprintln(os.Stderr, s)
	}
}

func sign(env *Env, a action) (bz []byte) {
	defer func() {
		if p := recover(); p != nil {
			bz = nil
		}
	}()
	out, err := env.C.SignTx(a.signer, a.gas, a.fee, a.msgs...)
	if err != nil {
		return nil
	}
	return out
}

// followValidatorSet: the votes of the next block are those of the validators still in the set.
func followValidatorSet(env *Env, resp *abci.ResponseFinalizeBlock) {
	if resp == nil {
		return
	}
	for _, vu := range resp.ValidatorUpdates {
		pk := vu.PubKey.GetSecp256K1()
		if pk == nil {
			continue
		}
		for _, v := range env.W.Vals {
			if string(v.Pub.Bytes()) != string(pk) {
				continue
			}
			ca := v.Pub.Address().Bytes()
			var nv []abci.VoteInfo
			found := false
			for _, vi := range env.C.Votes {
				if string(vi.Validator.Address) == string(ca) {
					found = true
					if vu.Power > 0 {
						vi.Validator.Power = vu.Power
						nv = append(nv, vi)
					}
				} else {
					nv = append(nv, vi)
				}
			}
			if !found && vu.Power > 0 {
				nv = append(nv, abci.VoteInfo{Validator: abci.Validator{Address: ca, Power: vu.Power}, BlockIdFlag: cmtproto.BlockIDFlagCommit})
			}
			env.C.Votes = nv
		}
	}
}

func codeOf(t world.TxResult) string {
	if t.Code == 0 {
		return "0"
	}
	return fmt.Sprintf("%s:%d", t.Space, t.Code)
}

func listDigest(xs []string) string {
	if len(xs) == 0 {
		return "-"
	}
	h := sha256.Sum256([]byte(strings.Join(xs, ",")))
	return fmt.Sprintf("%d:%s", len(xs), hex.EncodeToString(h[:8]))
}

// exportA calls the application's own export and the modules' own genesis validation.
func exportA(env *Env) (exp servertypes.ExportedApp, ok bool, detail string, bad []string) {
	app := env.W.App
	func() {
		defer func() {
			if p := recover(); p != nil {
				ok, detail = false, "panic: "+trunc(fmt.Sprint(p), 200)
			}
		}()
		var err error
		exp, err = app.ExportAppStateAndValidators(false, nil, nil)
		if err != nil {
			ok, detail = false, trunc(err.Error(), 200)
			return
		}
		ok = true
	}()
	if !ok {
		return exp, false, detail, nil
	}
	var gm map[string]json.RawMessage
	if err := json.Unmarshal(exp.AppState, &gm); err != nil {
		return exp, false, "exported state is not a JSON object: " + err.Error(), nil
	}
	bad = []string{}
	// every module of the application validates its own section (what `validate-genesis` does) ...
	names := make([]string, 0, len(app.ModuleBasics))
	for n := range app.ModuleBasics {
		names = append(names, n)
	}
	sort.Strings(names)
	for _, n := range names {
		func() {
			defer func() {
				if p := recover(); p != nil {
					bad = append(bad, n)
					detail += fmt.Sprintf("[%s: panic %s]", n, trunc(fmt.Sprint(p), 100))
				}
			}()
			hg, has := app.ModuleBasics[n].(module.HasGenesisBasics)
			if !has {
				return
			}
			if err := hg.ValidateGenesis(app.AppCodec(), app.GetTxConfig(), gm[n]); err != nil {
				bad = append(bad, n)
				detail += fmt.Sprintf("[%s: %s]", n, trunc(err.Error(), 160))
			}
		}()
	}
	return exp, true, detail, bad
}

// runResult is what one run showed.
type runResult struct {
	spec                  RunSpec
	aborted               bool
	ntx, oktx             int
	h                     int64
	expOK, valid, initOK  bool
	bad                   []string
	expDetail, initDetail string
	sa0, sb0              *Snapshot
	blocks                []blockObs
	diff                  []string
	xtag, itag            string
}

// RunScript executes the runs of one script and writes the facet traces.
func (d *Driver) RunScript(sc tf.Script) {
	only := tf.Str(sc.C, "facet", "")
	var results []*runResult
	for _, spec := range scriptRuns(sc) {
		d.Scripts++
		r := d.execRun(spec)
		if r.aborted {
			continue
		}
		results = append(results, r)
	}
	d.writeTraces(results, only)
}

// execRun: chain A for n blocks, export, import into chain B, k common blocks.
func (d *Driver) execRun(spec RunSpec) *runResult {
	seed, n, k, prof := spec.Seed, spec.N, spec.K, spec.Profile
	r := &runResult{spec: spec, xtag: "-", itag: "-", diff: []string{}}
	env := BuildEnv()
	defer env.Close()
	g := newGen(env, rand.New(rand.NewSource(seed)))
	g.tunnels, g.dkg = strings.Contains(prof, "tunnels"), strings.Contains(prof, "dkg")
	g.transition, g.delimit = strings.Contains(prof, "transition"), strings.Contains(prof, "delimit")
	g.n = n
	// tags (functions of the run's profile only): an unfinished DKG can only exist in "dkg" runs, a waiting
	// transition only in "transition"/"dkg" runs, a tunnel only in "tunnels" runs, an over-long nonce queue
	// only in "delimit" runs
	switch {
	case g.dkg:
		r.xtag = "dkg"
	case g.transition:
		r.xtag = "transition"
	}
	switch {
	case g.tunnels && g.delimit:
		r.itag = "tunnels+delimit"
	case g.tunnels:
		r.itag = "tunnels"
	case g.delimit:
		r.itag = "delimit"
	}
	ntxRun, okRun := 0, 0
	runBlock := func(stage string) (dt int64, txs [][]byte, groups, kinds []string, res world.BlockResult) {
		dt, acts := g.nextBlock(stage)
		for _, a := range acts {
			bz := sign(env, a)
			if bz == nil {
				continue
			}
			txs = append(txs, bz)
			groups = append(groups, groupOfTx(a.msgs))
			kinds = append(kinds, a.kind)
		}
		res, resp := env.C.RunBlock(dt, txs)
		followValidatorSet(env, resp)
		for i, t := range res.Txs {
			d.TxCodes[codeOf(t)]++
			if d.Debug && t.Code != 0 && resp != nil {
				fmt.Fprintf(os.Stderr, "A h=%d %s %s: %s\n", res.Height, kinds[i], codeOf(t), trunc(resp.TxResults[i].Log, 160))
			}
		}
		return
	}

	// ---- Run: n blocks on chain A
	for i := 0; i < n; i++ {
		stage := stageRun
		if i == n-2 {
			stage = stagePre2
		}
		if i == n-1 {
			stage = stagePre1
		}
		_, txs, _, _, res := runBlock(stage)
		ntxRun += len(txs)
		for _, t := range res.Txs {
			if t.Code == 0 {
				okRun++
			}
		}
		if res.Err != "none" {
			// a block of chain A failed before the export: that is property C02's subject, not this family's
			d.Aborted++
			d.note("run seed=%d aborted: block %d of chain A failed (%s: %s)", seed, res.Height, res.Err, trunc(res.Detail, 160))
			r.aborted = true
			return r
		}
	}
	h := env.C.Height

	if d.Debug {
		ctx := env.C.Query()
		tr, found := env.W.App.BandtssKeeper.GetGroupTransition(ctx)
		fmt.Fprintf(os.Stderr, "at export h=%d: transition found=%v %+v\n", h, found, tr)
		for _, gr := range env.W.App.TSSKeeper.GetGroups(ctx) {
			fmt.Fprintf(os.Stderr, "  group %d status %s created %d\n", gr.ID, gr.Status, gr.CreatedHeight)
		}
		for _, id := range g.govIDs {
			if p, err := env.W.App.GovKeeper.Proposals.Get(ctx, id); err == nil {
				fmt.Fprintf(os.Stderr, "  proposal %d status %s failed=%q\n", id, p.Status, p.FailedReason)
			}
		}
	}
	// ---- Export
	exp, expOK, expDetail, bad := exportA(env)
	valid := expOK && len(bad) == 0
	for _, m := range bad {
		d.Invalid[m]++
	}
	if expDetail != "" {
		d.note("seed=%d export: ok=%v %s", seed, expOK, expDetail)
	}
	sa0 := Take(CommittedReader(env.W.App))
	for _, c := range CollNames() {
		if sa0.Count(c) > 0 {
			d.NonEmpty[c]++
		}
	}

	// ---- Import
	var wb *world.World
	initOK, initDetail := false, ""
	if expOK {
		var err error
		wb, err = ImportChain(env.W, exp.AppState, &exp.ConsensusParams, exp.Height, env.C.Time)
		if err != nil {
			initDetail = trunc(err.Error(), 300)
			d.note("seed=%d import refused: %s", seed, initDetail)
		} else {
			initOK = true
			defer wb.Close()
		}
	}
	if expOK && exp.Height != h+1 {
		d.note("seed=%d exported height %d, expected %d", seed, exp.Height, h+1)
	}

	// ---- Compare + StepBoth
	var sb0 *Snapshot
	var blocks []blockObs
	if initOK {
		appB := wb.App
		hdr := wb.BaseHeader
		sb0 = Take(func(mod string) storetypes.KVStore {
			return appB.NewContextLegacy(false, hdr).KVStore(appB.GetKey(mod))
		})
		cb := &world.Chain{W: wb, Height: h, Time: env.C.Time}
		for j := 0; j < k; j++ {
			votes := append([]abci.VoteInfo{}, env.C.Votes...)
			dt, txs, groups, kinds, resA := runBlock(stageAfter)
			cb.Votes = votes
			resB, respB := cb.RunBlock(dt, txs)
			ob := blockObs{h: resA.Height, ntx: len(txs), errA: resA.Err, errB: resB.Err, detailB: trunc(resB.Detail, 200),
				codesA: map[string][]string{}, codesB: map[string][]string{}, kinds: map[string][]string{}}
			for i := range txs {
				ca, cbb := "?", "?"
				if i < len(resA.Txs) {
					ca = codeOf(resA.Txs[i])
				}
				if i < len(resB.Txs) {
					cbb = codeOf(resB.Txs[i])
				}
				ob.codesA[groups[i]] = append(ob.codesA[groups[i]], ca)
				ob.codesB[groups[i]] = append(ob.codesB[groups[i]], cbb)
				ob.kinds[groups[i]] = append(ob.kinds[groups[i]], kinds[i])
				if d.Debug && ca != cbb && respB != nil && i < len(respB.TxResults) {
					fmt.Fprintf(os.Stderr, "B h=%d %s A=%s B=%s: %s\n", resA.Height, kinds[i], ca, cbb, trunc(respB.TxResults[i].Log, 160))
				}
			}
			ob.sa = Take(CommittedReader(env.W.App))
			ob.sb = Take(CommittedReader(appB))
			blocks = append(blocks, ob)
			if resA.Err != "none" || resB.Err != "none" {
				if resB.Err != "none" {
					d.note("seed=%d chain B failed at block %d: %s %s", seed, resB.Height, resB.Err, trunc(resB.Detail, 200))
				}
				break
			}
		}
	}

	// ---- the set of collections that did not round-trip (logged on every Compare line; each member is
	// established by TLC in that collection's own facet trace)
	diff := []string{}
	if initOK {
		for _, c := range CollNames() {
			if sa0.Digest(c) != sb0.Digest(c) {
				diff = append(diff, c)
			}
		}
	}
	nonEmpty := 0
	for _, c := range CollNames() {
		if sa0.Count(c) > 0 {
			nonEmpty++
		}
	}
	if nonEmpty >= 45 {
		d.Interest++
	}

	for kk, v := range g.Kinds {
		d.Kinds[kk] += v
	}
	r.ntx, r.oktx, r.h = ntxRun, okRun, h
	r.expOK, r.valid, r.initOK, r.bad, r.expDetail, r.initDetail = expOK, valid, initOK, bad2(bad), trunc(expDetail, 300), initDetail
	r.sa0, r.sb0, r.blocks, r.diff = sa0, sb0, blocks, diff
	return r
}

// writeTraces records the runs once per facet.  The trace of a facet holds that facet's view of every
// run, one after the other; "chain.live" (whose Export/Import lines carry the profile tags) gets one
// trace per profile.  Facets that differed in some run are written last: after a rejected trace
// bin/check validates the rest of the file again, which is cheap when little is left.
func (d *Driver) writeTraces(results []*runResult, only string) {
	if len(results) == 0 {
		return
	}
	type unit struct {
		facet string
		runs  []*runResult
		dirty bool
	}
	var units []unit
	for _, f := range Facets() {
		if only != "" && f != only {
			continue
		}
		if f == "chain.live" {
			var profs []string
			by := map[string][]*runResult{}
			for _, r := range results {
				if _, ok := by[r.spec.Profile]; !ok {
					profs = append(profs, r.spec.Profile)
				}
				by[r.spec.Profile] = append(by[r.spec.Profile], r)
			}
			for _, p := range profs {
				u := unit{facet: f, runs: by[p]}
				for _, r := range by[p] {
					u.dirty = u.dirty || !r.valid || !r.initOK
				}
				units = append(units, u)
			}
			continue
		}
		isColl := !strings.HasSuffix(f, ".tx")
		u := unit{facet: f, runs: results}
		any := false
		for _, r := range results {
			if !isColl {
				any = true
				continue
			}
			any = any || r.sa0.Count(f) > 0 || (r.sb0 != nil && r.sb0.Count(f) > 0)
			if r.sb0 != nil && r.sa0.Digest(f) != r.sb0.Digest(f) {
				u.dirty = true
			}
			for _, ob := range r.blocks {
				any = any || ob.sa.Count(f) > 0 || ob.sb.Count(f) > 0
			}
		}
		if isColl && strings.HasSuffix(f, ".other") && !any && only == "" {
			continue // the catch-all collection is recorded only if it ever holds a key
		}
		units = append(units, u)
	}
	sort.SliceStable(units, func(i, j int) bool { return !units[i].dirty && units[j].dirty })
	for _, u := range units {
		d.writeFacet(u.facet, u.runs)
	}
}

func (d *Driver) writeFacet(f string, runs []*runResult) {
	isColl := f != "chain.live" && !strings.HasSuffix(f, ".tx")
	grp := groupOfFacet(f)
	var specs []RunSpec
	for _, r := range runs {
		specs = append(specs, r.spec)
	}
	sc := MakeScript(specs, f)
	c := tf.M{"facet": f, "grp": grp, "runs": sc.C["runs"]}
	d.W.Reset(c, tf.M{}, sc.Steps)
	d.Traces++
	dg := func(s *Snapshot) string {
		if !isColl || s == nil {
			return "-"
		}
		return s.Digest(f)
	}
	for ri, r := range runs {
		sa0, sb0 := r.sa0, r.sb0
		d.W.Step("Run", tf.M{"run": ri + 1, "seed": r.spec.Seed, "profile": r.spec.Profile, "blocks": r.spec.N, "txs": r.ntx, "oktxs": r.oktx},
			tf.M{"err": "none"}, tf.M{"h": int(r.h), "a": dg(sa0)})
		d.W.Step("Export", tf.M{"h": int(r.h), "tag": r.xtag}, tf.M{"ok": r.expOK, "valid": r.valid, "bad": r.bad, "detail": r.expDetail}, tf.M{})
		d.W.Step("Import", tf.M{"ih": int(r.h + 1), "tag": r.itag}, tf.M{"ok": r.valid && r.initOK, "init": r.initOK, "detail": r.initDetail}, tf.M{})
		d.Events += 3
		if !r.initOK {
			continue
		}
		first := ""
		if isColl {
			first = FirstDiff(sa0, sb0, f)
			if first != "" {
				d.Differ[f]++
				first = fmt.Sprintf("A has %d keys, B has %d; first difference: %s", sa0.Count(f), sb0.Count(f), first)
			}
		}
		d.W.Step("Compare", tf.M{"facet": f, "tag": f}, tf.M{"diff": r.diff, "first": first}, tf.M{"a": dg(sa0), "b": dg(sb0)})
		d.Events++
		diverged, exempt := false, !intact(grp, r.diff)
		for _, ob := range r.blocks {
			var a, b, fd string
			switch {
			case f == "chain.live":
				a, b = ob.errA, ob.errB
				fd = ob.detailB
			case !isColl:
				a, b = listDigest(ob.codesA[grp]), listDigest(ob.codesB[grp])
				for i := range ob.codesA[grp] {
					if ob.codesA[grp][i] != ob.codesB[grp][i] {
						fd = fmt.Sprintf("tx %d of the group (%s): A=%s B=%s", i, ob.kinds[grp][i], ob.codesA[grp][i], ob.codesB[grp][i])
						break
					}
				}
			default:
				a, b = ob.sa.Digest(f), ob.sb.Digest(f)
				if a != b {
					fd = fmt.Sprintf("A has %d keys, B has %d; first difference: %s", ob.sa.Count(f), ob.sb.Count(f), FirstDiff(ob.sa, ob.sb, f))
				}
			}
			if a != b {
				diverged = true
			}
			d.W.Step("StepBoth", tf.M{"facet": f, "tag": f, "h": int(ob.h), "ntx": ob.ntx}, tf.M{"errA": ob.errA, "errB": ob.errB, "first": fd}, tf.M{"a": a, "b": b})
			d.Events++
		}
		if diverged {
			d.Diverge[f]++
		}
		if exempt {
			d.Exempt[f]++
		}
	}
}

func bad2(b []string) []string {
	if b == nil {
		return []string{}
	}
	return b
}

// intact mirrors Genesis.tla's Intact (used for statistics only - the verdict is TLC's).
func intact(grp string, diff []string) bool {
	in := func(pred func(string) bool) bool {
		for _, c := range diff {
			if pred(c) {
				return false
			}
		}
		return true
	}
	voteRestake := func(c string) bool { return feedsVoteSide[c] || modOf(c) == "restake" }
	switch grp {
	case "chain":
		return true
	case "globalfee":
		return in(func(c string) bool { return modOf(c) == "globalfee" })
	case "rollingseed":
		return in(func(c string) bool { return modOf(c) == "rollingseed" })
	case "restake", "feedsvote", "sdk":
		return in(voteRestake)
	}
	return len(diff) == 0
}

// Finish returns the statistics.
func (d *Driver) Finish() map[string]interface{} {
	return map[string]interface{}{
		"traces": d.Traces, "events": d.Events, "interesting": d.Interest, "scripts": d.Scripts, "scripts_aborted": d.Aborted,
		"nonempty_at_export": d.NonEmpty, "compare_differs": d.Differ, "behaviour_diverges": d.Diverge, "behaviour_exempt": d.Exempt,
		"export_invalid_modules": d.Invalid, "notes": d.Notes, "tx_results": d.TxCodes, "msg_kinds": d.Kinds,
		"facets": len(Facets()),
	}
}
