package fam_genesis

import (
	"bytes"
	"crypto/sha256"
	"encoding/binary"
	"encoding/hex"
	"fmt"
	"sort"

	storetypes "cosmossdk.io/store/types"

	band "github.com/bandprotocol/chain/v3/app"
	tsstypes "github.com/bandprotocol/chain/v3/x/tss/types"
)

// How the state is observed: raw prefix iteration over the KV store of each band module
// (app.CommitMultiStore().GetKVStore(app.GetKey(module)) once a block is committed; the
// finalize-block state right after InitChain).  Every key of a module's store falls into exactly one
// collection: the one with the longest matching prefix in the table below, or "<module>.other" if no
// prefix matches - so a collection added to a module later is compared too, not silently skipped.
// Per collection the driver logs the number of keys and a digest (SHA-256 over the length-prefixed
// key/value pairs in key order, first 8 bytes in hex); never raw bytes.
//
// Stores that are NOT compared (and why): the stores of the Cosmos SDK / IBC modules (auth, bank,
// staking incl. historical info, slashing, distribution, gov, capability indices, ibc, ...) are not
// the subject - they are exported and imported by SDK code and some of them legitimately differ after
// an import (staking historical info and capability indices are rebuilt, block-height dependent
// records restart).  They take part only through behaviour: the same signed transactions must yield
// the same result codes on both chains (facet "sdk.tx"), which needs account numbers and sequences to
// carry over.  Application hashes are therefore not compared.
//
// One canonicalisation: tss nonce queues.  A queue is stored as (head, tail) plus entries at absolute
// indices; export writes the live entries in order and import renumbers them from 0.  No query
// exposes the absolute index, so the digest of "tss.de" uses index-head and the digest of
// "tss.deQueue" uses tail-head (an empty queue equals an absent one).

// Coll is one collection of one module's store.
type Coll struct {
	Mod    string
	Name   string // "<mod>.<collection>"
	Prefix []byte
}

func colls(mod string, entries ...interface{}) []Coll {
	var out []Coll
	for i := 0; i < len(entries); i += 2 {
		var p []byte
		switch v := entries[i+1].(type) {
		case byte:
			p = []byte{v}
		case int:
			p = []byte{byte(v)}
		case []byte:
			p = v
		case string:
			p = []byte(v)
		}
		out = append(out, Coll{Mod: mod, Name: mod + "." + entries[i].(string), Prefix: p})
	}
	return out
}

// Modules in the order used everywhere.
var Modules = []string{"oracle", "tss", "bandtss", "feeds", "tunnel", "restake", "rollingseed", "globalfee"}

// Collections lists the store layout of the eight band modules (x/<mod>/types/keys.go).
var Collections = func() []Coll {
	var out []Coll
	out = append(out, colls("oracle",
		"requestCount", "\x00RequestCount", "requestLastExpired", "\x00RequestLastExpired", "pendingList", "\x00PendingList",
		"dataSourceCount", "\x00DataSourceCount", "oracleScriptCount", "\x00OracleScriptCount", "legacyRollingSeed", "\x00RollingSeed",
		"requests", 0x01, "reports", 0x02, "dataSources", 0x03, "oracleScripts", 0x04, "validatorStatuses", 0x05, "params", 0x06,
		"signingResults", 0x07, "results", 0xff, "port", 0xf0)...)
	out = append(out, colls("tss",
		"groupCount", 0x00, "signingCount", 0x01, "pendingProcessGroups", 0x02, "pendingSignings", 0x03, "lastExpiredGroupID", 0x04,
		"signingExpirations", 0x05, "groups", 0x10, "members", 0x11, "dkgContexts", 0x12, "round1Infos", 0x13, "round1InfoCounts", 0x14,
		"accumulatedCommits", 0x15, "round2Infos", 0x16, "round2InfoCounts", 0x17, "complaints", 0x18, "confirms", 0x19,
		"confirmComplainCounts", 0x1a, "de", 0x1b, "deQueue", 0x1c, "signings", 0x1d, "partialSignatureCounts", 0x1e,
		"partialSignatures", 0x1f, "signingAttempts", 0x20, "params", 0x90)...)
	out = append(out, colls("bandtss",
		"signingCount", 0x00, "currentGroup", 0x01, "groupTransition", 0x02, "members", 0x10, "signings", 0x11, "signingIDMapping", 0x12,
		"params", 0x90)...)
	out = append(out, colls("feeds",
		"referenceSourceConfig", 0x00, "currentFeeds", 0x01, "validatorPrices", 0x10, "prices", 0x11, "votes", 0x12,
		"signalTotalPowers", 0x13, "signalTotalPowersByPowerIndex", 0x80, "params", 0x90)...)
	out = append(out, colls("tunnel",
		"tunnelCount", 0x00, "totalFees", 0x01, "activeTunnelIDs", 0x10, "tunnels", 0x11, "packets", 0x12, "latestPrices", 0x13,
		"deposits", 0x14, "params", 0x90)...)
	out = append(out, colls("restake",
		"vaults", 0x10, "locks", 0x11, "stakes", 0x12, "locksByPowerIndex", 0x80, "params", 0x90)...)
	out = append(out, colls("rollingseed", "seed", 0x00)...)
	out = append(out, colls("globalfee", "params", 0x01)...)
	for _, m := range Modules {
		out = append(out, Coll{Mod: m, Name: m + ".other", Prefix: nil})
	}
	return out
}()

// CollNames returns the names of all collections in table order.
func CollNames() []string {
	var out []string
	for _, c := range Collections {
		out = append(out, c.Name)
	}
	return out
}

func modOf(name string) string {
	for i := 0; i < len(name); i++ {
		if name[i] == '.' {
			return name[:i]
		}
	}
	return name
}

type kv struct{ k, v []byte }

// Snapshot is the content of the band modules' stores, split into collections.
type Snapshot struct {
	Items map[string][]kv // collection name -> pairs in key order (canonicalised)
	Err   map[string]string
}

// Reader gives the KV store of a module.
type Reader func(mod string) storetypes.KVStore

// CommittedReader reads the last committed state of an app.
func CommittedReader(app *band.BandApp) Reader {
	return func(mod string) storetypes.KVStore { return app.CommitMultiStore().GetKVStore(app.GetKey(mod)) }
}

func classify(mod string, key []byte) string {
	best, bestLen := mod+".other", -1
	for _, c := range Collections {
		if c.Mod != mod || c.Prefix == nil {
			continue
		}
		if len(c.Prefix) > bestLen && bytes.HasPrefix(key, c.Prefix) {
			best, bestLen = c.Name, len(c.Prefix)
		}
	}
	return best
}

// Take reads every band module's store.  A panicking store read (possible under a mutant) is
// recorded per module, never propagated.
func Take(rd Reader) *Snapshot {
	s := &Snapshot{Items: map[string][]kv{}, Err: map[string]string{}}
	for _, mod := range Modules {
		func() {
			defer func() {
				if p := recover(); p != nil {
					s.Err[mod] = trunc(fmt.Sprint(p), 120)
				}
			}()
			st := rd(mod)
			it := st.Iterator(nil, nil)
			defer it.Close()
			for ; it.Valid(); it.Next() {
				k := append([]byte{}, it.Key()...)
				v := append([]byte{}, it.Value()...)
				c := classify(mod, k)
				s.Items[c] = append(s.Items[c], kv{k, v})
			}
		}()
	}
	s.canonDE()
	return s
}

// canonDE renumbers the tss nonce queues relative to their head (see the comment on top).
func (s *Snapshot) canonDE() {
	heads := map[string]uint64{}
	var q []kv
	for _, e := range s.Items["tss.deQueue"] {
		var dq tsstypes.DEQueue
		if err := dq.Unmarshal(e.v); err != nil {
			q = append(q, e) // undecodable: keep raw, it will show up as a difference
			continue
		}
		addr := string(e.k[1:])
		heads[addr] = dq.Head
		if dq.Tail > dq.Head {
			n := make([]byte, 8)
			binary.BigEndian.PutUint64(n, dq.Tail-dq.Head)
			q = append(q, kv{e.k, n})
		}
	}
	s.Items["tss.deQueue"] = q
	var d []kv
	for _, e := range s.Items["tss.de"] {
		if len(e.k) < 1+8 {
			d = append(d, e)
			continue
		}
		addr := string(e.k[1 : len(e.k)-8])
		idx := binary.BigEndian.Uint64(e.k[len(e.k)-8:])
		h, ok := heads[addr]
		if !ok || idx < h {
			d = append(d, kv{append([]byte("stray:"), e.k...), e.v})
			continue
		}
		nk := append([]byte{}, e.k...)
		binary.BigEndian.PutUint64(nk[len(nk)-8:], idx-h)
		d = append(d, kv{nk, e.v})
	}
	sort.Slice(d, func(i, j int) bool { return bytes.Compare(d[i].k, d[j].k) < 0 })
	s.Items["tss.de"] = d
	if len(q) == 0 {
		delete(s.Items, "tss.deQueue")
	}
	if len(d) == 0 {
		delete(s.Items, "tss.de")
	}
}

// Count is the number of keys of a collection.
func (s *Snapshot) Count(c string) int { return len(s.Items[c]) }

// Digest of one collection ("-" when empty; "!<err>" when the module's store could not be read).
func (s *Snapshot) Digest(c string) string {
	if e, bad := s.Err[modOf(c)]; bad {
		return "!" + e
	}
	items := s.Items[c]
	if len(items) == 0 {
		return "-"
	}
	h := sha256.New()
	var n [8]byte
	for _, e := range items {
		binary.BigEndian.PutUint64(n[:], uint64(len(e.k)))
		h.Write(n[:])
		h.Write(e.k)
		binary.BigEndian.PutUint64(n[:], uint64(len(e.v)))
		h.Write(n[:])
		h.Write(e.v)
	}
	return fmt.Sprintf("%d:%s", len(items), hex.EncodeToString(h.Sum(nil)[:8]))
}

// ModDigest is the digest over all collections of a module.
func (s *Snapshot) ModDigest(mod string) string {
	if e, bad := s.Err[mod]; bad {
		return "!" + e
	}
	h := sha256.New()
	n := 0
	for _, c := range Collections {
		if c.Mod != mod {
			continue
		}
		n += s.Count(c.Name)
		h.Write([]byte(c.Name + "=" + s.Digest(c.Name) + ";"))
	}
	return fmt.Sprintf("%d:%s", n, hex.EncodeToString(h.Sum(nil)[:8]))
}

// FirstDiff describes the first key (in key order) at which two snapshots of a collection differ:
// which side has it and a short digest of the key - a small summary for the diagnosis, not the data.
func FirstDiff(a, b *Snapshot, c string) string {
	x, y := a.Items[c], b.Items[c]
	i, j := 0, 0
	kd := func(k []byte) string {
		h := sha256.Sum256(k)
		p := k
		if len(p) > 10 {
			p = p[:10]
		}
		return fmt.Sprintf("key#%s(len %d, starts %s)", hex.EncodeToString(h[:4]), len(k), hex.EncodeToString(p))
	}
	for i < len(x) || j < len(y) {
		switch {
		case j >= len(y):
			return "onlyA " + kd(x[i].k)
		case i >= len(x):
			return "onlyB " + kd(y[j].k)
		}
		switch cmp := bytes.Compare(x[i].k, y[j].k); {
		case cmp < 0:
			return "onlyA " + kd(x[i].k)
		case cmp > 0:
			return "onlyB " + kd(y[j].k)
		case !bytes.Equal(x[i].v, y[j].v):
			return "value " + kd(x[i].k)
		}
		i++
		j++
	}
	return ""
}
