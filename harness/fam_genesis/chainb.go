package fam_genesis

import (
	"fmt"
	"io"
	"os"
	"path/filepath"
	"time"

	abci "github.com/cometbft/cometbft/abci/types"
	cmtproto "github.com/cometbft/cometbft/proto/tendermint/types"

	cosmosdb "github.com/cosmos/cosmos-db"

	"cosmossdk.io/log"
	"cosmossdk.io/store/snapshots"
	snapshottypes "cosmossdk.io/store/snapshots/types"

	"github.com/cosmos/cosmos-sdk/baseapp"
	"github.com/cosmos/cosmos-sdk/testutil/sims"

	band "github.com/bandprotocol/chain/v3/app"

	"vdrive/world"
)

// ImportChain builds chain B: a fresh BandApp (own home directory, own database) whose InitChain
// receives the application state exported from chain A.  It mirrors world.New, but takes raw genesis
// bytes, the chain id, the genesis time and the initial height (Cosmos SDK convention: a state
// exported at committed height h is imported with initial height h+1).  The oracle module keeps data
// source executables and oracle script code in files of the node's home directory, named by their
// hash in the genesis; like an operator who moves a node, the files directory is copied.
//
// Any panic of InitChain (a module's InitGenesis refusing the state) is returned as an error.
func ImportChain(a *world.World, appState []byte, cp *cmtproto.ConsensusParams, initialHeight int64, t time.Time) (w *world.World, err error) {
	dir, err := os.MkdirTemp("", "vdrive-home-b-")
	if err != nil {
		return nil, err
	}
	defer func() {
		if p := recover(); p != nil {
			err = fmt.Errorf("InitChain panicked: %v", p)
			w = nil
			os.RemoveAll(dir)
		}
	}()
	if err := copyDir(filepath.Join(a.Dir, "files"), filepath.Join(dir, "files")); err != nil {
		return nil, err
	}
	db := cosmosdb.NewMemDB()
	snapshotDir := filepath.Join(dir, "data", "snapshots")
	snapshotDB, err := cosmosdb.NewDB("metadata", cosmosdb.GoLevelDBBackend, snapshotDir)
	if err != nil {
		return nil, err
	}
	snapshotStore, err := snapshots.NewStore(snapshotDB, snapshotDir)
	if err != nil {
		return nil, err
	}
	app := band.NewBandApp(
		log.NewNopLogger(), db, nil, true, map[int64]bool{}, dir, sims.EmptyAppOptions{}, 100,
		baseapp.SetChainID(a.Cfg.ChainID),
		baseapp.SetSnapshot(snapshotStore, snapshottypes.SnapshotOptions{KeepRecent: 2}),
	)
	if cp == nil {
		cp = world.DefaultConsensusParams
	}
	if _, err := app.InitChain(&abci.RequestInitChain{
		Validators:      []abci.ValidatorUpdate{},
		ConsensusParams: cp,
		AppStateBytes:   appState,
		ChainId:         a.Cfg.ChainID,
		Time:            t,
		InitialHeight:   initialHeight,
	}); err != nil {
		os.RemoveAll(dir)
		return nil, fmt.Errorf("InitChain: %v", err)
	}
	// No block is executed here: the first block of chain B is block h+1, the same block that chain A
	// executes next.  InitChain's writes sit in the finalize-block state until that block commits, so
	// reading chain B before its first block goes through a context on that state (see digest.go).
	return &world.World{App: app, Cfg: a.Cfg, Dir: dir, Vals: a.Vals, Accts: a.Accts, Treasuries: a.Treasuries, Owner: a.Owner,
		BaseHeader: cmtproto.Header{ChainID: a.Cfg.ChainID, Height: initialHeight, Time: t, ProposerAddress: a.Vals[0].Pub.Address().Bytes()}}, nil
}

func copyDir(src, dst string) error {
	if err := os.MkdirAll(dst, 0o755); err != nil {
		return err
	}
	ents, err := os.ReadDir(src)
	if err != nil {
		if os.IsNotExist(err) {
			return nil
		}
		return err
	}
	for _, e := range ents {
		if e.IsDir() {
			if err := copyDir(filepath.Join(src, e.Name()), filepath.Join(dst, e.Name())); err != nil {
				return err
			}
			continue
		}
		in, err := os.Open(filepath.Join(src, e.Name()))
		if err != nil {
			return err
		}
		out, err := os.Create(filepath.Join(dst, e.Name()))
		if err != nil {
			in.Close()
			return err
		}
		_, err = io.Copy(out, in)
		in.Close()
		out.Close()
		if err != nil {
			return err
		}
	}
	return nil
}
