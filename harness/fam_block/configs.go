// Package fam_block is the driver of the Block family (property C02: block execution is total and
// deterministic).  Replica A (in-process) generates and executes signed blocks on a world whose
// genesis parameters are chosen by the script; replica B (a second OS process, GOMAXPROCS=1)
// replays the recorded transaction bytes from the same genesis.  One trace line per block carries
// both replicas' results; Block_Trace.tla states the property as invariants and TLC decides.
package fam_block

import (
	"fmt"
	"math"
	"sort"
	"time"

	sdkmath "cosmossdk.io/math"

	sdk "github.com/cosmos/cosmos-sdk/types"
	govv1 "github.com/cosmos/cosmos-sdk/x/gov/types/v1"

	bandtsstypes "github.com/bandprotocol/chain/v3/x/bandtss/types"
	feedstypes "github.com/bandprotocol/chain/v3/x/feeds/types"
	globalfeetypes "github.com/bandprotocol/chain/v3/x/globalfee/types"
	oracletypes "github.com/bandprotocol/chain/v3/x/oracle/types"
	restaketypes "github.com/bandprotocol/chain/v3/x/restake/types"
	tsstypes "github.com/bandprotocol/chain/v3/x/tss/types"
	tunneltypes "github.com/bandprotocol/chain/v3/x/tunnel/types"
)

// Gen is the typed view of the genesis of the band modules (plus gov) that a configuration edits.
type Gen struct {
	Oracle    *oracletypes.GenesisState
	Tss       *tsstypes.GenesisState
	Bandtss   *bandtsstypes.GenesisState
	Feeds     *feedstypes.GenesisState
	Tunnel    *tunneltypes.GenesisState
	Restake   *restaketypes.GenesisState
	Globalfee *globalfeetypes.GenesisState
	Gov       *govv1.GenesisState
}

// ParamCfg is one genesis parameter configuration.
type ParamCfg struct {
	Name string
	// Tag marks configurations that are known to trigger a listed finding; it is a function of the
	// configuration only (never of what the code did).
	Tag string
	// Pure: do not apply the "fast" profile first (module defaults as shipped).
	Pure  bool
	Apply func(g *Gen)
	// Votes: install last-commit votes of the validators (needed for reward allocation).
	NoVotes bool
}

const (
	maxU64 = uint64(math.MaxUint64)
	maxI64 = int64(math.MaxInt64)
	maxDur = time.Duration(math.MaxInt64)
)

// fastProfile makes the flows progress inside a few dozen blocks: requests expire after 3 blocks,
// signings after 2, feeds are recomputed every 2 blocks, tunnels may send every second, proposals
// are voted within seconds.  Every value is accepted by the modules' Params.Validate.
func fastProfile(g *Gen) {
	g.Oracle.Params.ExpirationBlockCount = 3
	g.Oracle.Params.InactivePenaltyDuration = uint64(5 * time.Second)
	g.Tss.Params.SigningPeriod = 2
	g.Tss.Params.CreationPeriod = 3
	g.Tss.Params.MaxSigningAttempt = 2
	g.Tss.Params.MaxDESize = 40
	g.Bandtss.Params.InactivePenaltyDuration = 5 * time.Second
	g.Bandtss.Params.MinTransitionDuration = 1 * time.Second
	g.Bandtss.Params.MaxTransitionDuration = 1000 * time.Second
	g.Feeds.Params.PowerStepThreshold = 1000
	g.Feeds.Params.CurrentFeedsUpdateInterval = 2
	g.Feeds.Params.MinInterval = 1
	g.Feeds.Params.MaxInterval = 30
	g.Feeds.Params.CooldownTime = 1
	g.Feeds.Params.GracePeriod = 3
	g.Tunnel.Params.MinInterval = 1
	g.Tunnel.Params.MinDeposit = sdk.NewCoins(sdk.NewInt64Coin("uband", 1000))
	g.Tunnel.Params.BasePacketFee = sdk.NewCoins(sdk.NewInt64Coin("uband", 10))
	g.Restake.Params.AllowedDenoms = []string{"uband"}
	fastGov(g)
}

// fastGov: proposals pass within a few one-second blocks (gov is environment here: it is the only
// way an authority-gated message of a band module can execute in a real block).
func fastGov(g *Gen) {
	vp := 4 * time.Second
	evp := 2 * time.Second
	g.Gov.Params.VotingPeriod = &vp
	g.Gov.Params.ExpeditedVotingPeriod = &evp
	g.Gov.Params.MinDeposit = sdk.NewCoins(sdk.NewInt64Coin("uband", 1000))
	g.Gov.Params.ExpeditedMinDeposit = sdk.NewCoins(sdk.NewInt64Coin("uband", 2000))
}

func hugeCoins() sdk.Coins {
	v, _ := sdkmath.NewIntFromString("57896044618658097711785492504343953926634992332820282019728792003956564819967") // 2^255-1
	return sdk.NewCoins(sdk.NewCoin("uband", v))
}

// AllConfigs enumerates: the shipped defaults, the fast profile, and — one module at a time, one
// parameter at a time — every numeric parameter of every band module at the extremes its own
// Validate accepts.  The list is fixed (no randomness); scripts pick from it by index.
func AllConfigs() []ParamCfg {
	var out []ParamCfg
	add := func(name, tag string, f func(g *Gen)) { out = append(out, ParamCfg{Name: name, Tag: tag, Apply: f}) }

	out = append(out, ParamCfg{Name: "defaults", Pure: true, Apply: func(g *Gen) { fastGov(g) }})
	add("fast", "", func(g *Gen) {})

	// ---- oracle (x/oracle/types/params.go: positive-only or any uint64; no upper bounds)
	ou := func(field string, p func(*oracletypes.Params) *uint64, vals ...uint64) {
		for _, v := range vals {
			v := v
			tag := ""
			if field == "OracleRewardPercentage" && v > 100 {
				tag = "reward-percentage-above-100"
			}
			add(fmt.Sprintf("oracle.%s=%s", field, u64name(v)), tag, func(g *Gen) { *p(&g.Oracle.Params) = v })
		}
	}
	ou("MaxRawRequestCount", func(p *oracletypes.Params) *uint64 { return &p.MaxRawRequestCount }, 1, maxU64)
	ou("MaxAskCount", func(p *oracletypes.Params) *uint64 { return &p.MaxAskCount }, 1, maxU64)
	ou("MaxCalldataSize", func(p *oracletypes.Params) *uint64 { return &p.MaxCalldataSize }, 1, maxU64)
	ou("MaxReportDataSize", func(p *oracletypes.Params) *uint64 { return &p.MaxReportDataSize }, 1, maxU64)
	ou("ExpirationBlockCount", func(p *oracletypes.Params) *uint64 { return &p.ExpirationBlockCount }, 1, maxU64)
	ou("BaseOwasmGas", func(p *oracletypes.Params) *uint64 { return &p.BaseOwasmGas }, 0, maxU64)
	ou("PerValidatorRequestGas", func(p *oracletypes.Params) *uint64 { return &p.PerValidatorRequestGas }, 0, maxU64)
	ou("SamplingTryCount", func(p *oracletypes.Params) *uint64 { return &p.SamplingTryCount }, 1, maxU64)
	ou("OracleRewardPercentage", func(p *oracletypes.Params) *uint64 { return &p.OracleRewardPercentage }, 0, 100, 150, maxU64)
	ou("InactivePenaltyDuration", func(p *oracletypes.Params) *uint64 { return &p.InactivePenaltyDuration }, 0, maxU64)
	add("oracle.IBCRequestEnabled=false", "", func(g *Gen) { g.Oracle.Params.IBCRequestEnabled = false })

	// ---- tss
	tu := func(field string, p func(*tsstypes.Params) *uint64, vals ...uint64) {
		for _, v := range vals {
			v := v
			add(fmt.Sprintf("tss.%s=%s", field, u64name(v)), "", func(g *Gen) { *p(&g.Tss.Params) = v })
		}
	}
	tu("MaxGroupSize", func(p *tsstypes.Params) *uint64 { return &p.MaxGroupSize }, 1, maxU64)
	tu("MaxDESize", func(p *tsstypes.Params) *uint64 { return &p.MaxDESize }, 1, maxU64)
	tu("CreationPeriod", func(p *tsstypes.Params) *uint64 { return &p.CreationPeriod }, 1, maxU64)
	tu("SigningPeriod", func(p *tsstypes.Params) *uint64 { return &p.SigningPeriod }, 1, maxU64)
	tu("MaxSigningAttempt", func(p *tsstypes.Params) *uint64 { return &p.MaxSigningAttempt }, 0, 1, maxU64)
	tu("MaxMemoLength", func(p *tsstypes.Params) *uint64 { return &p.MaxMemoLength }, 1, maxU64)
	tu("MaxMessageLength", func(p *tsstypes.Params) *uint64 { return &p.MaxMessageLength }, 1, maxU64)

	// ---- bandtss
	for _, v := range []uint64{0, 100, 150, maxU64} {
		v := v
		tag := ""
		if v > 100 {
			tag = "reward-percentage-above-100"
		}
		add("bandtss.RewardPercentage="+u64name(v), tag, func(g *Gen) { g.Bandtss.Params.RewardPercentage = v })
	}
	bd := func(field string, p func(*bandtsstypes.Params) *time.Duration) {
		for _, v := range []time.Duration{1, maxDur} {
			v := v
			n := "1ns"
			if v == maxDur {
				n = "max"
			}
			add(fmt.Sprintf("bandtss.%s=%s", field, n), "", func(g *Gen) { *p(&g.Bandtss.Params) = v })
		}
	}
	bd("InactivePenaltyDuration", func(p *bandtsstypes.Params) *time.Duration { return &p.InactivePenaltyDuration })
	bd("MinTransitionDuration", func(p *bandtsstypes.Params) *time.Duration { return &p.MinTransitionDuration })
	bd("MaxTransitionDuration", func(p *bandtsstypes.Params) *time.Duration { return &p.MaxTransitionDuration })
	add("bandtss.FeePerSigner=empty", "", func(g *Gen) { g.Bandtss.Params.FeePerSigner = sdk.Coins{} })
	add("bandtss.FeePerSigner=huge", "", func(g *Gen) { g.Bandtss.Params.FeePerSigner = hugeCoins() })

	// ---- feeds (int64 positive-only, two unbounded uint64, quorum in [0,1])
	fi := func(field string, p func(*feedstypes.Params) *int64) {
		for _, v := range []int64{1, maxI64} {
			v := v
			n := "1"
			if v == maxI64 {
				n = "max"
			}
			add(fmt.Sprintf("feeds.%s=%s", field, n), "", func(g *Gen) { *p(&g.Feeds.Params) = v })
		}
	}
	fi("AllowableBlockTimeDiscrepancy", func(p *feedstypes.Params) *int64 { return &p.AllowableBlockTimeDiscrepancy })
	fi("GracePeriod", func(p *feedstypes.Params) *int64 { return &p.GracePeriod })
	fi("MinInterval", func(p *feedstypes.Params) *int64 { return &p.MinInterval })
	fi("MaxInterval", func(p *feedstypes.Params) *int64 { return &p.MaxInterval })
	fi("PowerStepThreshold", func(p *feedstypes.Params) *int64 { return &p.PowerStepThreshold })
	fi("CooldownTime", func(p *feedstypes.Params) *int64 { return &p.CooldownTime })
	fi("MinDeviationBasisPoint", func(p *feedstypes.Params) *int64 { return &p.MinDeviationBasisPoint })
	fi("MaxDeviationBasisPoint", func(p *feedstypes.Params) *int64 { return &p.MaxDeviationBasisPoint })
	fi("CurrentFeedsUpdateInterval", func(p *feedstypes.Params) *int64 { return &p.CurrentFeedsUpdateInterval })
	for _, v := range []uint64{0, 1, maxU64} {
		v := v
		tag := ""
		if v > 1<<40 {
			tag = "max-current-feeds-huge"
		}
		add("feeds.MaxCurrentFeeds="+u64name(v), tag, func(g *Gen) { g.Feeds.Params.MaxCurrentFeeds = v })
		add("feeds.MaxSignalIDsPerSigning="+u64name(v), "", func(g *Gen) { g.Feeds.Params.MaxSignalIDsPerSigning = v })
	}
	// quorum 0 with a feed that becomes current at once (PowerStepThreshold 1, update every block)
	add("feeds.PriceQuorum=0", "price-quorum-zero", func(g *Gen) {
		g.Feeds.Params.PriceQuorum = "0"
		g.Feeds.Params.PowerStepThreshold = 1
		g.Feeds.Params.CurrentFeedsUpdateInterval = 1
	})
	// a positive quorum whose product with the bonded tokens truncates to zero power behaves like "0"
	add("feeds.PriceQuorum=1e-18", "price-quorum-truncates-to-zero", func(g *Gen) { g.Feeds.Params.PriceQuorum = "0.000000000000000001" })
	add("feeds.PriceQuorum=1", "", func(g *Gen) { g.Feeds.Params.PriceQuorum = "1" })
	add("feeds.intervals=1", "", func(g *Gen) {
		p := &g.Feeds.Params
		p.MinInterval, p.MaxInterval, p.PowerStepThreshold, p.CurrentFeedsUpdateInterval = 1, 1, 1, 1
		p.CooldownTime, p.GracePeriod, p.AllowableBlockTimeDiscrepancy = 1, 1, 1
	})

	// ---- tunnel (max >= min constraints respected)
	add("tunnel.MinInterval=1,MaxInterval=1", "", func(g *Gen) { g.Tunnel.Params.MinInterval, g.Tunnel.Params.MaxInterval = 1, 1 })
	add("tunnel.MinInterval=max,MaxInterval=max", "", func(g *Gen) { g.Tunnel.Params.MinInterval, g.Tunnel.Params.MaxInterval = maxU64, maxU64 })
	add("tunnel.MaxInterval=max", "", func(g *Gen) { g.Tunnel.Params.MaxInterval = maxU64 })
	add("tunnel.MinDeviationBPS=1,MaxDeviationBPS=1", "", func(g *Gen) { g.Tunnel.Params.MinDeviationBPS, g.Tunnel.Params.MaxDeviationBPS = 1, 1 })
	add("tunnel.MinDeviationBPS=max,MaxDeviationBPS=max", "", func(g *Gen) { g.Tunnel.Params.MinDeviationBPS, g.Tunnel.Params.MaxDeviationBPS = maxU64, maxU64 })
	add("tunnel.MaxDeviationBPS=max", "", func(g *Gen) { g.Tunnel.Params.MaxDeviationBPS = maxU64 })
	add("tunnel.MaxSignals=1", "", func(g *Gen) { g.Tunnel.Params.MaxSignals = 1 })
	add("tunnel.MaxSignals=max", "", func(g *Gen) { g.Tunnel.Params.MaxSignals = maxU64 })
	add("tunnel.MinDeposit=empty", "", func(g *Gen) { g.Tunnel.Params.MinDeposit = sdk.Coins{} })
	add("tunnel.MinDeposit=huge", "", func(g *Gen) { g.Tunnel.Params.MinDeposit = hugeCoins() })
	add("tunnel.BasePacketFee=empty", "", func(g *Gen) { g.Tunnel.Params.BasePacketFee = sdk.Coins{} })
	add("tunnel.BasePacketFee=huge", "", func(g *Gen) { g.Tunnel.Params.BasePacketFee = hugeCoins() })

	// ---- restake / globalfee (no numeric parameters; the list-valued ones at their extremes)
	add("restake.AllowedDenoms=none", "", func(g *Gen) { g.Restake.Params.AllowedDenoms = nil })
	add("restake.AllowedDenoms=two", "", func(g *Gen) { g.Restake.Params.AllowedDenoms = []string{"uband", "uabc"} })
	add("globalfee.MinimumGasPrices=empty", "", func(g *Gen) { g.Globalfee.Params.MinimumGasPrices = sdk.DecCoins{} })
	add("globalfee.MinimumGasPrices=huge", "", func(g *Gen) {
		g.Globalfee.Params.MinimumGasPrices = sdk.NewDecCoins(sdk.NewDecCoinFromDec("uband", sdkmath.LegacyNewDec(1_000_000_000_000)))
	})

	// ---- whole modules at once (all numeric parameters at the minimum / maximum together)
	add("oracle.all=min", "", func(g *Gen) {
		g.Oracle.Params = oracletypes.NewParams(1, 1, 1, 1, 1, 0, 0, 1, 0, 0, false)
	})
	add("tss.all=min", "", func(g *Gen) { g.Tss.Params = tsstypes.NewParams(1, 1, 1, 1, 0, 1, 1) })
	add("tss.all=max", "", func(g *Gen) { g.Tss.Params = tsstypes.NewParams(maxU64, maxU64, maxU64, maxU64, maxU64, maxU64, maxU64) })
	add("bandtss.all=min", "", func(g *Gen) { g.Bandtss.Params = bandtsstypes.NewParams(0, 1, 1, 1, sdk.Coins{}) })
	add("feeds.all=max", "max-current-feeds-huge", func(g *Gen) {
		p := &g.Feeds.Params
		p.AllowableBlockTimeDiscrepancy, p.GracePeriod, p.MinInterval, p.MaxInterval = maxI64, maxI64, maxI64, maxI64
		p.CooldownTime, p.MinDeviationBasisPoint, p.MaxDeviationBasisPoint = maxI64, maxI64, maxI64
		p.MaxCurrentFeeds, p.MaxSignalIDsPerSigning = maxU64, maxU64
	})
	// the known-finding tag of a configuration is a function of its parameter values only
	for i := range out {
		g := DefaultGen()
		if !out[i].Pure {
			fastProfile(g)
		}
		out[i].Apply(g)
		out[i].Tag = ClassifyParams(&g.Oracle.Params, &g.Bandtss.Params, &g.Feeds.Params, &g.Tunnel.Params)
	}
	return out
}

// ClassifyParams names the listed finding (known_findings.txt) that a set of parameter values is
// known to trigger, or "". It looks at parameter values only - never at what the code did with
// them - and is applied to genesis configurations and to every MsgUpdateParams a script submits
// (directly or inside a governance proposal). nil = module not concerned.
func ClassifyParams(o *oracletypes.Params, b *bandtsstypes.Params, f *feedstypes.Params, t *tunneltypes.Params) string {
	hugeAmount := func(cs sdk.Coins) bool {
		for _, c := range cs {
			if !c.Amount.IsNil() && c.Amount.BigInt().BitLen() >= 254 {
				return true
			}
		}
		return false
	}
	switch {
	case o != nil && o.OracleRewardPercentage > 100, b != nil && b.RewardPercentage > 100:
		return "reward-percentage-above-100"
	}
	if f != nil {
		if q, err := sdkmath.LegacyNewDecFromStr(f.PriceQuorum); err == nil {
			switch {
			case q.IsZero():
				return "price-quorum-zero"
			case q.IsPositive() && q.LT(sdkmath.LegacyNewDecWithPrec(1, 9)):
				return "price-quorum-truncates-to-zero"
			}
		}
		if f.MaxCurrentFeeds > 1<<40 {
			return "max-current-feeds-huge"
		}
	}
	// route fee (FeePerSigner x threshold) + base packet fee leaves the 256-bit range
	_ = t
	if b != nil && hugeAmount(b.FeePerSigner) {
		return "packet-fee-overflow"
	}
	return ""
}

func u64name(v uint64) string {
	if v == maxU64 {
		return "max"
	}
	return fmt.Sprint(v)
}

// ConfigByName looks a configuration up.
func ConfigByName(name string) (ParamCfg, bool) {
	for _, c := range AllConfigs() {
		if c.Name == name {
			return c, true
		}
	}
	return ParamCfg{}, false
}

// ConfigNames lists all names (sorted as enumerated).
func ConfigNames() []string {
	var out []string
	for _, c := range AllConfigs() {
		out = append(out, c.Name)
	}
	return out
}

func sortedKeys(m map[string]int) []string {
	var ks []string
	for k := range m {
		ks = append(ks, k)
	}
	sort.Strings(ks)
	return ks
}

// DefaultGen is the typed genesis of the band modules as shipped (no application needed).
func DefaultGen() *Gen {
	return &Gen{
		Oracle: oracletypes.DefaultGenesisState(), Tss: tsstypes.DefaultGenesisState(), Bandtss: bandtsstypes.DefaultGenesisState(),
		Feeds: feedstypes.DefaultGenesisState(), Tunnel: tunneltypes.DefaultGenesisState(), Restake: restaketypes.DefaultGenesisState(),
		Globalfee: globalfeetypes.DefaultGenesisState(), Gov: govv1.DefaultGenesisState(),
	}
}

// ParamUpdates returns the MsgUpdateParams (authority = gov) that turn the fast profile's parameters
// into those of cfg: the governance route to the same configuration.
func ParamUpdates(cfg ParamCfg, authority, feedsAdmin string) []sdk.Msg {
	base, tgt := DefaultGen(), DefaultGen()
	fastProfile(base)
	fastProfile(tgt)
	base.Feeds.Params.Admin, tgt.Feeds.Params.Admin = feedsAdmin, feedsAdmin
	cfg.Apply(tgt)
	var out []sdk.Msg
	if !base.Oracle.Params.Equal(tgt.Oracle.Params) {
		out = append(out, oracletypes.NewMsgUpdateParams(authority, tgt.Oracle.Params))
	}
	if !base.Tss.Params.Equal(tgt.Tss.Params) {
		out = append(out, tsstypes.NewMsgUpdateParams(authority, tgt.Tss.Params))
	}
	if !base.Bandtss.Params.Equal(tgt.Bandtss.Params) {
		out = append(out, bandtsstypes.NewMsgUpdateParams(authority, tgt.Bandtss.Params))
	}
	if !base.Feeds.Params.Equal(tgt.Feeds.Params) {
		out = append(out, feedstypes.NewMsgUpdateParams(authority, tgt.Feeds.Params))
	}
	if !base.Tunnel.Params.Equal(tgt.Tunnel.Params) {
		out = append(out, tunneltypes.NewMsgUpdateParams(authority, tgt.Tunnel.Params))
	}
	if !base.Restake.Params.Equal(tgt.Restake.Params) {
		out = append(out, restaketypes.NewMsgUpdateParams(authority, tgt.Restake.Params))
	}
	if base.Globalfee.Params.MinimumGasPrices.String() != tgt.Globalfee.Params.MinimumGasPrices.String() {
		out = append(out, &globalfeetypes.MsgUpdateParams{Authority: authority, Params: tgt.Globalfee.Params})
	}
	return out
}
