package fam_block

import (
	"crypto/sha256"
	"encoding/base64"
	"encoding/hex"
	"encoding/json"
	"fmt"
	"hash/fnv"
	"math/rand"
	"os"
	"os/exec"
	"path/filepath"
	"runtime"
	"sort"
	"strings"
	"sync"

	abci "github.com/cometbft/cometbft/abci/types"
	cmtproto "github.com/cometbft/cometbft/proto/tendermint/types"

	sdk "github.com/cosmos/cosmos-sdk/types"

	tf "vdrive/tracefmt"
	"vdrive/world"
)

// Job is what replica A hands to replica B: the configuration (which determines the genesis) and
// the raw transaction bytes of every block.
type Job struct {
	Cfg    string     `json:"cfg"`
	Blocks []JobBlock `json:"blocks"`
}

type JobBlock struct {
	Dt    int64    `json:"dt"`
	Txs   []string `json:"txs"` // base64
	Votes []Vote   `json:"votes"`
}

// Vote is the last-commit vote of one validator (the consensus engine's input to the block).
type Vote struct {
	Addr  string `json:"addr"` // hex
	Power int64  `json:"power"`
}

// ReplicaOut is what replica B reports back.
type ReplicaOut struct {
	Skip    string              `json:"skip"`
	Results []world.BlockResult `json:"results"`
}

type scriptRun struct {
	sc      tf.Script
	cfg     ParamCfg
	skip    string
	blocks  []JobBlock
	resA    []world.BlockResult
	hashes  []string
	ntx     []int
	tags    []string
	start   int // height committed before the first recorded block (1, or 0 if block 1 itself failed)
	jobPath string
	outPath string
	resB    ReplicaOut
	errB    error
}

// Driver runs scripts on replica A, farms the replay out to replica processes and merges.
type Driver struct {
	W        *tf.Writer
	Scratch  string
	Debug    bool
	Traces   int
	Events   int
	Distinct map[string]bool
	Skipped  map[string]string
	TxCodes  map[string]int // "ok" / "<codespace>:<code>"
	Kinds    map[string]int
	BlockEv  map[string]int // begin/end-block event types seen on replica A
	Unbuilt  int            // transactions the generator could not even encode/sign
	Mutated  int
	Failing  []string
	runs     []*scriptRun
	sem      chan struct{}
	wg       sync.WaitGroup
}

func NewDriver(w *tf.Writer) *Driver {
	scratch, err := os.MkdirTemp("", "vblock-")
	if err != nil {
		panic(err)
	}
	// every home directory of this run (both replicas) lives under the scratch directory
	os.Setenv("TMPDIR", scratch)
	par := runtime.NumCPU() / 4
	if par < 1 {
		par = 1
	}
	if par > 6 {
		par = 6
	}
	return &Driver{W: w, Scratch: scratch, Distinct: map[string]bool{}, Skipped: map[string]string{}, TxCodes: map[string]int{},
		Kinds: map[string]int{}, BlockEv: map[string]int{}, sem: make(chan struct{}, par), Debug: os.Getenv("VBLOCK_DEBUG") != ""}
}

func (d *Driver) Close() { os.RemoveAll(d.Scratch) }

// MakeScript is the abstract script of this family: a configuration name, the route by which the
// configuration's parameters arrive ("genesis" or "gov"), a seed and the lengths of the two phases.
// The block contents are a deterministic function of these and of the real state.
func MakeScript(cfg, via string, seed int64, flow, mut int) tf.Script {
	return tf.Script{Fam: "Block", C: tf.M{"cfg": cfg, "via": via, "seed": seed, "flow": flow, "mut": mut},
		Steps: []tf.M{{"e": "Blocks", "phase": "flow", "n": flow}, {"e": "Blocks", "phase": "mutate", "n": mut}}}
}

func scriptSeed(sc tf.Script) int64 {
	switch v := sc.C["seed"].(type) {
	case float64:
		return int64(v)
	case int64:
		return v
	case int:
		return int64(v)
	}
	return 1
}

// RunScript executes one script on replica A and starts its replay on a replica process.
func (d *Driver) RunScript(sc tf.Script) {
	name := tf.Str(sc.C, "cfg", "fast")
	cfg, ok := ConfigByName(name)
	if !ok {
		panic("unknown configuration " + name)
	}
	run := &scriptRun{sc: sc, cfg: cfg}
	d.runs = append(d.runs, run)
	// governance route: the chain starts with the fast profile and the configuration's parameters
	// arrive through MsgUpdateParams proposals (the handlers run the same Params.Validate)
	viaGov := tf.Str(sc.C, "via", "genesis") == "gov"
	genesisCfg := cfg
	if viaGov {
		genesisCfg, _ = ConfigByName("fast")
	}
	env, skip, b1 := BuildEnv(genesisCfg)
	if skip != "" {
		run.skip = skip
		d.Skipped[name] = skip
		return
	}
	genName := genesisCfg.Name // what replica B must build
	if viaGov {
		name += " via gov"
	}
	if b1 != nil {
		// the very first block of this genesis fails: record it as the only block of the script
		run.resA = []world.BlockResult{*b1}
		run.hashes = []string{"-"}
		run.ntx = []int{0}
		run.tags = []string{cfg.Tag}
		run.start = 0
		d.Events++
		d.Traces++
		d.Failing = append(d.Failing, fmt.Sprintf("%s@h1:%s:%s", name, b1.Err, trunc(b1.Detail, 160)))
		d.handOver(run, genName)
		return
	}
	run.start = 1
	defer env.Close()
	h := fnv.New64a()
	h.Write([]byte(name))
	rng := rand.New(rand.NewSource(scriptSeed(sc)*1_000_003 + int64(h.Sum64()%1_000_000)))
	g := newGen(env, rng)
	if viaGov {
		g.pending = ParamUpdates(cfg, govAuthority(), env.W.Owner.Addr.String())
	}
	flow, mut := tf.Int(sc.C, "flow", 10), tf.Int(sc.C, "mut", 10)
	// the tag of a block is a function of the inputs so far: the configuration, and every parameter
	// update (possibly mutated, possibly inside a proposal) that the script has put into a block
	scriptTag := cfg.Tag
	for i := 0; i < flow+mut; i++ {
		mutate := i >= flow
		dt, acts := g.nextBlock(mutate)
		var txs [][]byte
		for _, a := range acts {
			a := a
			if mutate && g.chance(0.55) {
				// adversarial values: in a message field and/or in the envelope
				if len(a.msgs) > 0 && g.chance(0.8) {
					j := g.pick(len(a.msgs))
					m, what := g.mutateMsg(a.msgs[j])
					if what != "" {
						a.msgs = append([]sdk.Msg{}, a.msgs...)
						a.msgs[j] = m
						d.Mutated++
					}
				}
				if g.chance(0.3) {
					if g.mutateAction(&a) != "" {
						d.Mutated++
					}
				}
			}
			if scriptTag == "" {
				scriptTag = g.classifyMsgs(a.msgs)
			}
			bz := d.sign(env, a)
			if bz == nil {
				d.Unbuilt++
				continue
			}
			txs = append(txs, bz)
			if a.dup {
				txs = append(txs, bz)
			}
		}
		jb := JobBlock{Dt: dt, Txs: []string{}, Votes: []Vote{}}
		hh := sha256.New()
		for _, t := range txs {
			jb.Txs = append(jb.Txs, base64.StdEncoding.EncodeToString(t))
			hh.Write(t)
		}
		for _, v := range env.C.Votes {
			jb.Votes = append(jb.Votes, Vote{Addr: hex.EncodeToString(v.Validator.Address), Power: v.Validator.Power})
		}
		res, resp := env.C.RunBlock(dt, txs)
		run.blocks = append(run.blocks, jb)
		run.resA = append(run.resA, res)
		run.hashes = append(run.hashes, hex.EncodeToString(hh.Sum(nil)[:8]))
		run.ntx = append(run.ntx, len(txs))
		run.tags = append(run.tags, scriptTag)
		d.Events++
		if len(txs) > 0 {
			d.Distinct[hex.EncodeToString(hh.Sum(nil))] = true
		}
		d.observe(env, res, resp, acts)
		if res.Err != "none" {
			d.Failing = append(d.Failing, fmt.Sprintf("%s@h%d:%s:%s", name, res.Height, res.Err, trunc(res.Detail, 160)))
			break // the chain has halted
		}
	}
	for k, v := range g.Kinds {
		d.Kinds[k] += v
	}
	d.Traces++
	d.handOver(run, genName)
}

// handOver writes the job of a script and starts its replay on a replica process.
func (d *Driver) handOver(run *scriptRun, name string) {
	run.jobPath = filepath.Join(d.Scratch, fmt.Sprintf("job-%d.json", len(d.runs)))
	run.outPath = filepath.Join(d.Scratch, fmt.Sprintf("out-%d.json", len(d.runs)))
	bz, _ := json.Marshal(Job{Cfg: name, Blocks: run.blocks})
	if err := os.WriteFile(run.jobPath, bz, 0o644); err != nil {
		panic(err)
	}
	run.blocks = nil
	d.wg.Add(1)
	go func() {
		defer d.wg.Done()
		d.sem <- struct{}{}
		defer func() { <-d.sem }()
		run.errB = d.spawnReplica(run)
	}()
}

// sign builds the signed transaction of an action; nil if it cannot be encoded at all.
func (d *Driver) sign(env *Env, a action) (bz []byte) {
	defer func() {
		if p := recover(); p != nil {
			bz = nil
		}
	}()
	out, err := env.C.SignTx(a.signer, a.gas, a.fee, a.msgs...)
	if err != nil {
		return nil
	}
	return out
}

// observe keeps the statistics and follows validator-set changes (the votes of the next block are
// those of the validators that are still in the set, as the consensus engine would supply them).
func (d *Driver) observe(env *Env, res world.BlockResult, resp *abci.ResponseFinalizeBlock, acts []action) {
	for _, t := range res.Txs {
		if t.Code == 0 {
			d.TxCodes["ok"]++
		} else {
			d.TxCodes[fmt.Sprintf("%s:%d", t.Space, t.Code)]++
		}
	}
	if resp == nil {
		return
	}
	if d.Debug {
		for i, t := range resp.TxResults {
			if t.Code != 0 {
				fmt.Fprintf(os.Stderr, "h=%d tx%d code=%s:%d %s\n", res.Height, i, t.Codespace, t.Code, trunc(t.Log, 200))
			}
		}
	}
	for _, ev := range resp.Events {
		for _, at := range ev.Attributes {
			if at.Key == "mode" {
				d.BlockEv[at.Value+":"+ev.Type]++
			}
		}
		if d.Debug && (ev.Type == "produce_packet_fail" || ev.Type == "signing_failed") {
			fmt.Fprintf(os.Stderr, "h=%d %s %v\n", res.Height, ev.Type, ev.Attributes)
		}
	}
	for _, vu := range resp.ValidatorUpdates {
		addr := vu.PubKey.GetSecp256K1()
		if addr == nil {
			continue
		}
		for _, v := range env.W.Vals {
			if string(v.Pub.Bytes()) != string(addr) {
				continue
			}
			ca := v.Pub.Address().Bytes()
			var nv []abci.VoteInfo
			found := false
			for _, vi := range env.C.Votes {
				if string(vi.Validator.Address) == string(ca) {
					found = true
					if vu.Power > 0 {
						vi.Validator.Power = vu.Power
						nv = append(nv, vi)
					}
				} else {
					nv = append(nv, vi)
				}
			}
			if !found && vu.Power > 0 && !env.Cfg.NoVotes {
				nv = append(nv, abci.VoteInfo{Validator: abci.Validator{Address: ca, Power: vu.Power}, BlockIdFlag: cmtproto.BlockIDFlagCommit})
			}
			env.C.Votes = nv
		}
	}
}

func (d *Driver) spawnReplica(run *scriptRun) error {
	exe, err := os.Executable()
	if err != nil {
		return err
	}
	cmd := exec.Command(exe, "block", "-mode", "replica", "-out", run.outPath+".trace", run.jobPath, run.outPath)
	cmd.Env = append(os.Environ(), "GOMAXPROCS=1", "TMPDIR="+d.Scratch)
	out, err := cmd.CombinedOutput()
	if err != nil {
		return fmt.Errorf("replica process failed: %v\n%s", err, trunc(string(out), 4000))
	}
	bz, err := os.ReadFile(run.outPath)
	if err != nil {
		return err
	}
	if err := json.Unmarshal(bz, &run.resB); err != nil {
		return err
	}
	os.Remove(run.jobPath)
	os.Remove(run.outPath)
	os.Remove(run.outPath + ".trace")
	return nil
}

// Replica is replica B's main: rebuild the genesis of the configuration in a fresh home, replay the
// recorded blocks, report the results.
func Replica(jobPath, outPath string) error {
	bz, err := os.ReadFile(jobPath)
	if err != nil {
		return err
	}
	var job Job
	if err := json.Unmarshal(bz, &job); err != nil {
		return err
	}
	cfg, ok := ConfigByName(job.Cfg)
	if !ok {
		return fmt.Errorf("unknown configuration %q", job.Cfg)
	}
	var out ReplicaOut
	env, skip, b1 := BuildEnv(cfg)
	if skip != "" {
		out.Skip = skip
	} else if b1 != nil {
		out.Results = append(out.Results, *b1)
	} else {
		defer env.Close()
		for _, b := range job.Blocks {
			var txs [][]byte
			for _, t := range b.Txs {
				raw, err := base64.StdEncoding.DecodeString(t)
				if err != nil {
					return err
				}
				txs = append(txs, raw)
			}
			env.C.Votes = nil
			for _, v := range b.Votes {
				addr, err := hex.DecodeString(v.Addr)
				if err != nil {
					return err
				}
				env.C.Votes = append(env.C.Votes, abci.VoteInfo{Validator: abci.Validator{Address: addr, Power: v.Power}, BlockIdFlag: cmtproto.BlockIDFlagCommit})
			}
			res, _ := env.C.RunBlock(b.Dt, txs)
			out.Results = append(out.Results, res)
			if res.Err != "none" {
				break
			}
		}
	}
	ob, _ := json.Marshal(out)
	return os.WriteFile(outPath, ob, 0o644)
}

func resultJSON(r world.BlockResult) tf.M {
	txs := []tf.M{}
	for _, t := range r.Txs {
		txs = append(txs, tf.M{"code": int(t.Code), "space": t.Space, "gas": fmt.Sprint(t.GasUsed), "data": t.Data})
	}
	return tf.M{"apphash": r.AppHash, "txs": txs, "err": r.Err, "detail": trunc(r.Detail, 240)}
}

// Finish waits for the replicas and writes the merged trace: one Reset line per script, one Exec
// line per block. A replica that could not run at all is a harness error (panic -> exit 2).
func (d *Driver) Finish() map[string]interface{} {
	d.wg.Wait()
	nb := 0
	for _, run := range d.runs {
		if run.skip != "" {
			continue
		}
		if run.errB != nil {
			panic(run.errB)
		}
		if run.resB.Skip != "" {
			panic(fmt.Sprintf("harness error: replica B rejected the genesis of %q (%s) that replica A accepted", run.cfg.Name, run.resB.Skip))
		}
		d.W.Reset(run.sc.C, tf.M{"h": run.start}, run.sc.Steps)
		for i, ra := range run.resA {
			var rb world.BlockResult
			if i < len(run.resB.Results) {
				rb = run.resB.Results[i]
			} else {
				rb = world.BlockResult{Height: ra.Height, Err: "halted"}
			}
			a := tf.M{"h": int(ra.Height), "ntx": run.ntx[i], "blk": run.hashes[i]}
			if run.tags[i] != "" {
				a["tag"] = run.tags[i]
			}
			d.W.Step("Exec", a, tf.M{"a": resultJSON(ra), "b": resultJSON(rb)}, tf.M{"h": int(ra.Height)})
			nb++
		}
	}
	var skipped []string
	for k, v := range d.Skipped {
		skipped = append(skipped, k+": "+v)
	}
	sort.Strings(skipped)
	initPanics := 0
	for _, s := range skipped {
		if strings.Contains(s, ": init: ") {
			initPanics++
		}
	}
	if _, bad := d.Skipped["defaults"]; bad {
		panic("harness error: the default genesis was rejected: " + d.Skipped["defaults"])
	}
	if _, bad := d.Skipped["fast"]; bad {
		panic("harness error: the fast-profile genesis was rejected: " + d.Skipped["fast"])
	}
	return map[string]interface{}{
		"traces": d.Traces, "events": d.Events, "interesting": len(d.Distinct),
		"genesis_rejected": skipped, "genesis_rejected_count": len(skipped), "genesis_init_panics": initPanics,
		"tx_results": d.TxCodes, "msg_kinds": d.Kinds, "block_events": d.BlockEv,
		"txs_unbuildable": d.Unbuilt, "mutations_applied": d.Mutated, "failing_blocks": d.Failing,
		"configs_total": len(AllConfigs()),
	}
}

// Plan chooses the scripts of a run: the shipped defaults, the fast profile (long, with a mutation
// phase), nrand configurations sampled without replacement (wrapping around) from the enumeration
// of parameter extremes - alternately installed at genesis and through governance - and, last (so
// that re-validation after a known finding is cheap), every configuration that carries a
// known-finding tag: once at genesis, and through governance too (all of them in long runs, two
// sampled ones otherwise).
func Plan(nrand int, seed int64) []tf.Script {
	rng := rand.New(rand.NewSource(seed))
	var out []tf.Script
	idx := 0
	next := func() int64 { idx++; return seed*1000 + int64(idx) }
	long := nrand > 100
	if long {
		out = append(out, MakeScript("defaults", "genesis", next(), 40, 40), MakeScript("fast", "genesis", next(), 60, 60),
			MakeScript("fast", "genesis", next(), 30, 90))
	} else {
		out = append(out, MakeScript("defaults", "genesis", next(), 12, 8), MakeScript("fast", "genesis", next(), 22, 22))
	}
	var rest, tagged []ParamCfg
	for _, c := range AllConfigs() {
		switch {
		case c.Name == "defaults" || c.Name == "fast":
		case c.Tag != "":
			tagged = append(tagged, c)
		default:
			rest = append(rest, c)
		}
	}
	perm := rng.Perm(len(rest))
	for i := 0; i < nrand; i++ {
		c := rest[perm[i%len(perm)]]
		via := "genesis"
		if (i/len(perm)+i)%3 == 2 {
			via = "gov"
		}
		switch {
		case long:
			out = append(out, MakeScript(c.Name, via, next(), 16, 12))
		case via == "gov":
			out = append(out, MakeScript(c.Name, via, next(), 13, 3))
		default:
			out = append(out, MakeScript(c.Name, via, next(), 7, 5))
		}
	}
	for _, c := range tagged {
		out = append(out, MakeScript(c.Name, "genesis", next(), 18, 0))
	}
	tperm := rng.Perm(len(tagged))
	for i, j := range tperm {
		c := tagged[j]
		// the makeslice defect is only reachable through governance (at genesis InitChain refuses)
		if long || i < 2 || c.Name == "feeds.MaxCurrentFeeds=max" {
			out = append(out, MakeScript(c.Name, "gov", next(), 16, 0))
		}
	}
	return out
}
