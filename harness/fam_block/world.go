package fam_block

import (
	"fmt"

	abci "github.com/cometbft/cometbft/abci/types"
	cmtproto "github.com/cometbft/cometbft/proto/tendermint/types"

	sdk "github.com/cosmos/cosmos-sdk/types"
	govtypes "github.com/cosmos/cosmos-sdk/x/gov/types"
	govv1 "github.com/cosmos/cosmos-sdk/x/gov/types/v1"

	band "github.com/bandprotocol/chain/v3/app"
	"github.com/bandprotocol/chain/v3/pkg/tss"
	bandtsstypes "github.com/bandprotocol/chain/v3/x/bandtss/types"
	feedstypes "github.com/bandprotocol/chain/v3/x/feeds/types"
	globalfeetypes "github.com/bandprotocol/chain/v3/x/globalfee/types"
	oracletypes "github.com/bandprotocol/chain/v3/x/oracle/types"
	restaketypes "github.com/bandprotocol/chain/v3/x/restake/types"
	tsstypes "github.com/bandprotocol/chain/v3/x/tss/types"
	tunneltypes "github.com/bandprotocol/chain/v3/x/tunnel/types"

	"vdrive/tsskit"
	"vdrive/world"
)

const (
	nGenesisDE = 6 // nonce pairs per member written into the tss genesis (capped by MaxDESize)
	groupT     = 2
)

// Env is one replica's chain plus the key material the generator needs.
type Env struct {
	W      *world.World
	C      *world.Chain
	Cfg    ParamCfg
	G1, G2 *tsskit.Group        // G1 = current bandtss group, G2 = a second ACTIVE tss group
	DEs    map[string]tsskit.DE // public key -> nonce pair (private part) of every pair ever published
}

// genesisRejected is the panic value used when a configuration does not pass the modules' own
// genesis / parameter validation: such a configuration is outside C02's quantifier ("parameter
// values accepted by parameter validation") and the script is skipped, not failed.
type genesisRejected struct{ why string }

func deName(member string, i int) string { return fmt.Sprintf("blk-gen-%s-%d", member, i) }

// BuildEnv builds the world of a configuration.  Everything here is a function of the
// configuration name only, so that both replicas construct byte-identical genesis state.
// skip != "" means the genesis was rejected by validation.
//
// b1 != nil means InitChain accepted the genesis but block 1 (the empty block every chain starts
// with) already failed: that is a block execution inside the property's quantifier, reported as
// the Exec of height 1.
func BuildEnv(cfg ParamCfg) (env *Env, skip string, b1 *world.BlockResult) {
	wc := world.DefaultConfig()
	wc.ValTokens = []int64{100_000_000, 1_000_000, 100_000_000, 50_000_000} // two validators of equal power (ties in power-sorted code paths)
	wc.NumAccounts = 10
	wc.AccountBal = sdk.NewCoins(sdk.NewInt64Coin("uband", 10_000_000_000_000))
	wc.ExtraDenoms = []string{"uabc"}
	e := &Env{Cfg: cfg, DEs: map[string]tsskit.DE{}}

	wc.Mutate = func(app *band.BandApp, gs band.GenesisState) {
		cdc := app.AppCodec()
		g := &Gen{
			Oracle: &oracletypes.GenesisState{}, Tss: &tsstypes.GenesisState{}, Bandtss: &bandtsstypes.GenesisState{},
			Feeds: &feedstypes.GenesisState{}, Tunnel: &tunneltypes.GenesisState{}, Restake: &restaketypes.GenesisState{},
			Globalfee: &globalfeetypes.GenesisState{}, Gov: &govv1.GenesisState{},
		}
		cdc.MustUnmarshalJSON(gs[oracletypes.ModuleName], g.Oracle)
		cdc.MustUnmarshalJSON(gs[tsstypes.ModuleName], g.Tss)
		cdc.MustUnmarshalJSON(gs[bandtsstypes.ModuleName], g.Bandtss)
		cdc.MustUnmarshalJSON(gs[feedstypes.ModuleName], g.Feeds)
		cdc.MustUnmarshalJSON(gs[tunneltypes.ModuleName], g.Tunnel)
		cdc.MustUnmarshalJSON(gs[restaketypes.ModuleName], g.Restake)
		cdc.MustUnmarshalJSON(gs[globalfeetypes.ModuleName], g.Globalfee)
		cdc.MustUnmarshalJSON(gs[govtypes.ModuleName], g.Gov)

		if !cfg.Pure {
			fastProfile(g)
		}
		g.Feeds.Params.Admin = world.NewAccount("owner").Addr.String()
		cfg.Apply(g)

		// the modules' own parameter validation decides whether the configuration is in scope
		checks := []struct {
			mod string
			err error
		}{
			{"oracle", g.Oracle.Params.Validate()}, {"tss", g.Tss.Params.Validate()}, {"bandtss", g.Bandtss.Params.Validate()},
			{"feeds", g.Feeds.Params.Validate()}, {"tunnel", g.Tunnel.Params.Validate()}, {"restake", g.Restake.Params.Validate()},
			{"globalfee", g.Globalfee.Params.Validate()},
		}
		for _, c := range checks {
			if c.err != nil {
				panic(genesisRejected{fmt.Sprintf("%s params: %v", c.mod, c.err)})
			}
		}

		// two trusted-dealer groups in the tss genesis (environment; DKG is property C04's subject):
		// group 1 = accts 1..3 is the current bandtss group, group 2 = accts 2..4 is ACTIVE but unused
		// (target of MsgForceTransitionGroup).  Members start with a few published nonce pairs.
		accts := make([]world.Account, wc.NumAccounts)
		for i := range accts {
			accts[i] = world.NewAccount(fmt.Sprintf("acc%d", i+1))
			accts[i].Name = fmt.Sprintf("a%d", i+1)
		}
		e.G1 = tsskit.NewGroup("blk-g1", groupT, accts[0:3])
		e.G1.ID = 1
		e.G2 = tsskit.NewGroup("blk-g2", groupT, accts[1:4])
		e.G2.ID = 2
		if g.Tss.Params.MaxGroupSize >= 3 {
			for _, grp := range []*tsskit.Group{e.G1, e.G2} {
				g.Tss.Groups = append(g.Tss.Groups, tsstypes.NewGroup(grp.ID, uint64(grp.N), uint64(grp.T), grp.PubKey,
					tsstypes.GROUP_STATUS_ACTIVE, 1, bandtsstypes.ModuleName))
				for _, m := range grp.Members {
					g.Tss.Members = append(g.Tss.Members, tsstypes.NewMember(m.ID, grp.ID, m.Acc.Addr, m.Pub, false, true))
				}
			}
			g.Bandtss.CurrentGroup = bandtsstypes.NewCurrentGroup(e.G1.ID, wc.GenesisTime)
			for _, m := range e.G1.Members {
				g.Bandtss.Members = append(g.Bandtss.Members, bandtsstypes.NewMember(m.Acc.Addr, e.G1.ID, true, wc.GenesisTime))
			}
			nde := uint64(nGenesisDE)
			if g.Tss.Params.MaxDESize < nde {
				nde = g.Tss.Params.MaxDESize
			}
			for i := 0; i < 4; i++ {
				for j := 0; j < int(nde); j++ {
					de := tsskit.NewDE(deName(accts[i].Name, j))
					e.DEs[de.Key()] = de
					g.Tss.DEs = append(g.Tss.DEs, tsstypes.DEGenesis{Address: accts[i].Addr.String(), DE: de.Pub()})
				}
			}
		} else {
			e.G1, e.G2 = nil, nil
		}

		if err := g.Tss.Validate(); err != nil {
			panic(genesisRejected{"tss genesis: " + err.Error()})
		}
		if err := g.Bandtss.Validate(); err != nil {
			panic(genesisRejected{"bandtss genesis: " + err.Error()})
		}
		if err := g.Feeds.Validate(); err != nil {
			panic(genesisRejected{"feeds genesis: " + err.Error()})
		}
		if err := tunneltypes.ValidateGenesis(*g.Tunnel); err != nil {
			panic(genesisRejected{"tunnel genesis: " + err.Error()})
		}
		if err := g.Restake.Validate(); err != nil {
			panic(genesisRejected{"restake genesis: " + err.Error()})
		}

		gs[oracletypes.ModuleName] = cdc.MustMarshalJSON(g.Oracle)
		gs[tsstypes.ModuleName] = cdc.MustMarshalJSON(g.Tss)
		gs[bandtsstypes.ModuleName] = cdc.MustMarshalJSON(g.Bandtss)
		gs[feedstypes.ModuleName] = cdc.MustMarshalJSON(g.Feeds)
		gs[tunneltypes.ModuleName] = cdc.MustMarshalJSON(g.Tunnel)
		gs[restaketypes.ModuleName] = cdc.MustMarshalJSON(g.Restake)
		gs[globalfeetypes.ModuleName] = cdc.MustMarshalJSON(g.Globalfee)
		gs[govtypes.ModuleName] = cdc.MustMarshalJSON(g.Gov)
	}

	func() {
		defer func() {
			if p := recover(); p != nil {
				if gr, ok := p.(genesisRejected); ok {
					skip = gr.why
					return
				}
				if bf, ok := p.(world.Block1Failure); ok {
					b1 = &world.BlockResult{Height: 1, Err: "error", Detail: bf.Detail}
					if bf.Panicked {
						b1.Err = "panic"
					}
					return
				}
				// InitChain / block 1 refused the genesis (module InitGenesis panics on invalid state)
				skip = "init: " + trunc(fmt.Sprint(p), 200)
			}
		}()
		e.W = world.New(wc)
	}()
	if skip != "" || b1 != nil {
		return nil, skip, b1
	}
	e.C = e.W.L2()
	if !cfg.NoVotes {
		for i, v := range e.W.Vals {
			e.C.Votes = append(e.C.Votes, abci.VoteInfo{
				Validator:   abci.Validator{Address: v.Pub.Address().Bytes(), Power: wc.ValTokens[i] / 1_000_000},
				BlockIdFlag: cmtproto.BlockIDFlagCommit,
			})
		}
	}
	return e, "", nil
}

func (e *Env) Close() {
	if e != nil && e.W != nil {
		e.W.Close()
	}
}

// GroupByID returns the key material of a genesis group.
func (e *Env) GroupByID(id tss.GroupID) *tsskit.Group {
	switch {
	case e.G1 != nil && id == e.G1.ID:
		return e.G1
	case e.G2 != nil && id == e.G2.ID:
		return e.G2
	}
	return nil
}

func trunc(s string, n int) string {
	if len(s) > n {
		return s[:n]
	}
	return s
}
