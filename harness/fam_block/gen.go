package fam_block

import (
	"fmt"
	"strings"

	gogoproto "github.com/cosmos/gogoproto/proto"
	"math/rand"
	"time"

	sdk "github.com/cosmos/cosmos-sdk/types"
	authtypes "github.com/cosmos/cosmos-sdk/x/auth/types"
	banktypes "github.com/cosmos/cosmos-sdk/x/bank/types"
	govtypes "github.com/cosmos/cosmos-sdk/x/gov/types"
	govv1 "github.com/cosmos/cosmos-sdk/x/gov/types/v1"
	stakingtypes "github.com/cosmos/cosmos-sdk/x/staking/types"

	"github.com/bandprotocol/chain/v3/pkg/tss"
	"github.com/bandprotocol/chain/v3/testing/testdata"
	bandtsstypes "github.com/bandprotocol/chain/v3/x/bandtss/types"
	feedstypes "github.com/bandprotocol/chain/v3/x/feeds/types"
	globalfeetypes "github.com/bandprotocol/chain/v3/x/globalfee/types"
	oracletypes "github.com/bandprotocol/chain/v3/x/oracle/types"
	restaketypes "github.com/bandprotocol/chain/v3/x/restake/types"
	tsstypes "github.com/bandprotocol/chain/v3/x/tss/types"
	tunneltypes "github.com/bandprotocol/chain/v3/x/tunnel/types"

	"vdrive/tsskit"
	"vdrive/world"
)

// action is one transaction to be: a signer and its messages.
type action struct {
	kind   string
	signer world.Account
	msgs   []sdk.Msg
	gas    uint64
	fee    sdk.Coins
	dup    bool // include the same bytes twice (second one must fail on the sequence)
}

var signalIDs = []string{"CS:BTC-USD", "CS:ETH-USD", "CS:BAND-USD", "CS:ATOM-USD", "X", "CS:A-VERY-LONG-SIGNAL-ID-32BYTES"}

// gen generates blocks statefully: every choice is resolved against replica A's committed state.
type gen struct {
	e     *Env
	rng   *rand.Rand
	step  int
	deN   int
	used  map[string]bool // signers used in the block under construction
	govID uint64          // last proposal submitted by the generator
	// governance route: parameter updates to submit as one proposal right after the bootstrap block
	pending []sdk.Msg
	Kinds map[string]int  // message kinds generated (stats)
	// profile of this chain (a function of the script's seed): "mixed", or a churn profile in which the
	// time-out parameters of one module are changed by governance again and again while its flows are left
	// unanswered (lazy signers / reporters), so that queues of pending work are processed under parameter
	// values other than the ones they were created under
	profile string
}

func newGen(e *Env, rng *rand.Rand) *gen {
	g := &gen{e: e, rng: rng, Kinds: map[string]int{}, profile: "mixed"}
	switch x := rng.Intn(10); {
	case x < 2:
		g.profile = "tssChurn"
	case x < 4:
		g.profile = "oracleChurn"
	}
	return g
}

// churn: the extra actions of a churn profile (see gen.profile)
func (g *gen) churn(ctx sdk.Context) (acts []action) {
	app := g.e.W.App
	au := govAuthority()
	voting := false
	if g.govID != 0 {
		if p, err := app.GovKeeper.Proposals.Get(ctx, g.govID); err == nil && p.Status == govv1.StatusVotingPeriod {
			voting = true
		}
	}
	free := !voting && !(len(g.pending) > 0 && g.step < 12)
	switch g.profile {
	case "tssChurn":
		for i := g.pick(3); i > 0; i-- {
			a := g.acct()
			m, err := bandtsstypes.NewMsgRequestSignature(tsstypes.NewTextSignatureOrder([]byte(fmt.Sprintf("churn-%d-%d", g.step, i))), uband(400), a.Addr.String())
			if err == nil {
				acts = append(acts, action{kind: "requestSig", signer: a, msgs: []sdk.Msg{m}, fee: uband(500)})
			}
		}
		if free && g.chance(0.5) {
			p := app.TSSKeeper.GetParams(ctx)
			p.SigningPeriod = uint64(1 + g.pick(6))
			p.MaxSigningAttempt = uint64(g.pick(5))
			if g.chance(0.3) {
				p.MaxDESize = uint64(1 + g.pick(8))
			}
			acts = append(acts, g.proposalBy(ctx, g.acct(), true, tsstypes.NewMsgUpdateParams(au, p))...)
		}
	case "oracleChurn":
		for i := g.pick(3); i > 0; i-- {
			a := g.acct()
			ask := 1 + g.pick(len(g.e.W.Vals))
			acts = append(acts, action{kind: "request", signer: a, fee: uband(500), msgs: []sdk.Msg{oracletypes.NewMsgRequestData(
				oracletypes.OracleScriptID([]int{world.ScriptOK3, world.ScriptOK1, world.ScriptW4}[g.pick(3)]), []byte("calldata"), uint64(ask), uint64(1+g.pick(ask)),
				fmt.Sprintf("churn%d", g.step), uband(1000), 40000, 300000, a.Addr, oracletypes.Encoder(g.pick(3)))}})
		}
		if free && g.chance(0.5) {
			p := app.OracleKeeper.GetParams(ctx)
			p.ExpirationBlockCount = uint64(1 + g.pick(8))
			acts = append(acts, g.proposalBy(ctx, g.acct(), true, oracletypes.NewMsgUpdateParams(au, p))...)
		}
	}
	return acts
}

func (g *gen) pick(n int) int { return g.rng.Intn(n) }
func (g *gen) chance(p float64) bool {
	return g.rng.Float64() < p
}

// answer: how eagerly the housekeeping answers open work; lazy in the module's churn profile
func (g *gen) answer(p float64, lazyIn string) float64 {
	if g.profile == lazyIn {
		return 0.12
	}
	return p
}
func (g *gen) acct() world.Account { return g.e.W.Accts[g.pick(len(g.e.W.Accts))] }
func (g *gen) val() world.Account  { return g.e.W.Vals[g.pick(len(g.e.W.Vals))] }
func uband(n int64) sdk.Coins      { return sdk.NewCoins(sdk.NewInt64Coin("uband", n)) }
func govAuthority() string         { return authtypes.NewModuleAddress(govtypes.ModuleName).String() }

// safely runs a state read; a panicking getter (possible under a mutant) yields "nothing to do".
func safely(f func()) {
	defer func() { _ = recover() }()
	f()
}

// nextBlock chooses dt and the actions of the next block. newTime is the block time the
// transactions will execute at.
func (g *gen) nextBlock(mutate bool) (dt int64, acts []action) {
	g.step++
	g.used = map[string]bool{}
	dts := []int64{1, 1, 1, 2, 2, 3, 5, 7}
	dt = dts[g.pick(len(dts))]
	if g.profile != "mixed" {
		dt = 1 // many blocks per voting period: pending work meets several parameter values
	} else if g.chance(0.04) {
		dt = []int64{60, 700, 4000, 90_000}[g.pick(4)]
	}
	newTime := g.e.C.Time.Add(time.Duration(dt) * time.Second)
	ctx := g.e.C.Query()
	add := func(a ...action) { acts = append(acts, a...) }

	if g.step == 1 {
		safely(func() { add(g.bootstrap(ctx)...) })
		return dt, acts
	}
	if g.step == 2 && len(g.pending) > 0 {
		safely(func() { add(g.proposalBy(ctx, g.e.W.Accts[9], false, g.pending...)...) })
	}
	// housekeeping that keeps the flows moving (each only sometimes, so that time-outs happen too)
	safely(func() { add(g.reports(ctx)...) })
	safely(func() { add(g.signatures(ctx)...) })
	safely(func() { add(g.prices(ctx, newTime)...) })
	safely(func() { add(g.govVotes(ctx)...) })
	safely(func() { add(g.memberCare(ctx)...) })
	if g.profile != "mixed" {
		safely(func() { add(g.churn(ctx)...) })
	}
	n := 2 + g.pick(5)
	for i := 0; i < n; i++ {
		safely(func() { add(g.randomAction(ctx, newTime)...) })
	}
	g.rng.Shuffle(len(acts), func(i, j int) { acts[i], acts[j] = acts[j], acts[i] })
	// gas ladder: replay one transaction of this block a number of times with stepped gas limits, so that it
	// runs out of gas at many different points inside its handler.  gas_used of an aborted transaction exposes
	// any dependence of the handler on Go map iteration order (the replicas would report different values).
	if mutate || g.chance(0.35) {
		var cand []int
		for i, a := range acts {
			if a.kind == "vote" || g.chance(0.15) {
				cand = append(cand, i)
			}
		}
		if len(cand) > 0 {
			a := acts[cand[g.pick(len(cand))]]
			base, step := uint64(38_000+g.pick(20_000)), uint64(1_500+g.pick(2_000))
			for k := 0; k < 40; k++ {
				b := a
				b.kind, b.gas, b.dup = a.kind+"-ladder", base+uint64(k)*step, false
				acts = append(acts, b)
			}
		}
	}
	for _, a := range acts {
		for _, m := range a.msgs {
			g.Kinds[strings.TrimPrefix(sdk.MsgTypeURL(m), "/")]++
		}
	}
	return dt, acts
}

// bootstrap: validators become oracle-active, power is voted onto signals, group members top up
// their nonces, an account delegates and restakes.
func (g *gen) bootstrap(ctx sdk.Context) (acts []action) {
	w := g.e.W
	for i, v := range w.Vals {
		msgs := []sdk.Msg{&oracletypes.MsgActivate{Validator: v.ValAddr.String()}}
		pw := []int64{40_000_000, 400_000, 30_000_000, 20_000_000}[i%4]
		msgs = append(msgs, feedstypes.NewMsgVote(v.Addr.String(), []feedstypes.Signal{
			feedstypes.NewSignal(signalIDs[0], pw), feedstypes.NewSignal(signalIDs[1], pw/2), feedstypes.NewSignal(signalIDs[2], pw/4)}))
		acts = append(acts, action{kind: "bootstrap", signer: v, msgs: msgs, fee: uband(2000)})
	}
	for i := 0; i < 4 && i < len(w.Accts); i++ {
		a := w.Accts[i]
		msgs := []sdk.Msg{
			stakingtypes.NewMsgDelegate(a.Addr.String(), w.Vals[i%len(w.Vals)].ValAddr.String(), sdk.NewInt64Coin("uband", 5_000_000)),
			restaketypes.NewMsgStake(a.Addr, uband(3_000_000)),
		}
		if g.e.G1 != nil {
			msgs = append(msgs, g.submitDEs(a, 3))
		}
		acts = append(acts, action{kind: "bootstrap", signer: a, msgs: msgs, fee: uband(3000)})
	}
	return acts
}

func (g *gen) submitDEs(a world.Account, n int) sdk.Msg {
	var pubs []tsstypes.DE
	for i := 0; i < n; i++ {
		g.deN++
		de := tsskit.NewDE(fmt.Sprintf("blk-%s-%d", a.Name, g.deN))
		g.e.DEs[de.Key()] = de
		pubs = append(pubs, de.Pub())
	}
	return &tsstypes.MsgSubmitDEs{DEs: pubs, Sender: a.Addr.String()}
}

// memberCare: group members keep some nonces published and come back after a penalty (not always
// at once, so that "not enough available members" paths are visited as well).
func (g *gen) memberCare(ctx sdk.Context) (acts []action) {
	app := g.e.W.App
	cur := app.BandtssKeeper.GetCurrentGroup(ctx).GroupID
	for _, v := range g.e.W.Vals {
		if st := app.OracleKeeper.GetValidatorStatus(ctx, v.ValAddr); !st.IsActive && g.chance(0.5) {
			acts = append(acts, action{kind: "care", signer: v, msgs: []sdk.Msg{&oracletypes.MsgActivate{Validator: v.ValAddr.String()}}})
		}
	}
	for i := 0; i < 4 && g.e.G1 != nil; i++ {
		a := g.e.W.Accts[i]
		var msgs []sdk.Msg
		q := app.TSSKeeper.GetDEQueue(ctx, a.Addr)
		if q.Tail-q.Head < 2 && g.chance(0.6) {
			msgs = append(msgs, g.submitDEs(a, 2+g.pick(3)))
		}
		if m, err := app.BandtssKeeper.GetMember(ctx, a.Addr, cur); err == nil && !m.IsActive && g.chance(0.5) {
			msgs = append(msgs, &bandtsstypes.MsgActivate{Sender: a.Addr.String(), GroupID: cur})
		}
		for _, m := range msgs {
			acts = append(acts, action{kind: "care", signer: a, msgs: []sdk.Msg{m}})
		}
	}
	return acts
}

// reports: requested validators answer open requests (not always: some requests must expire).
func (g *gen) reports(ctx sdk.Context) (acts []action) {
	k := g.e.W.App.OracleKeeper
	cnt := k.GetRequestCount(ctx)
	last := uint64(k.GetRequestLastExpired(ctx))
	for id := last + 1; id <= cnt && id <= last+12; id++ {
		req, err := k.GetRequest(ctx, oracletypes.RequestID(id))
		if err != nil {
			continue
		}
		for _, vs := range req.RequestedValidators {
			va, err := sdk.ValAddressFromBech32(vs)
			if err != nil || k.HasReport(ctx, oracletypes.RequestID(id), va) || !g.chance(g.answer(0.6, "oracleChurn")) {
				continue
			}
			var signer *world.Account
			for i := range g.e.W.Vals {
				if g.e.W.Vals[i].ValAddr.Equals(va) {
					signer = &g.e.W.Vals[i]
				}
			}
			if signer == nil {
				continue
			}
			var reps []oracletypes.RawReport
			for _, rr := range req.RawRequests {
				reps = append(reps, oracletypes.NewRawReport(rr.ExternalID, 0, []byte("answer")))
			}
			acts = append(acts, action{kind: "report", signer: *signer, msgs: []sdk.Msg{oracletypes.NewMsgReportData(oracletypes.RequestID(id), reps, va)}})
		}
	}
	return acts
}

// signatures: assigned members of waiting signings submit real partial signatures (sometimes
// garbage, sometimes nothing, so that signings also time out and are retried).
func (g *gen) signatures(ctx sdk.Context) (acts []action) {
	k := g.e.W.App.TSSKeeper
	cnt := k.GetSigningCount(ctx)
	lo := uint64(1)
	if cnt > 10 {
		lo = cnt - 9
	}
	for id := lo; id <= cnt; id++ {
		sg, err := k.GetSigning(ctx, tss.SigningID(id))
		if err != nil || sg.Status != tsstypes.SIGNING_STATUS_WAITING {
			continue
		}
		sa, err := k.GetSigningAttempt(ctx, sg.ID, sg.CurrentAttempt)
		if err != nil {
			continue
		}
		grp := g.e.GroupByID(sg.GroupID)
		if grp == nil {
			continue
		}
		for _, am := range sa.AssignedMembers {
			if k.HasPartialSignature(ctx, sg.ID, sg.CurrentAttempt, am.MemberID) || !g.chance(g.answer(0.7, "tssChurn")) {
				continue
			}
			m, ok := grp.ByAddr(am.Address)
			if !ok {
				continue
			}
			var sig tss.Signature
			de, have := g.e.DEs[tsskit.PubKey(am.PubD, am.PubE)]
			if have && !g.chance(0.1) {
				s, err := tsskit.PartialSign(m, sg, sa, de)
				if err != nil {
					continue
				}
				sig = s
			} else {
				sig = append(tss.Signature{}, tsskit.ScalarFromSeed(fmt.Sprint("junk", g.step, id)).Point()...)
				sig = append(sig, tsskit.ScalarFromSeed(fmt.Sprint("junk2", g.step, id))...)
			}
			acts = append(acts, action{kind: "sign", signer: m.Acc, msgs: []sdk.Msg{
				&tsstypes.MsgSubmitSignature{SigningID: sg.ID, MemberID: m.ID, Signature: sig, Signer: am.Address}}})
		}
	}
	return acts
}

// prices: active validators publish prices for the current feeds at the block's own time.
func (g *gen) prices(ctx sdk.Context, newTime time.Time) (acts []action) {
	feeds := g.e.W.App.FeedsKeeper.GetCurrentFeeds(ctx).Feeds
	if len(feeds) == 0 {
		return nil
	}
	for _, v := range g.e.W.Vals {
		if !g.chance(0.45) {
			continue
		}
		var sps []feedstypes.SignalPrice
		for i, f := range feeds {
			if i >= 8 {
				break
			}
			st := feedstypes.SIGNAL_PRICE_STATUS_AVAILABLE
			if g.chance(0.1) {
				st = feedstypes.SIGNAL_PRICE_STATUS_UNAVAILABLE
			}
			price := uint64(1_000_000 + g.pick(200_000))
			if st != feedstypes.SIGNAL_PRICE_STATUS_AVAILABLE {
				price = 0
			}
			sps = append(sps, feedstypes.NewSignalPrice(st, f.SignalID, price))
		}
		acts = append(acts, action{kind: "prices", signer: v, msgs: []sdk.Msg{
			feedstypes.NewMsgSubmitSignalPrices(v.ValAddr.String(), newTime.Unix(), sps)}})
	}
	return acts
}

// govVotes: validators' delegator accounts vote yes on the generator's open proposal.
func (g *gen) govVotes(ctx sdk.Context) (acts []action) {
	if g.govID == 0 {
		return nil
	}
	p, err := g.e.W.App.GovKeeper.Proposals.Get(ctx, g.govID)
	if err != nil || p.Status != govv1.StatusVotingPeriod {
		return nil
	}
	for _, v := range g.e.W.Vals {
		if has, _ := g.e.W.App.GovKeeper.Votes.Has(ctx, collectionsPair(g.govID, v.Addr)); has {
			continue
		}
		acts = append(acts, action{kind: "govvote", signer: v, msgs: []sdk.Msg{govv1.NewMsgVote(v.Addr, g.govID, govv1.OptionYes, "")}, fee: uband(500)})
	}
	return acts
}

// proposal wraps authority-gated messages into a governance proposal (the only way they execute).
func (g *gen) proposal(ctx sdk.Context, msgs ...sdk.Msg) []action {
	if len(g.pending) > 0 && g.step < 12 {
		return nil // do not displace the script's own parameter proposal while it is being voted
	}
	return g.proposalBy(ctx, g.acct(), g.chance(0.5), msgs...)
}

func (g *gen) proposalBy(ctx sdk.Context, who world.Account, expedited bool, msgs ...sdk.Msg) []action {
	m, err := govv1.NewMsgSubmitProposal(msgs, uband(5000), who.Addr.String(), "", "verif", "verif", expedited)
	if err != nil {
		return nil
	}
	next, err := g.e.W.App.GovKeeper.ProposalID.Peek(ctx)
	if err == nil {
		g.govID = next
	}
	return []action{{kind: "proposal", signer: who, msgs: []sdk.Msg{m}, fee: uband(1000)}}
}

func (g *gen) randomAction(ctx sdk.Context, newTime time.Time) []action {
	w := g.e.W
	app := w.App
	one := func(kind string, signer world.Account, msgs ...sdk.Msg) []action {
		var fee sdk.Coins
		if g.chance(0.7) {
			fee = uband(int64(100 + g.pick(5000)))
		}
		return []action{{kind: kind, signer: signer, msgs: msgs, fee: fee}}
	}
	switch g.pick(34) {
	case 0, 1, 2, 3: // oracle request
		a := g.acct()
		script := []int{world.ScriptOK3, world.ScriptOK1, world.ScriptFail1, world.ScriptOK3, world.ScriptW4}[g.pick(5)]
		ask := 1 + g.pick(len(w.Vals))
		min := 1 + g.pick(ask)
		enc := oracletypes.Encoder(0)
		if g.chance(0.4) {
			enc = oracletypes.Encoder(1 + g.pick(3))
		}
		return one("request", a, oracletypes.NewMsgRequestData(oracletypes.OracleScriptID(script), []byte("calldata"), uint64(ask), uint64(min),
			fmt.Sprintf("c%d", g.step), uband(1000), 40000, 300000, a.Addr, enc))
	case 4: // data source create / edit
		if g.chance(0.5) {
			return one("createDS", w.Owner, oracletypes.NewMsgCreateDataSource(fmt.Sprintf("ds-%d", g.step), "d", []byte(fmt.Sprintf("exec-%d", g.step)),
				uband(int64(g.pick(5))), w.Treasuries[0].Addr, w.Owner.Addr, w.Owner.Addr))
		}
		n := app.OracleKeeper.GetDataSourceCount(ctx)
		exe := []byte(fmt.Sprintf("exec-e-%d", g.step))
		if g.chance(0.35) {
			exe = oracletypes.DoNotModifyBytes // metadata-only edit: the stored file must stay
		}
		return one("editDS", w.Owner, oracletypes.NewMsgEditDataSource(oracletypes.DataSourceID(1+g.pick(int(n)+1)), "ds-e", "d",
			exe, uband(int64(g.pick(5))), w.Treasuries[1].Addr, w.Owner.Addr, w.Owner.Addr))
	case 5: // oracle script create / edit
		code := [][]byte{testdata.Wasm1, testdata.Wasm4, testdata.Wasm1}[g.pick(3)]
		if g.chance(0.5) {
			return one("createOS", w.Owner, oracletypes.NewMsgCreateOracleScript(fmt.Sprintf("os-%d", g.step), "d", "schema", "url", code, w.Owner.Addr, w.Owner.Addr))
		}
		n := app.OracleKeeper.GetOracleScriptCount(ctx)
		if g.chance(0.4) {
			code = oracletypes.DoNotModifyBytes // metadata-only edit (mostly of a script that requests are using)
			return one("editOS", w.Owner, oracletypes.NewMsgEditOracleScript(oracletypes.OracleScriptID(1+g.pick(5)), "os-m", "d", "schema", "url", code, w.Owner.Addr, w.Owner.Addr))
		}
		return one("editOS", w.Owner, oracletypes.NewMsgEditOracleScript(oracletypes.OracleScriptID(1+g.pick(int(n)+1)), "os-e", "d", "schema", "url", code, w.Owner.Addr, w.Owner.Addr))
	case 6: // oracle (re)activate
		v := g.val()
		return one("activate", v, &oracletypes.MsgActivate{Validator: v.ValAddr.String()})
	case 7, 8: // nonces
		a := w.Accts[g.pick(4)]
		if g.chance(0.15) {
			return one("resetDE", a, &tsstypes.MsgResetDE{Sender: a.Addr.String()})
		}
		return one("submitDEs", a, g.submitDEs(a, 1+g.pick(4)))
	case 9, 10, 11: // bandtss signature request
		a := g.acct()
		var content tsstypes.Content = tsstypes.NewTextSignatureOrder([]byte(fmt.Sprintf("msg-%d-%d", g.step, g.pick(1000))))
		m, err := bandtsstypes.NewMsgRequestSignature(content, uband(int64(10+g.pick(200))), a.Addr.String())
		if err != nil {
			return nil
		}
		return one("requestSig", a, m)
	case 12: // bandtss activate
		a := w.Accts[g.pick(4)]
		gid := tss.GroupID(1 + g.pick(2))
		return one("bandtssActivate", a, &bandtsstypes.MsgActivate{Sender: a.Addr.String(), GroupID: gid})
	case 13: // DKG messages for a group that is not in DKG (well formed, out of place)
		a := w.Accts[g.pick(5)]
		pt := tsskit.ScalarFromSeed(fmt.Sprint("dkg", g.step)).Point()
		sig := append(append(tss.Signature{}, pt...), tsskit.ScalarFromSeed(fmt.Sprint("dkgs", g.step))...)
		gid := tss.GroupID(1 + g.pick(3))
		switch g.pick(4) {
		case 0:
			return one("dkgR1", a, tsstypes.NewMsgSubmitDKGRound1(gid, tsstypes.Round1Info{MemberID: 1, CoefficientCommits: tss.Points{pt, pt},
				OneTimePubKey: pt, A0Signature: sig, OneTimeSignature: sig}, a.Addr.String()))
		case 1:
			return one("dkgR2", a, tsstypes.NewMsgSubmitDKGRound2(gid, tsstypes.Round2Info{MemberID: 1,
				EncryptedSecretShares: tss.EncSecretShares{make([]byte, 48), make([]byte, 48)}}, a.Addr.String()))
		case 2:
			csig := append(append(append(tss.ComplaintSignature{}, pt...), pt...), tsskit.ScalarFromSeed("c")...)
			return one("dkgComplain", a, tsstypes.NewMsgComplain(gid, []tsstypes.Complaint{{Complainant: 1, Respondent: 2, KeySym: pt, Signature: csig}}, a.Addr.String()))
		default:
			return one("dkgConfirm", a, tsstypes.NewMsgConfirm(gid, 1, sig, a.Addr.String()))
		}
	case 14: // group transition: from a non-authority, or through governance
		execTime := newTime.Add(time.Duration(2+g.pick(8)) * time.Second)
		if g.chance(0.5) {
			a := g.acct()
			if g.chance(0.5) {
				return one("forceTransitionNonAuth", a, bandtsstypes.NewMsgForceTransitionGroup(2, execTime, a.Addr.String()))
			}
			return one("transitionNonAuth", a, bandtsstypes.NewMsgTransitionGroup([]string{w.Accts[4].Addr.String(), w.Accts[5].Addr.String()}, 1, execTime, a.Addr.String()))
		}
		cur := app.BandtssKeeper.GetCurrentGroup(ctx).GroupID
		target := tss.GroupID(2)
		if cur == 2 {
			target = 1
		}
		execTime = newTime.Add(time.Duration(6+g.pick(6)) * time.Second)
		if g.chance(0.7) {
			return g.proposal(ctx, bandtsstypes.NewMsgForceTransitionGroup(target, execTime, govAuthority()))
		}
		return g.proposal(ctx, bandtsstypes.NewMsgTransitionGroup([]string{w.Accts[4].Addr.String(), w.Accts[5].Addr.String(), w.Accts[6].Addr.String()}, 2, execTime, govAuthority()))
	case 15, 16: // feeds vote
		var voter world.Account
		if g.chance(0.6) {
			voter = g.val()
		} else {
			voter = w.Accts[g.pick(4)]
		}
		var sigs []feedstypes.Signal
		n := g.pick(4)
		perm := g.rng.Perm(len(signalIDs))
		for i := 0; i < n; i++ {
			sigs = append(sigs, feedstypes.NewSignal(signalIDs[perm[i]], int64(1000+g.pick(400_000))))
		}
		return one("vote", voter, feedstypes.NewMsgVote(voter.Addr.String(), sigs))
	case 17: // reference source config (admin = owner) / from a stranger
		who := w.Owner
		if g.chance(0.4) {
			who = g.acct()
		}
		return one("refsrc", who, feedstypes.NewMsgUpdateReferenceSourceConfig(who.Addr.String(),
			feedstypes.ReferenceSourceConfig{RegistryIPFSHash: fmt.Sprintf("hash%d", g.step), RegistryVersion: "1.0.0"}))
	case 18, 19, 20: // tunnel create
		a := g.acct()
		var devs []tunneltypes.SignalDeviation
		n := 1 + g.pick(3)
		for i := 0; i < n; i++ {
			devs = append(devs, tunneltypes.NewSignalDeviation(signalIDs[i], uint64(50+g.pick(100)), uint64(150+g.pick(500))))
		}
		iv := uint64(1 + g.pick(6))
		dep := uband(int64(500 + g.pick(3000)))
		var m *tunneltypes.MsgCreateTunnel
		var err error
		if g.chance(0.35) {
			m, err = tunneltypes.NewMsgCreateIBCTunnel(devs, iv, dep, a.Addr.String())
		} else {
			m, err = tunneltypes.NewMsgCreateTSSTunnel(devs, iv, "eth", "0xverif", feedstypes.Encoder(1+g.pick(2)), dep, a.Addr.String())
		}
		if err != nil {
			return nil
		}
		return one("createTunnel", a, m)
	case 21, 22, 23, 24: // tunnel operations on an existing tunnel by its creator (sometimes a stranger)
		cnt := app.TunnelKeeper.GetTunnelCount(ctx)
		if cnt == 0 {
			return nil
		}
		tid := uint64(1 + g.pick(int(cnt)))
		t, err := app.TunnelKeeper.GetTunnel(ctx, tid)
		if err != nil {
			return nil
		}
		who, ok := g.byAddr(t.Creator)
		if !ok || g.chance(0.1) {
			who = g.acct()
		}
		switch g.pick(8) {
		case 0:
			return one("tunnelActivate", who, tunneltypes.NewMsgActivate(tid, who.Addr.String()))
		case 1:
			return one("tunnelDeactivate", who, tunneltypes.NewMsgDeactivate(tid, who.Addr.String()))
		case 2:
			return one("tunnelTrigger", who, tunneltypes.NewMsgTriggerTunnel(tid, who.Addr.String()))
		case 3:
			d := g.acct()
			return one("tunnelDeposit", d, tunneltypes.NewMsgDepositToTunnel(tid, uband(int64(100+g.pick(2000))), d.Addr.String()))
		case 4:
			return one("tunnelWithdraw", who, tunneltypes.NewMsgWithdrawFromTunnel(tid, uband(int64(1+g.pick(1500))), who.Addr.String()))
		case 5:
			devs := []tunneltypes.SignalDeviation{tunneltypes.NewSignalDeviation(signalIDs[g.pick(4)], uint64(50+g.pick(100)), uint64(150+g.pick(500)))}
			return one("tunnelUpdateSignals", who, tunneltypes.NewMsgUpdateSignalsAndInterval(tid, devs, uint64(1+g.pick(6)), who.Addr.String()))
		case 6:
			var m *tunneltypes.MsgUpdateRoute
			if g.chance(0.5) {
				m, err = tunneltypes.NewMsgUpdateIBCRoute(tid, "channel-0", who.Addr.String())
			} else {
				rt := tunneltypes.NewTSSRoute("bsc", "0xother", feedstypes.ENCODER_TICK_ABI)
				m, err = tunneltypes.NewMsgUpdateRoute(tid, &rt, who.Addr.String())
			}
			if err != nil {
				return nil
			}
			return one("tunnelUpdateRoute", who, m)
		default: // fund the fee payer so that packets can be paid for, and activate
			fp, err := sdk.AccAddressFromBech32(t.FeePayer)
			if err != nil {
				return nil
			}
			return one("fundFeePayer", who, banktypes.NewMsgSend(who.Addr, fp, uband(int64(1000+g.pick(100_000)))),
				tunneltypes.NewMsgActivate(tid, who.Addr.String()))
		}
	case 25, 26: // restake
		a := w.Accts[g.pick(6)]
		if g.chance(0.6) {
			return one("stake", a, restaketypes.NewMsgStake(a.Addr, uband(int64(1+g.pick(2_000_000)))))
		}
		return one("unstake", a, restaketypes.NewMsgUnstake(a.Addr, uband(int64(1+g.pick(2_000_000)))))
	case 27, 28: // staking
		a := w.Accts[g.pick(6)]
		v := g.val()
		amt := sdk.NewInt64Coin("uband", int64(1+g.pick(3_000_000)))
		switch g.pick(3) {
		case 0:
			return one("delegate", a, stakingtypes.NewMsgDelegate(a.Addr.String(), v.ValAddr.String(), amt))
		case 1:
			return one("undelegate", a, stakingtypes.NewMsgUndelegate(a.Addr.String(), v.ValAddr.String(), amt))
		default:
			v2 := g.val()
			return one("redelegate", a, stakingtypes.NewMsgBeginRedelegate(a.Addr.String(), v.ValAddr.String(), v2.ValAddr.String(), amt))
		}
	case 29: // parameter updates from a non-authority (every module)
		a := g.acct()
		au := a.Addr.String()
		ms := []sdk.Msg{
			oracletypes.NewMsgUpdateParams(au, oracletypes.DefaultParams()),
			tsstypes.NewMsgUpdateParams(au, tsstypes.DefaultParams()),
			bandtsstypes.NewMsgUpdateParams(au, bandtsstypes.DefaultParams()),
			feedstypes.NewMsgUpdateParams(au, feedstypes.DefaultParams()),
			tunneltypes.NewMsgUpdateParams(au, tunneltypes.DefaultParams()),
			restaketypes.NewMsgUpdateParams(au, restaketypes.DefaultParams()),
			&globalfeetypes.MsgUpdateParams{Authority: au, Params: globalfeetypes.DefaultParams()},
		}
		return one("updateParamsNonAuth", a, ms[g.pick(len(ms))])
	case 30: // parameter updates through governance (values accepted by Validate)
		au := govAuthority()
		switch g.pick(6) {
		case 0:
			p := app.OracleKeeper.GetParams(ctx)
			p.ExpirationBlockCount = uint64(1 + g.pick(5))
			p.MaxAskCount = uint64(1 + g.pick(16))
			return g.proposal(ctx, oracletypes.NewMsgUpdateParams(au, p))
		case 1:
			p := app.TSSKeeper.GetParams(ctx)
			p.SigningPeriod = uint64(1 + g.pick(4))
			p.MaxSigningAttempt = uint64(g.pick(4))
			p.MaxDESize = uint64(1 + g.pick(50))
			return g.proposal(ctx, tsstypes.NewMsgUpdateParams(au, p))
		case 2:
			p := app.BandtssKeeper.GetParams(ctx)
			p.RewardPercentage = uint64(g.pick(101))
			p.FeePerSigner = uband(int64(g.pick(50)))
			return g.proposal(ctx, bandtsstypes.NewMsgUpdateParams(au, p))
		case 3:
			p := app.FeedsKeeper.GetParams(ctx)
			p.CurrentFeedsUpdateInterval = int64(1 + g.pick(4))
			p.MaxCurrentFeeds = uint64(g.pick(5))
			return g.proposal(ctx, feedstypes.NewMsgUpdateParams(au, p))
		case 4:
			p := app.TunnelKeeper.GetParams(ctx)
			p.MaxSignals = uint64(1 + g.pick(4))
			p.BasePacketFee = uband(int64(g.pick(100)))
			return g.proposal(ctx, tunneltypes.NewMsgUpdateParams(au, p))
		default:
			return g.proposal(ctx, &globalfeetypes.MsgUpdateParams{Authority: au, Params: globalfeetypes.Params{
				MinimumGasPrices: sdk.NewDecCoins(sdk.NewDecCoin("uband", sdkIntOf(int64(g.pick(3)))))}})
		}
	case 31: // plain transfers, sometimes in the second denom
		a, b := g.acct(), g.acct()
		c := uband(int64(1 + g.pick(1_000_000)))
		if g.chance(0.3) {
			c = sdk.NewCoins(sdk.NewInt64Coin("uabc", int64(1+g.pick(1000))))
		}
		return one("send", a, banktypes.NewMsgSend(a.Addr, b.Addr, c))
	case 32: // two unrelated messages in one transaction (atomicity of a failing second message)
		a := g.acct()
		m, err := bandtsstypes.NewMsgRequestSignature(tsstypes.NewTextSignatureOrder([]byte(fmt.Sprintf("pair-%d", g.step))), uband(500), a.Addr.String())
		if err != nil {
			return nil
		}
		return one("pair", a, m, restaketypes.NewMsgUnstake(a.Addr, uband(9_000_000_000)))
	default: // price submission with a stale / future timestamp or by an inactive validator
		v := g.val()
		ts := newTime.Unix() + int64(g.pick(200)) - 100
		return one("pricesOdd", v, feedstypes.NewMsgSubmitSignalPrices(v.ValAddr.String(), ts,
			[]feedstypes.SignalPrice{feedstypes.NewSignalPrice(feedstypes.SIGNAL_PRICE_STATUS_AVAILABLE, signalIDs[g.pick(4)], uint64(1+g.pick(1_000_000)))}))
	}
}

func (g *gen) byAddr(bech string) (world.Account, bool) {
	for _, l := range [][]world.Account{g.e.W.Accts, g.e.W.Vals, {g.e.W.Owner}} {
		for _, a := range l {
			if a.Addr.String() == bech {
				return a, true
			}
		}
	}
	return world.Account{}, false
}

func (g *gen) allAccounts() []world.Account {
	var out []world.Account
	out = append(out, g.e.W.Accts...)
	out = append(out, g.e.W.Vals...)
	out = append(out, g.e.W.Owner)
	return out
}

// classifyMsgs looks for parameter updates among the messages of a transaction (also inside
// governance proposals, whose messages may have been mutated) and names the listed finding their
// values are known to trigger. Input only: nothing is executed here.
func (g *gen) classifyMsgs(msgs []sdk.Msg) string {
	for _, m := range msgs {
		var inner []sdk.Msg
		if p, ok := m.(*govv1.MsgSubmitProposal); ok {
			for _, a := range p.Messages {
				if a == nil {
					continue
				}
				c, err := g.e.W.App.InterfaceRegistry().Resolve(a.TypeUrl)
				if err != nil || gogoproto.Unmarshal(a.Value, c) != nil {
					continue
				}
				if im, ok := c.(sdk.Msg); ok {
					inner = append(inner, im)
				}
			}
		} else {
			inner = []sdk.Msg{m}
		}
		for _, im := range inner {
			t := ""
			switch u := im.(type) {
			case *oracletypes.MsgUpdateParams:
				t = ClassifyParams(&u.Params, nil, nil, nil)
			case *bandtsstypes.MsgUpdateParams:
				t = ClassifyParams(nil, &u.Params, nil, nil)
			case *feedstypes.MsgUpdateParams:
				t = ClassifyParams(nil, nil, &u.Params, nil)
			case *tunneltypes.MsgUpdateParams:
				t = ClassifyParams(nil, nil, nil, &u.Params)
			}
			if t != "" {
				return t
			}
		}
	}
	return ""
}
