package fam_block

import (
	"math"
	"math/big"
	"reflect"
	"strings"
	"time"

	"cosmossdk.io/collections"
	sdkmath "cosmossdk.io/math"

	codectypes "github.com/cosmos/cosmos-sdk/codec/types"
	sdk "github.com/cosmos/cosmos-sdk/types"
	authtypes "github.com/cosmos/cosmos-sdk/x/auth/types"
	"github.com/cosmos/gogoproto/proto"

	"vdrive/world"
)

func collectionsPair(id uint64, a sdk.AccAddress) collections.Pair[uint64, sdk.AccAddress] {
	return collections.Join(id, a)
}

func sdkIntOf(v int64) sdkmath.Int { return sdkmath.NewInt(v) }

var (
	tInt  = reflect.TypeOf(sdkmath.Int{})
	tDec  = reflect.TypeOf(sdkmath.LegacyDec{})
	tTime = reflect.TypeOf(time.Time{})
	tAny  = reflect.TypeOf(&codectypes.Any{})
	tDur  = reflect.TypeOf(time.Duration(0))
)

// leaf is a settable place inside a message.
type leaf struct {
	v    reflect.Value
	path string
}

// leaves collects every mutable place of a message value: scalars, strings, byte strings, big
// integers, times, Any pointers, and slices as containers (plus, recursively, their elements).
func leaves(v reflect.Value, path string, out *[]leaf, depth int) {
	if depth > 6 || !v.CanSet() {
		return
	}
	t := v.Type()
	switch {
	case t == tInt || t == tDec || t == tTime || t == tAny:
		*out = append(*out, leaf{v, path})
		return
	}
	switch v.Kind() {
	case reflect.Uint64, reflect.Uint32, reflect.Int64, reflect.Int32, reflect.String, reflect.Bool:
		*out = append(*out, leaf{v, path})
	case reflect.Slice:
		*out = append(*out, leaf{v, path})
		if t.Elem().Kind() == reflect.Uint8 {
			return
		}
		for i := 0; i < v.Len() && i < 4; i++ {
			leaves(v.Index(i), path+"[]", out, depth+1)
		}
	case reflect.Struct:
		for i := 0; i < v.NumField(); i++ {
			f := t.Field(i)
			if f.PkgPath != "" || strings.HasPrefix(f.Name, "XXX_") {
				continue
			}
			leaves(v.Field(i), path+"."+f.Name, out, depth+1)
		}
	case reflect.Ptr:
		if !v.IsNil() && v.Elem().Kind() == reflect.Struct {
			leaves(v.Elem(), path, out, depth+1)
		}
	}
}

func bigPow2(n uint, minus int64) sdkmath.Int {
	b := new(big.Int).Lsh(big.NewInt(1), n)
	b.Sub(b, big.NewInt(minus))
	return sdkmath.NewIntFromBigInt(b)
}

// mutateMsg returns a copy of msg with one or two fields replaced by adversarial values; the
// description of what was done goes into the stats only.
func (g *gen) mutateMsg(msg sdk.Msg) (sdk.Msg, string) {
	pm, ok := msg.(proto.Message)
	if !ok {
		return msg, ""
	}
	cp, ok := cloneProto(pm).(sdk.Msg)
	if !ok {
		return msg, ""
	}
	var ls []leaf
	leaves(reflect.ValueOf(cp).Elem(), "", &ls, 0)
	if len(ls) == 0 {
		return msg, ""
	}
	n := 1
	if g.chance(0.25) {
		n = 2
	}
	var what []string
	for i := 0; i < n; i++ {
		l := ls[g.pick(len(ls))]
		if g.mutateLeaf(l) {
			what = append(what, l.path)
		}
	}
	return cp, strings.Join(what, ",")
}

func (g *gen) longString(n int) string { return strings.Repeat("A", n) }

func (g *gen) otherAddress() string {
	all := g.allAccounts()
	switch g.pick(8) {
	case 0:
		return ""
	case 1:
		return sdk.GetConfig().GetBech32AccountAddrPrefix() + "1notanaddress"
	case 2:
		return govAuthority()
	case 3:
		return authtypes.NewModuleAddress(authtypes.FeeCollectorName).String()
	case 4:
		return all[g.pick(len(all))].ValAddr.String()
	case 5:
		return world.NewAccount("nobody").Addr.String() // well formed, no account on chain
	default:
		return all[g.pick(len(all))].Addr.String()
	}
}

func (g *gen) mutateLeaf(l leaf) bool {
	v := l.v
	t := v.Type()
	switch {
	case t == tInt:
		opts := []sdkmath.Int{sdkmath.ZeroInt(), sdkmath.NewInt(-1), sdkmath.NewInt(1), sdkmath.NewInt(math.MaxInt64),
			bigPow2(63, 0), bigPow2(64, 1), bigPow2(64, 0), bigPow2(255, 1), bigPow2(256, 1), {}}
		v.Set(reflect.ValueOf(opts[g.pick(len(opts))]))
		return true
	case t == tDec:
		opts := []sdkmath.LegacyDec{sdkmath.LegacyZeroDec(), sdkmath.LegacyNewDec(-1), sdkmath.LegacyNewDec(math.MaxInt64), sdkmath.LegacySmallestDec()}
		v.Set(reflect.ValueOf(opts[g.pick(len(opts))]))
		return true
	case t == tTime:
		opts := []time.Time{{}, time.Unix(0, 0).UTC(), time.Unix(1, 0).UTC(), g.e.C.Time, g.e.C.Time.Add(-time.Hour), g.e.C.Time.Add(time.Second),
			g.e.C.Time.Add(1000 * time.Hour), time.Unix(253402300799, 0).UTC()}
		v.Set(reflect.ValueOf(opts[g.pick(len(opts))]))
		return true
	case t == tAny:
		switch g.pick(3) {
		case 0:
			v.Set(reflect.Zero(t))
		case 1: // an Any of a registered but unexpected type
			a, err := codectypes.NewAnyWithValue(&authtypes.BaseAccount{Address: g.otherAddress()})
			if err != nil {
				return false
			}
			v.Set(reflect.ValueOf(a))
		default: // keep the type, mutate the packed value
			a := v.Interface().(*codectypes.Any)
			if a == nil {
				return false
			}
			c, err := g.e.W.App.InterfaceRegistry().Resolve(a.TypeUrl)
			if err != nil || proto.Unmarshal(a.Value, c) != nil {
				return false
			}
			var ls []leaf
			leaves(reflect.ValueOf(c).Elem(), "", &ls, 0)
			if len(ls) == 0 {
				return false
			}
			g.mutateLeaf(ls[g.pick(len(ls))])
			na, err := codectypes.NewAnyWithValue(c)
			if err != nil {
				return false
			}
			v.Set(reflect.ValueOf(na))
		}
		return true
	}
	switch v.Kind() {
	case reflect.Uint64, reflect.Uint32:
		opts := []uint64{0, 1, 2, 3, math.MaxUint64, math.MaxInt64, uint64(math.MaxInt64) + 1, math.MaxUint32, uint64(math.MaxUint32) + 1, 999_999, v.Uint() + 1, v.Uint() - 1}
		x := opts[g.pick(len(opts))]
		if v.Kind() == reflect.Uint32 {
			x &= math.MaxUint32
		}
		v.SetUint(x)
	case reflect.Int64:
		if t == tDur {
			opts := []int64{0, 1, -1, math.MaxInt64, math.MinInt64, int64(time.Second)}
			v.SetInt(opts[g.pick(len(opts))])
			return true
		}
		opts := []int64{0, 1, -1, math.MaxInt64, math.MinInt64, math.MaxInt32, v.Int() + 1, v.Int() - 1, 999_999}
		v.SetInt(opts[g.pick(len(opts))])
	case reflect.Int32: // enums
		opts := []int64{0, 1, 2, 3, 4, 99, -1, math.MaxInt32}
		v.SetInt(opts[g.pick(len(opts))])
	case reflect.Bool:
		v.SetBool(!v.Bool())
	case reflect.String:
		s := v.String()
		if strings.HasPrefix(s, sdk.GetConfig().GetBech32AccountAddrPrefix()+"1") || strings.HasPrefix(s, sdk.GetConfig().GetBech32ValidatorAddrPrefix()+"1") || strings.HasSuffix(l.path, "Authority") {
			v.SetString(g.otherAddress())
			return true
		}
		opts := []string{"", " ", g.longString(33), g.longString(257), g.longString(5000), g.longString(120_000), s + s, "é世界", "uband", "../../etc/passwd", "channel-0"}
		v.SetString(opts[g.pick(len(opts))])
	case reflect.Slice:
		if t.Elem().Kind() == reflect.Uint8 {
			cur := v.Bytes()
			var nb []byte
			switch g.pick(7) {
			case 0:
				nb = nil
			case 1:
				nb = []byte{0}
			case 2:
				nb = make([]byte, 33)
			case 3:
				nb = []byte(g.longString(100_000))
			case 4: // flip one bit
				nb = append([]byte{}, cur...)
				if len(nb) > 0 {
					nb[g.pick(len(nb))] ^= 1 << uint(g.pick(8))
				}
			case 5: // truncate
				if len(cur) > 0 {
					nb = append([]byte{}, cur[:len(cur)-1]...)
				}
			default:
				nb = append(append([]byte{}, cur...), cur...)
			}
			v.Set(reflect.ValueOf(nb).Convert(t))
			return true
		}
		switch g.pick(5) {
		case 0:
			v.Set(reflect.Zero(t))
		case 1:
			v.Set(reflect.MakeSlice(t, 0, 0))
		case 2: // duplicate the elements (duplicates / unsorted coins / repeated ids)
			if v.Len() == 0 {
				return false
			}
			v.Set(reflect.AppendSlice(v, v))
		case 3: // many elements
			if v.Len() == 0 {
				return false
			}
			ns := reflect.MakeSlice(t, 0, 300)
			for i := 0; i < 300; i++ {
				ns = reflect.Append(ns, v.Index(i%v.Len()))
			}
			v.Set(ns)
		default: // one zero element appended
			v.Set(reflect.Append(v, reflect.Zero(t.Elem())))
		}
	default:
		return false
	}
	return true
}

// mutateAction perturbs the transaction envelope: gas, fee, signer, duplication.
func (g *gen) mutateAction(a *action) string {
	switch g.pick(8) {
	case 0:
		a.gas = []uint64{1, 1000, 30_000, 60_000, 90_000, math.MaxInt64, math.MaxUint64}[g.pick(7)]
		return "gas"
	case 1:
		fees := []sdk.Coins{nil, uband(1), {sdk.Coin{Denom: "uband", Amount: bigPow2(200, 0)}}, sdk.NewCoins(sdk.NewInt64Coin("unknown", 5)),
			sdk.NewCoins(sdk.NewInt64Coin("uabc", 7), sdk.NewInt64Coin("uband", 9))}
		a.fee = fees[g.pick(len(fees))]
		return "fee"
	case 2: // signed by somebody else than the message's signer
		all := g.allAccounts()
		a.signer = all[g.pick(len(all))]
		return "foreignSigner"
	case 3:
		a.dup = true
		return "duplicateTx"
	}
	return ""
}

// cloneProto copies a message through its wire form (gogoproto's Clone cannot merge custom types).
func cloneProto(pm proto.Message) proto.Message {
	bz, err := proto.Marshal(pm)
	if err != nil {
		return nil
	}
	cp, ok := reflect.New(reflect.TypeOf(pm).Elem()).Interface().(proto.Message)
	if !ok || proto.Unmarshal(bz, cp) != nil {
		return nil
	}
	return cp
}
