// Package fam_oraclefee drives real MsgRequestData on the Wasm4 oracle script (one raw request per
// listed data-source id, repeated ids allowed) with chosen fee limits and payer balances, and
// records the real bank balances of payers and treasuries after every step (OracleFee.tla, C13).
package fam_oraclefee

import (
	"fmt"
	"math/rand"

	sdkmath "cosmossdk.io/math"

	sdk "github.com/cosmos/cosmos-sdk/types"
	minttypes "github.com/cosmos/cosmos-sdk/x/mint/types"

	"github.com/bandprotocol/chain/v3/pkg/obi"
	"github.com/bandprotocol/chain/v3/testing/testdata"
	bandtsstypes "github.com/bandprotocol/chain/v3/x/bandtss/types"
	oracletypes "github.com/bandprotocol/chain/v3/x/oracle/types"
	tsstypes "github.com/bandprotocol/chain/v3/x/tss/types"

	tf "vdrive/tracefmt"
	"vdrive/tsskit"
	"vdrive/world"
)

const sigThreshold = 2 // threshold of the signing group: signing fee = fee_per_signer x 2

var denomOf = map[string]string{"u": "uband", "x": "uxyz"}

type Driver struct {
	w           *world.World
	W           *tf.Writer
	Traces      int
	Events      int
	Interesting int
	seen        map[string]bool
	payers      []world.Account
}

// xScale: one model unit of the second denom is 2*10^18 real units (an 18-decimals token): fees of 2 units asked three
// times, or a cost of a few units, are beyond int64 - amounts must be computed with arbitrary precision throughout
var xScale = sdkmath.NewIntWithDecimal(2, 18)

func xCoin(x int64) sdk.Coin { return sdk.NewCoin("uxyz", xScale.MulRaw(x)) }

func coins(u, x int64) sdk.Coins {
	return sdk.NewCoins(sdk.NewInt64Coin("uband", u), xCoin(x))
}

// xUnits converts a real amount of the second denom into model units (sentinel 999999 when it is no whole number of them
// or does not fit)
func xUnits(a sdkmath.Int) int {
	if !a.Mod(xScale).IsZero() || !a.Quo(xScale).IsInt64() || a.Quo(xScale).Int64() > 100000 {
		return 999999
	}
	return int(a.Quo(xScale).Int64())
}

func NewDriver(w *tf.Writer) *Driver {
	cfg := world.DefaultConfig()
	cfg.ExtraDenoms = []string{"uxyz"}
	cfg.NumTreasury = 3
	// must agree with TFee / TTreasuryOf in OracleFee_Trace.tla
	cfg.DataSources = []world.DataSourceSpec{
		{Fee: coins(1, 0), Treasury: 0, Content: "code1"},
		{Fee: coins(2, 1), Treasury: 1, Content: "code2"},
		{Fee: sdk.NewCoins(), Treasury: 2, Content: "code3"},
		{Fee: coins(0, 2), Treasury: 0, Content: "code4"},
	}
	d := &Driver{w: world.New(cfg), W: w, seen: map[string]bool{}}
	for _, n := range []string{"p1", "p2"} {
		a := world.NewAccount("payer-" + n)
		a.Name = n
		d.payers = append(d.payers, a)
	}
	// the first treasury also sends requests (for data sources that pay into it: a transfer to itself)
	d.payers = append(d.payers, d.w.Treasuries[0])
	return d
}

func (d *Driver) Close() { d.w.Close() }

func (d *Driver) project(r *world.Run) tf.M {
	bk := d.w.App.BankKeeper
	vec := func(a sdk.AccAddress) tf.M {
		return tf.M{"u": int(bk.GetBalance(r.Ctx, a, "uband").Amount.Int64()), "x": xUnits(bk.GetBalance(r.Ctx, a, "uxyz").Amount)}
	}
	bal := tf.M{}
	for _, p := range d.payers {
		bal[p.Name] = vec(p.Addr)
	}
	for _, t := range d.w.Treasuries {
		bal[t.Name] = vec(t.Addr)
	}
	bt := d.w.App.BandtssKeeper
	esc := int(bk.GetBalance(r.Ctx, bt.GetBandtssAccount(r.Ctx).GetAddress(), "uband").Amount.Int64())
	nsig := int(bt.GetSigningCount(r.Ctx))
	k := d.w.App.OracleKeeper
	n := k.GetRequestCount(r.Ctx)
	remain := tf.M{"u": 0, "x": 0}
	if n > 0 {
		if rq, err := k.GetRequest(r.Ctx, oracletypes.RequestID(n)); err == nil {
			remain = tf.M{"u": int(rq.FeeLimit.AmountOf("uband").Int64()), "x": xUnits(rq.FeeLimit.AmountOf("uxyz"))}
		}
	}
	return tf.M{"bal": bal, "nreq": int(n), "remain": remain, "esc": esc, "nsig": nsig}
}

func (d *Driver) RunScript(sc tf.Script) {
	r := d.w.Branch()
	r.BeginBlock(100)
	for _, v := range d.w.Vals {
		if o := r.Deliver(&oracletypes.MsgActivate{Validator: v.ValAddr.String()}); !o.OK() {
			panic(o.Err)
		}
	}
	// environment: a 2-of-3 signing group with plenty of nonce pairs is the current bandtss group; fee per signer of
	// this trace (the signing fee of a result is fee_per_signer x threshold)
	if sc.C == nil {
		sc.C = tf.M{}
	}
	fps := tf.Int(sc.C, "fps", 1)
	sc.C["sigFee"] = fps * sigThreshold
	bp := d.w.App.BandtssKeeper.GetParams(r.Ctx)
	bp.FeePerSigner = sdk.NewCoins()
	if fps > 0 {
		bp.FeePerSigner = sdk.NewCoins(sdk.NewInt64Coin("uband", int64(fps)))
	}
	bp.RewardPercentage = 0
	if err := d.w.App.BandtssKeeper.SetParams(r.Ctx, bp); err != nil {
		panic(err)
	}
	op := d.w.App.OracleKeeper.GetParams(r.Ctx)
	op.OracleRewardPercentage = 0 // no block rewards: treasuries and escrow move only by fees
	if err := d.w.App.OracleKeeper.SetParams(r.Ctx, op); err != nil {
		panic(err)
	}
	grp := tsskit.NewGroup("of-g1", sigThreshold, d.w.Accts[1:4])
	grp.Install(r.Ctx, d.w.App, bandtsstypes.ModuleName)
	grp.InstallAsCurrent(r.Ctx, d.w.App)
	for i, m := range grp.Members {
		var pubs []tsstypes.DE
		for j := 0; j < 40; j++ {
			pubs = append(pubs, tsskit.NewDE(fmt.Sprintf("of-%d-%d", i, j)).Pub())
		}
		if o := r.Deliver(&tsstypes.MsgSubmitDEs{DEs: pubs, Sender: m.Acc.Addr.String()}); !o.OK() {
			panic(fmt.Sprint("stock DEs: ", o.Err))
		}
	}
	// environment: payer balances of this trace
	b := tf.Sub(sc.C, "bal")
	for _, p := range d.payers {
		pb := tf.Sub(b, p.Name)
		c := coins(int64(tf.Int(pb, "u", 0)), int64(tf.Int(pb, "x", 0)))
		if !c.IsZero() {
			// minted for the payer (the scaled second denom is far beyond any genesis balance)
			if err := d.w.App.BankKeeper.MintCoins(r.Ctx, minttypes.ModuleName, c); err != nil {
				panic(err)
			}
			if err := d.w.App.BankKeeper.SendCoinsFromModuleToAccount(r.Ctx, minttypes.ModuleName, p.Addr, c); err != nil {
				panic(err)
			}
		}
	}
	d.W.Reset(sc.C, d.project(r), sc.Steps)
	d.Traces++
	d.Events++
	interesting := false
	var openIDs []oracletypes.RequestID
	for _, st := range sc.Steps {
		if tf.Str(st, "e", "Request") == "EndBlock" {
			// every open request is reported by all its validators and resolved by the end-blocker
			k := d.w.App.OracleKeeper
			for _, id := range openIDs {
				rq, err := k.GetRequest(r.Ctx, id)
				if err != nil {
					panic(err)
				}
				var reps []oracletypes.RawReport
				for _, raw := range rq.RawRequests {
					reps = append(reps, oracletypes.NewRawReport(raw.ExternalID, 0, []byte("a")))
				}
				for _, v := range rq.RequestedValidators {
					va, _ := sdk.ValAddressFromBech32(v)
					if o := r.Deliver(oracletypes.NewMsgReportData(id, reps, va)); !o.OK() {
						panic(fmt.Sprint("report failed: ", o.Err))
					}
				}
			}
			openIDs = nil
			o := r.EndBlock()
			ob := r.BeginBlock(1)
			d.W.Step("EndBlock", tf.M{}, tf.M{"ok": o.OK() && ob.OK()}, d.project(r))
			d.Events++
			continue
		}
		pn := tf.Str(st, "p", "p1")
		var payer world.Account
		for _, p := range d.payers {
			if p.Name == pn {
				payer = p
			}
		}
		ask := tf.Int(st, "ask", 1)
		var ids []int64
		srcs := tf.Ints(st, "srcs")
		for _, x := range srcs {
			ids = append(ids, int64(x))
		}
		lim := tf.Sub(st, "limit")
		lu, lx := tf.Int(lim, "u", 0), tf.Int(lim, "x", 0)
		limit := sdk.NewCoins()
		if lu > 0 {
			limit = limit.Add(sdk.NewInt64Coin("uband", int64(lu)))
		}
		if lx > 0 {
			limit = limit.Add(xCoin(int64(lx)))
		}
		calldata := obi.MustEncode(testdata.Wasm4Input{IDs: ids, Calldata: "x"})
		enc := tf.Bool(st, "enc", false)
		encoder := oracletypes.ENCODER_UNSPECIFIED
		if enc {
			encoder = oracletypes.ENCODER_PROTO
		}
		msg := oracletypes.NewMsgRequestData(world.ScriptW4, calldata, uint64(ask), 1, "c", limit, 100000, 300000, payer.Addr, encoder)
		o := r.Deliver(msg)
		if !o.OK() {
			interesting = true
		} else {
			openIDs = append(openIDs, oracletypes.RequestID(d.w.App.OracleKeeper.GetRequestCount(r.Ctx)))
		}
		d.W.Step("Request", tf.M{"p": pn, "ask": ask, "srcs": srcs, "limit": tf.M{"u": lu, "x": lx}, "enc": enc}, tf.M{"ok": o.OK()}, d.project(r))
		d.Events++
	}
	if interesting {
		h := sc.Hash()
		if !d.seen[h] {
			d.seen[h] = true
			d.Interesting++
		}
	}
}

var feeU = map[int]int{1: 1, 2: 2, 3: 0, 4: 0}
var feeX = map[int]int{1: 0, 2: 1, 3: 0, 4: 2}

// RandomScript: balances small, limits at cost-1 / cost / cost+1 around the exact cost.
func RandomScript(rng *rand.Rand) tf.Script {
	c := tf.M{"bal": tf.M{
		"p1": tf.M{"u": rng.Intn(12), "x": rng.Intn(12)},
		"p2": tf.M{"u": rng.Intn(30), "x": rng.Intn(30)},
		"t1": tf.M{"u": rng.Intn(8), "x": rng.Intn(8)},
	}, "fps": rng.Intn(3)}
	sig := 2 * c["fps"].(int)
	var steps []tf.M
	n := 2 + rng.Intn(6)
	for i := 0; i < n; i++ {
		ask := 1 + rng.Intn(3)
		k := 1 + rng.Intn(4)
		var srcs []int
		cu, cx := 0, 0
		for j := 0; j < k; j++ {
			ds := 1 + rng.Intn(4)
			if rng.Intn(12) == 0 {
				ds = 5 // unknown data source
			}
			srcs = append(srcs, ds)
			cu += ask * feeU[ds]
			cx += ask * feeX[ds]
		}
		lu := cu + rng.Intn(3) - 1
		lx := cx + rng.Intn(3) - 1
		if rng.Intn(3) == 0 {
			lu, lx = cu+rng.Intn(5), cx+rng.Intn(5)
		}
		enc := rng.Intn(2) == 0
		if enc && rng.Intn(2) == 0 {
			lu = cu + sig + rng.Intn(3) - 1 // what the data sources leave of the limit is around the signing fee
		}
		if lu < 0 {
			lu = 0
		}
		if lx < 0 {
			lx = 0
		}
		who := fmt.Sprintf("p%d", 1+rng.Intn(2))
		if rng.Intn(4) == 0 {
			who = "t1" // the payer is the treasury of ds1 and ds4
		}
		if i > 0 && rng.Intn(3) == 0 {
			steps = append(steps, tf.M{"e": "EndBlock"})
		}
		steps = append(steps, tf.M{"enc": enc, "p": who, "ask": ask, "srcs": srcs, "limit": tf.M{"u": lu, "x": lx}})
	}
	steps = append(steps, tf.M{"e": "EndBlock"})
	return tf.Script{Fam: "OracleFee", C: c, Steps: steps}
}
