package fam_feefree

import (
	"encoding/json"
	"math/rand"

	tf "vdrive/tracefmt"
)

// ---- script construction helpers (scripts are plain JSON: they are round-tripped before use) ----

type M = map[string]interface{}

func tx(signer, fee string, msgs ...M) M {
	return M{"e": "Tx", "signer": signer, "fee": fee, "gas": 400000, "msgs": msgs}
}
func txg(signer, fee string, gas int, msgs ...M) M {
	return M{"e": "Tx", "signer": signer, "fee": fee, "gas": gas, "msgs": msgs}
}
func blk() M              { return M{"e": "Block", "dt": 1} }
func chosen(k, req int) M { return M{"role": "chosen", "k": k, "req": req} }
func unchosen(req int) M  { return M{"role": "unchosen", "req": req} }
func report(val interface{}, req int) M {
	return M{"k": "report", "val": val, "req": req, "shape": "ok"}
}
func reportS(val interface{}, req int, shape string) M {
	return M{"k": "report", "val": val, "req": req, "shape": shape}
}
func price(val, shape string) M        { return M{"k": "price", "val": val, "shape": shape} }
func sig(mem interface{}, id int) M    { return M{"k": "sig", "mem": mem, "sig": id, "shape": "ok"} }
func sigBad(mem interface{}, id int) M { return M{"k": "sig", "mem": mem, "sig": id, "shape": "bad"} }
func assigned(k, id int) M             { return M{"role": "assigned", "k": k, "sig": id} }
func unassigned(id int) M              { return M{"role": "unassigned", "sig": id} }
func de(mem, shape string) M           { return M{"k": "de", "mem": mem, "shape": shape} }
func dkg1(mem, shape string) M         { return M{"k": "dkg1", "mem": mem, "shape": shape} }
func exec(g string, inner ...M) M      { return M{"k": "exec", "g": g, "inner": inner} }
func send(from interface{}) M          { return M{"k": "send", "from": from} }
func request(ask, min int) M           { return M{"k": "request", "ask": ask, "min": min, "from": "rq"} }
func reqsig() M                        { return M{"k": "reqsig", "from": "rq"} }
func grant(from interface{}, to, kind string, ttl int) M {
	return M{"k": "grant", "from": from, "to": to, "for": kind, "ttl": ttl}
}
func revoke(from interface{}, to, kind string) M {
	return M{"k": "revoke", "from": from, "to": to, "for": kind}
}
func vote(on bool) M { return M{"k": "vote", "on": on} }

// env: a paying environment transaction with a generous gas limit and exactly the required fee
func env(signer string, m M) M { return txg(signer, "at", bigGas, m) }

func consts(minp, localp int) M {
	return M{"minp": minp, "localp": localp, "exp": 4, "cooldown": 2, "maxde": 4, "preDE": 3, "sigperiod": 4, "dkgperiod": 6, "feediv": 3, "dkg": true, "v3ttl": 6}
}

func script(c M, steps ...M) tf.Script {
	b, err := json.Marshal(M{"fam": "FeeFree", "c": c, "steps": steps})
	if err != nil {
		panic(err)
	}
	var s tf.Script
	if err := json.Unmarshal(b, &s); err != nil {
		panic(err)
	}
	return s
}

// Fixed is the catalogue of hand-written scenarios (always played first).
func Fixed() []tf.Script {
	var out []tf.Script
	// 1. reports: entitled / not entitled, every fee class, duplicates before and after delivery
	out = append(out, script(consts(25, 0),
		env("rq", request(2, 1)), blk(),
		tx("self", "zero", report(chosen(1, 1), 1)),
		tx("self", "zero", report(chosen(1, 1), 1)), // same entitlement again before the first is delivered
		tx("self", "zero", report(unchosen(1), 1)),
		tx("self", "below", report(unchosen(1), 1)),
		tx("self", "at", report(unchosen(1), 1)),
		tx("self", "above", send("x1")),
		tx("self", "below", send("x1")),
		tx("g1", "zero", exec("g1", report(chosen(2, 1), 1))),
		tx("g2", "zero", exec("g2", report(chosen(2, 1), 1))),
		tx("x1", "zero", exec("x1", report(chosen(2, 1), 1))),
		blk(),
		tx("self", "zero", report(chosen(1, 1), 1)), // already reported
		tx("self", "at", report(chosen(1, 1), 1)),
		tx("g1", "zero", exec("g1", report(chosen(2, 1), 1))),
		tx("g1", "below", exec("g1", report(chosen(1, 1), 1))),
		tx("self", "zero", report(chosen(1, 1), 9)), // unknown request
		tx("self", "zero", reportS(chosen(1, 1), 1, "bad")),
		blk(),
	))
	// 2. mixed and nested
	out = append(out, script(consts(25, 0),
		env("rq", request(3, 2)), env("rq", request(3, 2)), blk(),
		tx("self", "zero", report("v1", 1), send("v1")),
		tx("self", "below", send("v1"), report("v1", 1)),
		tx("self", "at", report("v1", 1), send("v1")),
		tx("g1", "zero", exec("g1", report("v1", 2), report("v2", 2))),
		tx("g1", "zero", exec("g1", report("v1", 2), send("v1"))),
		tx("g1", "zero", exec("g1", report("v1", 2)), send("g1")),
		tx("g1", "zero", exec("g1", report("v1", 2)), exec("g1", report("v2", 1))),
		tx("g2", "zero", exec("g2", exec("g1", report("v2", 2)))),
		tx("g2", "zero", exec("g2", exec("x1", report("v2", 2)))),
		tx("g2", "zero", exec("g2", exec("g2", report("v2", 2)))),
		tx("g1", "zero", exec("g1", exec("g1", report("v2", 2)))),
		tx("x1", "zero", exec("x1", exec("g1", report("v2", 2)))),
		tx("v1", "zero", exec("v1", report("v1", 2))), // self-exec: no grant v1->v1
		tx("g1", "zero", exec("g1", report("v3", 2))), // v3's grant is still alive
		tx("self", "zero", report("v1", 2), report("v1", 2)),
		blk(),
		tx("g2", "zero", exec("g2", exec("g1", report("v2", 2)))),
		tx("g2", "zero", exec("g2", exec("g1", report("v2", 1)))),
		env("g1", revoke("g1", "g2", "exec")),
		blk(),
		tx("g2", "zero", exec("g2", exec("g1", report("v3", 1)))), // link g1->g2 revoked
		tx("g1", "zero", exec("g1", report("v3", 1))),
		blk(), blk(), blk(),
		tx("g1", "zero", exec("g1", report("v3", 1))), // by now v3's grant expired or the request did
		blk(),
	))
	// 3. expiry, stale grants, re-grant
	out = append(out, script(consts(25, 0),
		env("rq", request(2, 1)), blk(),
		tx("self", "zero", report(chosen(1, 1), 1)),
		env("v1", revoke("v1", "g1", "report")), env("v2", revoke("v2", "g1", "report")),
		blk(),
		tx("g1", "zero", exec("g1", report(chosen(2, 1), 1))),
		env("v1", grant("v1", "x1", "report", 2)), env("v2", grant("v2", "x1", "report", 2)),
		blk(),
		tx("x1", "zero", exec("x1", report(chosen(2, 1), 1))),
		blk(), blk(),
		tx("x1", "zero", exec("x1", report(chosen(2, 1), 1))), // grant (2 s) expired
		tx("self", "zero", report(chosen(2, 1), 1)),           // request expired too
		env("rq", request(1, 1)),
		blk(),
		tx("self", "zero", report(chosen(1, 2), 2)),
		tx("self", "zero", report(chosen(1, 2), 1)),
		blk(),
	))
	// 4. prices
	out = append(out, script(consts(25, 0),
		tx("self", "zero", price("v1", "ok")),
		tx("self", "zero", price("v1", "ok")),
		tx("g1", "zero", exec("g1", price("v1", "ok"))),
		tx("g1", "zero", exec("g1", price("v2", "ok"))),
		tx("self", "zero", price("v2", "bad")),
		tx("self", "zero", price("v2", "ok"), price("v2", "ok")),
		tx("self", "zero", price("v2", "ok"), send("v2")),
		tx("x1", "zero", price("v2", "ok")), // signed by a stranger
		blk(),
		tx("self", "zero", price("v1", "ok")), // cooldown
		tx("self", "at", price("v1", "ok")),
		tx("self", "zero", price("v2", "ok")),
		blk(), blk(),
		tx("self", "zero", price("v1", "ok")),
		env("v3", vote(false)),
		blk(), blk(), blk(),
		tx("self", "zero", price("v3", "ok")), // no current feed any more
		tx("self", "zero", price("v3", "bad")),
		blk(),
	))
	// 5. tss: signatures, nonce pairs, DKG round 1
	out = append(out, script(consts(25, 0),
		env("rq", reqsig()), blk(),
		tx("self", "zero", sig(assigned(1, 1), 1)),
		tx("self", "zero", sig(assigned(1, 1), 1), sig(assigned(1, 1), 1)),
		tx("self", "zero", sig(unassigned(1), 1)),
		tx("self", "zero", sigBad(assigned(2, 1), 1)),
		tx("x1", "zero", sig(assigned(2, 1), 1)),
		tx("g1", "zero", exec("g1", sig("m1", 1))),
		tx("g2", "zero", exec("g2", exec("g1", sig("m1", 1)))),
		tx("self", "zero", sig(assigned(2, 1), 2)), // unknown signing
		tx("self", "zero", de("m1", "ok")),
		tx("self", "zero", de("m2", "ok"), de("m2", "ok"), de("m2", "ok")),
		tx("self", "zero", de("x1", "ok")),
		tx("g1", "zero", exec("g1", de("m1", "ok"))),
		tx("g1", "zero", exec("g1", de("m2", "ok"))),
		tx("self", "zero", dkg1("m1", "ok")),
		tx("self", "zero", dkg1("m1", "ok"), dkg1("m1", "ok")),
		tx("self", "zero", dkg1("m2", "bad")),
		tx("self", "zero", dkg1("m3", "ok")),
		tx("g1", "zero", exec("g1", dkg1("m1", "ok"))),
		blk(),
		tx("self", "zero", sig(assigned(1, 1), 1)),
		tx("self", "zero", sig(assigned(2, 1), 1)),
		tx("self", "zero", dkg1("m1", "ok")),
		tx("self", "zero", dkg1("m2", "ok")),
		tx("self", "zero", de("m1", "ok")),
		blk(),
		tx("self", "zero", sig(assigned(2, 1), 1)), // signing finished
		tx("self", "zero", dkg1("m2", "ok")),       // round 1 over
		blk(),
	))
	// 6. the price rule: node price above the global one, ceil at an odd gas, poor payer, wrong signer
	out = append(out, script(consts(25, 50),
		env("rq", request(3, 3)), blk(),
		txg("self", "below", 200001, send("x1")),
		txg("self", "at", 200001, send("x1")),
		txg("self", "above", 200001, send("x1")),
		txg("self", "below", 200000, send("v2")),
		txg("self", "at", 200000, send("v2")),
		tx("self", "at", send("p1")),                // cannot afford the fee
		tx("p1", "at", exec("p1", report("v1", 1))), // exempt: not charged at CheckTx
		tx("p1", "zero", exec("p1", report("v1", 1))),
		tx("p1", "zero", exec("p1", report("v2", 1))), // no grant
		tx("x1", "zero", report("v2", 1)),             // exempt but signed by a stranger
		tx("x1", "zero", send("v2")),                  // fee decision comes first
		tx("x1", "at", send("v2")),
		blk(),
		tx("self", "zero", report("v3", 1)),
		blk(),
	))
	out = append(out, script(consts(0, 0),
		env("rq", request(2, 1)), blk(),
		tx("self", "zero", send("x1")),
		tx("self", "zero", report(unchosen(1), 1)),
		tx("self", "zero", report(chosen(1, 1), 1)),
		blk(),
	))
	out = append(out, script(consts(100, 0),
		env("rq", request(2, 1)), blk(),
		txg("self", "below", 100000, send("x1")),
		txg("self", "at", 100000, send("x1")),
		tx("self", "zero", report(chosen(1, 1), 1), report(chosen(2, 1), 1)), // two signers' messages, one signature
		tx("self", "zero", report(chosen(1, 1), 1)),
		blk(),
	))
	// 9. free messages that consume nothing / can never be delivered (see the report: leads, not violations of X02):
	// an empty price list and an empty nonce-pair list are admitted free again and again and succeed; an oversized
	// report passes the checker's CheckValidReport but is refused by the handler, so the entitlement is never spent
	out = append(out, script(consts(25, 0),
		env("rq", request(2, 1)), blk(),
		tx("self", "zero", price("v1", "empty")),
		tx("self", "zero", price("v1", "empty")),
		tx("g1", "zero", exec("g1", price("v1", "empty"))),
		tx("self", "zero", de("m1", "empty")),
		tx("self", "zero", de("m1", "empty"), de("m1", "empty")),
		tx("self", "zero", de("x1", "empty")),
		tx("self", "zero", reportS(chosen(1, 1), 1, "big")),
		blk(),
		tx("self", "zero", price("v1", "empty")),
		tx("self", "zero", de("m1", "empty")),
		tx("self", "zero", reportS(chosen(1, 1), 1, "big")),
		tx("self", "zero", price("v1", "ok")),
		blk(),
		tx("self", "zero", price("v1", "empty")), // still free during the cooldown of the real price
		tx("self", "zero", price("v1", "ok")),
		tx("self", "zero", reportS(chosen(1, 1), 1, "big")),
		blk(),
	))
	return out
}

// MultiDenom is the opt-in catalogue (vdrive feefree -mode multidenom, check id X02D): the node's own
// min-gas-prices name a denom that the global fee does not list.
func MultiDenom() []tf.Script {
	tx2 := func(signer, fee, fee2 string, msgs ...M) M {
		t := tx(signer, fee, msgs...)
		t["fee2"] = fee2
		return t
	}
	with := func(c M, q int) M { c["localq"] = q; return c }
	var out []tf.Script
	out = append(out, script(with(consts(25, 0), 10),
		func() M { t := env("rq", request(2, 1)); t["fee2"] = "at"; return t }(), blk(),
		tx2("self", "zero", "zero", report(chosen(1, 1), 1)), // exempt either way
		tx2("self", "at", "zero", send("x1")),                // pays the full global fee
		tx2("self", "zero", "at", send("x1")),                // pays nothing in the global fee's denom
		tx2("self", "zero", "below", send("x1")),
		tx2("self", "zero", "zero", send("x1")),
		blk(),
	))
	out = append(out, script(with(consts(25, 50), 10),
		tx2("self", "at", "zero", send("x1")),
		tx2("self", "below", "zero", send("x1")),
		tx2("self", "zero", "at", send("x1")),
		tx2("self", "below", "below", send("x1")),
		blk(),
	))
	return out
}

// ---- random scripts ----

func pick(rng *rand.Rand, xs ...string) string { return xs[rng.Intn(len(xs))] }

// RandomScript draws constants, then blocks of transactions.  The generator only knows how many
// requests / signings it has asked for so far; roles are resolved by the driver on the real state.
func RandomScript(rng *rand.Rand, ntx int) tf.Script {
	c := consts([]int{25, 25, 25, 100, 0}[rng.Intn(5)], []int{0, 0, 50}[rng.Intn(3)])
	c["exp"] = 3 + rng.Intn(3)
	c["cooldown"] = 1 + rng.Intn(3)
	c["v3ttl"] = 4 + rng.Intn(8)
	c["preDE"] = 2 + rng.Intn(3)
	var steps []M
	nreq, nsig := 0, 0
	vals := []string{"v1", "v2", "v3"}
	grantees := []string{"g1", "g1", "g2", "x1", "p1"}
	fees := func() string { return pick(rng, "zero", "zero", "zero", "below", "at", "above") }
	anyVal := func() interface{} {
		if nreq > 0 && rng.Intn(3) > 0 {
			r := 1 + rng.Intn(nreq)
			if rng.Intn(4) == 0 {
				return unchosen(r)
			}
			return chosen(1+rng.Intn(3), r)
		}
		return vals[rng.Intn(3)]
	}
	reqID := func() int {
		if nreq == 0 || rng.Intn(12) == 0 {
			return nreq + 1 + rng.Intn(3)
		}
		// recent requests are more likely to be open
		if rng.Intn(3) > 0 {
			return nreq
		}
		return 1 + rng.Intn(nreq)
	}
	freeLeaf := func() M {
		switch rng.Intn(10) {
		case 0, 1, 2, 3:
			id := reqID()
			v := anyVal()
			if m, ok := v.(M); ok {
				m["req"] = id
			}
			return reportS(v, id, pick(rng, "ok", "ok", "ok", "ok", "bad", "big"))
		case 4, 5:
			return price(vals[rng.Intn(3)], pick(rng, "ok", "ok", "ok", "bad", "empty"))
		case 6, 7:
			id := 1
			if nsig > 0 {
				id = 1 + rng.Intn(nsig)
			}
			var mem interface{} = assigned(1+rng.Intn(2), id)
			switch rng.Intn(5) {
			case 0:
				mem = unassigned(id)
			case 1:
				mem = pick(rng, "m1", "m2", "m3", "x1")
			}
			if rng.Intn(6) == 0 {
				return sigBad(mem, id)
			}
			return sig(mem, id)
		case 8:
			return de(pick(rng, "m1", "m2", "m3", "x1", "g1"), pick(rng, "ok", "ok", "ok", "empty"))
		default:
			return dkg1(pick(rng, "m1", "m2", "m3", "x1"), pick(rng, "ok", "ok", "bad"))
		}
	}
	var anyMsg func(depth int) M
	anyMsg = func(depth int) M {
		r := rng.Intn(10)
		switch {
		case r < 5 || depth >= 2:
			if rng.Intn(8) == 0 {
				return send(pick(rng, "v1", "v2", "g1", "x1", "m1"))
			}
			return freeLeaf()
		default:
			n := 1
			if rng.Intn(4) == 0 {
				n = 2
			}
			var in []M
			for i := 0; i < n; i++ {
				in = append(in, anyMsg(depth+1))
			}
			return exec(grantees[rng.Intn(len(grantees))], in...)
		}
	}
	count := 0
	for count < ntx {
		// environment
		switch rng.Intn(6) {
		case 0, 1:
			steps = append(steps, env("rq", request(1+rng.Intn(3), 1)))
			nreq++
			count++
		case 2:
			steps = append(steps, env("rq", reqsig()))
			nsig++
			count++
		case 3:
			g := pick(rng, "g1", "g2", "x1")
			k := pick(rng, "report", "report", "price", "sig", "de", "dkg1", "exec")
			from := pick(rng, "v1", "v2", "v3")
			if k == "sig" || k == "de" || k == "dkg1" {
				from = pick(rng, "m1", "m2", "m3")
			}
			if k == "exec" {
				from = pick(rng, "g1", "g2", "x1")
			}
			if rng.Intn(2) == 0 {
				steps = append(steps, env(from, grant(from, g, k, []int{1, 2, 4, 1000000}[rng.Intn(4)])))
			} else {
				steps = append(steps, env(from, revoke(from, g, k)))
			}
			count++
		case 4:
			if rng.Intn(4) == 0 {
				steps = append(steps, env("v3", vote(rng.Intn(2) == 0)))
				count++
			}
		}
		n := 1 + rng.Intn(5)
		for i := 0; i < n; i++ {
			var t M
			switch r := rng.Intn(20); {
			case r < 7: // looks entitled: a free leaf, direct or wrapped by the grantee chain that usually holds the grants
				leaf := freeLeaf()
				leaf["shape"] = "ok"
				switch rng.Intn(4) {
				case 0:
					t = tx("g1", "zero", exec("g1", leaf))
				case 1:
					t = tx("g2", "zero", exec("g2", exec("g1", leaf)))
				default:
					t = tx("self", "zero", leaf)
				}
				t["fee"] = pick(rng, "zero", "zero", "below", "at")
			case r < 10: // near miss: one thing off
				leaf := freeLeaf()
				switch rng.Intn(5) {
				case 0:
					t = tx("x1", "zero", exec("x1", leaf))
				case 1:
					t = tx("g2", "zero", exec("g2", leaf))
				case 2:
					t = tx("g2", "zero", exec("g2", exec(pick(rng, "x1", "g2", "p1"), leaf)))
				case 3:
					t = tx("g1", "zero", exec("g1", leaf, send(pick(rng, "v1", "g1"))))
				default:
					t = tx("p1", pick(rng, "zero", "at"), exec("p1", leaf))
				}
			case r < 13: // several messages of one signer: all free, or free + paying
				g := pick(rng, "g1", "g1", "g2")
				a, b := freeLeaf(), freeLeaf()
				switch rng.Intn(4) {
				case 0:
					t = tx(g, fees(), exec(g, a, b))
				case 1:
					t = tx(g, fees(), exec(g, a), exec(g, b))
				case 2:
					t = tx(g, fees(), exec(g, a), send(g))
				default:
					t = tx("self", fees(), a, a)
				}
			case r < 16: // paying messages on the fee ladder
				from := pick(rng, "v1", "v2", "x1", "g1", "m1", "p1")
				t = tx(from, pick(rng, "zero", "below", "at", "above"), send(from))
			default:
				nm := 1
				if rng.Intn(4) == 0 {
					nm = 2
				}
				var msgs []M
				for j := 0; j < nm; j++ {
					msgs = append(msgs, anyMsg(0))
				}
				signer := "self"
				if rng.Intn(15) == 0 {
					signer = pick(rng, "x1", "g1")
				}
				t = tx(signer, fees(), msgs...)
			}
			if rng.Intn(5) == 0 {
				t["gas"] = []int{200000, 200001, 300000, 1000000}[rng.Intn(4)]
			}
			steps = append(steps, t)
			count++
		}
		steps = append(steps, blk())
		if rng.Intn(5) == 0 {
			steps = append(steps, blk())
		}
	}
	return script(c, steps...)
}
