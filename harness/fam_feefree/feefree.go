// Package fam_feefree drives the real ante chain of BandApp (app/ante.go with the globalfee fee
// checker) for extension X02 (FeeFree.tla): which signed transactions does CheckTx admit below the
// minimum gas price, and for whom.
//
// Layer: L2.  Every scripted transaction is really signed, goes through app.CheckTx on the node's
// check state (the admission decision: the fee rule only runs when ctx.IsCheckTx()), and the admitted
// ones are delivered in the next real block (FinalizeBlock + Commit) so that reports get recorded,
// signatures counted, grants created/revoked, requests expire.  Nothing of the fee checker is
// re-implemented here: the driver logs the abstract shape of the tx (kinds, who, ids, nesting), the
// fee, the gas and the CheckTx code class; the projection is read through keeper getters that the fee
// checker does not use for its own decision where an independent one exists (authz IterateGrants).
package fam_feefree

import (
	"fmt"
	"sort"
	"strings"
	"time"

	abci "github.com/cometbft/cometbft/abci/types"
	cmtproto "github.com/cometbft/cometbft/proto/tendermint/types"

	sdkmath "cosmossdk.io/math"

	"github.com/cosmos/cosmos-sdk/baseapp"
	sdk "github.com/cosmos/cosmos-sdk/types"
	"github.com/cosmos/cosmos-sdk/types/tx/signing"
	authsign "github.com/cosmos/cosmos-sdk/x/auth/signing"
	"github.com/cosmos/cosmos-sdk/x/authz"
	banktypes "github.com/cosmos/cosmos-sdk/x/bank/types"

	band "github.com/bandprotocol/chain/v3/app"
	"github.com/bandprotocol/chain/v3/pkg/tss"
	bandtsstypes "github.com/bandprotocol/chain/v3/x/bandtss/types"
	feedstypes "github.com/bandprotocol/chain/v3/x/feeds/types"
	globalfeetypes "github.com/bandprotocol/chain/v3/x/globalfee/types"
	oracletypes "github.com/bandprotocol/chain/v3/x/oracle/types"
	tsstypes "github.com/bandprotocol/chain/v3/x/tss/types"

	tf "vdrive/tracefmt"
	"vdrive/tsskit"
	"vdrive/world"
)

const (
	PD         = 10000 // price denominator: prices are logged as price*PD
	signalID   = "CS:BAND-USD"
	otherDenom = "uabc" // sorts before "uband"
	groupT     = 2
	poorBal    = 300
	bigGas     = 5_000_000
)

type Stats struct {
	Traces, Events, Interesting int
	Txs                         int
	Class                       map[string]int // CheckTx classes
	Deliver                     map[string]int // deliver classes of admitted txs
	FreeKinds                   map[string]int // admitted below the minimum, by shape of the tx
	Distinct                    map[string]bool
}

type Driver struct {
	W  *tf.Writer
	St Stats
}

func NewDriver(w *tf.Writer) *Driver {
	return &Driver{W: w, St: Stats{Class: map[string]int{}, Deliver: map[string]int{}, FreeKinds: map[string]int{}, Distinct: map[string]bool{}}}
}

// kind <-> message type
var kindURL = map[string]string{
	"report":   sdk.MsgTypeURL(&oracletypes.MsgReportData{}),
	"price":    sdk.MsgTypeURL(&feedstypes.MsgSubmitSignalPrices{}),
	"sig":      sdk.MsgTypeURL(&tsstypes.MsgSubmitSignature{}),
	"de":       sdk.MsgTypeURL(&tsstypes.MsgSubmitDEs{}),
	"dkg1":     sdk.MsgTypeURL(&tsstypes.MsgSubmitDKGRound1{}),
	"exec":     sdk.MsgTypeURL(&authz.MsgExec{}),
	"send":     sdk.MsgTypeURL(&banktypes.MsgSend{}),
	"request":  sdk.MsgTypeURL(&oracletypes.MsgRequestData{}),
	"grant":    sdk.MsgTypeURL(&authz.MsgGrant{}),
	"revoke":   sdk.MsgTypeURL(&authz.MsgRevoke{}),
	"activate": sdk.MsgTypeURL(&oracletypes.MsgActivate{}),
	"reqsig":   sdk.MsgTypeURL(&bandtsstypes.MsgRequestSignature{}),
	"vote":     sdk.MsgTypeURL(&feedstypes.MsgVote{}),
}

func urlKind(url string) string {
	for k, u := range kindURL {
		if u == url {
			return k
		}
	}
	return "other"
}

type pendingTx struct {
	bz    []byte
	desc  tf.M
	class string
}

type session struct {
	d    *Driver
	w    *world.World
	c    *world.Chain
	sc   tf.Script
	acc  map[string]world.Account // short name -> account
	name map[string]string        // bech32 (acc or val) -> short name
	vals []string                 // v1..v3
	all  []string                 // every name, sorted

	grp   *tsskit.Group
	des   map[string]tsskit.DE
	deN   int
	dkgID tss.GroupID
	dkgM  []string
	nreqs int // oracle signature requests made (content numbering)

	pend        []pendingTx
	sawFree     bool
	sawRefFee   bool
	minp, locp  int64
	locq        int64
	lastProj    tf.M
	genesisUnix int64
}

// ---------------------------------------------------------------------------------------------
// world

func (d *Driver) newSession(sc tf.Script) *session {
	s := &session{d: d, sc: sc, acc: map[string]world.Account{}, name: map[string]string{}, des: map[string]tsskit.DE{}}
	s.minp = int64(tf.Int(sc.C, "minp", 25))
	s.locp = int64(tf.Int(sc.C, "localp", 0))
	s.locq = int64(tf.Int(sc.C, "localq", 0)) // node price in a denom the global fee does not list (opt-in: mode multidenom)
	exp := tf.Int(sc.C, "exp", 4)
	cooldown := tf.Int(sc.C, "cooldown", 2)
	maxDE := tf.Int(sc.C, "maxde", 4)
	sigPeriod := tf.Int(sc.C, "sigperiod", 4)
	dkgPeriod := tf.Int(sc.C, "dkgperiod", 6)
	feedIv := tf.Int(sc.C, "feediv", 3)

	wc := world.DefaultConfig()
	wc.NumAccounts = 9
	if s.locq > 0 {
		wc.ExtraDenoms = []string{otherDenom}
	}
	roles := []string{"m1", "m2", "m3", "g1", "g2", "x1", "p1", "rq", "sp"}
	accts := make([]world.Account, wc.NumAccounts)
	for i := range accts {
		accts[i] = world.NewAccount(fmt.Sprintf("acc%d", i+1))
		accts[i].Name = roles[i]
	}
	s.grp = tsskit.NewGroup("feefree-g1", groupT, accts[0:3])
	s.grp.ID = 1
	wc.Mutate = func(app *band.BandApp, gs band.GenesisState) {
		cdc := app.AppCodec()
		var og oracletypes.GenesisState
		var tg tsstypes.GenesisState
		var bg bandtsstypes.GenesisState
		var fg feedstypes.GenesisState
		var gg globalfeetypes.GenesisState
		cdc.MustUnmarshalJSON(gs[oracletypes.ModuleName], &og)
		cdc.MustUnmarshalJSON(gs[tsstypes.ModuleName], &tg)
		cdc.MustUnmarshalJSON(gs[bandtsstypes.ModuleName], &bg)
		cdc.MustUnmarshalJSON(gs[feedstypes.ModuleName], &fg)
		cdc.MustUnmarshalJSON(gs[globalfeetypes.ModuleName], &gg)

		og.Params.ExpirationBlockCount = uint64(exp)
		tg.Params.MaxDESize = uint64(maxDE)
		tg.Params.SigningPeriod = uint64(sigPeriod)
		tg.Params.CreationPeriod = uint64(dkgPeriod)
		tg.Params.MaxSigningAttempt = 2
		fg.Params.CooldownTime = int64(cooldown)
		fg.Params.PowerStepThreshold = 1000
		fg.Params.CurrentFeedsUpdateInterval = int64(feedIv)
		fg.Params.MinInterval = 1
		fg.Params.MaxInterval = 30
		fg.Params.Admin = world.NewAccount("owner").Addr.String()
		// environment: validator 3 votes for the signal, so that there is one current feed from genesis on
		v3 := world.NewAccount("val3")
		fg.Votes = append(fg.Votes, feedstypes.Vote{Voter: v3.Addr.String(), Signals: []feedstypes.Signal{feedstypes.NewSignal(signalID, 1_000_000)}})
		if s.minp > 0 {
			gg.Params.MinimumGasPrices = sdk.DecCoins{sdk.NewDecCoinFromDec("uband", sdkmath.LegacyNewDecWithPrec(s.minp, 4))}
		} else {
			gg.Params.MinimumGasPrices = sdk.DecCoins{}
		}
		// environment: one trusted-dealer group as the current bandtss group (DKG is C04's subject)
		g := s.grp
		tg.Groups = append(tg.Groups, tsstypes.NewGroup(g.ID, uint64(g.N), uint64(g.T), g.PubKey, tsstypes.GROUP_STATUS_ACTIVE, 1, bandtsstypes.ModuleName))
		for _, m := range g.Members {
			tg.Members = append(tg.Members, tsstypes.NewMember(m.ID, g.ID, m.Acc.Addr, m.Pub, false, true))
			bg.Members = append(bg.Members, bandtsstypes.NewMember(m.Acc.Addr, g.ID, true, wc.GenesisTime))
		}
		bg.CurrentGroup = bandtsstypes.NewCurrentGroup(g.ID, wc.GenesisTime)

		gs[oracletypes.ModuleName] = cdc.MustMarshalJSON(&og)
		gs[tsstypes.ModuleName] = cdc.MustMarshalJSON(&tg)
		gs[bandtsstypes.ModuleName] = cdc.MustMarshalJSON(&bg)
		gs[feedstypes.ModuleName] = cdc.MustMarshalJSON(&fg)
		gs[globalfeetypes.ModuleName] = cdc.MustMarshalJSON(&gg)
	}
	s.w = world.New(wc)
	s.genesisUnix = wc.GenesisTime.Unix()
	for i, v := range s.w.Vals {
		n := fmt.Sprintf("v%d", i+1)
		s.acc[n] = v
		s.vals = append(s.vals, n)
	}
	for i, a := range s.w.Accts {
		a.Name = roles[i]
		s.acc[roles[i]] = a
	}
	s.acc["ow"] = s.w.Owner
	s.acc["zz"] = world.NewAccount("feefree-nobody") // stands for any address outside the cast
	for n, a := range s.acc {
		s.name[a.Addr.String()] = n
		s.name[a.ValAddr.String()] = n
		s.all = append(s.all, n)
	}
	sort.Strings(s.all)
	// the node's own min-gas-prices (app.toml `minimum-gas-prices`): picked up by the check state at the next Commit
	var node []string
	if s.locq > 0 {
		node = append(node, sdkmath.LegacyNewDecWithPrec(s.locq, 4).String()+otherDenom)
	}
	if s.locp > 0 {
		node = append(node, sdkmath.LegacyNewDecWithPrec(s.locp, 4).String()+"uband")
	}
	if len(node) > 0 {
		baseapp.SetMinGasPrices(strings.Join(node, ","))(s.w.App.BaseApp)
	}
	s.c = s.w.L2()
	for i, v := range s.w.Vals {
		s.c.Votes = append(s.c.Votes, abci.VoteInfo{
			Validator:   abci.Validator{Address: v.Pub.Address().Bytes(), Power: wc.ValTokens[i] / 1_000_000},
			BlockIdFlag: cmtproto.BlockIDFlagCommit,
		})
	}
	return s
}

func (s *session) app() *band.BandApp { return s.w.App }

// checkCtx is the node's check state (what CheckTx runs on).
func (s *session) checkCtx() sdk.Context { return s.app().GetContextForCheckTx(nil) }

func (s *session) nm(bech string) string {
	if n, ok := s.name[bech]; ok {
		return n
	}
	return "zz"
}

// ---------------------------------------------------------------------------------------------
// signing with an explicit sequence (the check state's: what CheckTx expects next)

func (s *session) signTx(signer world.Account, seq uint64, gas uint64, fee sdk.Coins, msgs ...sdk.Msg) ([]byte, error) {
	app := s.app()
	ctx := s.c.Query()
	acc := app.AccountKeeper.GetAccount(ctx, signer.Addr)
	if acc == nil {
		return nil, fmt.Errorf("unknown account %s", signer.Name)
	}
	txCfg := app.GetTxConfig()
	signMode, err := authsign.APISignModeToInternal(txCfg.SignModeHandler().DefaultMode())
	if err != nil {
		return nil, err
	}
	b := txCfg.NewTxBuilder()
	if err := b.SetMsgs(msgs...); err != nil {
		return nil, err
	}
	b.SetGasLimit(gas)
	b.SetFeeAmount(fee)
	sig := signing.SignatureV2{PubKey: signer.Pub, Data: &signing.SingleSignatureData{SignMode: signMode}, Sequence: seq}
	if err := b.SetSignatures(sig); err != nil {
		return nil, err
	}
	sd := authsign.SignerData{Address: signer.Addr.String(), ChainID: s.w.Cfg.ChainID, AccountNumber: acc.GetAccountNumber(), Sequence: seq, PubKey: signer.Pub}
	signBytes, err := authsign.GetSignBytesAdapter(ctx, txCfg.SignModeHandler(), signMode, sd, b.GetTx())
	if err != nil {
		return nil, err
	}
	sigBz, err := signer.Priv.Sign(signBytes)
	if err != nil {
		return nil, err
	}
	sig.Data.(*signing.SingleSignatureData).Signature = sigBz
	if err := b.SetSignatures(sig); err != nil {
		return nil, err
	}
	return txCfg.TxEncoder()(b.GetTx())
}

func (s *session) checkSeq(a world.Account) uint64 {
	if acc := s.app().AccountKeeper.GetAccount(s.checkCtx(), a.Addr); acc != nil {
		return acc.GetSequence()
	}
	return 0
}

// ---------------------------------------------------------------------------------------------
// preamble: environment set up through real transactions put into blocks by the proposer

func uband(n int64) sdk.Coins {
	if n <= 0 {
		return sdk.Coins{}
	}
	return sdk.NewCoins(sdk.NewInt64Coin("uband", n))
}

func (s *session) grantMsg(from, to, kind string, ttl int64) sdk.Msg {
	exp := s.c.Time.Add(time.Duration(ttl) * time.Second)
	m, err := authz.NewMsgGrant(s.acc[from].Addr, s.acc[to].Addr, authz.NewGenericAuthorization(kindURL[kind]), &exp)
	if err != nil {
		panic(err)
	}
	return m
}

func (s *session) newDE(owner string) tsstypes.DE {
	s.deN++
	de := tsskit.NewDE(fmt.Sprintf("feefree-%s-%d", owner, s.deN))
	s.des[de.Key()] = de
	return de.Pub()
}

// direct puts txs into a block without CheckTx (a proposer may include anything; DeliverTx has no minimum fee).
func (s *session) direct(dt int64, txs ...[]byte) {
	res, _ := s.c.RunBlock(dt, txs)
	if res.Err != "none" {
		panic(fmt.Sprint("preamble block failed: ", res.Err, " ", res.Detail))
	}
	for i, t := range res.Txs {
		if t.Code != 0 {
			panic(fmt.Sprintf("preamble tx %d failed: code %d space %s", i, t.Code, t.Space))
		}
	}
}

func (s *session) preamble() {
	app := s.app()
	dkg := tf.Bool(s.sc.C, "dkg", true)
	if dkg {
		// environment: a second group in DKG round 1, created through the keeper API x/bandtss calls
		hdr := s.w.BaseHeader
		ctx := app.NewUncachedContext(false, hdr).WithHeaderHash(world.BlockHash(1))
		s.dkgM = []string{"m1", "m2"}
		gid, err := app.TSSKeeper.CreateGroup(ctx, []sdk.AccAddress{s.acc["m1"].Addr, s.acc["m2"].Addr}, 2, bandtsstypes.ModuleName)
		if err != nil {
			panic(err)
		}
		s.dkgID = gid
	}
	var txs [][]byte
	seqs := map[string]uint64{}
	add := func(who string, msgs ...sdk.Msg) {
		a := s.acc[who]
		if _, ok := seqs[who]; !ok {
			seqs[who] = app.AccountKeeper.GetAccount(s.c.Query(), a.Addr).GetSequence()
		}
		bz, err := s.signTx(a, seqs[who], bigGas, nil, msgs...)
		if err != nil {
			panic(err)
		}
		seqs[who]++
		txs = append(txs, bz)
	}
	for _, v := range s.vals {
		add(v, &oracletypes.MsgActivate{Validator: s.acc[v].ValAddr.String()})
	}
	nde := tf.Int(s.sc.C, "preDE", 3)
	for _, m := range []string{"m1", "m2", "m3"} {
		var des []tsstypes.DE
		for i := 0; i < nde; i++ {
			des = append(des, s.newDE(m))
		}
		if len(des) > 0 {
			add(m, tsstypes.NewMsgSubmitDEs(des, s.acc[m].Addr.String()))
		}
	}
	const long = 1_000_000
	add("v1", s.grantMsg("v1", "g1", "report", long), s.grantMsg("v1", "g1", "price", long), s.grantMsg("v1", "p1", "report", long))
	add("v2", s.grantMsg("v2", "g1", "report", long))
	add("v3", s.grantMsg("v3", "g1", "report", int64(tf.Int(s.sc.C, "v3ttl", 6)))) // a grant that expires during the script
	add("m1", s.grantMsg("m1", "g1", "sig", long), s.grantMsg("m1", "g1", "de", long), s.grantMsg("m1", "g1", "dkg1", long))
	add("g1", s.grantMsg("g1", "g2", "exec", long))
	// the poor account keeps poorBal
	bal := app.BankKeeper.GetBalance(s.c.Query(), s.acc["p1"].Addr, "uband").Amount.Int64()
	add("p1", banktypes.NewMsgSend(s.acc["p1"].Addr, s.acc["sp"].Addr, uband(bal-poorBal)))
	s.direct(1, txs...)
	s.direct(1)
}

// ---------------------------------------------------------------------------------------------
// projection

func sortedCopy(xs []string) []string {
	out := append([]string{}, xs...)
	sort.Strings(out)
	return out
}

// project reads the state the spec speaks about.  ctx = the state whose message-level content is
// read (check state after a Check, committed state after a Block); balances always come from the
// committed state (the check state's balances move with deducted fees: logged per tx as "cb").
func (s *session) project(ctx sdk.Context) (out tf.M) {
	app := s.app()
	out = tf.M{}
	defer func() {
		if p := recover(); p != nil {
			out["projPanic"] = fmt.Sprint(p)
		}
	}()
	out["h"] = ctx.BlockHeight()
	out["now"] = ctx.BlockTime().Unix() - s.genesisUnix
	mp := app.GlobalFeeKeeper.GetParams(ctx).MinimumGasPrices.AmountOf("uband")
	out["minp"] = mp.MulInt64(PD).TruncateInt64()
	out["localp"] = s.checkCtx().MinGasPrices().AmountOf("uband").MulInt64(PD).TruncateInt64()
	out["localq"] = s.checkCtx().MinGasPrices().AmountOf(otherDenom).MulInt64(PD).TruncateInt64()

	bonded, active, cool := []string{}, []string{}, []string{}
	fp := app.FeedsKeeper.GetParams(ctx)
	for _, v := range s.vals {
		va := s.acc[v].ValAddr
		if val, err := app.StakingKeeper.GetValidator(ctx, va); err == nil && val.IsBonded() {
			bonded = append(bonded, v)
		}
		if app.OracleKeeper.GetValidatorStatus(ctx, va).IsActive {
			active = append(active, v)
		}
		if pl, err := app.FeedsKeeper.GetValidatorPriceList(ctx, va); err == nil {
			for _, p := range pl.ValidatorPrices {
				if p.SignalID == signalID && p.SignalPriceStatus != feedstypes.SIGNAL_PRICE_STATUS_UNSPECIFIED &&
					ctx.BlockTime().Unix() < p.Timestamp+fp.CooldownTime {
					cool = append(cool, v)
				}
			}
		}
	}
	out["bonded"], out["active"], out["cool"] = bonded, active, cool
	feedOn := false
	for _, f := range app.FeedsKeeper.GetCurrentFeeds(ctx).Feeds {
		if f.SignalID == signalID {
			feedOn = true
		}
	}
	out["feedOn"] = feedOn

	grants := []tf.M{}
	app.AuthzKeeper.IterateGrants(ctx, func(granter, grantee sdk.AccAddress, g authz.Grant) bool {
		if g.Expiration != nil && g.Expiration.Before(ctx.BlockTime()) {
			return false
		}
		a, err := g.GetAuthorization()
		if err != nil || a == nil {
			return false
		}
		grants = append(grants, tf.M{"granter": s.nm(granter.String()), "grantee": s.nm(grantee.String()), "k": urlKind(a.MsgTypeURL())})
		return false
	})
	sort.Slice(grants, func(i, j int) bool {
		ki := fmt.Sprint(grants[i]["granter"], "|", grants[i]["grantee"], "|", grants[i]["k"])
		kj := fmt.Sprint(grants[j]["granter"], "|", grants[j]["grantee"], "|", grants[j]["k"])
		return ki < kj
	})
	out["grants"] = grants

	nreq := int(app.OracleKeeper.GetRequestCount(ctx))
	reqs := []tf.M{}
	for id := 1; id <= nreq; id++ {
		r, err := app.OracleKeeper.GetRequest(ctx, oracletypes.RequestID(id))
		if err != nil {
			reqs = append(reqs, tf.M{"present": false, "vals": []string{}, "rep": []string{}})
			continue
		}
		vals, rep := []string{}, []string{}
		for _, v := range r.RequestedValidators {
			vals = append(vals, s.nm(v))
		}
		for _, rp := range app.OracleKeeper.GetReports(ctx, oracletypes.RequestID(id)) {
			rep = append(rep, s.nm(rp.Validator))
		}
		reqs = append(reqs, tf.M{"present": true, "vals": sortedCopy(vals), "rep": sortedCopy(rep)})
	}
	out["nreq"], out["req"] = nreq, reqs

	cur := app.BandtssKeeper.GetCurrentGroup(ctx).GroupID
	inc := app.BandtssKeeper.GetIncomingGroupID(ctx)
	members := []string{}
	room := tf.M{}
	maxDE := int64(app.TSSKeeper.GetParams(ctx).MaxDESize)
	bal := tf.M{}
	committed := s.c.Query()
	for _, n := range s.all {
		a := s.acc[n].Addr
		if (cur != 0 && app.BandtssKeeper.HasMember(ctx, a, cur)) || (inc != 0 && app.BandtssKeeper.HasMember(ctx, a, inc)) {
			members = append(members, n)
		}
		q := app.TSSKeeper.GetDEQueue(ctx, a)
		r := maxDE - int64(q.Tail-q.Head)
		if r < 0 {
			r = 0
		}
		if r > 64 {
			r = 64
		}
		room[n] = r
		b := app.BankKeeper.GetBalance(committed, a, "uband").Amount
		if b.IsInt64() && b.Int64() < 2_000_000_000 {
			bal[n] = b.Int64()
		} else {
			bal[n] = 2_000_000_000
		}
	}
	out["members"], out["room"], out["bal"] = members, room, bal

	nsig := int(app.TSSKeeper.GetSigningCount(ctx))
	sgs := []tf.M{}
	for id := 1; id <= nsig; id++ {
		rec := tf.M{"waiting": false, "assigned": []string{}, "signed": []string{}}
		if sg, err := app.TSSKeeper.GetSigning(ctx, tss.SigningID(id)); err == nil {
			rec["waiting"] = sg.Status == tsstypes.SIGNING_STATUS_WAITING
			if sa, err := app.TSSKeeper.GetSigningAttempt(ctx, sg.ID, sg.CurrentAttempt); err == nil {
				as, sd := []string{}, []string{}
				for _, am := range sa.AssignedMembers {
					as = append(as, s.nm(am.Address))
					if app.TSSKeeper.HasPartialSignature(ctx, sg.ID, sa.Attempt, am.MemberID) {
						sd = append(sd, s.nm(am.Address))
					}
				}
				rec["assigned"], rec["signed"] = sortedCopy(as), sortedCopy(sd)
			}
		}
		sgs = append(sgs, rec)
	}
	out["nsig"], out["sgn"] = nsig, sgs

	dk := tf.M{"round1": false, "mem": []string{}, "done": []string{}}
	if s.dkgID != 0 {
		if g, err := app.TSSKeeper.GetGroup(ctx, s.dkgID); err == nil {
			dk["round1"] = g.Status == tsstypes.GROUP_STATUS_ROUND_1
			mem, done := []string{}, []string{}
			if ms, err := app.TSSKeeper.GetGroupMembers(ctx, s.dkgID); err == nil {
				for _, m := range ms {
					mem = append(mem, s.nm(m.Address))
					if app.TSSKeeper.HasRound1Info(ctx, s.dkgID, m.ID) {
						done = append(done, s.nm(m.Address))
					}
				}
			}
			dk["mem"], dk["done"] = sortedCopy(mem), sortedCopy(done)
		}
	}
	out["dkg"] = dk
	s.lastProj = out
	return out
}

// facts lists, for a human reading a replay, what the recorded state BEFORE the tx says about every leaf
// and every grant link of the tx (informational: the spec evaluates the same on its own variables).
func (s *session) facts(descs []tf.M) []string {
	st := s.lastProj
	if st == nil {
		return nil
	}
	has := func(list interface{}, n string) bool {
		if xs, ok := list.([]string); ok {
			for _, x := range xs {
				if x == n {
					return true
				}
			}
		}
		return false
	}
	granted := func(granter, grantee, k string) bool {
		if gs, ok := st["grants"].([]tf.M); ok {
			for _, g := range gs {
				if g["granter"] == granter && g["grantee"] == grantee && g["k"] == k {
					return true
				}
			}
		}
		return false
	}
	var out []string
	var walk func(d tf.M)
	walk = func(d tf.M) {
		k, who := fmt.Sprint(d["k"]), fmt.Sprint(d["who"])
		id, _ := d["id"].(int)
		switch k {
		case "exec":
			for _, in := range d["inner"].([]tf.M) {
				out = append(out, fmt.Sprintf("grant %s->%s for %s: %v", in["who"], who, in["k"], granted(fmt.Sprint(in["who"]), who, fmt.Sprint(in["k"]))))
				walk(in)
			}
		case "report":
			f := fmt.Sprintf("report %s #%d: request absent", who, id)
			if reqs, ok := st["req"].([]tf.M); ok && id >= 1 && id <= len(reqs) && reqs[id-1]["present"] == true {
				f = fmt.Sprintf("report %s #%d: open, chosen=%v, reported=%v", who, id, has(reqs[id-1]["vals"], who), has(reqs[id-1]["rep"], who))
			}
			out = append(out, f)
		case "price":
			out = append(out, fmt.Sprintf("price %s: bonded=%v active=%v cooldown=%v feed=%v", who, has(st["bonded"], who), has(st["active"], who), has(st["cool"], who), st["feedOn"]))
		case "sig":
			f := fmt.Sprintf("sig %s #%d: no such signing", who, id)
			if sgs, ok := st["sgn"].([]tf.M); ok && id >= 1 && id <= len(sgs) {
				f = fmt.Sprintf("sig %s #%d: waiting=%v assigned=%v signed=%v", who, id, sgs[id-1]["waiting"], has(sgs[id-1]["assigned"], who), has(sgs[id-1]["signed"], who))
			}
			out = append(out, f)
		case "de":
			room := interface{}("?")
			if r, ok := st["room"].(tf.M); ok {
				room = r[who]
			}
			out = append(out, fmt.Sprintf("de %s: member=%v room=%v", who, has(st["members"], who), room))
		case "dkg1":
			if dk, ok := st["dkg"].(tf.M); ok {
				out = append(out, fmt.Sprintf("dkg1 %s: round1=%v member=%v submitted=%v", who, dk["round1"], has(dk["mem"], who), has(dk["done"], who)))
			}
		default:
			out = append(out, fmt.Sprintf("%s %s: paying kind", k, who))
		}
	}
	for _, d := range descs {
		walk(d)
	}
	return out
}

// ---------------------------------------------------------------------------------------------
// building messages from role-relative specs

// valOf resolves a validator role against the committed state.
func (s *session) valOf(v interface{}, req int) string {
	switch x := v.(type) {
	case string:
		if _, ok := s.acc[x]; ok {
			return x
		}
	case map[string]interface{}:
		role := tf.Str(x, "role", "chosen")
		k := tf.Int(x, "k", 1)
		r := tf.Int(x, "req", req)
		chosen := []string{}
		if rq, err := s.app().OracleKeeper.GetRequest(s.c.Query(), oracletypes.RequestID(r)); err == nil {
			for _, v := range rq.RequestedValidators {
				chosen = append(chosen, s.nm(v))
			}
		}
		in := func(n string) bool {
			for _, c := range chosen {
				if c == n {
					return true
				}
			}
			return false
		}
		switch role {
		case "chosen":
			if len(chosen) > 0 {
				return chosen[(k-1)%len(chosen)]
			}
		case "unchosen":
			for _, n := range s.vals {
				if !in(n) {
					return n
				}
			}
		}
	}
	return "v1"
}

// memOf resolves a member role of a signing against the committed state.
func (s *session) memOf(v interface{}, sid int) string {
	switch x := v.(type) {
	case string:
		if _, ok := s.acc[x]; ok {
			return x
		}
	case map[string]interface{}:
		role := tf.Str(x, "role", "assigned")
		k := tf.Int(x, "k", 1)
		id := tf.Int(x, "sig", sid)
		as := []string{}
		tk := s.app().TSSKeeper
		ctx := s.c.Query()
		if sg, err := tk.GetSigning(ctx, tss.SigningID(id)); err == nil {
			if sa, err := tk.GetSigningAttempt(ctx, sg.ID, sg.CurrentAttempt); err == nil {
				for _, am := range sa.AssignedMembers {
					as = append(as, s.nm(am.Address))
				}
			}
		}
		in := func(n string) bool {
			for _, c := range as {
				if c == n {
					return true
				}
			}
			return false
		}
		switch role {
		case "assigned":
			if len(as) > 0 {
				return as[(k-1)%len(as)]
			}
		case "unassigned":
			for _, n := range []string{"m1", "m2", "m3"} {
				if !in(n) {
					return n
				}
			}
		}
	}
	return "m1"
}

func junkSig(seed string) tss.Signature {
	sig := append(tss.Signature{}, tsskit.ScalarFromSeed(seed+"r").Point()...)
	return append(sig, tsskit.ScalarFromSeed(seed+"s")...)
}

// build turns a message spec into the real message and its abstract description
// {k, who, id, shape, inner}.
func (s *session) build(m tf.M) (sdk.Msg, tf.M) {
	app := s.app()
	ctx := s.c.Query()
	k := tf.Str(m, "k", "send")
	shape := tf.Str(m, "shape", "ok")
	leaf := func(who string, id int) tf.M {
		return tf.M{"k": k, "who": who, "id": id, "shape": shape, "inner": []tf.M{}}
	}
	switch k {
	case "report":
		id := tf.Int(m, "req", 1)
		v := s.valOf(m["val"], id)
		eids := []oracletypes.ExternalID{1, 2, 3}
		if rq, err := app.OracleKeeper.GetRequest(ctx, oracletypes.RequestID(id)); err == nil {
			eids = nil
			for _, rr := range rq.RawRequests {
				eids = append(eids, rr.ExternalID)
			}
		}
		data := []byte("ans")
		switch shape {
		case "bad": // wrong number of raw reports
			if len(eids) > 1 {
				eids = eids[:len(eids)-1]
			} else {
				eids = append(eids, 77)
			}
		case "big":
			data = []byte(strings.Repeat("x", int(app.OracleKeeper.GetParams(ctx).MaxReportDataSize)+1))
		default:
			shape = "ok"
		}
		var raws []oracletypes.RawReport
		for _, e := range eids {
			raws = append(raws, oracletypes.NewRawReport(e, 0, data))
		}
		d := leaf(v, id)
		d["shape"] = shape
		return oracletypes.NewMsgReportData(oracletypes.RequestID(id), raws, s.acc[v].ValAddr), d
	case "price":
		v := s.valOf(m["val"], 0)
		var sps []feedstypes.SignalPrice
		switch shape {
		case "bad":
			sps = append(sps, feedstypes.NewSignalPrice(feedstypes.SIGNAL_PRICE_STATUS_AVAILABLE, "NOT-A-FEED", 100))
		case "empty":
		default:
			shape = "ok"
			sps = append(sps, feedstypes.NewSignalPrice(feedstypes.SIGNAL_PRICE_STATUS_AVAILABLE, signalID, 1_000_000))
		}
		d := leaf(v, 0)
		d["shape"] = shape
		return feedstypes.NewMsgSubmitSignalPrices(s.acc[v].ValAddr.String(), s.c.Time.Unix(), sps), d
	case "sig":
		sid := tf.Int(m, "sig", 1)
		who := s.memOf(m["mem"], sid)
		var mid tss.MemberID = 1
		if gm, ok := s.grp.ByAddr(s.acc[who].Addr.String()); ok {
			mid = gm.ID
		}
		sig := junkSig(fmt.Sprint("junk", sid, who))
		if shape != "bad" {
			shape = "ok"
			if sg, err := app.TSSKeeper.GetSigning(ctx, tss.SigningID(sid)); err == nil {
				if sa, err := app.TSSKeeper.GetSigningAttempt(ctx, sg.ID, sg.CurrentAttempt); err == nil {
					if gm, ok := s.grp.ByAddr(s.acc[who].Addr.String()); ok {
						if am, found := tsstypes.AssignedMembers(sa.AssignedMembers).FindAssignedMember(gm.ID); found {
							if de, have := s.des[tsskit.PubKey(am.PubD, am.PubE)]; have {
								if ps, err := tsskit.PartialSign(gm, sg, sa, de); err == nil {
									sig = ps
								}
							}
						}
					}
				}
			}
		}
		d := leaf(who, sid)
		d["shape"] = shape
		return tsstypes.NewMsgSubmitSignature(tss.SigningID(sid), mid, sig, s.acc[who].Addr.String()), d
	case "de":
		who := s.memOf(m["mem"], 0)
		var des []tsstypes.DE
		if shape == "empty" {
		} else {
			shape = "ok"
			des = append(des, s.newDE(who))
		}
		d := leaf(who, 0)
		d["shape"] = shape
		return tsstypes.NewMsgSubmitDEs(des, s.acc[who].Addr.String()), d
	case "dkg1":
		who := s.memOf(m["mem"], 0)
		mid := 1
		for i, n := range s.dkgM {
			if n == who {
				mid = i + 1
			}
		}
		gid := s.dkgID
		if gid == 0 {
			gid = 99
		}
		dctx, err := app.TSSKeeper.GetDKGContext(ctx, gid)
		if err != nil {
			dctx = tss.Hash([]byte("no-context"))
		}
		r1, err := tss.GenerateRound1Info(tss.MemberID(mid), 2, dctx)
		if err != nil {
			panic(err)
		}
		info := tsstypes.Round1Info{MemberID: tss.MemberID(mid), CoefficientCommits: r1.CoefficientCommits,
			OneTimePubKey: r1.OneTimePubKey, A0Signature: r1.A0Signature, OneTimeSignature: r1.OneTimeSignature}
		if shape == "bad" {
			b := append([]byte{}, info.A0Signature...)
			b[len(b)-1] ^= 1
			info.A0Signature = b
		} else {
			shape = "ok"
		}
		d := leaf(who, 0)
		d["shape"] = shape
		return tsstypes.NewMsgSubmitDKGRound1(gid, info, s.acc[who].Addr.String()), d
	case "exec":
		g := tf.Str(m, "g", "g1")
		var inner []sdk.Msg
		descs := []tf.M{}
		if raw, ok := m["inner"].([]interface{}); ok {
			for _, x := range raw {
				if mm, ok := x.(map[string]interface{}); ok {
					im, id := s.build(mm)
					inner = append(inner, im)
					descs = append(descs, id)
				}
			}
		}
		e := authz.NewMsgExec(s.acc[g].Addr, inner)
		return &e, tf.M{"k": "exec", "who": g, "id": 0, "shape": "ok", "inner": descs}
	// ---- paying kinds (also the script's way to change the environment)
	case "request":
		from := tf.Str(m, "from", "rq")
		ask, min := tf.Int(m, "ask", 2), tf.Int(m, "min", 1)
		msg := oracletypes.NewMsgRequestData(world.ScriptOK3, []byte("x"), uint64(ask), uint64(min), "ff",
			uband(1000), 40000, 300000, s.acc[from].Addr, 0)
		return msg, leaf(from, 0)
	case "grant":
		from := s.valOrName(m["from"])
		to := tf.Str(m, "to", "g1")
		return s.grantMsg(from, to, tf.Str(m, "for", "report"), int64(tf.Int(m, "ttl", 1_000_000))), leaf(from, 0)
	case "revoke":
		from := s.valOrName(m["from"])
		to := tf.Str(m, "to", "g1")
		r := authz.NewMsgRevoke(s.acc[from].Addr, s.acc[to].Addr, kindURL[tf.Str(m, "for", "report")])
		return &r, leaf(from, 0)
	case "activate":
		v := s.valOf(m["val"], 0)
		return &oracletypes.MsgActivate{Validator: s.acc[v].ValAddr.String()}, leaf(v, 0)
	case "reqsig":
		from := tf.Str(m, "from", "rq")
		s.nreqs++
		content := tsstypes.NewTextSignatureOrder([]byte(fmt.Sprintf("feefree-msg-%d", s.nreqs)))
		msg, err := bandtsstypes.NewMsgRequestSignature(content, uband(1_000_000), s.acc[from].Addr.String())
		if err != nil {
			panic(err)
		}
		return msg, leaf(from, 0)
	case "vote":
		// validator 3's account withdraws / restores its vote for the signal
		var sigs []feedstypes.Signal
		if tf.Bool(m, "on", false) {
			sigs = append(sigs, feedstypes.NewSignal(signalID, 1_000_000))
		}
		return feedstypes.NewMsgVote(s.acc["v3"].Addr.String(), sigs), leaf("v3", 0)
	default: // "send"
		from := s.valOrName(m["from"])
		k = "send"
		return banktypes.NewMsgSend(s.acc[from].Addr, s.acc["sp"].Addr, uband(1)), tf.M{"k": "send", "who": from, "id": 0, "shape": "ok", "inner": []tf.M{}}
	}
}

func (s *session) valOrName(v interface{}) string {
	switch x := v.(type) {
	case string:
		if _, ok := s.acc[x]; ok {
			return x
		}
		return "x1"
	case map[string]interface{}:
		return s.valOf(x, tf.Int(x, "req", 1))
	}
	return "x1"
}

// ---------------------------------------------------------------------------------------------
// steps

func codeClass(code uint32, space string) string {
	switch {
	case code == 0:
		return "acc"
	case space == "sdk" && code == 13: // sdkerrors.ErrInsufficientFee
		return "refFee"
	}
	return "refOther"
}

func (s *session) requiredFee(gas int64) int64 {
	p := s.minp
	if s.locp > p {
		p = s.locp
	}
	return (gas*p + PD - 1) / PD
}

func shapeOf(descs []tf.M) string {
	var f func(d tf.M) string
	f = func(d tf.M) string {
		if d["k"] == "exec" {
			var in []string
			for _, x := range d["inner"].([]tf.M) {
				in = append(in, f(x))
			}
			return "exec(" + strings.Join(in, ",") + ")"
		}
		return fmt.Sprint(d["k"])
	}
	var parts []string
	for _, d := range descs {
		parts = append(parts, f(d))
	}
	return strings.Join(parts, "+")
}

func (s *session) stepTx(step tf.M) {
	var msgs []sdk.Msg
	var descs []tf.M
	if raw, ok := step["msgs"].([]interface{}); ok {
		for _, x := range raw {
			if mm, ok := x.(map[string]interface{}); ok {
				m, d := s.build(mm)
				msgs = append(msgs, m)
				descs = append(descs, d)
			}
		}
	}
	if len(msgs) == 0 {
		return
	}
	signer := tf.Str(step, "signer", "self")
	if _, ok := s.acc[signer]; !ok {
		signer = fmt.Sprint(descs[0]["who"])
	}
	gas := int64(tf.Int(step, "gas", 400_000))
	need := s.requiredFee(gas)
	var fee int64
	switch tf.Str(step, "fee", "zero") {
	case "below":
		fee = need - 1
	case "at":
		fee = need
	case "above":
		fee = need + 1
	case "double":
		fee = 2 * need
	default:
		fee = 0
	}
	if fee < 0 {
		fee = 0
	}
	// a fee offered in the node's other denom (only in mode multidenom)
	var fee2 int64
	need2 := (gas*s.locq + PD - 1) / PD
	switch tf.Str(step, "fee2", "zero") {
	case "at":
		fee2 = need2
	case "below":
		fee2 = need2 - 1
	}
	if fee2 < 0 {
		fee2 = 0
	}
	a := s.acc[signer]
	cctx := s.checkCtx()
	cb := s.app().BankKeeper.GetBalance(cctx, a.Addr, "uband").Amount.Int64()
	if cb > 2_000_000_000 {
		cb = 2_000_000_000
	}
	coins := uband(fee)
	if fee2 > 0 {
		coins = coins.Add(sdk.NewInt64Coin(otherDenom, fee2))
	}
	bz, err := s.signTx(a, s.checkSeq(a), uint64(gas), coins, msgs...)
	if err != nil {
		panic(err)
	}
	var code uint32
	var space, detail string
	func() {
		defer func() {
			if p := recover(); p != nil {
				code, space, detail = 111222, "panic", fmt.Sprint(p)
			}
		}()
		res, err := s.app().CheckTx(&abci.RequestCheckTx{Tx: bz, Type: abci.CheckTxType_New})
		if err != nil {
			code, space, detail = 111223, "error", err.Error()
			return
		}
		code, space = res.Code, res.Codespace
		if code != 0 {
			detail = res.Log
		}
	}()
	cls := codeClass(code, space)
	if len(detail) > 160 {
		detail = detail[:160]
	}
	args := tf.M{"signer": signer, "msgs": descs, "fee": fee, "gas": gas, "cb": cb, "need": need, "facts": s.facts(descs)}
	if s.locq > 0 {
		// input-derived tag (DESIGN 2.4): the node has a price in a denom the global fee does not list
		args["fee2"], args["need2"], args["tag"] = fee2, need2, "node-price-other-denom"
	}
	s.d.W.Step("Check", args, tf.M{"ok": cls == "acc", "cls": cls, "code": code, "space": space, "log": detail}, s.project(s.checkCtx()))
	s.d.St.Txs++
	s.d.St.Class[cls]++
	if cls == "acc" {
		s.pend = append(s.pend, pendingTx{bz: bz, desc: tf.M{"signer": signer, "msgs": descs, "fee": fee, "gas": gas}, class: cls})
		if fee < need {
			s.sawFree = true
			s.d.St.FreeKinds[shapeOf(descs)]++
		}
	}
	if cls == "refFee" {
		s.sawRefFee = true
	}
}

func (s *session) stepBlock(step tf.M) {
	dt := int64(tf.Int(step, "dt", 1))
	var txs [][]byte
	for _, p := range s.pend {
		txs = append(txs, p.bz)
	}
	res, _ := s.c.RunBlock(dt, txs)
	incl := []tf.M{}
	for i, p := range s.pend {
		cls := "fail"
		if i < len(res.Txs) && res.Txs[i].Code == 0 {
			cls = "ok"
		}
		s.d.St.Deliver[cls]++
		d := tf.M{"signer": p.desc["signer"], "msgs": p.desc["msgs"], "fee": p.desc["fee"], "gas": p.desc["gas"], "dcls": cls}
		if i < len(res.Txs) {
			d["code"], d["space"] = res.Txs[i].Code, res.Txs[i].Space
		}
		incl = append(incl, d)
	}
	s.pend = nil
	s.d.W.Step("Block", tf.M{"dt": dt, "txs": incl}, tf.M{"ok": res.Err == "none", "err": res.Err}, s.project(s.c.Query()))
}

// RunScript plays one script on a fresh chain.
func (d *Driver) RunScript(sc tf.Script) {
	s := d.newSession(sc)
	defer s.w.Close()
	s.preamble()
	d.W.Reset(sc.C, s.project(s.c.Query()), sc.Steps)
	d.St.Traces++
	d.St.Events++
	for _, step := range sc.Steps {
		switch tf.Str(step, "e", "") {
		case "Tx":
			s.stepTx(step)
		case "Block":
			s.stepBlock(step)
		default:
			continue
		}
		d.St.Events++
	}
	if s.sawFree && s.sawRefFee {
		h := sc.Hash()
		if !d.St.Distinct[h] {
			d.St.Distinct[h] = true
			d.St.Interesting++
		}
	}
}

func (d *Driver) Finish() map[string]interface{} {
	return map[string]interface{}{
		"traces": d.St.Traces, "events": d.St.Events, "interesting": d.St.Interesting,
		"txs": d.St.Txs, "check_class": d.St.Class, "deliver_class": d.St.Deliver, "admitted_below_minimum": d.St.FreeKinds,
	}
}
